"""stress: several invalid constructs per case (checks that the FIRST error is the same)"""
import sys, collections
import os; sys.path.insert(0, os.path.dirname(os.path.abspath(__file__)))
import gen, k1
class MCtx(gen.Ctx):
    @property
    def fault(self):
        return None
    @fault.setter
    def fault(self, v):
        if v is not None:
            self.__dict__.setdefault('faults', []).append(v)
gen.Ctx = MCtx
def main(seed, n, pool):
    cases = []
    for i in range(n):
        c = gen.gen_case('m%d-%d' % (seed, i), 0, pool, want_fault=True)
        cases.append((str(i), c))
    real = k1.run_real([(i, c.rust()) for i, c in cases])
    model = k1.run_model([(i, c.sx()) for i, c in cases])
    st = collections.Counter()
    shown = 0
    for i, c in cases:
        v, d = k1.compare(real[i], model[i])
        st[v] += 1
        st['real_' + real[i][0]] += 1
        if v != 'same' and shown < 5:
            shown += 1
            print(c.rust()); print(v, d)
    print(seed, dict(st))
for seed in range(1, 4):
    main(seed, 3000, sys.argv[1].split(','))
