"""Regenerate MANIFEST.json from the property table (tools/props.py)."""
import json, os, sys
sys.path.insert(0, os.path.dirname(os.path.abspath(__file__)))
import props
ROOT = os.path.dirname(os.path.dirname(os.path.abspath(__file__)))
allp = [json.loads(l) for l in open(os.path.join(ROOT, 'properties.jsonl'))]
checks, na = [], []
for p in allp:
    pid = p['id']
    P = props.PROPS.get(pid)
    if P and P.get('claimed', True):
        checks.append(dict(
            property_id=pid,
            quick_cmd='./check %s --tier quick' % pid,
            thorough_cmd='./check %s --tier thorough' % pid,
            evidence_file='/verif/evidence/%s.json' % pid,
            replay_cmd_template='./check replay {path}',
            engine='coq-model+k1',
            level_claimed=dict(category='proof', text=P.get('level_text') or props.default_level_text(pid, P), design_ref=P.get('design_ref', 'DESIGN.md §4 ' + pid)),
            level_note=P.get('level_note') or props.default_level_note(pid, P),
            technique=P.get('technique', 'Rocq/Coq theorems over an executable model of the macro, tied to /repo by token-level differential correspondence (K1)'),
        ))
    else:
        na.append(dict(property_id=pid, reason=(P or {}).get('na_reason', 'not yet decided by the machinery in this snapshot (model of the handler still being built); no check is claimed')))
m = dict(
    version=1,
    setup_cmd='./check setup',
    hooks=dict(guard='magiclen_educe_verif',
               enable='RUSTFLAGS="--cfg magiclen_educe_verif" (set in /verif/harness/.cargo/config.toml; the harness crate compiles /repo/src/lib.rs as an rlib)',
               baseline_off_cmd='cd /repo && cargo test --workspace --no-fail-fast --offline',
               source_commits=props.HOOK_COMMITS, add_only=True),
    engines=[dict(name='coq-model+k1', path='/verif/check', serves_properties=[c['property_id'] for c in checks],
                  kind_free_text='Coq 8.16 development (coq/) + extracted OCaml model driver (ocaml/) + in-process harness of the real macro (harness/) + generators and comparison (tools/)')],
    checks=checks,
    not_applicable=na,
    notes='See DESIGN.md. Known findings: known_findings.txt.',
)
json.dump(m, open(os.path.join(ROOT, 'MANIFEST.json'), 'w'), indent=1)
print('claimed:', [c['property_id'] for c in checks])
