"""T1: feature gates of /repo/src (C18).

For every `mod` declaration: its cfg condition.  For every source file: the condition under which
it is compiled (conjunction of the gates of the `mod` chain leading to it).  For every reference
to a feature-gated name -- `Trait::<X>`, a gated module of `crate::common` / `common::tools`, a
handler module `trait_handlers::<x>` -- the condition of the referring context (file condition and
enclosing item / statement cfgs) and the gate of the referenced name.

Conditions are emitted as Coq terms of type [cond] (coq/Spec/Features.v):
  CTrue | CFeat "X" | CNot c | CAny [..] | CAll [..]
"""
import os, re
from scan import REPO_SRC, blank_comments_strings, files, rel

TRAITS = ['Debug', 'Clone', 'Copy', 'PartialEq', 'Eq', 'PartialOrd', 'Ord', 'Hash', 'Default', 'Deref', 'DerefMut', 'Into']

# ------------------------------------------------------------------ cfg condition parsing
def parse_cond(s):
    s = s.strip()
    m = re.match(r'^feature\s*=\s*"(\w+)"$', s)
    if m:
        return ('feat', m.group(1))
    m = re.match(r'^(not|any|all)\s*\((.*)\)$', s, re.S)
    if m:
        parts = split_top(m.group(2))
        subs = [parse_cond(p) for p in parts if p.strip()]
        if m.group(1) == 'not':
            return ('not', subs[0])
        return (m.group(1), subs)
    return ('opaque', re.sub(r'\s+', ' ', s))

def split_top(s):
    out, depth, cur = [], 0, ''
    for ch in s:
        if ch == '(':
            depth += 1
        elif ch == ')':
            depth -= 1
        if ch == ',' and depth == 0:
            out.append(cur); cur = ''
        else:
            cur += ch
    out.append(cur)
    return out

def coq_cond(c):
    k = c[0]
    if k == 'true':
        return 'CTrue'
    if k == 'feat':
        return '(CFeat "%s")' % c[1]
    if k == 'not':
        return '(CNot %s)' % coq_cond(c[1])
    if k in ('any', 'all'):
        return '(%s [%s])' % ('CAny' if k == 'any' else 'CAll', '; '.join(coq_cond(x) for x in c[1]))
    return '(COpaque "%s")' % c[1].replace('"', "'")

def conj(cs):
    cs = [c for c in cs if c != ('true',)]
    if not cs:
        return ('true',)
    if len(cs) == 1:
        return cs[0]
    return ('all', cs)

# ------------------------------------------------------------------ cfg attributes and their extent
CFG_RX = re.compile(r'#\s*\[\s*cfg\s*\(')

def match_close(src, i, open_ch='(', close_ch=')'):
    depth = 0
    while i < len(src):
        if src[i] == open_ch:
            depth += 1
        elif src[i] == close_ch:
            depth -= 1
            if depth == 0:
                return i
        i += 1
    return len(src) - 1

def item_extent(src, i):
    """extent [i, j) of the item / statement / arm / variant that starts at i (after its attributes)"""
    # skip further attributes
    while True:
        m = re.match(r'\s*#\s*\[', src[i:])
        if not m:
            break
        j = match_close(src, i + m.end() - 1, '[', ']')
        i = j + 1
    m = re.match(r'\s*', src[i:])
    i += m.end()
    start = i
    if re.match(r'(pub(\([^)]*\))?\s+)?use\b', src[i:]) or re.match(r'(pub(\([^)]*\))?\s+)?mod\s+\w+\s*;', src[i:]):
        j = src.find(';', i)
        return start, j + 1
    depth = 0
    j = i
    while j < len(src):
        ch = src[j]
        if ch in '([{':
            if ch == '{' and depth == 0:
                k = match_close(src, j, '{', '}')
                # `if .. {} else {}` chains
                m2 = re.match(r'\s*else\b', src[k + 1:])
                if m2:
                    j = k + 1 + m2.end()
                    continue
                # a trailing `;` or `,` belongs to the item
                m3 = re.match(r'\s*[;,]', src[k + 1:])
                return start, k + 1 + (m3.end() if m3 else 0)
            depth += 1
        elif ch in ')]}':
            if depth == 0:
                return start, j
            depth -= 1
        elif ch in ';,' and depth == 0:
            return start, j + 1
        j += 1
    return start, len(src)

def cfg_regions(src):
    """list of (start, end, cond) for every #[cfg(...)] attribute (not cfg_attr)"""
    out = []
    for m in CFG_RX.finditer(src):
        o = m.end() - 1
        c = match_close(src, o)
        cond = parse_cond(src[o + 1:c])
        close_br = src.find(']', c)
        s, e = item_extent(src, close_br + 1)
        out.append((s, e, cond, m.start()))
    return out

# ------------------------------------------------------------------ module tree
def module_tree():
    """file -> condition under which it is compiled; mod_gates: (module path, cond)"""
    file_cond = {}
    mod_gates = []
    def visit(path, modpath, cond):
        file_cond[rel(path)] = cond
        src = blank_comments_strings(open(path).read(), keep_strings=True)
        regions = cfg_regions(src)
        for m in re.finditer(r'\b(?:pub(?:\([^)]*\))?\s+)?mod\s+(r#)?(\w+)\s*;', src):
            name = m.group(2)
            gates = [c for s, e, c, a in regions if s <= m.start() < e]
            g = conj(gates)
            base = os.path.dirname(path) if os.path.basename(path) in ('lib.rs', 'mod.rs') else os.path.join(os.path.dirname(path), os.path.basename(path)[:-3])
            cand = [os.path.join(base, name + '.rs'), os.path.join(base, name, 'mod.rs')]
            sub = next((c for c in cand if os.path.exists(c)), None)
            mp = modpath + [name]
            mod_gates.append(('::'.join(mp), g))
            if sub:
                visit(sub, mp, conj([cond, g]))
    visit(os.path.join(REPO_SRC, 'lib.rs'), ['crate'], ('true',))
    return file_cond, mod_gates

# ------------------------------------------------------------------ references
def refs():
    file_cond, mod_gates = module_tree()
    gate_of = dict(mod_gates)
    out = []
    unparsed = []
    for p in files():
        r = rel(p)
        if r not in file_cond:
            unparsed.append(r)
            continue
        src = blank_comments_strings(open(p).read(), keep_strings=True)
        regions = cfg_regions(src)
        def ctx(pos):
            return conj([file_cond[r]] + [c for s, e, c, a in regions if s <= pos < e])
        # Trait::<X>  (enum variants gated by their feature)
        for m in re.finditer(r'\b(?:Trait|Self)::(%s)\b' % '|'.join(TRAITS), src):
            if m.group(0).startswith('Self::') and r != 'supported_traits.rs':
                continue
            out.append((r, 'Trait::' + m.group(1), ctx(m.start()), ('feat', m.group(1))))
        # handler modules
        for m in re.finditer(r'\btrait_handlers::(\w+)::', src):
            key = 'crate::trait_handlers::' + m.group(1)
            if key in gate_of:
                out.append((r, key, ctx(m.start()), gate_of[key]))
        # helper modules of crate::common (single and braced forms) and common::tools
        for m in re.finditer(r'\bcommon::(\{)?', src):
            if m.group(1):
                c = match_close(src, m.end() - 1, '{', '}')
                names = [re.match(r'\s*(r#)?(\w+)', part).group(2) for part in split_brace(src[m.end():c]) if re.match(r'\s*(r#)?(\w+)', part)]
            else:
                mm = re.match(r'(r#)?(\w+)', src[m.end():])
                names = [mm.group(2)] if mm else []
            for nm in names:
                key = 'crate::common::' + nm
                if key in gate_of:
                    out.append((r, key, ctx(m.start()), gate_of[key]))
        for m in re.finditer(r'\btools::(\{)?', src):
            # items re-exported by common/tools/mod.rs: map the item to its module's gate
            pass
    # re-exports of common/tools: `pub(crate) use discriminant_type::*;` is gated like the module; users
    # import `crate::common::tools::<Item>`: resolve items by scanning which tools module defines them
    tools_items = {}
    tdir = os.path.join(REPO_SRC, 'common', 'tools')
    for f in sorted(os.listdir(tdir)):
        if f.endswith('.rs') and f != 'mod.rs':
            s = blank_comments_strings(open(os.path.join(tdir, f)).read(), keep_strings=True)
            for m in re.finditer(r'^pub\(crate\)\s+(?:fn|struct|enum|trait|type|const)\s+(\w+)', s, re.M):
                # top-level items only (methods are reached through their type)
                tools_items[m.group(1)] = 'crate::common::tools::' + f[:-3]
    for p in files():
        r = rel(p)
        if r not in file_cond:
            continue
        src = blank_comments_strings(open(p).read(), keep_strings=True)
        regions = cfg_regions(src)
        def ctx(pos):
            return conj([file_cond[r]] + [c for s, e, c, a in regions if s <= pos < e])
        for item, mod in tools_items.items():
            for m in re.finditer(r'\b%s\b' % item, src):
                if r.startswith('common/tools/') and r != 'common/tools/mod.rs':
                    continue
                if mod in gate_of:
                    out.append((r, mod + '::' + item, ctx(m.start()), gate_of[mod]))
    # de-duplicate on (file, name, ctx, gate)
    seen, uniq = set(), []
    for x in out:
        k = (x[0], x[1], repr(x[2]), repr(x[3]))
        if k not in seen:
            seen.add(k); uniq.append(x)
    return mod_gates, uniq, unparsed

def split_brace(s):
    out, depth, cur = [], 0, ''
    for ch in s:
        if ch in '{(':
            depth += 1
        elif ch in '})':
            depth -= 1
        if ch == ',' and depth == 0:
            out.append(cur); cur = ''
        else:
            cur += ch
    out.append(cur)
    return out

def empty_gate():
    """the compile_error! gate of supported_traits.rs"""
    src = blank_comments_strings(open(os.path.join(REPO_SRC, 'supported_traits.rs')).read(), keep_strings=True)
    for s, e, c, a in cfg_regions(src):
        if 'compile_error' in src[s:e]:
            return c
    return ('opaque', 'missing')

def coq_section():
    mod_gates, rs, unparsed = refs()
    lines = ['(** T1: feature gates.  [cond] is defined in Spec/Features.v; here as data. *)',
             'Inductive cond := CTrue | CFeat (f : string) | CNot (c : cond) | CAny (l : list cond) | CAll (l : list cond) | COpaque (s : string).',
             'Definition mod_gates : list (string * cond) := [',
             ';\n'.join('   ("%s", %s)' % (m, coq_cond(g)) for m, g in mod_gates) + '].',
             '(** (file, referenced name, condition of the referring context, gate of the referenced name) *)',
             'Definition gated_refs : list (string * string * cond * cond) := [',
             ';\n'.join('   ("%s", "%s", %s, %s)' % (f, n, coq_cond(c), coq_cond(g)) for f, n, c, g in rs) + '].',
             'Definition empty_features_gate : cond := %s.' % coq_cond(empty_gate()),
             'Definition files_outside_module_tree : list string := [%s].' % '; '.join('"%s"' % u for u in unparsed), '']
    return '\n'.join(lines)

if __name__ == '__main__':
    mg, rs, un = refs()
    for m in mg: print(m)
    print(len(rs), 'refs;', un)
    import collections
    print(collections.Counter(n for f, n, c, g in rs).most_common(40))
    for x in rs[:15]: print(x)
