#!/usr/bin/env python3
"""Detection matrix of the seeded changes (DESIGN.md §8.1) from seeded/*/meta.json (evaluation at the time the change
was produced) and seeded/*/recheck.json (tools/recheck.py: the current checks against the stored patch)."""
import os, json, re
ROOT = os.path.dirname(os.path.dirname(os.path.abspath(__file__)))
def how(what):
    if not what:
        return 'missed'
    if what.startswith('K1 correspondence broken'):
        return 'K1 only'
    if 'theorem(s) of' in what:
        return 'inventory theorem only'
    m = re.match(r'(\w+): real educe output disagrees with the oracle', what)
    if m:
        return 'K2 oracle (%s)' % m.group(1)
    if 'does not compile' in what:
        return 'K2 compile'
    if 'Sem/Interp.v disagree' in what:
        return 'K2 model cross-check'
    if 'PANIC' in what:
        return 'direct c17 (panic)'
    if 'spellings' in what:
        return 'direct c14'
    if 'accepted instead of refused' in what:
        return 'direct c13 / rejections'
    if 'requested alone' in what or 'other traits' in what:
        return 'direct c15'
    if 'in one process' in what or 'different processes' in what or 'release profile' in what:
        return 'direct c16'
    if 'cargo' in what or 'feature' in what:
        return 'direct c18'
    if 'names `::std`' in what or 'names `::alloc`' in what:
        return 'C19 std-path oracle'
    if 'discriminant expression the macro cannot evaluate' in what:
        return 'direct c04'
    if "`bound = false` on" in what:
        return 'direct c12'
    if 'does not return on this input' in what:
        return 'direct c17 (panic)'
    if 'with an invalid construct' in what:
        return 'direct stratified'
    if 'have the same rank' in what:
        return 'direct c03'
    if 'expanded before it in the same process' in what:
        return 'direct c16 (history)'
    if 'custom clone method' in what:
        return 'direct c07'
    if '`unsafe`' in what:
        return 'direct c20'
    return 'direct: ' + what[:40]
rows = []
for sid in sorted(os.listdir(os.path.join(ROOT, 'seeded'))):
    d = os.path.join(ROOT, 'seeded', sid)
    try:
        meta = json.load(open(os.path.join(d, 'meta.json')))
    except Exception:
        continue
    ev = meta.get('evaluation', {})
    pid = sid.split('_')[0]
    c = ev.get('checks', {}).get(pid, {})
    first = how(c.get('what', '')) if ev.get('detected') else 'missed'
    if ev.get('detected') and not ev.get('detected_with_input') and first not in ('K1 only', 'inventory theorem only'):
        first += ' (no input)'
    now = ''
    rp = os.path.join(d, 'recheck.json')
    if os.path.exists(rp):
        r = json.load(open(rp))
        now = how((r.get('what') or [''])[0]) if r['detected'] else 'missed'
    files = ', '.join(os.path.relpath(f, 'src/trait_handlers') if f.startswith('src/trait_handlers') else f.replace('src/', '') for f in meta.get('files', []))
    what = re.sub(r'\s+', ' ', str(meta.get('what', '')))[:110]
    rows.append((sid, files, what, first, now))
print('| change | file | what it does | when produced | current checks |')
print('|---|---|---|---|---|')
for r in rows:
    print('| %s | `%s` | %s… | %s | %s |' % r)
