#!/bin/sh
# mkcopy.sh <name>: an independent copy of the verification tree + a clean worktree of /repo under /root/scratch/rc_<name>,
# with every /repo and /verif path rewritten, so that seeded changes can be re-checked without touching /repo or /verif.
set -e
D=/root/scratch/rc_$1
rm -rf $D/verif; mkdir -p $D
[ -d $D/repo ] && git -C /repo worktree remove --force $D/repo || true
git -C /repo worktree add --detach $D/repo HEAD >/dev/null 2>&1
rsync -a --exclude target --exclude _build/k2target --exclude _build/k1 --exclude .git /verif/ $D/verif/
cd $D/verif
for f in $(grep -rlI "/repo\|/verif" --include=*.py --include=*.sh --include=*.toml --include=*.rs --include=check --include=build.sh . | grep -v "^./seeded\|^./evidence"); do
  sed -i "s#/root/scratch/mut_evidence#$D/mut_evidence#g; s#\"/repo\"#\"$D/repo\"#g; s#'/repo'#'$D/repo'#g; s#/repo/#$D/repo/#g; s#-C /repo #-C $D/repo #g; s#/verif/#$D/verif/#g; s#path = \"/repo\"#path = \"$D/repo\"#g" $f
done
grep -rn "'/repo\|\"/repo\| /repo" --include=*.py --include=*.sh --include=*.toml --include=check . | grep -v "^./seeded" | head
echo copy at $D
