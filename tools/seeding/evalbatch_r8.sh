#!/bin/sh
# usage: evalbatch3.sh <copy> "<pid> ..." "<variants>"
V=/root/scratch/rc_$1/verif
cd $V
for p in $2; do for v in $3; do
  [ -f /tmp/mut_$p/OUT/$v/patch.diff ] || { echo "$p $v MISSING" >> /root/scratch/evalbatch_r8_$1.log; continue; }
  python3 tools/evalmut.py /tmp/mut_$p $v $p 2>&1 | python3 -c "
import sys,json
try:
    r=json.load(sys.stdin)
    print(r['property'],r['variant'],'confirmed',r['confirmed'],'detected',r['detected'],'with_input',r['detected_with_input'])
    for k,v in r['checks'].items(): print('   ',k,v['rc'],v.get('what','')[:260])
except Exception as e:
    print('ERROR', e)
" >> /root/scratch/evalbatch_r8_$1.log 2>&1
done; done
echo "BATCH DONE $2" >> /root/scratch/evalbatch_r8_$1.log
