"""T5: identifiers introduced or referenced by the quote! templates of /repo/src (C19).

For every `quote!` / `quote_spanned!` body: every identifier that is written by the template itself
(not interpolated with `#`), is not reached through a path (`a::b` tail, `.method`), and is not a keyword.
These are the names that could capture, or be captured by, names at the derive site.  Unqualified
macro invocations inside templates are listed separately (they resolve at the derive site)."""
import os, re
from scan import REPO_SRC, blank_comments_strings, files, rel

KEYWORDS = set('''as break const continue crate else enum extern false fn for if impl in let loop match mod move mut pub
ref return self Self static struct super trait true type unsafe use where while async await dyn'''.split())

def template_bodies(src):
    out = []
    for m in re.finditer(r'\b(quote|quote_spanned)!\s*([\(\{\[])', src):
        o = m.end() - 1
        depth, j = 0, o
        while j < len(src):
            if src[j] in '({[': depth += 1
            elif src[j] in ')}]':
                depth -= 1
                if depth == 0: break
            j += 1
        body = src[o + 1:j]
        if m.group(1) == 'quote_spanned':
            k = body.find('=>')
            body = body[k + 2:] if k >= 0 else body
        out.append(body)
    return out

TOK = re.compile(r"#?[A-Za-z_][A-Za-z0-9_]*|::|->|=>|\.\.|'[a-z_]+|[0-9][A-Za-z0-9_]*|\S")

def scan():
    idents, macros, paths = set(), set(), set()
    for p in files():
        src = blank_comments_strings(open(p).read())
        for body in template_bodies(src):
            toks = TOK.findall(body)
            for i, t in enumerate(toks):
                if not re.match(r'^[A-Za-z_][A-Za-z0-9_]*$', t):
                    continue
                prev = toks[i - 1] if i > 0 else ''
                nxt = toks[i + 1] if i + 1 < len(toks) else ''
                if prev in ('::', '.', '#') or prev.startswith("'"):
                    # a path tail; record the head of absolute paths
                    continue
                if t in KEYWORDS:
                    continue
                if nxt == '!':
                    macros.add((rel(p), t))
                    continue
                if i > 0 and toks[i - 1] == '::':
                    continue
                idents.add((rel(p), t))
            # heads of absolute paths: `:: core :: ...`
            for m in re.finditer(r'(?<![A-Za-z0-9_>])::\s*([a-z_]+)\s*::', body):
                paths.add((rel(p), m.group(1)))
    return sorted(idents), sorted(macros), sorted(paths)

def coq_section():
    ids, macros, paths = scan()
    def lst(rows):
        return '[' + '; '.join('("%s", "%s")' % r for r in rows) + ']'
    return '\n'.join(['(** T5: identifiers written by templates (file, identifier); unqualified macros; crates at the head of absolute paths *)',
                      'Definition template_idents : list (string * string) :=\n  %s.' % lst(ids),
                      'Definition template_unqualified_macros : list (string * string) := %s.' % lst(macros),
                      'Definition template_path_heads : list (string * string) := %s.' % lst(sorted(set(paths))), ''])

if __name__ == '__main__':
    ids, macros, paths = scan()
    print(sorted(set(i for f, i in ids)))
    print('macros', macros)
    print('heads', sorted(set(h for f, h in paths)))
