"""Differential fuzz of the expression recogniser (Syn.v: expr_all / classify_value / args_expr):
random token strings from a small alphabet as Default values, in name-value and list form."""
import random, sys, collections
import k1
from dinput import Input, Field, educe
from rlex import try_lex

ATOMS = ['a', 'b', '1', '2.5', '"s"', "'c'", 'true', 'Self', 'self', 'x::y', '::z', 'P', 'm', '-', '!', '*', '&', '+',
         '/', '%', '^', '.', ',', ':', '::', '1u8', "b'x'", 'r#t', 'f']
EXTRA = ['<', '>', '=', '|', '..', '?', 'as', 'mut', '#', ';', "'a", '_', 'if', '==', '=>', 'try', '0']

def gen_toks(r, depth, extra):
    n = r.choice([0, 1, 1, 2, 2, 3, 3, 4, 5, 6])
    out = []
    for _ in range(n):
        c = r.random()
        if c < 0.22 and depth < 3:
            o, cl = r.choice(['()', '()', '()', '{}', '[]'])
            out.append(o + gen_toks(r, depth + 1, extra) + cl)
        elif c < 0.27 and extra:
            out.append(r.choice(EXTRA))
        else:
            out.append(r.choice(ATOMS))
    return ' '.join(out)

def main():
    n = int(sys.argv[1]) if len(sys.argv) > 1 else 3000
    seed = sys.argv[2] if len(sys.argv) > 2 else '0'
    extra = len(sys.argv) > 3
    r = random.Random('fx-' + seed)
    cases = []
    for i in range(n):
        e = gen_toks(r, 0, extra)
        form = r.choice(['Default = %s', 'Default = %s,', 'Default(expression = %s)', 'Default(expr(%s))',
                         'Default(expr = %s, )', 'PartialEq, Default = %s', 'Default = %s, PartialEq'])
        text = form % e
        if try_lex(text) is None:
            continue
        inp = Input('struct', 'S', fkind='unnamed')
        both = 'PartialEq' in form
        inp.attrs = [educe('Default, PartialEq' if both else 'Default')]
        inp.fields = [Field(None, r.choice(['T', 'u8', 'String']), [educe(text)])]
        cases.append((str(i), inp))
    real = k1.run_real([(i, c.rust()) for i, c in cases])
    model = k1.run_model([(i, c.sx()) for i, c in cases])
    st = collections.Counter()
    shown = 0
    for i, c in cases:
        v, d = k1.compare(real[i], model[i])
        st[v] += 1
        st[v + '_' + real[i][0]] += 1
        if v == 'ood' and real[i][0] == 'OK' and '--ood' in sys.argv:
            print('ood-ok', c.rust().replace('\n', ' '))
        if v == 'diff' and shown < 15:
            shown += 1
            print('---', c.rust().replace('\n', ' '), '\n   ', d)
    print(dict(st))

main()
