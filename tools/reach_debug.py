"""Branch reach of the Debug handler on the K1 stream.
usage: python3 tools/reach_debug.py [-n N] [--seed S] [--traits Debug,...]
Prints (1) the generator's (level, parameter, spelling) counts, (2) features of the REAL macro's
output per shape (which template branches were emitted), (3) error kinds per fault name."""
import sys, collections, argparse
import k1, gen

SEP = k1.SEP
def features(kind, toks):
    s = ' '.join(toks)
    f = set()
    import re
    for rx, name in [(r'builder \. entry \( & Educe__RawString \( stringify ! \( \S+ \) \) , & arg \)', 'debug_map entry with method (&arg)'),
                     (r'builder \. entry \( & Educe__RawString \( stringify ! \( \S+ \) \) , & self \.', 'struct debug_map entry plain'),
                     (r'builder \. entry \( & Educe__RawString \( stringify ! \( \S+ \) \) , _', 'enum debug_map entry plain'),
                     (r'builder \. field \( stringify ! \( \S+ \) , & arg \)', 'debug_struct field with method (&arg)'),
                     (r'builder \. field \( stringify ! \( \S+ \) , _', 'enum debug_struct field plain'),
                     (r'Self : : \S+ \{ \} = >', 'enum named variant, no fields'),
                     (r'Self : : \S+ \( \) = >', 'enum tuple variant, no fields'),
                     (r'f \. write_str \( "[^": ]+::[^": ]+" \)', 'enum unit name "E::V"'),
                     (r'f \. debug_(struct|tuple) \( "[^": ]+::[^": ]+" \)', 'enum builder name "E::V"'),
                     (r'stringify ! \( r#', 'raw identifier in stringify'),
                     (r'"r#', 'raw identifier in name string')]:
        if re.search(rx, s):
            f.add(name)
    for key, name in [('f . debug_struct ( stringify', 'struct:debug_struct(stringify)'),
                      ('f . debug_struct ( "', 'enum:debug_struct("..")'),
                      ('f . debug_tuple ( stringify ! ( )', 'struct:debug_tuple(stringify!())'),
                      ('f . debug_tuple ( stringify ! (', 'debug_tuple(stringify!(..))'),
                      ('f . debug_tuple ( "', 'enum:debug_tuple("..")'),
                      ('f . debug_tuple ( )', 'enum:debug_tuple() [D8]'),
                      ('f . debug_map ( )', 'debug_map+Educe__RawString'),
                      ('f . write_str ( "', 'enum:unit write_str("..")'),
                      ('f . write_str ( stringify', 'enum:empty write_str(stringify)'),
                      ('builder . field ( stringify ! ( ', 'field(stringify!(k), ..)'),
                      ('builder . entry ( & Educe__RawString', 'entry(&Educe__RawString(..), ..)'),
                      (') , & arg ) ;', 'named-style method (&arg)'),
                      ('builder . field ( & arg ) ;', 'tuple-style method (&arg)'),
                      ('builder . field ( & self .', 'struct tuple-style plain'),
                      ('builder . field ( _', 'enum tuple-style plain'),
                      (') , & self .', 'struct named-style plain'),
                      (': _ ,', 'enum named pattern ignore'),
                      ('( _ ,', 'enum tuple pattern ignore(first)'),
                      (', _ ,', 'enum tuple pattern ignore'),
                      ('builder . field ( & data )', 'union named'),
                      (': : core : : fmt : : Debug : : fmt ( data , f )', 'union nameless'),
                      ('where', 'where clause'),
                      ("Educe__DebugField < & ", 'Educe__DebugField helper')]:
        if key in s:
            f.add(name)
    return f

def main():
    ap = argparse.ArgumentParser()
    ap.add_argument('-n', type=int, default=4000)
    ap.add_argument('--seed', type=int, default=1)
    ap.add_argument('--traits', default='Debug')
    a = ap.parse_args()
    pool = a.traits.split(',')
    cases = []
    for i in range(a.n):
        c = gen.gen_case('%d-%d' % (a.seed, i), 0, pool, want_fault=(i % 100) < 30)
        cases.append((str(i), c))
    real = k1.run_real([(i, c.rust()) for i, c in cases])
    gen_reach = collections.Counter()
    feat = collections.Counter()
    errs = collections.Counter()
    shapes = collections.Counter()
    for i, c in cases:
        if 'Debug' not in c.traits:
            continue
        for t in c.notes.get('reach', []):
            lvl, par, spl = t
            if par.startswith('fault:'):
                spl = '*'
            gen_reach[(lvl, par, spl)] += 1
        cls, payload = real[i]
        if c.kind == 'struct':
            shape = 'struct_' + c.fkind + ('0' if not c.fields else '')
        elif c.kind == 'enum':
            shape = 'enum' + ('0' if not c.variants else '')
        else:
            shape = 'union'
        shapes[(shape, cls)] += 1
        if cls == 'OK':
            toks = payload.split(SEP)
            for f in features(c.kind, toks):
                feat[(c.kind, f)] += 1
        elif cls == 'ERR':
            errs[(c.fault or '-', k1.err_kind(payload.split(' || ')[0]))] += 1
        else:
            errs[(c.fault or '-', cls)] += 1
    print('== generator reach (level, parameter, spelling): count')
    for k in sorted(gen_reach):
        print('  %-34s %-28s %-16s %d' % (k + (gen_reach[k],)))
    print('== shapes x outcome')
    for k in sorted(shapes):
        print('  %-20s %-6s %d' % (k + (shapes[k],)))
    print('== real output features')
    for k in sorted(feat):
        print('  %-8s %-45s %d' % (k + (feat[k],)))
    print('== fault -> error kind')
    for k in sorted(errs):
        print('  %-40s %-28s %d' % (k + (errs[k],)))

if __name__ == '__main__':
    main()
