"""A small Rust lexer producing the token trees of coq/Model/Tok.v.

Tokens are python tuples:
  ('I', s) ('P', s) ('L', s) ('Lit', kind, text) ('Str', text, value, relex|None) ('G', d, [tokens])
kind: ('Int', value:int, suffix) | ('Float', suffix) | 'Char' | 'Byte' | 'ByteStr' | 'CStr'
Multi-character punctuation is glued only for :: -> => == .. (see Tok.v); everything
else is one character per token.  Only the sub-language the generators emit is covered;
anything else raises LexError.
"""
import re

class LexError(Exception):
    pass

GLUE = ['...', '..=', '::', '->', '=>', '==', '..']
PUNCT = set('+-*/%^!&|=<>@.,;:#$?~')
CLOSE = {'(': ')', '[': ']', '{': '}'}
DNAME = {'(': 'p', '{': 'b', '[': 'k'}
_ident_re = re.compile(r'(r#)?[A-Za-z_][A-Za-z0-9_]*')
_int_re = re.compile(r'(0x[0-9a-fA-F_]+|0o[0-7_]+|0b[01_]+|[0-9][0-9_]*)([A-Za-z_][A-Za-z0-9_]*)?')
_float_re = re.compile(r'([0-9][0-9_]*\.[0-9][0-9_]*([eE][+-]?[0-9_]+)?|[0-9][0-9_]*[eE][+-]?[0-9_]+|[0-9][0-9_]*\.(?![0-9A-Za-z_.]))([A-Za-z_][A-Za-z0-9_]*)?')

ESC = {'n': '\n', 't': '\t', 'r': '\r', '0': '\0', '\\': '\\', '"': '"', "'": "'"}

def _unescape(body):
    out = []
    i = 0
    while i < len(body):
        c = body[i]
        if c == '\\':
            n = body[i + 1]
            if n in ESC:
                out.append(ESC[n]); i += 2
            elif n == 'x':
                out.append(chr(int(body[i + 2:i + 4], 16))); i += 4
            elif n == 'u':
                j = body.index('}', i)
                out.append(chr(int(body[i + 3:j], 16))); i = j + 1
            elif n == '\n':
                i += 2
                while i < len(body) and body[i] in ' \t\n\r':
                    i += 1
            else:
                raise LexError('bad escape')
        else:
            out.append(c); i += 1
    return ''.join(out)

def lex(src):
    toks, pos = _lex(src, 0, None)
    if pos != len(src):
        raise LexError('unbalanced')
    return toks

def try_lex(src):
    try:
        return lex(src)
    except (LexError, IndexError, ValueError):
        return None

def _lex(s, i, closer):
    out = []
    n = len(s)
    while i < n:
        c = s[i]
        if c in ' \t\n\r':
            i += 1; continue
        if s.startswith('//', i):
            j = s.find('\n', i)
            i = n if j < 0 else j
            continue
        if c in CLOSE:
            inner, j = _lex(s, i + 1, CLOSE[c])
            out.append(('G', DNAME[c], inner))
            i = j
            continue
        if c in ')]}':
            if c != closer:
                raise LexError('mismatched ' + c)
            return out, i + 1
        # raw strings / byte strings / c strings
        m = re.match(r'(b|c)?r(#*)"', s[i:])
        if m:
            hashes = m.group(2)
            start = i + m.end()
            end = s.find('"' + hashes, start)
            if end < 0:
                raise LexError('unterminated raw string')
            text = s[i:end + 1 + len(hashes)]
            value = s[start:end]
            if m.group(1) == 'b':
                out.append(('Lit', 'ByteStr', text))
            elif m.group(1) == 'c':
                out.append(('Lit', 'CStr', text))
            else:
                out.append(('Str', text, value, try_lex(value)))
            i = end + 1 + len(hashes)
            continue
        m = re.match(r'(b|c)?"', s[i:])
        if m:
            j = i + m.end()
            while True:
                if j >= n:
                    raise LexError('unterminated string')
                if s[j] == '\\':
                    j += 2
                elif s[j] == '"':
                    break
                else:
                    j += 1
            text = s[i:j + 1]
            body = s[i + m.end():j]
            if m.group(1) == 'b':
                out.append(('Lit', 'ByteStr', text))
            elif m.group(1) == 'c':
                out.append(('Lit', 'CStr', text))
            else:
                value = _unescape(body)
                out.append(('Str', text, value, try_lex(value)))
            i = j + 1
            continue
        if c == "'" or (c == 'b' and i + 1 < n and s[i + 1] == "'"):
            # char / byte literal or lifetime
            k = i + (1 if c == 'b' else 0)
            m = re.match(r"'(\\x[0-9a-fA-F]{2}|\\u\{[0-9a-fA-F]+\}|\\.|[^\\'])'", s[k:])
            if m:
                text = s[i:k + m.end()]
                out.append(('Lit', 'Byte' if c == 'b' else 'Char', text))
                i = k + m.end()
                continue
            if c == "'":
                m = _ident_re.match(s, i + 1)
                if m:
                    out.append(('L', m.group(0)))
                    i = m.end()
                    continue
            raise LexError('bad quote')
        m = _ident_re.match(s, i)
        if m:
            out.append(('I', m.group(0)))
            i = m.end()
            continue
        if c.isdigit():
            m = _float_re.match(s, i)
            if m:
                out.append(('Lit', ('Float', m.group(3) or ''), m.group(0)))
                i = m.end()
                continue
            m = _int_re.match(s, i)
            digits = m.group(1).replace('_', '')
            suffix = m.group(2) or ''
            if digits.startswith('0x'):
                v = int(digits[2:], 16)
            elif digits.startswith('0o'):
                v = int(digits[2:], 8)
            elif digits.startswith('0b'):
                v = int(digits[2:], 2)
            else:
                v = int(digits)
                # 1e3-style suffix confusion is avoided by the float regexp running first
            out.append(('Lit', ('Int', v, suffix), m.group(0)))
            i = m.end()
            continue
        if c in PUNCT:
            for g in GLUE:
                if s.startswith(g, i):
                    out.append(('P', g)); i += len(g)
                    break
            else:
                out.append(('P', c)); i += 1
            continue
        raise LexError('unexpected character %r' % c)
    if closer is not None:
        raise LexError('unclosed group')
    return out, i

# ---------------------------------------------------------------- s-expressions
def q(s):
    return '"' + s.replace('\\', '\\\\').replace('"', '\\"').replace('\n', '\\n') + '"'
# the OCaml reader maps backslash-x to x, so newlines are sent as "\n" -> 'n'; avoid newlines in inputs.

def sx_tok(t):
    k = t[0]
    if k == 'I':
        return '(I %s)' % q(t[1])
    if k == 'P':
        return '(P %s)' % q(t[1])
    if k == 'L':
        return '(L %s)' % q(t[1])
    if k == 'Lit':
        kind = t[1]
        if isinstance(kind, tuple):
            if kind[0] == 'Int':
                ks = '(Int %s %s)' % (q(str(kind[1])), q(kind[2]))
            else:
                ks = '(Float %s)' % q(kind[1])
        else:
            ks = kind
        return '(Lit %s %s)' % (ks, q(t[2]))
    if k == 'Str':
        relex = 'None' if t[3] is None else '(Some %s)' % sx_toks(t[3])
        return '(Str %s %s %s)' % (q(t[1]), q(t[2]), relex)
    if k == 'G':
        return '(G %s %s)' % (t[1], sx_toks(t[2]))
    raise ValueError(t)

def sx_toks(ts):
    return '(' + ' '.join(sx_tok(t) for t in ts) + ')'

def flat(ts):
    out = []
    for t in ts:
        k = t[0]
        if k == 'I':
            out.append(t[1])
        elif k == 'P':
            out.extend(t[1])
        elif k == 'L':
            out.extend(["'", t[1]])
        elif k == 'Lit':
            out.append(t[2])
        elif k == 'Str':
            out.append(t[1])
        else:
            o = {'p': '(', 'b': '{', 'k': '['}[t[1]]
            c = {'p': ')', 'b': '}', 'k': ']'}[t[1]]
            out.append(o); out.extend(flat(t[2])); out.append(c)
    return out
