"""K2: behavioural correspondence and search engine.

Generates a crate (/verif/k2) that uses the REAL `#[derive(Educe)]` of /repo on generated types
built from instrumented field types (k2/src/support.rs), together with oracles generated
independently from the *request* (written from the property statements), enumerates values and
compares in-process.  A mismatch is a concrete failing input: type definition + values +
expected / actual.
"""
import os, sys, random, itertools, subprocess, re, json, time, hashlib, shutil
import vlib

ROOT = vlib.ROOT
K2DIR = os.path.join(ROOT, 'k2')
GEN = os.path.join(K2DIR, 'src', 'gen')

def pick(r, l):
    return l[r.randrange(len(l))]

# ------------------------------------------------------------------ field types
class FT:
    def __init__(self, rust, vals, own_eq=None, native=False):
        self.rust, self.vals, self.native = rust, vals, native

def ft_A(k):
    return FT('A<%d>' % k, ['A(0)', 'A(1)', 'A(7)'])
def ft_Nt():
    # implements NONE of PartialEq / Eq / PartialOrd / Ord / Hash / Clone: only an ignored or method-handled field can have it
    return FT('Nt', ['Nt(0)', 'Nt(1)', 'Nt(7)'])
def ft_C(k):
    return FT('C<%d>' % k, ['C(0)', 'C(1)', 'C(2)'])
NATIVE = [FT('bool', ['false', 'true'], native=True), FT('char', ["'a'", "'z'"], native=True),
          FT('::core::num::NonZeroU8', ['::core::num::NonZeroU8::new(1).unwrap()', '::core::num::NonZeroU8::new(200).unwrap()'], native=True),
          FT("&'static u8", ['&3u8', '&200u8'], native=True), FT('()', ['()'], native=True),
          FT('Option<u8>', ['None', 'Some(0)', 'Some(255)'], native=True), FT('u8', ['0', '100', '200'], native=True),
          FT('i64', ['-5', '0', '9'], native=True)]

class Fld:
    def __init__(self, name, ft):
        self.name, self.ft, self.at = name, ft, {}
class Var:
    def __init__(self, name, shape, fields, discr=None):
        self.name, self.shape, self.fields, self.discr = name, shape, fields, discr
        self.at = {}
class Ty:
    def __init__(self, tid, kind, variants):
        self.id, self.kind, self.variants = tid, kind, variants
        self.type_attrs = []       # texts inside #[educe(...)]
        self.pre_attrs = []        # other attributes (#[repr(..)])
        self.extra = ''            # extra items (manual impls)
        self.derives = []
    @property
    def name(self):
        return 'T'

FIELD_NAMES = ['a', 'b', 'c', 'x', 'y', 'state', 'other', 'f', 'source', 'r#type', 'builder', 'arg', 'data', 'size', 'self_data', 'other_data']
VAR_NAMES = ['A', 'B', 'C', 'Unit', 'None', 'Some', 'V1', 'Zed']

def gen_shape(r, tid, kinds=('struct', 'enum'), maxf=4, ftgen=None, min_variants=1, unit_ok=True, same_k=0.4):
    kind = pick(r, list(kinds))
    ftgen = ftgen or (lambda r, i: ft_A(0 if r.random() < same_k else i))
    def fields(n, named):
        names = r.sample(FIELD_NAMES, n) if named else [None] * n
        if named and n >= 2 and r.random() < (0.6 if HOSTILE[0] else 0.25):
            # a sibling that differs by a leading underscore only (prefixed pattern bindings must stay apart)
            i, j = r.sample(range(n), 2)
            base = names[i][2:] if names[i].startswith('r#') else names[i]
            if ('_' + base) not in names:
                names[j] = '_' + base
        return [Fld(nm, ftgen(r, i)) for i, nm in enumerate(names)]
    if kind == 'struct':
        shape = pick(r, ['named', 'unnamed', 'named', 'unnamed', 'unit'] if unit_ok else ['named', 'unnamed'])
        n = 0 if shape == 'unit' else pick(r, [1, 2, 2, 3, 3, maxf])
        return Ty(tid, 'struct', [Var(None, shape, fields(n, shape == 'named'))])
    nv = pick(r, [min_variants, 2, 2, 3, 4])
    nv = max(nv, min_variants)
    vs = []
    for vn in r.sample(VAR_NAMES, nv):
        shape = pick(r, ['named', 'unnamed', 'unit'] if unit_ok else ['named', 'unnamed'])
        n = 0 if shape == 'unit' else pick(r, [0, 1, 2, 2, 3, maxf] if unit_ok else [1, 2, 2, 3, maxf])
        vs.append(Var(vn, shape, fields(n, shape == 'named')))
    if unit_ok and len(vs) >= 2 and r.random() < 0.2:
        # a data-less variant written with delimiters (`V()` / `V {}`) after data-carrying ones
        vs[-1] = Var(vs[-1].name, pick(r, ['unnamed', 'named']), [])
    return Ty(tid, 'enum', vs)

# ------------------------------------------------------------------ Rust text helpers
def attr_groups(owner):
    """the item's metas distributed over one or more #[educe(...)] attributes (decided once per item)"""
    if '_groups' not in owner.at:
        metas = list(owner.at.get('_metas', [])) + list(owner.at.get('_noise', []))
        r = owner.at.get('_r')
        groups = []
        if r is not None:
            r.shuffle(metas)
        for m in metas:
            if groups and r is not None and r.random() < 0.6:
                groups[-1].append(m)
            else:
                groups.append([m])
        owner.at['_groups'] = groups
    return owner.at['_groups']

def fattr_text(f):
    return ''.join('#[educe(%s)] ' % ', '.join(g) for g in attr_groups(f))

def fields_decl(v):
    if v.shape == 'unit':
        return ''
    if v.shape == 'named':
        return ' { ' + ', '.join('%s%s%s: %s' % (fattr_text(f), PUB[0], f.name, f.ft.rust) for f in v.fields) + ' }'
    return '(' + ', '.join('%s%s%s' % (fattr_text(f), PUB[0], f.ft.rust) for f in v.fields) + ')'

PUB = ['']

def gen_params(t):
    g = getattr(t, 'generic', None)
    return '<%s>' % ', '.join(g) if g else ''

def type_decl(t):
    if getattr(t, 'raw_decl', None):
        return t.raw_decl
    PUB[0] = 'pub ' if t.kind in ('struct', 'union') else ''
    try:
        return type_decl_inner(t)
    finally:
        PUB[0] = ''

def type_decl_inner(t):
    out = ['#[derive(Educe)]'] + ['#[derive(%s)]' % d for d in t.derives] + t.pre_attrs
    for a in t.type_attrs:
        out.append('#[educe(%s)]' % a)
    if t.kind == 'struct':
        v = t.variants[0]
        out.append('pub struct T%s%s%s' % (gen_params(t), fields_decl(v), '' if v.shape == 'named' else ';'))
    elif t.kind == 'enum':
        vs = []
        for v in t.variants:
            va = ''.join('#[educe(%s)] ' % ', '.join(g) for g in attr_groups(v))
            vs.append('%s%s%s%s' % (va, v.name, fields_decl(v), '' if v.discr is None else ' = %d' % v.discr))
        out.append('pub enum T%s { %s }' % (gen_params(t), ', '.join(vs)))
    else:
        v = t.variants[0]
        out.append('pub union T%s { %s }' % (gen_params(t), ', '.join('%spub %s: %s' % (fattr_text(f), f.name, f.ft.rust) for f in v.fields)))
    return '\n'.join(out)

def ctor(t, v):
    return 'T' if t.kind == 'struct' else 'T::%s' % v.name

def pat(t, v, pre, only=None):
    """pattern binding every field as <pre><i> (only: set of indices to bind, others `_`)"""
    c = ctor(t, v)
    if v.shape == 'unit':
        return c
    def b(i):
        return '%s%d' % (pre, i) if only is None or i in only else '_'
    if v.shape == 'named':
        return '%s { %s }' % (c, ', '.join('%s: %s' % (f.name, b(i)) for i, f in enumerate(v.fields)))
    return '%s(%s)' % (c, ', '.join(b(i) for i in range(len(v.fields))))

def build(t, v, exprs):
    c = ctor(t, v)
    if v.shape == 'unit':
        return c
    if v.shape == 'named':
        return '%s { %s }' % (c, ', '.join('%s: %s' % (f.name, e) for f, e in zip(v.fields, exprs)))
    return '%s(%s)' % (c, ', '.join(exprs))

REF_ATOM = re.compile(r"^&'static (?:mut )?A<(\d+)>$")
def values_fn(t, r, cap=48, refs=False):
    vals = []
    t.xvalues = []          # structured copy of the values, for the model cross-check (atoms only;
                            # refs: also `&'static [mut] A<k>` fields, as ('R', atom) = a reference to that atom)
    atoms = all(re.match(r'^A<\d+>$', f.ft.rust) or (refs and REF_ATOM.match(f.ft.rust)) for v in t.variants for f in v.fields)
    for v in t.variants:
        combos = list(itertools.product(*[f.ft.vals for f in v.fields]))
        per = max(3, cap // max(1, len(t.variants)))
        if len(combos) > per:
            combos = r.sample(combos, per)
        for c in combos:
            vals.append(build(t, v, list(c)))
            if atoms:
                fs = []
                for i, (f, e) in enumerate(zip(v.fields, c)):
                    key = f.name if f.name is not None else str(i)
                    m = REF_ATOM.match(f.ft.rust)
                    if m:
                        fs.append((key, ('R', 1000 * int(m.group(1)) + int(re.search(r'A\((\d+)\)', e).group(1)))))
                        continue
                    k = 9 if f.ft.rust == 'Nt' else int(f.ft.rust[2:-1]); x = int(e[e.index('(') + 1:-1])
                    fs.append((key, 1000 * k + x))
                t.xvalues.append((v.name, fs))
    if not atoms:
        t.xvalues = None
    return 'pub fn values() -> Vec<T> { vec![%s] }' % ', '.join(vals), len(vals)

def q(s):
    return '"' + s.replace('\\', '\\\\').replace('"', '\\"') + '"'

def xvalues_sx(t):
    out = []
    for vn, fs in t.xvalues:
        out.append('(D %s (%s))' % ('None' if vn is None else '(Some %s)' % q(vn),
                                    ' '.join('(%s %s)' % (q(k), '(R %s)' % q(str(z[1])) if isinstance(z, tuple) else q(str(z))) for k, z in fs)))
    return '(' + ' '.join(out) + ')'

def dinput_sx(t):
    """the educed type as the model's derive input (same text as the Rust declaration)"""
    import dinput as D
    def fld(f):
        return D.Field(f.name, f.ft.rust, attrs=[D.educe(', '.join(g)) for g in attr_groups(f)])
    attrs = []
    for a in t.pre_attrs:
        m = re.match(r'#\[(\w+)\((.*)\)\]$', a)
        attrs.append(D.Attr(m.group(1), 'list', m.group(2)))
    attrs += [D.educe(a) for a in t.type_attrs]
    if t.kind == 'struct':
        v = t.variants[0]
        inp = D.Input('struct', 'T', attrs=attrs, fkind=v.shape, fields=[fld(f) for f in v.fields])
    elif t.kind == 'union':
        inp = D.Input('union', 'T', attrs=attrs, fields=[fld(f) for f in t.variants[0].fields])
    else:
        vs = []
        for v in t.variants:
            vs.append(D.Variant(v.name, v.shape, fields=[fld(f) for f in v.fields],
                                attrs=[D.educe(', '.join(g)) for g in attr_groups(v)],
                                discr=None if v.discr is None else str(v.discr)))
        inp = D.Input('enum', 'T', attrs=attrs, variants=vs)
    return inp.sx()

def show_fn(t):
    arms = []
    for v in t.variants:
        fmt = (v.name or 'T') + '(' + ','.join('{}' for _ in v.fields) + ')'
        args = ''.join(', sv(p%d)' % i for i in range(len(v.fields)))
        arms.append('%s => format!("%s"%s)' % (pat(t, v, 'p'), fmt, args))
    return 'pub fn show(x: &T) -> String { #[allow(unused_variables)] match x { %s } }' % ', '.join(arms)

def is_raw(n):
    return n is not None and n.startswith('r#')

# ------------------------------------------------------------------ spellings
def sp_ignore(r, trait, shorthand=True):
    l = ['%s(ignore)' % trait, '%s(ignore = true)' % trait, '%s(ignore(true))' % trait]
    if shorthand:
        l.append('%s = false' % trait)
    return pick(r, l)
def sp_ignore_with_method(r, trait, path):
    """an ignored field that ALSO names a method: the field stays ignored"""
    ps = [pick(r, ['ignore', 'ignore = true', 'ignore(true)']), pick(r, ['method(%s)', 'method = %s', 'method = "%s"', 'method("%s")']) % sp_path(r, path)]
    r.shuffle(ps)
    return '%s(%s)' % (trait, ', '.join(ps))
def sp_path(r, path):
    """another way to name the same user method: longer paths, explicit generic arguments"""
    c = r.random()
    if c < 0.6:
        return path
    if c < 0.7:
        return 'self::' + path
    if c < 0.85 or not path.startswith('m_'):
        return 'crate::support::' + path
    nargs = {'m_hash': 2, 'm_into': 2}.get(path, 1)
    return 'crate::support::g::%s::<0, %s>' % (path, ', '.join(['_'] * nargs))
def sp_method(r, trait, path):
    return pick(r, ['%s(method(%s))', '%s(method = %s)', '%s(method = "%s")', '%s(method("%s"))']) % (trait, sp_path(r, path))
def sp_rank(r, n):
    l = ['rank = %d' % n, 'rank(%d)' % n, 'rank = "%d"' % n, 'rank("%d")' % n]
    if n >= 0:
        l += ['rank = 0x%x' % n, 'rank = "+%d"' % n, 'rank = %d_isize' % n if False else 'rank = %di64' % n]
    return pick(r, l)

# ------------------------------------------------------------------ suites
class Suite:
    name = None
    def make(self, r, tid):
        """-> (Ty, rust module body, meta dict) or None"""
        raise NotImplementedError

HOSTILE = [False]
NOISE = [None]
HOSTILE_ITEMS = '''
    // names at the derive site that shadow everything the generated code might be tempted to write unqualified
    #[allow(non_camel_case_types)] pub struct Option; pub struct Result; pub struct Ordering; pub struct Clone; pub struct Copy;
    pub struct Default; pub struct Debug; pub struct PartialEq; pub struct Eq; pub struct PartialOrd; pub struct Ord; pub struct Hash;
    pub struct Hasher; pub struct Into; pub struct From; pub struct Deref; pub struct DerefMut; pub struct Formatter; pub struct String;
    pub struct Vec; pub struct Box; pub struct PhantomData; pub struct Sized; pub struct Send; pub struct Iterator; pub struct Self_;
    #[allow(non_snake_case)] pub fn Some() {} #[allow(non_snake_case)] pub fn None() {} #[allow(non_snake_case)] pub fn Ok() {} #[allow(non_snake_case)] pub fn Err() {}
    pub fn drop() {} pub mod core {} pub mod std {} pub mod alloc {} pub mod fmt {} pub mod cmp {} pub mod hash {} pub mod clone {} pub mod marker {}
    #[allow(unused_macros)] macro_rules! stringify { ($($t:tt)*) => { "SHADOWED" } }
    #[allow(unused_macros)] macro_rules! unreachable { ($($t:tt)*) => { () } }
    #[allow(unused_macros)] macro_rules! panic { ($($t:tt)*) => { () } }
    #[allow(unused_macros)] macro_rules! matches { ($($t:tt)*) => { true } }
    #[allow(unused_macros)] macro_rules! write { ($($t:tt)*) => { () } }
    #[allow(unused_macros)] macro_rules! format_args { ($($t:tt)*) => { () } }
    #[allow(unused_macros)] macro_rules! assert { ($($t:tt)*) => { () } }
'''

def module(t, body, nvals):
    """the educed type lives in its own module with warnings denied: anything the derive emits that rustc
    warns about, or that fails to compile, is attributed to that module; with HOSTILE the module also
    shadows the prelude (C19)"""
    if NOISE[0] is not None and not getattr(t, '_noised', False):
        t._noised = True
        add_noise(t, NOISE[0][1], NOISE[0][0])
    hostile_impl = ''
    if HOSTILE[0] and t.kind in ('struct', 'enum') and not getattr(t, 'generic', None) and not getattr(t, 'raw_decl', None) and 'impl T {' not in body:
        # inherent items named like the trait methods: generated code must call the traits' functions by path
        hostile_impl = ('\n    impl T { pub fn eq(&self, _: &Self) -> u8 { 0 } pub fn ne(&self, _: &Self) -> u8 { 0 } pub fn cmp(&self, _: &Self) -> u8 { 0 }'
                        ' pub fn partial_cmp(&self, _: &Self) -> u8 { 0 } pub fn hash(&self) -> u8 { 0 } pub fn fmt(&self) -> u8 { 0 } pub fn clone(&self) -> u8 { 0 }'
                        ' pub fn clone_from(&mut self, _: &Self) {} pub fn default() -> u8 { 0 } pub fn deref(&self) -> u8 { 0 } pub fn deref_mut(&mut self) -> u8 { 0 }'
                        ' pub fn into(self) -> u8 { 0 } }')
    ty = ('pub mod ty {\n    #![deny(warnings)]\n    #![allow(dead_code, unused_imports, non_snake_case)]\n    use crate::support::{A, B, C, N, Nt, Nd, Fl, Off, Good, Bad, Half, Full, g_clone, g_default, g_into, m_eq, m_eqv, m_cmp, m_pcmp, m_hash, m_fmt, m_clone, m_clone_c, m_into, m_same, Mk, g_eq, g_cmp, g_pcmp, g_hash, g_fmt};\n'
          '    use educe::Educe;\n%s%s%s\n}\npub use ty::T;' % (HOSTILE_ITEMS if HOSTILE[0] else '', type_decl(t), hostile_impl))
    return ('// %s\n#![allow(dead_code, unused_variables, unused_mut, unused_imports, non_shorthand_field_patterns, clippy::all)]\n'
            'use crate::support::*;\nuse core::cmp::Ordering;\n%s\n%s\n' % (t.id, ty, body))

def add_discriminants(r, t, p_disc=0.5, p_repr=0.2):
    """explicit discriminants (any integer repr, gaps, negative, beyond i64) and repr attributes on an enum"""
    if t.kind != 'enum':
        return
    c = r.random()
    if c < p_disc:
        ds = r.sample([-170, -5, -1, 0, 1, 2, 3, 100, 127, 128, 200, 255, 1000, 70000], len(t.variants))
        if r.random() < 0.35:
            # discriminants that are a permutation of the positions: a discriminant equals ANOTHER variant's index
            ds = list(range(len(t.variants))); r.shuffle(ds)
        all_unit = all(v.shape == 'unit' for v in t.variants)
        rp = pick(r, ['i64', 'i32', 'isize', 'i64'])
        big = r.random()
        if big < 0.2:
            ds = r.sample([0, 1, 5, 2 ** 63 - 1, 2 ** 63, 2 ** 63 + 7, 2 ** 64 - 1], len(t.variants)); rp = 'u64'
        elif big < 0.35:
            ds = r.sample([-2 ** 100, -2 ** 63 - 1, -1, 0, 3, 2 ** 63, 2 ** 64 + 1, 2 ** 126], len(t.variants)); rp = 'i128'
        if all_unit and r.random() < 0.5:
            rp = None
        for v, d in zip(t.variants, ds):
            if r.random() < 0.7:
                v.discr = d
        if rp:
            t.pre_attrs.append('#[repr(%s)]' % rp)
        # rustc refuses equal discriminants: fall back to implicit ones
        eff, cur = [], 0
        for v in t.variants:
            if v.discr is not None:
                cur = v.discr
            eff.append(cur); cur += 1
        lim = {'u64': (0, 2 ** 64 - 1), 'i64': (-2 ** 63, 2 ** 63 - 1), 'i32': (-2 ** 31, 2 ** 31 - 1), 'isize': (-2 ** 63, 2 ** 63 - 1),
               'i128': (-2 ** 127, 2 ** 127 - 1), None: (-2 ** 63, 2 ** 63 - 1)}[rp]
        if len(set(eff)) != len(eff) or any(e < lim[0] or e > lim[1] for e in eff) or (rp is None and any(v.shape != 'unit' for v in t.variants)):
            for v in t.variants:
                v.discr = None
    elif c < p_disc + p_repr:
        reprs = ['#[repr(u8)]', '#[repr(C)]', '#[repr(align(8))]', '#[repr(u16)]', '#[repr(i8)]']
        if any(v.shape != 'unit' for v in t.variants):
            reprs.append('#[repr(C, u8)]')
        t.pre_attrs.append(pick(r, reprs))

class EqSuite(Suite):
    name = 'eq'
    def make(self, r, tid):
        t = gen_shape(r, tid)
        add_discriminants(r, t, p_disc=0.2, p_repr=0.1)
        use_eq = r.random() < 0.4
        t.type_attrs = ['PartialEq, Eq'] if use_eq else ['PartialEq']
        if r.random() < 0.3:
            t.type_attrs = [x for a in t.type_attrs for x in a.split(', ')]
        for v in t.variants:
            for f in v.fields:
                c = r.random()
                tr = 'Eq' if (use_eq and r.random() < 0.4) else 'PartialEq'
                if c < 0.3:
                    f.at['eq'] = 'ignore'; f.at['_metas'] = [sp_ignore(r, tr) if r.random() < 0.75 else sp_ignore_with_method(r, tr, 'm_eq')]
                    if r.random() < 0.3:
                        f.ft = ft_Nt()
                elif c < 0.55:
                    f.at['eq'] = 'method'; f.at['_metas'] = [sp_method(r, tr, 'm_eq')]
                    if r.random() < 0.3:
                        f.ft = ft_Nt()
                else:
                    f.at['eq'] = 'plain'
                    if r.random() < 0.15:
                        f.at['_metas'] = [pick(r, ['%s = true', '%s(ignore = false)']) % tr]
        arms = []
        for v in t.variants:
            conds = []
            for i, f in enumerate(v.fields):
                if f.at['eq'] == 'method':
                    conds.append('m_eq(a%d, b%d)' % (i, i))
                elif f.at['eq'] == 'plain':
                    conds.append('(a%d == b%d)' % (i, i))
            arms.append('(%s, %s) => %s' % (pat(t, v, 'a'), pat(t, v, 'b'), ' && '.join(conds) or 'true'))
        if len(t.variants) > 1:
            arms.append('_ => false')
        vf, nv = values_fn(t, r)
        body = '\n'.join([vf, show_fn(t),
            'pub fn o_eq(a: &T, b: &T) -> bool { match (a, b) { %s } }' % ', '.join(arms),
            'pub fn run(out: &mut Out) { let vs = values(); for a in &vs { for b in &vs { let e = o_eq(a, b);'
            ' out.check((a == b) == e, "%s", "eq", || format!("{} == {} expected {}", show(a), show(b), e));'
            ' out.check((a != b) == !e, "%s", "ne", || format!("{} != {} expected {}", show(a), show(b), !e)); } }'
            ' let mut res = String::new(); for a in &vs { for b in &vs { res.push(if a == b { \'1\' } else { \'0\' }); } } println!("RES\\t%s\\teq\\t{}", res); }' % (tid, tid, tid)])
        return t, module(t, body, nv), dict(values=nv, xops=['eq'])

class HashSuite(Suite):
    name = 'hash'
    def make(self, r, tid):
        t = gen_shape(r, tid)
        # "when PartialEq is educed with the same ignore and method choices, a == b implies hash(a) == hash(b)"
        with_eq = r.random() < 0.5
        t.type_attrs = ['Hash'] if not with_eq else pick(r, [['Hash', 'PartialEq'], ['PartialEq', 'Hash'], ['Hash, PartialEq'], ['PartialEq, Hash']])
        add_discriminants(r, t, p_disc=0.45, p_repr=0.1)
        for v in t.variants:
            for f in v.fields:
                c = r.random()
                eqm = None
                if c < 0.3:
                    f.at['h'] = 'ignore'; f.at['_metas'] = [sp_ignore(r, 'Hash') if r.random() < 0.7 else sp_ignore_with_method(r, 'Hash', 'm_hash')]
                    eqm = sp_ignore(r, 'PartialEq')
                    if r.random() < 0.3:
                        f.ft = ft_Nt()
                elif c < 0.55:
                    f.at['h'] = 'method'; f.at['_metas'] = [sp_method(r, 'Hash', 'm_hash')]
                    eqm = sp_method(r, 'PartialEq', 'm_eqv')
                    if r.random() < 0.3:
                        f.ft = ft_Nt()
                else:
                    f.at['h'] = 'plain'
                    if r.random() < 0.25:
                        f.at['_metas'] = [pick(r, ['Hash = true', 'Hash(ignore = false)', 'Hash(ignore(false))'])]
                    if r.random() < 0.35:
                        eqm = pick(r, ['PartialEq = true', 'PartialEq(ignore = false)', 'PartialEq(ignore(false))'])
                if with_eq and eqm:
                    f.at['_metas'] = f.at.get('_metas', []) + [eqm]
                    if r.random() < 0.5:
                        f.at['_r'] = r          # one list / shuffled; otherwise stacked #[educe(..)] attributes in this order
        arms = []
        for vi, v in enumerate(t.variants):
            st = []
            if t.kind == 'enum':
                st.append('::core::hash::Hash::hash(&%dusize, &mut e);' % vi)
            for i, f in enumerate(v.fields):
                if f.at['h'] == 'method':
                    st.append('m_hash(p%d, &mut e);' % i)
                elif f.at['h'] == 'plain':
                    st.append('::core::hash::Hash::hash(p%d, &mut e);' % i)
            arms.append('%s => { %s }' % (pat(t, v, 'p'), ' '.join(st)))
        vf, nv = values_fn(t, r)
        eqcheck = ''
        if with_eq:
            eqcheck = (' for a in &vs { for b in &vs { if a == b { let mut ga = Rec::default(); ::core::hash::Hash::hash(a, &mut ga); let mut gb = Rec::default(); ::core::hash::Hash::hash(b, &mut gb);'
                       ' out.check(ga.0 == gb.0, "%s", "eq_implies_same_hash", || format!("{} == {} but they feed {:?} and {:?}", show(a), show(b), ga.0, gb.0)); } } }' % tid)
        body = '\n'.join([vf, show_fn(t),
            'pub fn o_hash(x: &T) -> Vec<String> { let mut e = Rec::default(); match x { %s } e.0 }' % ', '.join(arms),
            'pub fn run(out: &mut Out) { let vs = values(); for a in &vs { let mut g = Rec::default(); ::core::hash::Hash::hash(a, &mut g); let e = o_hash(a);'
            ' out.check(g.0 == e, "%s", "hash", || format!("hash({}) fed {:?} expected {:?}", show(a), g.0, e)); }%s'
            ' let mut res = String::new(); for a in &vs { let mut g = Rec::default(); ::core::hash::Hash::hash(a, &mut g); res.push_str(&g.0.join(",")); res.push(\';\'); } println!("RES\\t%s\\thash\\t{}", res); }' % (tid, eqcheck, tid)])
        return t, module(t, body, nv), dict(values=nv, xops=['hash'])

class OrdSuite(Suite):
    name = 'ord'
    def __init__(self, layout=False):
        self.layout = layout
        if layout:
            self.name = 'ordlayout'
    def make(self, r, tid):
        if self.layout:
            pool = NATIVE
            t = gen_shape(r, tid, kinds=('enum',), ftgen=lambda r, i: pick(r, pool), maxf=2, min_variants=1)
        else:
            t = gen_shape(r, tid)
        mode = pick(r, ['both', 'both', 'ord', 'partial'])
        if self.layout:
            mode = pick(r, ['both', 'ord', 'partial'])
        carrier = 'Ord' if mode in ('ord',) else 'PartialOrd' if mode == 'partial' else pick(r, ['Ord', 'PartialOrd'])
        ta = ['PartialEq', 'Eq'] + (['PartialOrd'] if mode in ('both', 'partial') else []) + (['Ord'] if mode in ('both', 'ord') else [])
        r.shuffle(ta)
        t.type_attrs = [', '.join(ta)]
        if mode == 'ord':
            t.extra = 'impl PartialOrd for T { fn partial_cmp(&self, o: &Self) -> Option<Ordering> { Some(::core::cmp::Ord::cmp(self, o)) } }'
        meth = 'm_pcmp' if mode == 'partial' else 'm_cmp'
        # boundary: every field of the type ignored (and, often, no field-less variant left): only the variant decides
        p_ign = 0.2
        if not self.layout and r.random() < 0.08:
            p_ign = 1.0
            with_fields = [v for v in t.variants if v.fields]
            if t.kind == 'enum' and with_fields and r.random() < 0.7:
                t.variants = with_fields
        # discriminants / repr
        add_discriminants(r, t)
        for v in t.variants:
            ranks = r.sample(range(-6, 7), len(v.fields))
            for i, f in enumerate(v.fields):
                c = r.random() if p_ign < 1.0 else 0.0
                f.at['o'] = 'plain'; f.at['rank'] = None
                metas = []
                if c < p_ign and not self.layout:
                    f.at['o'] = 'ignore'
                    metas.append(('ignore', None))
                    if r.random() < 0.3:
                        metas.append(('method', meth))
                elif c < 0.45 and not f.ft.native:
                    f.at['o'] = 'method'
                    metas.append(('method', meth))
                if f.at['o'] == 'plain' and not metas and r.random() < 0.35:
                    metas.append(('noignore', None))
                if f.at['o'] != 'ignore' and r.random() < 0.5:
                    f.at['rank'] = ranks[i]
                    metas.append(('rank', ranks[i]))
                if metas:
                    if metas == [('ignore', None)]:
                        f.at['_metas'] = [sp_ignore(r, carrier)]
                    else:
                        ps = []
                        for k, val in metas:
                            if k == 'ignore':
                                ps.append('ignore')
                            elif k == 'noignore':
                                ps.append(pick(r, ['ignore = false', 'ignore(false)']))
                            elif k == 'method':
                                ps.append(pick(r, ['method(%s)', 'method = %s', 'method = "%s"', 'method("%s")']) % sp_path(r, val))
                            else:
                                ps.append(sp_rank(r, val))
                        r.shuffle(ps)
                        f.at['_metas'] = ['%s(%s)' % (carrier, ', '.join(ps))]
        # oracle
        INT_MIN = -(1 << 63)
        def order(v):
            l = [(f.at['rank'] if f.at['rank'] is not None else INT_MIN + i, i, f) for i, f in enumerate(v.fields) if f.at['o'] != 'ignore']
            return sorted(l, key=lambda x: x[0])
        d = 0
        discs = []
        for v in t.variants:
            if v.discr is not None:
                d = v.discr
            discs.append(d)
            d += 1
        carms, parms = [], []
        for v in t.variants:
            cs, ps = [], []
            for _, i, f in order(v):
                if f.at['o'] == 'method':
                    cs.append('let c = m_cmp(a%d, b%d); if c != Ordering::Equal { return c; }' % (i, i))
                    if mode == 'partial':
                        ps.append('match m_pcmp(a%d, b%d) { Some(Ordering::Equal) => (), x => return x }' % (i, i))
                else:
                    cs.append('let c = ::core::cmp::Ord::cmp(a%d, b%d); if c != Ordering::Equal { return c; }' % (i, i))
                    if mode == 'partial':
                        ps.append('match ::core::cmp::PartialOrd::partial_cmp(a%d, b%d) { Some(Ordering::Equal) => (), x => return x }' % (i, i))
            carms.append('(%s, %s) => { %s Ordering::Equal }' % (pat(t, v, 'a'), pat(t, v, 'b'), ' '.join(cs)))
            parms.append('(%s, %s) => { %s Some(Ordering::Equal) }' % (pat(t, v, 'a'), pat(t, v, 'b'), ' '.join(ps)))
        other = ', _ => o_disc(a).cmp(&o_disc(b))' if len(t.variants) > 1 else ''
        pother = ', _ => Some(o_disc(a).cmp(&o_disc(b)))' if len(t.variants) > 1 else ''
        disc = 'pub fn o_disc(x: &T) -> i128 { match x { %s } }' % ', '.join('%s => %d' % (pat(t, v, 'p', only=set()), dv) for v, dv in zip(t.variants, discs))
        vf, nv = values_fn(t, r, cap=36)
        fns = [vf, show_fn(t), disc]
        checks = []
        if mode in ('both', 'ord'):
            fns.append('pub fn o_cmp(a: &T, b: &T) -> Ordering { match (a, b) { %s%s } }' % (', '.join(carms), other))
            checks.append('let e = o_cmp(a, b); let g = ::core::cmp::Ord::cmp(a, b); out.check(g == e, "%s", "cmp", || format!("cmp({}, {}) = {:?} expected {:?}", show(a), show(b), g, e));' % tid)
            if mode == 'both':
                checks.append('let g2 = ::core::cmp::PartialOrd::partial_cmp(a, b); out.check(g2 == Some(e), "%s", "partial_is_some_cmp", || format!("partial_cmp({}, {}) = {:?} expected Some({:?})", show(a), show(b), g2, e));' % tid)
        else:
            fns.append('pub fn o_pcmp(a: &T, b: &T) -> Option<Ordering> { match (a, b) { %s%s } }' % (', '.join(parms), pother))
            checks.append('let e = o_pcmp(a, b); let g = ::core::cmp::PartialOrd::partial_cmp(a, b); out.check(g == e, "%s", "partial_cmp", || format!("partial_cmp({}, {}) = {:?} expected {:?}", show(a), show(b), g, e));' % tid)
        if self.layout:
            # the same comparison with the operands embedded next to varying neighbour bytes
            fns.append('#[repr(C)] pub struct Wrap { pub pre: u8, pub x: T, pub post: [u8; 9] }')
            fns.append('pub fn wrap(i: usize, n: u8) -> Wrap { Wrap { pre: n, x: values().swap_remove(i), post: [n; 9] } }')
            op = 'o_cmp(a, b)' if mode in ('both', 'ord') else 'o_pcmp(a, b)'
            call = '::core::cmp::Ord::cmp(&wa.x, &wb.x)' if mode in ('both', 'ord') else '::core::cmp::PartialOrd::partial_cmp(&wa.x, &wb.x)'
            checks.append('for n in [0u8, 1, 0x7f, 0x80, 0xff] { let wa = wrap(i, n); let wb = wrap(j, !n); let g = %s; let e = %s;'
                          ' out.check(g == e, "%s", "cmp_neighbours", || format!("cmp({}, {}) with neighbour bytes {} = {:?} expected {:?}", show(a), show(b), n, g, e)); }' % (call, op, tid))
        if mode in ('both', 'ord'):
            resline = ('let mut res = String::new(); for a in &vs { for b in &vs { res.push(match ::core::cmp::Ord::cmp(a, b) { Ordering::Less => \'L\', Ordering::Equal => \'E\', Ordering::Greater => \'G\' }); } }'
                       ' println!("RES\\t%s\\tcmp\\t{}", res);' % tid)
            xops = ['cmp']
        else:
            resline = ('let mut res = String::new(); for a in &vs { for b in &vs { res.push(match ::core::cmp::PartialOrd::partial_cmp(a, b) { Some(Ordering::Less) => \'L\', Some(Ordering::Equal) => \'E\', Some(Ordering::Greater) => \'G\', None => \'N\' }); } }'
                       ' println!("RES\\t%s\\tpartial_cmp\\t{}", res);' % tid)
            xops = ['partial_cmp']
        fns.append('pub fn run(out: &mut Out) { let vs = values(); for (i, a) in vs.iter().enumerate() { for (j, b) in vs.iter().enumerate() { %s } } %s }' % (' '.join(checks), resline))
        return t, module(t, '\n'.join([t.extra] + fns), nv), dict(values=nv, mode=mode, xops=xops, traits=ta + (['EnumOrdering'] if t.kind == 'enum' else []))

SUITES = {'eq': EqSuite(), 'hash': HashSuite(), 'ord': OrdSuite(), 'ordlayout': OrdSuite(layout=True)}

# ---- appended to tools/k2.py: Debug, Clone, Default, Deref, Into, union suites
class DebugSuite(Suite):
    name = 'debug'
    def make(self, r, tid):
        plain_names = [n for n in FIELD_NAMES if not n.startswith('r#')]
        t = gen_shape(r, tid)
        for v in t.variants:          # ordinary identifiers only (C06 speaks of ordinary identifiers)
            for f in v.fields:
                if f.name and f.name.startswith('r#'):
                    f.name = 'rr_' + f.name[2:]
        noparam = r.random() < 0.25
        tparams = []
        # type-level name
        tname = 'T' if t.kind == 'struct' else None        # enum default: Disable
        if not noparam:
            c = r.random()
            if c < 0.25:
                tname = 'Zz'
                tparams.append(pick(r, ['name = Zz', 'name(Zz)', 'name = "Zz"', 'name("Zz")', 'rename = Zz', 'rename("Zz")']))
            elif c < 0.45:
                tname = None
                tparams.append(pick(r, ['name = false', 'name(false)', 'name = ""', 'rename = false']))
            elif c < 0.65:
                tname = 'T'
                tparams.append(pick(r, ['name = true', 'name(true)']))
        def style_for(v, owner_params, default_named, nameless=False):
            named = default_named
            # a shape shown without any name takes the rarer code paths (debug_map / nameless tuple): flip styles more often there
            if not noparam and v.shape != 'unit' and r.random() < (0.6 if nameless else 0.35):
                named = not default_named
                owner_params.append(pick(r, ['named_field = %s', 'named_field(%s)']) % ('true' if named else 'false'))
            return named
        plans = []
        for v in t.variants:
            vparams = []
            if t.kind == 'struct':
                vname = None
                named = style_for(v, tparams, v.shape != 'unnamed')
            else:
                vname = v.name
                if not noparam:
                    c = r.random()
                    if c < 0.2:
                        vname = 'Ren'
                        vparams.append(pick(r, ['name = Ren', 'name(Ren)', 'name = "Ren"', 'rename = Ren']))
                    elif c < 0.48:
                        vname = None
                        vparams.append(pick(r, ['name = false', 'name(false)', 'name = ""']))
                named = style_for(v, vparams, v.shape == 'named', nameless=(vname is None and tname is None))
            nameless = (t.kind == 'enum' and vname is None and tname is None) or (t.kind == 'struct' and tname is None)
            shown = []
            for i, f in enumerate(v.fields):
                c = r.random()
                ps = []
                key = f.name if f.name is not None else '_%d' % i
                meth = False
                if not noparam:
                    if c < 0.2:
                        f.at['_metas'] = [pick(r, ['Debug(ignore)', 'Debug = false', 'Debug(ignore = true)', 'Debug(ignore(true))'])]
                        if not f.ft.native and r.random() < 0.25:
                            f.at['_metas'] = [sp_ignore_with_method(r, 'Debug', 'm_fmt')]
                        continue
                    if c < 0.45 and not f.ft.native:
                        meth = True
                        ps.append(pick(r, ['method(%s)', 'method = %s', 'method = "%s"', 'method("%s")']) % sp_path(r, 'm_fmt'))
                    if named and r.random() < (0.6 if nameless else 0.3):
                        key = 'k%d' % i
                        ps.append(pick(r, ['name = k%d', 'name(k%d)', 'name = "k%d"', 'rename = k%d', 'rename("k%d")']) % i)
                    if not ps and r.random() < 0.2:
                        f.at['_metas'] = [pick(r, ['Debug(ignore = false)', 'Debug(ignore(false))', 'Debug = true'])]
                    elif ps and r.random() < 0.2:
                        ps.append(pick(r, ['ignore = false', 'ignore(false)']))
                    if ps:
                        r.shuffle(ps)
                        f.at['_metas'] = ['Debug(%s)' % ', '.join(ps)]
                        if ps == ['name = k%d' % i] and r.random() < 0.5:
                            f.at['_metas'] = ['Debug = k%d' % i]
                shown.append((i, key, meth))
            if vparams:
                r.shuffle(vparams)
                v.at['_metas'] = ['Debug(%s)' % ', '.join(vparams)]
                if vparams == ['name = Ren'] and r.random() < 0.5:
                    v.at['_metas'] = ['Debug = Ren']
            # effective name
            if t.kind == 'struct':
                eff = tname
            else:
                eff = '%s::%s' % (tname, vname) if (tname and vname) else (tname or vname)
            plans.append((v, eff, named, shown))
        if tparams:
            r.shuffle(tparams)
            t.type_attrs = ['Debug(%s)' % ', '.join(tparams)]
            if tparams == ['name = Zz'] and r.random() < 0.5:
                t.type_attrs = ['Debug = Zz']
        else:
            t.type_attrs = ['Debug']
        # requests educe refuses: nothing to show and no name
        for v, eff, named, shown in plans:
            if eff is None and (v.shape == 'unit' or not shown):
                return None
        arms = []
        for v, eff, named, shown in plans:
            def val(i, meth):
                return '&Wm(p%d)' % i if meth else 'p%d' % i
            if v.shape == 'unit' and t.kind == 'enum':
                body = 'f.write_str("%s")' % eff
            elif named:
                if eff is not None:
                    body = 'f.debug_struct("%s")' % eff + ''.join('.field("%s", %s)' % (k, val(i, m)) for i, k, m in shown) + '.finish()'
                else:
                    body = 'f.debug_map()' + ''.join('.entry(&Raw("%s"), %s)' % (k, val(i, m)) for i, k, m in shown) + '.finish()'
            else:
                body = 'f.debug_tuple("%s")' % (eff or '') + ''.join('.field(%s)' % val(i, m) for i, k, m in shown) + '.finish()'
            arms.append('%s => %s' % (pat(t, v, 'p'), body))
        vf, nv = values_fn(t, r, cap=24)
        fns = [vf, show_fn(t),
               'pub fn o_fmt(x: &T, f: &mut ::core::fmt::Formatter<\'_>) -> ::core::fmt::Result { match x { %s } }' % ', '.join(arms)]
        checks = ['let g = format!("{:?}", a); let e = format!("{:?}", Fm(|f: &mut ::core::fmt::Formatter<\'_>| o_fmt(a, f)));'
                  ' out.check(g == e, "%s", "debug", || format!("{{:?}} of {} = {:?} expected {:?}", show(a), g, e));' % tid,
                  'let g = format!("{:#?}", a); let e = format!("{:#?}", Fm(|f: &mut ::core::fmt::Formatter<\'_>| o_fmt(a, f)));'
                  ' out.check(g == e, "%s", "debug_alt", || format!("{{:#?}} of {} = {:?} expected {:?}", show(a), g, e));' % tid,
                  'let g = format!("{:8?}", a); let e = format!("{:8?}", Fm(|f: &mut ::core::fmt::Formatter<\'_>| o_fmt(a, f)));'
                  ' out.check(g == e, "%s", "debug_width", || format!("{{:8?}} of {} = {:?} expected {:?}", show(a), g, e));' % tid]
        twin = ''
        if noparam and t.kind == 'struct' or (noparam and t.kind == 'enum' and False):
            pass
        if noparam:
            # byte-identical to #[derive(Debug)] (for an enum: with the default, disabled, enum name)
            t2 = Ty(tid, t.kind, t.variants)
            saved = [(f, f.at) for v in t.variants for f in v.fields]
            decl = type_decl_plain(t)
            twin = 'pub mod twin { use crate::support::*; #[derive(Debug)] %s\n %s }' % (decl, vf.replace('pub fn values', 'pub fn values'))
            checks_tw = ('let tw = twin::values(); for (i, a) in vs.iter().enumerate() { let g = format!("{:?}", a); let e = format!("{:?}", tw[i]);'
                         ' out.check(g == e, "%s", "debug_vs_derive", || format!("{{:?}} = {:?} but #[derive(Debug)] gives {:?}", g, e));'
                         ' let g = format!("{:#?}", a); let e = format!("{:#?}", tw[i]);'
                         ' out.check(g == e, "%s", "debug_alt_vs_derive", || format!("{{:#?}} = {:?} but #[derive(Debug)] gives {:?}", g, e)); }' % (tid, tid))
        else:
            checks_tw = ''
        fns.append(twin)
        resline = ('let mut res = String::new(); for a in &vs { res.push_str(&format!("{:?}", a).escape_default().to_string()); res.push(\'\\u{1}\'); } println!("RES\\t%s\\tdebug\\t{}", res);'
                   ' let mut res = String::new(); for a in &vs { res.push_str(&format!("{:#?}", a).escape_default().to_string()); res.push(\'\\u{1}\'); } println!("RES\\t%s\\tdebug_alt\\t{}", res);' % (tid, tid))
        fns.append('pub fn run(out: &mut Out) { let vs = values(); for a in &vs { %s } %s %s }' % (' '.join(checks), checks_tw, resline))
        return t, module(t, '\n'.join(fns), nv), dict(values=nv, noparam=noparam, xops=['debug', 'debug_alt'])

def type_decl_plain(t):
    """the bare type definition (no attributes)"""
    def fd(v):
        if v.shape == 'unit':
            return ''
        if v.shape == 'named':
            return ' { ' + ', '.join('%s: %s' % (f.name, f.ft.rust) for f in v.fields) + ' }'
        return '(' + ', '.join(f.ft.rust for f in v.fields) + ')'
    if t.kind == 'struct':
        v = t.variants[0]
        return 'pub struct T%s%s' % (fd(v), '' if v.shape == 'named' else ';')
    return 'pub enum T { %s }' % ', '.join('%s%s' % (v.name, fd(v)) for v in t.variants)

class CloneSuite(Suite):
    name = 'clone'
    def make(self, r, tid):
        copy = r.random() < 0.3
        ftgen = (lambda r, i: ft_C(0 if r.random() < 0.5 else i)) if copy else None
        t = gen_shape(r, tid, ftgen=ftgen)
        t.type_attrs = [pick(r, ['Clone, Copy', 'Copy, Clone'])] if copy else ['Clone']
        copy_alone = copy and r.random() < 0.3          # `#[educe(Copy)]` beside a hand-written (bitwise) Clone
        if copy_alone:
            t.type_attrs = ['Copy']
        mname = 'm_clone_c' if copy else 'm_clone'
        anymethod = False
        for v in t.variants:
            for f in v.fields:
                f.at['c'] = 'plain'
                if r.random() < 0.3 and not (copy and t.kind == 'struct') and not copy_alone:
                    f.at['c'] = 'method'; anymethod = True
                    f.at['_metas'] = [sp_method(r, 'Clone', mname)]
        bitwise = copy and not anymethod
        arms, logs = [], []
        for v in t.variants:
            ex, lg = [], []
            for i, f in enumerate(v.fields):
                con = f.ft.rust[0]
                if f.at['c'] == 'method':
                    ex.append('%s(p%d.0.wrapping_add(50))' % (con, i))
                    lg.append('format!("m_clone %s{} {}", p%d.k(), p%d.0)' % (con, i, i))
                else:
                    ex.append('%s(p%d.0)' % (con, i))
                    lg.append('format!("clone %s{} {}", p%d.k(), p%d.0)' % (con, i, i))
            arms.append('%s => %s' % (pat(t, v, 'p'), build(t, v, ex)))
            logs.append('%s => vec![%s]' % (pat(t, v, 'p'), ', '.join([] if bitwise else lg)))
        vf, nv = values_fn(t, r, cap=20)
        if copy_alone:
            t.xvalues = None        # no Clone item in the expansion to cross-check
        fns = [vf, show_fn(t)] + (['impl ::core::clone::Clone for T { fn clone(&self) -> Self { *self } }'] if copy_alone else []) + [
               'pub fn o_clone(x: &T) -> T { match x { %s } }' % ', '.join(arms),
               'pub fn o_log(x: &T) -> Vec<String> { match x { %s } }' % ', '.join(logs)]
        run = ('pub fn run(out: &mut Out) { let vs = values(); for a in &vs { let _ = take_log(); let g = ::core::clone::Clone::clone(a); let l = take_log(); let e = o_clone(a);'
               ' out.check(show(&g) == show(&e), "%s", "clone", || format!("clone({}) = {} expected {}", show(a), show(&g), show(&e)));'
               ' let el = o_log(a); out.check(l == el, "%s", "clone_calls", || format!("clone({}) called {:?} expected {:?}", show(a), l, el)); }'
               ' let n = vs.len(); for i in 0..n { for j in 0..n { let mut x = values().swap_remove(i); let shown = show(&x); ::core::clone::Clone::clone_from(&mut x, &vs[j]); let e = o_clone(&vs[j]);'
               ' out.check(show(&x) == show(&e), "%s", "clone_from", || format!("{}.clone_from({}) = {} expected {}", shown, show(&vs[j]), show(&x), show(&e))); } } }' % (tid, tid, tid))
        resline = (' let mut res = String::new(); for a in &vs { let _ = take_log(); let g = ::core::clone::Clone::clone(a); let l = take_log(); res.push_str(&format!("{}|{}", show(&g), l.join(";"))); res.push(\'\\u{1}\'); } println!("RES\\t%s\\tclone\\t{}", res);'
                   ' let mut res = String::new(); for i in 0..n { for j in 0..n { let mut x = values().swap_remove(i); ::core::clone::Clone::clone_from(&mut x, &vs[j]); res.push_str(&show(&x)); res.push(\'\\u{1}\'); } } println!("RES\\t%s\\tclone_from\\t{}", res); }' % (tid, tid))
        run = run[:-1] + resline
        if copy:
            run = run[:-1] + ' fn is_copy<X: Copy>() {} is_copy::<T>(); }'
        fns.append(run)
        return t, module(t, '\n'.join(fns), nv), dict(values=nv, copy=copy, xops=['clone', 'clone_from'])

DEF_TYPES = [  # (rust type, [(attribute value text, expected expr)], plain default expr)
    ('u8', [('5', '5u8'), ('b\'a\'', "b'a'"), ('0x10', '16u8'), ('7u8', '7u8')], '0u8'),
    ('u16', [('300', '300u16'), ('9u16', '9u16')], '0u16'),
    ('i64', [('12', '12i64'), ('1_000', '1000i64'), ('-12', '-12i64')], '0i64'),
    ('i8', [('-7', '-7i8'), ('5', '5i8')], '0i8'),
    ('i16', [('-3', '-3i16'), ('7', '7i16'), ('-300', '-300i16')], '0i16'),
    ('i32', [('-3', '-3i32'), ('70000', '70000i32')], '0i32'),
    ('isize', [('-9', '-9isize'), ('4', '4isize')], '0isize'),
    ('i128', [('-77', '-77i128')], '0i128'),
    ('u64', [('3u8', '3u64')] if False else [('3', '3u64')], '0u64'),
    ('f64', [('1.5', '1.5f64'), ('2', '2f64'), ('2.5f64', '2.5f64'), ('-3', '-3f64'), ('-0.5', '-0.5f64')], '0f64'),
    ('f32', [('1.5', '1.5f32'), ('-1.5', '-1.5f32')], '0f32'),
    ('bool', [('true', 'true'), ('false', 'false')], 'false'),
    ('char', [("'x'", "'x'")], "'\\0'"),
    ("&'static str", [('"hi"', '"hi"')], '""'),
    ('String', [('"hi"', 'String::from("hi")'), ('String::from("yo")', 'String::from("yo")')], 'String::new()'),
    ('N', [('-4', 'N(-4)'), ('6', 'N(6)'), ('-19', 'N(-19)')], 'N(77)'),
    ('Fl', [('-0.5', 'Fl(-0.5)'), ('2.5', 'Fl(2.5)')], 'Fl(0.25)'),
    ('f64', [('-3', '-3f64'), ('-8', '-8f64')], '0f64'),
    ('A<0>', [('A(9)', 'A(9)')], 'A(40)'),
    ('A<3>', [('A(9)', 'A(9)')], 'A(43)'),
    ('i128', [('77', '77i128')], '0i128'),
    ('Option<u8>', [('Some(3)', 'Some(3u8)'), ('None', 'None')], 'None'),
    # a type WITHOUT a Default impl: legal exactly where the field has an expression of its own
    ('Nd', [('Nd(3)', 'Nd(3)'), ('Nd(4)', 'Nd(4)')], None),
    ('Nd', [('Nd(5)', 'Nd(5)')], None),
]
def sp_default_value(r, val):
    simple = re.match(r'^-?[\w.\'"]+$', val) is not None and not val.lstrip('-')[0].isalpha() or val in ('true', 'false')
    forms = ['Default(expression = %s)' % val, 'Default(expression(%s))' % val, 'Default(expr = %s)' % val, 'Default(expr(%s))' % val]
    if simple or val.startswith("b'") or val.startswith('"') or val.startswith("'"):
        forms += ['Default = %s' % val] * 3
    return pick(r, forms)

class DefaultSuite(Suite):
    name = 'default'
    def make(self, r, tid):
        def ftgen(r, i):
            # under hostile names the user's own `Option` / `String` / `Some(..)` would be the shadowing items
            pool = [d for d in DEF_TYPES if not HOSTILE[0] or not re.search(r'Option|String', d[0])]
            ty, vals, dflt = pick(r, pool)
            if r.random() < 0.2:
                # integer types narrower / other than the literal fallback i32: a bare negative literal must stay a literal
                ty, vals, dflt = pick(r, [d for d in DEF_TYPES if d[0] in ('i8', 'i16', 'isize', 'i64', 'i128')])
                vals = [v for v in vals if v[0].startswith('-')] or vals
            ft = FT(ty, [], native=True)
            ft.defs, ft.dflt = vals, dflt
            return ft
        t = gen_shape(r, tid, ftgen=ftgen, min_variants=1)
        tparams = []
        new = r.random() < 0.4
        own_new = False
        if new:
            tparams.append(pick(r, ['new', 'new = true', 'new(true)']))
        elif r.random() < 0.3:
            # `new` switched off explicitly: the type may then have a `new` of its own
            tparams.append(pick(r, ['new = false', 'new(false)']))
            own_new = True
        texpr = None
        xscope = True       # model cross-check: every designated value is a literal / A(n) / Some(n) / None or the type's default
        if r.random() < 0.12:
            # type-level expression: build an explicit value
            v = pick(r, t.variants)
            texpr = build(t, v, [(f.ft.dflt or 'Nd(1)') if f.ft.rust not in ('A<0>', 'A<3>') else 'A(1)' for f in v.fields])
            expected = texpr
            tparams.append(pick(r, ['expression = %s', 'expression(%s)', 'expr = %s', 'expr(%s)']) % texpr)
        else:
            dv = pick(r, t.variants)
            if t.kind == 'enum' and (len(t.variants) > 1 or r.random() < 0.5):
                dv.at['_metas'] = ['Default']
            ex = []
            for f in dv.fields:
                if r.random() < 0.55 or f.ft.dflt is None:
                    val, exp = pick(r, f.ft.defs)
                    f.at['_metas'] = [sp_default_value(r, val)]
                    if val.startswith('String::') or val.startswith('Nd('):
                        xscope = False          # a call: opaque to the model's interpreter (user expressions are tokens)
                    ex.append(exp)
                else:
                    ex.append(f.ft.dflt)
            expected = build(t, dv, ex)
        r.shuffle(tparams)
        t.type_attrs = ['Default(%s)' % ', '.join(tparams)] if tparams else ['Default']
        fns = [show_fn(t), 'pub fn o_default() -> T { %s }' % expected]
        checks = ['let g = <T as ::core::default::Default>::default(); let e = o_default(); out.check(show(&g) == show(&e), "%s", "default", || format!("default() = {} expected {}", show(&g), show(&e)));' % tid]
        if new:
            checks.append('let g = T::new(); let e = o_default(); out.check(show(&g) == show(&e), "%s", "new", || format!("new() = {} expected {}", show(&g), show(&e)));' % tid)
            if t.kind != 'union' and r.random() < 0.4:
                # the derive site has an inherent `default` of its own: `new()` must still be the trait's value
                wv = pick(r, t.variants)
                wrong = build(t, wv, [(f.ft.defs[-1][1] if f.ft.defs else f.ft.dflt) for f in wv.fields])
                if 'None' in [str(f.ft.dflt) for f in wv.fields] and False:
                    wrong = expected
                if wrong != expected:
                    fns.append('impl T { pub fn default() -> T { %s } }' % wrong)
        if own_new:
            fns.append('impl T { pub fn new() -> T { o_default() } }')
        xops = []
        if xscope and texpr is None:
            t.xvalues = []
            xops = ['default']
            checks.append('println!("RES\\t%s\\tdefault\\t{}\\u{1}", show(&<T as ::core::default::Default>::default()));' % tid)
        fns.append('pub fn run(out: &mut Out) { %s }' % ' '.join(checks))
        return t, module(t, '\n'.join(fns), 1), dict(values=1, new=new, xops=xops)

class DerefSuite(Suite):
    name = 'deref'
    def make(self, r, tid):
        target_k = r.randrange(3)
        t = gen_shape(r, tid, unit_ok=False, ftgen=lambda r, i: ft_A(r.randrange(3)))
        mut = r.random() < 0.6
        ref_field = (not mut) and r.random() < 0.45
        mut_ref = ref_field and r.random() < 0.5       # `&mut A` instead of `&A`: still a reference to the referent
        plans = []
        for v in t.variants:
            n = len(v.fields)
            if n == 0:
                return None
            di = r.randrange(n)
            mi = r.randrange(n) if r.random() < 0.5 else di
            v.fields[di].ft = ft_A(target_k)
            v.fields[mi].ft = ft_A(target_k)
            if ref_field:
                v.fields[di].ft = FT("&'static A<%d>" % target_k, ['&A(0)', '&A(1)'])
                if mut_ref:
                    v.fields[di].ft = FT("&'static mut A<%d>" % target_k, ['Box::leak(Box::new(A(0)))', 'Box::leak(Box::new(A(1)))'])
            metas = {}
            if n > 1 or r.random() < 0.3:
                metas.setdefault(di, []).append('Deref')
                if mut:
                    metas.setdefault(mi, []).append('DerefMut')
            elif mut and n == 1:
                mi = di
            for i, ms in metas.items():
                r.shuffle(ms)
                if r.random() < 0.5:
                    v.fields[i].at['_metas'] = [', '.join(ms)]
                else:
                    v.fields[i].at['_metas'] = list(ms)
            plans.append((v, di, mi if mut else None))
        ta = ['Deref'] + (['DerefMut'] if mut else [])
        r.shuffle(ta)
        t.type_attrs = [', '.join(ta)]
        tgt = 'A<%d>' % target_k
        darms = ['%s => %s as *const %s' % (pat(t, v, 'p', only={di}), ('&**p%d' % di) if ref_field else 'p%d' % di, tgt) for v, di, mi in plans]
        vf, nv = values_fn(t, r, cap=16, refs=True)
        fns = [vf, show_fn(t), 'pub fn o_deref(x: &T) -> *const %s { match x { %s } }' % (tgt, ', '.join(darms))]
        # model cross-check: WHICH field's storage (`key`), or which reference field's referent (`*key`), an address is
        karms = []
        for v in t.variants:
            tests = []
            for i, f in enumerate(v.fields):
                key = f.name if f.name is not None else str(i)
                if REF_ATOM.match(f.ft.rust):
                    tests.append('if (&**p%d) as *const _ as *const u8 == g { return "*%s".to_string(); }' % (i, key))
                tests.append('if p%d as *const _ as *const u8 == g { return "%s".to_string(); }' % (i, key))
            karms.append('%s => { %s }' % (pat(t, v, 'p'), ' '.join(tests)))
        fns.append('pub fn key_of(x: &T, g: *const u8) -> String { match x { %s } "?".to_string() }' % ', '.join(karms))
        fns.append('pub fn target_of<D: ::core::ops::Deref>(d: &D) -> (*const u8, usize) where D::Target: Sized { (::core::ops::Deref::deref(d) as *const D::Target as *const u8, ::core::mem::size_of::<D::Target>()) }')
        checks = ['for a in &vs { let g = ::core::ops::Deref::deref(a) as *const %s; let e = o_deref(a); out.check(g == e, "%s", "deref", || format!("&*{} has another address than the designated field", show(a)));'
                  ' let (g2, sz) = target_of(a); out.check(g2 == e as *const u8 && sz == ::core::mem::size_of::<%s>(), "%s", "deref_target", || format!("<T as Deref>::Target is not the designated field\'s (referent) type, or &*{} has another address", show(a))); }' % (tgt, tid, tgt, tid)]
        if mut:
            marms = ['%s => p%d as *mut %s' % (pat(t, v, 'p', only={mi}), mi, tgt) for v, di, mi in plans]
            warms = ['%s => { *p%d = A(99); }' % (pat(t, v, 'p', only={mi}), mi) for v, di, mi in plans]
            fns.append('pub fn o_deref_mut(x: &mut T) -> *mut %s { match x { %s } }' % (tgt, ', '.join(marms)))
            fns.append('pub fn o_write(x: &mut T) { match x { %s } }' % ', '.join(warms))
            checks.append('let n = vs.len(); for i in 0..n { let mut x = values().swap_remove(i); let e = o_deref_mut(&mut x); let g = ::core::ops::DerefMut::deref_mut(&mut x) as *mut %s;'
                          ' out.check(g == e, "%s", "deref_mut", || format!("&mut *{} has another address than the designated field", show(&x)));'
                          ' let mut y = values().swap_remove(i); o_write(&mut y); *::core::ops::DerefMut::deref_mut(&mut x) = A(99);'
                          ' out.check(show(&x) == show(&y), "%s", "deref_mut_write", || format!("after a write through &mut *x: {} expected {}", show(&x), show(&y))); }' % (tgt, tid, tid))
        xops = []
        if t.xvalues is not None:
            xops.append('deref')
            checks.append('let mut res = String::new(); for a in &vs { let g = ::core::ops::Deref::deref(a) as *const %s as *const u8; res.push_str(&key_of(a, g)); res.push(\'\\u{1}\'); } println!("RES\\t%s\\tderef\\t{}", res);' % (tgt, tid))
            if mut:
                xops += ['deref_mut', 'deref_mut_write']
                checks.append('let mut res = String::new(); for i in 0..vs.len() { let mut x = values().swap_remove(i); let g = ::core::ops::DerefMut::deref_mut(&mut x) as *mut %s as *const u8; res.push_str(&key_of(&x, g)); res.push(\'\\u{1}\'); } println!("RES\\t%s\\tderef_mut\\t{}", res);' % (tgt, tid))
                checks.append('let mut res = String::new(); for i in 0..vs.len() { let mut x = values().swap_remove(i); *::core::ops::DerefMut::deref_mut(&mut x) = A(99); res.push_str(&show(&x)); res.push(\'\\u{1}\'); } println!("RES\\t%s\\tderef_mut_write\\t{}", res);' % tid)
        fns.append('pub fn run(out: &mut Out) { let vs = values(); %s }' % ' '.join(checks))
        return t, module(t, '\n'.join(fns), nv), dict(values=nv, mut=mut, xops=xops)

class IntoSuite(Suite):
    name = 'into'
    def make(self, r, tid):
        t = gen_shape(r, tid, unit_ok=False, ftgen=lambda r, i: ft_A(r.randrange(4)), maxf=3)
        ntargets = pick(r, [1, 1, 2, 3])
        cands = ['B<0>', 'B<1>', 'B<2>', 'A<0>', 'A<1>', "&'static A<1>", "::core::option::Option<&'static A<2>>"]
        # targets whose spelling needs a space between two word-like tokens; the designated field has that very type
        exotic = {"&'static A<1>": FT("&'static A<1>", ['&A(0)', '&A(1)']),
                  "::core::option::Option<&'static A<2>>": FT("::core::option::Option<&'static A<2>>", ['None', 'Some(&A(1))'])}
        targets = r.sample(cands, ntargets)
        exact = lambda tg: tg.startswith('A') or tg in exotic
        # a reference target may be written without its (mandatory) 'static: educe reads `&T` as `&'static T`
        spell = lambda tg: tg.replace("&'static ", '&') if (tg.startswith('&') and r.random() < 0.4) else tg      # outermost reference only
        oracle = {}
        for v in t.variants:
            if not v.fields:
                return None
        # designated field per (target, variant); a field designated for an `A<J>` target has that very type
        des = {}
        for tg in targets:
            for v in t.variants:
                i = r.randrange(len(v.fields))
                des[(tg, v.name)] = i
                if tg.startswith('A'):
                    v.fields[i].ft = ft_A(int(tg[2]))
                elif tg in exotic:
                    v.fields[i].ft = exotic[tg]
        for tg in targets:
            for v in t.variants:
                n = len(v.fields)
                i = des[(tg, v.name)]
                if exact(tg) and v.fields[i].ft.rust != tg:
                    return None                      # overwritten by a later exact-type target: draw again
                if tg.startswith('B') and not v.fields[i].ft.rust.startswith('A<'):
                    return None                      # conversions exist from A<K> only
                same = [j for j, f in enumerate(v.fields) if f.ft.rust == tg]
                if n == 1:
                    mark = r.random() < 0.3
                elif same == [i]:
                    mark = r.random() < 0.4
                else:
                    mark = True
                f = v.fields[i]
                meth = False
                if mark:
                    if tg.startswith('A') and r.random() < 0.4:
                        meth = 'm_same'
                        f.at.setdefault('_metas', []).append(pick(r, ['Into(%s, method(%s))', 'Into(%s, method = %s)', 'Into(%s, method = "%s")', 'Into(%s, method("%s"))']) % (spell(tg), sp_path(r, 'm_same')))
                    elif tg.startswith('B') and r.random() < 0.4:
                        meth = True
                        f.at.setdefault('_metas', []).append(pick(r, ['Into(%s, method(%s))', 'Into(%s, method = %s)', 'Into(%s, method = "%s")', 'Into(%s, method("%s"))']) % (spell(tg), sp_path(r, 'm_into')))
                    else:
                        f.at.setdefault('_metas', []).append('Into(%s)' % spell(tg))
                oracle[(tg, v.name)] = (i, meth)
        ta = ['Into(%s)' % spell(tg) for tg in targets]
        if r.random() < 0.5:
            t.type_attrs = [', '.join(ta)]
        else:
            t.type_attrs = ta
        vf, nv = values_fn(t, r, cap=12)
        fns = [vf, show_fn(t)]
        checks = []
        for k, tg in enumerate(targets):
            arms = []
            for v in t.variants:
                i, meth = oracle[(tg, v.name)]
                f = v.fields[i]
                if meth == 'm_same':
                    e = 'm_same(p%d)' % i
                elif meth:
                    e = 'm_into(p%d)' % i
                elif f.ft.rust == tg:
                    e = 'p%d' % i
                else:
                    e = '::core::convert::Into::into(p%d)' % i
                arms.append('%s => %s' % (pat(t, v, 'p', only={i}), e))
            fns.append('pub fn o_into_%d(x: T) -> %s { match x { %s } }' % (k, tg, ', '.join(arms)))
            checks.append('for i in 0..n { let a = values().swap_remove(i); let shown = show(&a); let g: %s = ::core::convert::Into::into(a); let e = o_into_%d(values().swap_remove(i));'
                          ' out.check(sv(&g) == sv(&e), "%s", "into", || format!("Into::<%s>::into({}) = {} expected {}", shown, sv(&g), sv(&e))); }' % (tg, k, tid, tg))
        xops, xextra = [], {}
        if t.xvalues is not None and not any(tg in exotic for tg in targets):
            for k, tg in enumerate(targets):
                xops.append('into%d' % k); xextra['into%d' % k] = tg
                checks.append('let mut res = String::new(); for i in 0..n { let a = values().swap_remove(i); let g: %s = ::core::convert::Into::into(a); res.push_str(&sv(&g)); res.push(\'\\u{1}\'); } println!("RES\\t%s\\tinto%d\\t{}", res);' % (tg, tid, k))
        fns.append('pub fn run(out: &mut Out) { let n = values().len(); %s }' % ' '.join(checks))
        return t, module(t, '\n'.join(fns), nv), dict(values=nv, targets=targets, xops=xops, xextra=xextra)

UNION_XP = [0, 1, 2, 3, 5, 0x7f, 0x80, 0xc3, 0xff]
def union_xvalues(size):
    """the object representations of UnionSuite's `xvals()` for a union of `size` bytes (same formula as its `mk`:
    byte i = pattern * (i + 1) + i mod 256; then mk(3) with the last byte ^ 0x55), as the s-expression the model driver reads"""
    vals = [[(p * (i + 1) + i) % 256 for i in range(size)] for p in UNION_XP]
    last = [(3 * (i + 1) + i) % 256 for i in range(size)]
    last[-1] ^= 0x55
    vals.append(last)
    return '(' + ' '.join('(' + ' '.join(str(b) for b in v) + ')' for v in vals) + ')'

class UnionSuite(Suite):
    name = 'union'
    def make_not_copy(self, r, tid):
        # C20: Clone on a union is a bitwise copy and REQUIRES Copy fields: `*self` only compiles when Self: Copy.  With the
        # automatic bound switched off (or replaced), a union with a field that is not Copy must not get a compiling Clone.
        mode = pick(r, ['Clone(bound = false)', 'Clone(bound(false))', 'Clone(bound(X: ::core::clone::Clone))', 'Clone(bound = "X: ::core::clone::Clone")'])
        fs = [('a', '::core::mem::ManuallyDrop<X>')] + ([('b', 'u8')] if r.random() < 0.5 else []) + ([('c', '[u16; 2]')] if r.random() < 0.3 else [])
        r.shuffle(fs)
        t = Ty(tid, 'union', [])
        t.raw_decl = '#[derive(Educe)]\n#[educe(%s)]\npub union T<X> { %s }' % (mode, ', '.join('pub %s: %s' % f for f in fs))
        src = ('// %s\n#![allow(dead_code, unused_variables, unused_mut, unused_imports)]\nuse crate::support::*;\n'
               'pub mod ty {\n    #![deny(warnings)]\n    #![allow(dead_code, unused_imports)]\n    use educe::Educe;\n%s\n}\npub use ty::T;\n'
               'pub fn run(out: &mut Out) { let _ = |x: &T<::std::string::String>| ::core::clone::Clone::clone(x); out.check(true, "%s", "compile", || String::new()); }\n' % (tid, t.raw_decl, tid))
        return t, src, dict(values=1, traits=['Clone'], must_not_compile='union_clone_not_copy',
                            why='Clone on a union copies the bytes, which requires Copy fields; `*self` does not compile for a non-Copy Self')
    def make(self, r, tid):
        if r.random() < 0.06:
            return self.make_not_copy(r, tid)
        nf = pick(r, [1, 2, 3])
        pool = [('u8', 1), ('u16', 2), ('[u8; 3]', 3), ('u32', 4), ('C<1>', 1), ('[u16; 2]', 4), ('u64', 8), ('Off', 8), ('Off', 8)]
        fs = []
        for nm in r.sample(['a', 'b', 'c', 'x', 'state', 'f'], nf):
            ty, sz = pick(r, pool)
            f = Fld(nm, FT(ty, [])); f.size = sz
            fs.append(f)
        t = Ty(tid, 'union', [Var(None, 'named', fs)])
        size_expr = '::core::mem::size_of::<T>()'
        traits = r.sample(['Debug', 'PartialEq', 'Hash', 'Clone', 'Default'], pick(r, [1, 2, 3, 5]))
        name = 'T'
        ta = []
        dparams = ['unsafe']
        if 'Debug' in traits:
            c = r.random()
            if c < 0.3:
                name = None; dparams.append(pick(r, ['name = false', 'name(false)']))
            elif c < 0.5:
                name = 'Uu'; dparams.append(pick(r, ['name = Uu', 'name(Uu)', 'name = "Uu"']))
            ta.append('Debug(%s)' % ', '.join(dparams))
        if 'PartialEq' in traits:
            ta.append('PartialEq(unsafe)')
        if 'Hash' in traits:
            ta.append('Hash(unsafe)')
        if 'Clone' in traits:
            ta.append('Clone'); t.extra = 'impl Copy for T {}'
        dfield = None
        if 'Default' in traits:
            dfield = r.randrange(nf)
            if nf > 1 or r.random() < 0.4:
                fs[dfield].at['_metas'] = ['Default']
            uvals = {'u8': ('5', '5u8'), 'u16': ('300', '300u16'), 'u32': ('70000', '70000u32'), 'u64': ('9', '9u64'),
                     'C<1>': ('C(2)', 'C::<1>(2)'), 'Off': ('-5', '-5i64')}
            fs[dfield].dval = None
            if r.random() < 0.6 and fs[dfield].ft.rust in uvals:
                val, exp = uvals[fs[dfield].ft.rust]
                fs[dfield].dval = exp
                fs[dfield].at['_metas'] = [sp_default_value(r, val)]
                if fs[dfield].ft.rust == 'Off' and r.random() < 0.6:
                    fs[dfield].at['_metas'] = [pick(r, ['Default(expression(%s))', 'Default(expr(%s))', 'Default(expression(%s), )']) % val]
            union_new = r.random() < 0.4
            ta.append(pick(r, ['Default(new)', 'Default(new = true)']) if union_new else 'Default')
        r.shuffle(ta)
        t.type_attrs = [', '.join(ta)]
        big = max(f.size for f in fs)
        fns = [t.extra,
               'pub fn mk(pattern: u8) -> T { let mut x = ::core::mem::MaybeUninit::<T>::uninit(); unsafe { ::core::ptr::write_bytes(x.as_mut_ptr() as *mut u8, 0, %s);'
               ' let p = x.as_mut_ptr() as *mut u8; for i in 0..%s { *p.add(i) = pattern.wrapping_mul(i as u8 + 1).wrapping_add(i as u8); } x.assume_init() } }' % (size_expr, size_expr),
               'pub fn bytes(x: &T) -> &[u8] { unsafe { ::core::slice::from_raw_parts(x as *const T as *const u8, %s) } }' % size_expr]
        checks = []
        if 'PartialEq' in traits:
            checks.append('for p in [0u8, 1, 2, 3, 0x7f, 0x80, 0xc3, 0xff] { for q in [0u8, 1, 2, 3, 0x7f, 0x80, 0xc3, 0xff] { let a = mk(p); let b = mk(q); let e = bytes(&a) == bytes(&b); out.check((a == b) == e, "%s", "union_eq", || format!("{:?} == {:?} expected {}", bytes(&a), bytes(&b), e)); } }' % tid)
            checks.append('{ let a = mk(3); let mut b = mk(3); unsafe { let p = &mut b as *mut T as *mut u8; let n = %s; *p.add(n - 1) ^= 0x55; } out.check(a != b, "%s", "union_eq_last_byte", || format!("values differing in their last byte compare equal")); }' % (size_expr, tid))
        if 'Hash' in traits:
            checks.append('for p in [0u8, 1, 2, 3, 5, 0x7f, 0x80, 0xc3, 0xff] { let a = mk(p); let mut g = Rec::default(); ::core::hash::Hash::hash(&a, &mut g); let mut e = Rec::default(); ::core::hash::Hash::hash(bytes(&a), &mut e); out.check(g.0 == e.0, "%s", "union_hash", || format!("hash fed {:?} expected {:?}", g.0, e.0)); }' % tid)
        if 'Debug' in traits:
            exp = 'format!("{:?}", Fm(|f: &mut ::core::fmt::Formatter<\'_>| f.debug_tuple("%s").field(&bytes(&a)).finish()))' % name if name else 'format!("{:?}", bytes(&a))'
            expa = exp.replace('{:?}', '{:#?}', 1)
            checks.append('for p in [0u8, 1, 2, 3, 5, 0x7f, 0x80, 0xc3, 0xff] { let a = mk(p); let g = format!("{:?}", a); let e = %s; out.check(g == e, "%s", "union_debug", || format!("{{:?}} = {:?} expected {:?}", g, e));'
                          ' let g = format!("{:#?}", a); let e = %s; out.check(g == e, "%s", "union_debug_alt", || format!("{{:#?}} = {:?} expected {:?}", g, e)); }' % (exp, tid, expa, tid))
        if 'Clone' in traits:
            checks.append('for p in [0u8, 1, 2, 3, 5, 0x7f, 0x80, 0xc3, 0xff] { let a = mk(p); let b = ::core::clone::Clone::clone(&a); out.check(bytes(&a) == bytes(&b), "%s", "union_clone", || format!("clone {:?} of {:?}", bytes(&b), bytes(&a))); }' % tid)
        if 'Default' in traits:
            f = fs[dfield]
            checks.append('{ let d = <T as ::core::default::Default>::default(); let e = T { %s: %s }; let n = ::core::mem::size_of::<%s>();'
                          ' out.check(bytes(&d)[..n] == bytes(&e)[..n], "%s", "union_default", || format!("default() initialised {:?} expected field %s = {:?}", &bytes(&d)[..n], &bytes(&e)[..n])); }'
                          % (f.name, f.dval or '::core::default::Default::default()', f.ft.rust, tid, f.name))
            if union_new:
                checks.append('{ let d = T::new(); let e = <T as ::core::default::Default>::default(); let n = ::core::mem::size_of::<%s>();'
                              ' out.check(bytes(&d)[..n] == bytes(&e)[..n], "%s", "union_default", || format!("new() initialised {:?} but default() {:?}", &bytes(&d)[..n], &bytes(&e)[..n])); }' % (f.ft.rust, tid))
                if r.random() < 0.5:
                    fns.append('impl T { pub fn default() -> T { mk(9) } }     // an inherent `default` at the derive site')
        # implementation = model under Sem/Interp.v: the real code's results on fixed byte patterns (UNION_XP, and
        # mk(3) with its last byte flipped), to be compared with the extracted model's (RunI0.v: model_union_*)
        # on the same bytes; size_of::<T>() is printed first and fed back (run(): union_xvalues)
        xs = ', '.join('%du8' % p for p in UNION_XP)
        fns.append('pub fn xvals() -> Vec<T> { let mut v: Vec<T> = [%s].iter().map(|&p| mk(p)).collect(); let mut b = mk(3);'
                   ' unsafe { let p = &mut b as *mut T as *mut u8; let n = %s; *p.add(n - 1) ^= 0x55; } v.push(b); v }' % (xs, size_expr))
        xops = []
        checks.append('let vs = xvals(); println!("RES\\t%s\\tunion_size\\t{}", %s);' % (tid, size_expr))
        if 'PartialEq' in traits:
            xops.append('union_eq')
            checks.append('let mut res = String::new(); for a in &vs { for b in &vs { res.push(if a == b { \'1\' } else { \'0\' }); } } println!("RES\\t%s\\tunion_eq\\t{}", res);' % tid)
        if 'Hash' in traits:
            xops.append('union_hash')
            checks.append('let mut res = String::new(); for a in &vs { let mut g = Rec::default(); ::core::hash::Hash::hash(a, &mut g); res.push_str(&g.0.join(",")); res.push(\';\'); } println!("RES\\t%s\\tunion_hash\\t{}", res);' % tid)
        if 'Debug' in traits:
            xops += ['union_debug', 'union_debug_alt']
            checks.append('let mut res = String::new(); for a in &vs { res.push_str(&format!("{:?}", a).escape_default().to_string()); res.push(\'\\u{1}\'); } println!("RES\\t%s\\tunion_debug\\t{}", res);'
                          ' let mut res = String::new(); for a in &vs { res.push_str(&format!("{:#?}", a).escape_default().to_string()); res.push(\'\\u{1}\'); } println!("RES\\t%s\\tunion_debug_alt\\t{}", res);' % (tid, tid))
        if 'Clone' in traits:
            xops.append('union_clone')
            checks.append('let mut res = String::new(); for a in &vs { let b = ::core::clone::Clone::clone(a); res.push_str(&format!("{:?}", bytes(&b))); res.push(\'\\u{1}\'); } println!("RES\\t%s\\tunion_clone\\t{}", res);' % tid)
        fns.append('pub fn run(out: &mut Out) { %s }' % ' '.join(checks))
        return t, module(t, '\n'.join(fns), 6), dict(values=6, traits=traits, xops=xops)

SUITES.update({'debug': DebugSuite(), 'clone': CloneSuite(), 'default': DefaultSuite(), 'deref': DerefSuite(),
               'into': IntoSuite(), 'union': UnionSuite()})

# ---- C11 probes: which instantiations does the generated impl apply to?
BOUND_TRAITS = {
    'PartialEq': dict(probe='p_partial_eq', method='g_eq', ignore=True),
    'Hash': dict(probe='p_hash', method='g_hash', ignore=True),
    'PartialOrd': dict(probe='p_partial_ord', method='g_pcmp', ignore=True, manual=['PartialEq']),
    'Ord': dict(probe='p_ord', method='g_cmp', ignore=True, manual=['PartialEq', 'Eq', 'PartialOrd']),
    'Debug': dict(probe='p_debug', method='g_fmt', ignore=True),
    'Clone': dict(probe='p_clone', method='g_clone', ignore=False),
    'Default': dict(probe='p_default', method=None, ignore=False, expr='g_default()'),
    'Eq': dict(probe='p_eq', method=None, ignore=False, manual=['PartialEq']),
    'Copy': dict(probe='p_copy', method=None, ignore=False, manual=['Clone']),
}
MANUAL_IMPL = {
    'PartialEq': 'impl<%(g)s> ::core::cmp::PartialEq for T<%(a)s> { fn eq(&self, _: &Self) -> bool { true } }',
    'Eq': 'impl<%(g)s> ::core::cmp::Eq for T<%(a)s> {}',
    'PartialOrd': 'impl<%(g)s> ::core::cmp::PartialOrd for T<%(a)s> { fn partial_cmp(&self, _: &Self) -> Option<Ordering> { None } }',
    'Clone': 'impl<%(g)s> ::core::clone::Clone for T<%(a)s> { fn clone(&self) -> Self { loop {} } }',
}

class BoundsSuite(Suite):
    name = 'bounds'
    def make(self, r, tid):
        if r.random() < 0.2:
            return self.make_into(r, tid)
        if r.random() < 0.1:
            return self.make_union(r, tid)
        trait = pick(r, list(BOUND_TRAITS))
        info = BOUND_TRAITS[trait]
        nparams = pick(r, [1, 2, 2, 3])
        params = ['X', 'Y', 'Z'][:nparams]
        def ftgen(r, i):
            p = pick(r, params)
            forms = ['%s', '%s', 'Option<%s>' if trait != 'Default' else '%s']
            if trait != 'Default':
                forms.append("&'static %s")      # `&X: Clone / Copy` holds for every X; `&X: Debug / PartialEq / ...` iff X does
            return FT(pick(r, forms) % p, [])
        kinds = ('struct', 'enum')
        t = gen_shape(r, tid, kinds=kinds, ftgen=ftgen, unit_ok=(trait not in ('Default',) or True), maxf=3)
        dvar = None
        type_expr = False
        if trait == 'Default':
            if t.kind == 'enum':
                dvar = pick(r, t.variants)
                if len(t.variants) > 1 or r.random() < 0.5:
                    dvar.at['_metas'] = ['Default']
            # a type-level expression: no field is defaulted at all
            type_expr = r.random() < 0.2
            if type_expr and dvar is not None:
                dvar.at.pop('_metas', None)
        for v in t.variants:
            for f in v.fields:
                f.param = re.search(r'[XYZ]', f.ft.rust).group(0)
        params = sorted(set(f.param for v in t.variants for f in v.fields))
        nparams = len(params)
        if not params:
            return None
        mode = pick(r, ['auto', 'auto', 'auto', 'all', 'custom'])
        needed = set()
        for v in t.variants:
            for f in v.fields:
                c = r.random()
                deleg = True
                if info['ignore'] and c < 0.3:
                    f.at['_metas'] = [sp_ignore(r, trait)]; deleg = False
                elif info['method'] and c < 0.55:
                    f.at['_metas'] = [sp_method(r, trait, info['method'])]; deleg = False
                elif info.get('expr') and c < 0.5 and not type_expr and (dvar is None or v is dvar):
                    f.at['_metas'] = [pick(r, ['Default(expression = %s)', 'Default(expr(%s))']) % info['expr']]; deleg = False
                if trait == 'Default' and (type_expr or (dvar is not None and v is not dvar)):
                    deleg = False                      # only the fields of the default variant are defaulted; none under a type-level expression
                if deleg and not (f.ft.rust.startswith('&') and trait in ('Clone', 'Copy')):
                    needed.add(f.param)
        if trait == 'Debug' and t.kind == 'enum':
            # the display style of a variant does not change which fields are delegated
            for v in t.variants:
                if v.shape == 'unnamed' and v.fields and r.random() < 0.4:
                    v.at['_metas'] = [pick(r, ['Debug(named_field = true)', 'Debug(named_field(true))'])]
                elif v.shape == 'named' and v.fields and r.random() < 0.3:
                    v.at['_metas'] = [pick(r, ['Debug(named_field = false)', 'Debug(named_field(false))'])]
        tparam = []
        if mode == 'auto' and r.random() < 0.3:
            tparam = [pick(r, ['bound = true', 'bound(true)'])]        # the automatic mode, written out
        if mode == 'all':
            tparam = ['bound(*)']; needed = set(params)
        elif mode == 'custom':
            # a custom bound must at least cover what the body needs
            q = pick(r, params)
            want = sorted(needed | {q})
            btrait = {'PartialEq': '::core::cmp::PartialEq', 'Hash': '::core::hash::Hash', 'PartialOrd': '::core::cmp::PartialOrd', 'Ord': '::core::cmp::Ord',
                      'Debug': '::core::fmt::Debug', 'Clone': '::core::clone::Clone', 'Eq': '::core::cmp::PartialEq', 'Copy': '::core::marker::Copy',
                      'Default': '::core::default::Default'}[trait]
            preds = ', '.join('%s: %s' % (p, btrait) for p in want)
            tparam = [pick(r, ['bound(%s)', 'bound = "%s"']) % preds]; needed = set(want)
        if type_expr:
            tparam.append(pick(r, ['expression = g_default()', 'expr(g_default())']))
        if trait == 'Default' and r.random() < 0.3:
            tparam.append('new')
        r.shuffle(tparam)
        t.type_attrs = ['%s(%s)' % (trait, ', '.join(tparam))] if tparam else [trait]
        refp = set(f.param for v in t.variants for f in v.fields if f.ft.rust.startswith('&'))
        t.generic = [p_ + (": 'static" if p_ in refp else '') for p_ in params]
        g = ', '.join(params)
        # the hand-written supertrait impls are sometimes conditional on a marker (`X: Mk`) the field bounds do not imply:
        # the educed impl must then carry `Self: Supertrait` ("together with the trait's supertraits on the type itself")
        # PartialOrd beside an EDUCED PartialEq (instead of a hand-written one): the supertrait predicate `Self: PartialEq` is then
        # what carries the PartialEq impl's own (field-wise) conditions into the PartialOrd impl
        educe_peq = trait == 'PartialOrd' and mode != 'custom' and r.random() < 0.5      # (a custom bound replaces the supertrait predicate too: the user's business)
        manual = [m for m in info.get('manual', []) if not (educe_peq and m == 'PartialEq')]
        if educe_peq:
            t.type_attrs.insert(r.randrange(2), 'PartialEq')
        cond = bool(manual) and mode == 'auto' and r.random() < 0.35
        gdecl = list(t.generic)
        if cond:
            gdecl[0] = gdecl[0] + (' + Mk' if ':' in gdecl[0] else ': Mk')
        extra = [MANUAL_IMPL[m] % dict(g=', '.join(gdecl), a=g) for m in manual]
        peq_params = set(f.param for v in t.variants for f in v.fields) if educe_peq else set()
        checks = []
        # Half implements the weaker trait of each companion pair only: a bound on the stronger one shows;
        # Full implements every trait but not the marker Mk
        strong = trait in ('Ord', 'Copy')      # a stand-alone Eq asks PartialEq of the field types (README: 'bound to the PartialEq trait')
        for combo in itertools.product(['Good', 'Bad', 'Half'] + (['Full'] if cond else []), repeat=nparams):
            exp = all((c in ('Good', 'Full') or (c == 'Half' and not strong)) for p, c in zip(params, combo) if p in needed)
            if cond and combo[0] != 'Good':
                exp = False
            if educe_peq and not all(c in ('Good', 'Half') for p, c in zip(params, combo) if p in peq_params):
                exp = False         # Self: PartialEq does not hold
            inst = 'T<%s>' % ', '.join(combo)
            checks.append('{ use crate::support::%s::Fallback as _; let g = crate::support::%s::P::<%s>::YES; out.check(g == %s, "%s", "impl_applies", || format!("%s: %s is {} but the delegated fields say %s", g)); }'
                          % (info['probe'], info['probe'], inst, 'true' if exp else 'false', tid, inst, trait, 'true' if exp else 'false'))
        body = '\n'.join(extra + ['pub fn run(out: &mut Out) { %s }' % ' '.join(checks)])
        return t, module(t, body, 1), dict(values=2 ** nparams, trait=trait, mode=mode)

def _make_into(self, r, tid):
    """Into: each target's impl is bounded by the conversion of ITS designated field only"""
    kind = pick(r, ['struct', 'enum'])
    params = ['X', 'Y']
    targets = ['B<0>', 'B<1>']
    def mkfields(shape):
        # field 0 : X designated for B<0>, field 1 : Y designated for B<1> (optionally through a method), + a decoy
        fs = [Fld('a' if shape == 'named' else None, FT('X', [])), Fld('b' if shape == 'named' else None, FT('Y', []))]
        if r.random() < 0.5:
            fs.append(Fld('c' if shape == 'named' else None, FT('u8', [])))
        return fs
    need = {'B<0>': set(), 'B<1>': set()}
    def mark(fs):
        for i, tg, p in ((0, 'B<0>', 'X'), (1, 'B<1>', 'Y')):
            if r.random() < 0.3:
                fs[i].at['_metas'] = fs[i].at.get('_metas', []) + ['Into(%s, method(g_into))' % tg]
            else:
                fs[i].at['_metas'] = fs[i].at.get('_metas', []) + ['Into(%s)' % tg]
                need[tg].add(p)
    if kind == 'struct':
        shape = pick(r, ['named', 'unnamed'])
        fs = mkfields(shape); mark(fs)
        t = Ty(tid, 'struct', [Var(None, shape, fs)])
    else:
        vs = []
        for vn in r.sample(VAR_NAMES, pick(r, [1, 2])):
            shape = pick(r, ['named', 'unnamed'])
            fs = mkfields(shape); mark(fs)
            vs.append(Var(vn, shape, fs))
        t = Ty(tid, 'enum', vs)
    t.type_attrs = ['Into(B<0>)', 'Into(B<1>)'] if r.random() < 0.5 else ['Into(B<0>), Into(B<1>)']
    if r.random() < 0.5:
        t.type_attrs.reverse() if len(t.type_attrs) == 2 else None
    t.generic = params
    checks = []
    for tg, probe in (('B<0>', 'p_into_b0'), ('B<1>', 'p_into_b1')):
        for combo in itertools.product(['Good', 'Bad'], repeat=2):
            exp = all(c == 'Good' for p, c in zip(params, combo) if p in need[tg])
            inst = 'T<%s>' % ', '.join(combo)
            checks.append('{ use crate::support::%s::Fallback as _; let g = crate::support::%s::P::<%s>::YES; out.check(g == %s, "%s", "impl_applies", || format!("%s: Into<%s> is {} but the designated fields say %s", g)); }'
                          % (probe, probe, inst, 'true' if exp else 'false', tid, inst, tg, 'true' if exp else 'false'))
    body = 'pub fn run(out: &mut Out) { %s }' % ' '.join(checks)
    return t, module(t, body, 1), dict(values=8, trait='Into', mode='auto')
BoundsSuite.make_into = _make_into

def _make_union_where(self, r, tid):
    """a generic union whose bound sits in a where-clause: every impl (the companions too) must repeat it"""
    ta = pick(r, ['PartialEq(unsafe), Eq', 'Eq, PartialEq(unsafe)', 'PartialEq(unsafe)', 'Hash(unsafe), PartialEq(unsafe), Eq', 'Copy, Clone', 'Debug(unsafe), Clone, Copy', 'Default, Clone, Copy'])
    hdr = pick(r, ['<X> where X: Copy', "<'a, X, const M: usize> where X: Copy + 'a, [u8; M]: Sized", '<X: Copy, Y> where Y: Copy'])
    fields = {'<X> where X: Copy': 'pub a: X, pub c: u8', "<'a, X, const M: usize> where X: Copy + 'a, [u8; M]: Sized": "pub a: X, pub r: &'a u8, pub arr: [u8; M]",
              '<X: Copy, Y> where Y: Copy': 'pub a: X, pub b: Y'}[hdr]
    if 'Default' in ta:
        fields = fields.replace('pub a: X', '#[educe(Default = 7)] pub a: u8 , pub x: X', 1)
    inst = {'<X> where X: Copy': 'T<Good>', "<'a, X, const M: usize> where X: Copy + 'a, [u8; M]: Sized": "T<'static, Good, 3>", '<X: Copy, Y> where Y: Copy': 'T<Good, u8>'}[hdr]
    t = Ty(tid, 'union', [])
    t.raw_decl = '#[derive(Educe)]\n#[educe(%s)]\npub union T%s { %s }' % (ta, hdr, fields)
    uses = []
    if 'Eq' in ta.replace('PartialEq', ''):
        uses.append('fn is_eq<E: ::core::cmp::Eq>() {} is_eq::<%s>();' % inst)
    if 'PartialEq' in ta:
        uses.append('fn is_peq<E: ::core::cmp::PartialEq>() {} is_peq::<%s>();' % inst)
    if 'Clone' in ta:
        uses.append('fn is_cc<E: ::core::clone::Clone + ::core::marker::Copy>() {} is_cc::<%s>();' % inst)
    if 'Hash' in ta:
        uses.append('fn is_h<E: ::core::hash::Hash>() {} is_h::<%s>();' % inst)
    if 'Debug' in ta:
        uses.append('fn is_d<E: ::core::fmt::Debug>() {} is_d::<%s>();' % inst)
    if 'Default' in ta:
        uses.append('fn is_df<E: ::core::default::Default>() {} is_df::<%s>();' % inst)
    body = 'pub fn run(out: &mut Out) { %s out.check(true, "%s", "compile", || String::new()); }' % (' '.join(uses), tid)
    return t, module(t, body, 1), dict(values=1, trait='UnionWhere', mode='auto')

def _make_union_bounds(self, r, tid):
    """generic unions: stand-alone Eq (beside a hand-written PartialEq) and Copy + Clone bound every field type"""
    if r.random() < 0.3:
        return _make_union_where(self, r, tid)
    trait = pick(r, ['Eq', 'CopyClone', 'Default'])
    params = ['X', 'Y'][:pick(r, [1, 2])]
    fs = [Fld(nm, FT('::core::mem::ManuallyDrop<%s>' % p, [])) for nm, p in zip(['a', 'b'], params)]
    if r.random() < 0.4:
        fs.append(Fld('c', FT('u8', [])))
    r.shuffle(fs)
    t = Ty(tid, 'union', [Var(None, 'named', fs)])
    t.generic = list(params)
    g = ', '.join(params)
    pre = ''
    if trait in ('CopyClone', 'Eq') and r.random() < 0.4:
        # a const parameter in front of the type parameters (and used by a field)
        t.generic = ['const M: usize'] + list(params)
        fs.append(Fld('arr', FT('[u8; M]', [])))
        g = 'const M: usize, ' + g
        pre = '3, '
    need_all = True
    if trait == 'Default':
        # only the chosen field is defaulted, and only when it has no expression of its own
        ch = pick(r, [f for f in fs if 'ManuallyDrop' in f.ft.rust])
        chp = re.search(r'<(\w)>', ch.ft.rust).group(1)
        withexpr = r.random() < 0.5
        ch.at['_metas'] = [pick(r, ['Default(expression = g_default())', 'Default(expr(g_default()))'])] if withexpr else ['Default']
        t.type_attrs = [pick(r, ['Default', 'Default(new)'])]
        extra = []
        probes = [('p_default', 'Default')]
        need_all = False
        needed_params = set() if withexpr else {chp}
    elif trait == 'Eq':
        t.type_attrs = ['Eq']
        extra = [MANUAL_IMPL['PartialEq'] % dict(g=g, a=('M, ' if pre else '') + ', '.join(params))]
        probes = [('p_eq', 'Eq')]
    else:
        # `bound(*)`: every type parameter (and only type parameters), here the same set as the automatic mode
        t.type_attrs = [pick(r, ['Copy, Clone', 'Clone, Copy', 'Copy, Clone(bound(*))', 'Clone(bound(*)), Copy', 'Copy, Clone(bound = true)'])]
        extra = []
        probes = [('p_copy', 'Copy'), ('p_clone', 'Clone')]
    checks = []
    for probe, tn in probes:
        for combo in itertools.product(['Good', 'Bad', 'Half'], repeat=len(params)):
            exp = all((c == 'Good' or (c == 'Half' and trait == 'Eq')) for c in combo)
            if not need_all:
                exp = all(c != 'Bad' for p_, c in zip(params, combo) if p_ in needed_params)
            inst = 'T<%s%s>' % (pre, ', '.join(combo))
            checks.append('{ use crate::support::%s::Fallback as _; let g = crate::support::%s::P::<%s>::YES; out.check(g == %s, "%s", "impl_applies", || format!("%s: %s is {} but the field types say %s", g)); }'
                          % (probe, probe, inst, 'true' if exp else 'false', tid, inst, tn, 'true' if exp else 'false'))
    body = '\n'.join(extra + ['pub fn run(out: &mut Out) { %s }' % ' '.join(checks)])
    return t, module(t, body, 1), dict(values=3 ** len(params), trait=trait, mode='auto')
BoundsSuite.make_union = _make_union_bounds

SUITES['bounds'] = BoundsSuite()

# ---- C12 / C01: rich generic parameter lists and user where-clauses must survive in every impl header
GEN_TRAITS = {
    'Debug': ('::core::fmt::Debug', 'let _ = format!("{:?}", x);'),
    'Clone': ('::core::clone::Clone', 'let _ = ::core::clone::Clone::clone(&x);'),
    'PartialEq': ('::core::cmp::PartialEq', 'let _ = x == x;'),
    'Hash': ('::core::hash::Hash', 'let mut h = Rec::default(); ::core::hash::Hash::hash(&x, &mut h);'),
    'PartialOrd': ('::core::cmp::PartialOrd', 'let _ = ::core::cmp::PartialOrd::partial_cmp(&x, &x);'),
    'Into': (None, 'let _: u8 = ::core::convert::Into::into(x);'),
    'Deref': (None, 'let _: &u8 = ::core::ops::Deref::deref(&x);'),
    'Default': ('::core::default::Default', 'let _ = <INST as ::core::default::Default>::default();'),
    'Eq': (None, 'fn is_eq<E: ::core::cmp::Eq>(_: &E) {} is_eq(&x);'),
    'Ord': ('::core::cmp::Ord', 'let _ = ::core::cmp::Ord::cmp(&x, &x);'),
    'Copy': (None, 'let y = x; let z = x; let _ = (&y, &z);'),
}
class GenericsSuite(Suite):
    name = 'generics'
    def make_union(self, r, tid):
        # a generic union whose parameters are named like the identifiers the templates pick (hasher parameter, helpers)
        tp = pick(r, ['X', '__H', 'H', '__H_', '__H'])
        cp = pick(r, ['N', 'N', '__H_' if tp != '__H_' else '__H', 'H' if tp != 'H' else 'N'])
        if r.random() < 0.5:
            header, inst = '<%s: Copy, const %s: usize>' % (tp, cp), 'T<u8, 2>'
        else:
            header, inst = '<const %s: usize, %s: Copy>' % (cp, tp), 'T<2, u8>'
        traits = r.sample(['Debug', 'PartialEq', 'Hash'], pick(r, [1, 2, 3]))
        tattrs = ['%s(unsafe)' % tr for tr in traits]
        if r.random() < 0.4:
            traits += ['Clone', 'Copy']; tattrs += ['Clone', 'Copy']
        r.shuffle(tattrs)
        fs = [('a', tp), ('b', '[u8; %s]' % cp)] + ([('c', 'u16')] if r.random() < 0.4 else [])
        r.shuffle(fs)
        body = 'pub union T%s { %s }' % (header, ', '.join('pub %s: %s' % f for f in fs))
        uses = ['{ let x: %s = T { b: [1, 2] }; %s }' % (inst, GEN_TRAITS[tr][1].replace('INST', inst)) for tr in traits]
        t = Ty(tid, 'union', [])
        t.raw_decl = '#[derive(Educe)]\n' + '\n'.join('#[educe(%s)]' % a for a in tattrs) + '\n' + body
        src = ('// %s\n#![allow(dead_code, unused_variables, unused_mut, unused_imports)]\nuse crate::support::*;\n'
               'pub mod ty {\n    #![deny(warnings)]\n    #![allow(dead_code, unused_imports)]\n    use educe::Educe;\n%s\n}\npub use ty::T;\n'
               'pub fn run(out: &mut Out) { %s out.check(true, "%s", "compile", || String::new()); }\n' % (tid, t.raw_decl, ' '.join(uses), tid))
        return t, src, dict(values=1, traits=traits)
    def make_const_only(self, r, tid):
        # no type parameter: only a const parameter (and perhaps a lifetime) is named like the templates' own identifiers
        cp = pick(r, ['__H', '__H', '__H_', 'H', 'N'])
        lt = r.random() < 0.3
        header = "<%sconst %s: usize>" % ("'a, " if lt else '', cp)
        inst = "T<%s2>" % ("'static, " if lt else '')
        traits = r.sample(['Debug', 'Clone', 'PartialEq', 'Hash', 'PartialOrd'], pick(r, [1, 2, 3]))
        if 'PartialOrd' in traits and 'PartialEq' not in traits:
            traits.append('PartialEq')
        tattrs = list(traits); r.shuffle(tattrs)
        fs = [('arr', '[u8; %s]' % cp), ('n', 'u8')] + ([('r', "&'a u8")] if lt else [])
        r.shuffle(fs)
        vals = {'[u8; %s]' % cp: '[1, 2]', 'u8': '5', "&'a u8": '&7'}
        kind, shape = pick(r, ['struct', 'struct', 'enum']), pick(r, ['named', 'unnamed'])
        decl = (' { ' + ', '.join('%s%s: %s' % ('pub ' if kind == 'struct' else '', n, t_) for n, t_ in fs) + ' }') if shape == 'named' else \
               ('(' + ', '.join(('pub ' if kind == 'struct' else '') + t_ for n, t_ in fs) + ')')
        args = ('{ ' + ', '.join('%s: %s' % (n, vals[t_]) for n, t_ in fs) + ' }') if shape == 'named' else ('(' + ', '.join(vals[t_] for n, t_ in fs) + ')')
        if kind == 'struct':
            body = 'pub struct T%s%s%s' % (header, decl, '' if shape == 'named' else ';')
            mk = 'T' + (' ' if shape == 'named' else '') + args
        else:
            body = 'pub enum T%s { V%s, W }' % (header, decl)
            mk = 'T::V' + (' ' if shape == 'named' else '') + args
        uses = ['{ let x: %s = %s; %s }' % (inst, mk, GEN_TRAITS[tr][1].replace('INST', inst)) for tr in traits]
        t = Ty(tid, kind, [])
        t.raw_decl = '#[derive(Educe)]\n' + '\n'.join('#[educe(%s)]' % a for a in tattrs) + '\n' + body
        src = ('// %s\n#![allow(dead_code, unused_variables, unused_mut, unused_imports)]\nuse crate::support::*;\n'
               'pub mod ty {\n    #![deny(warnings)]\n    #![allow(dead_code, unused_imports)]\n    use educe::Educe;\n%s\n}\npub use ty::T;\n'
               'pub fn run(out: &mut Out) { %s out.check(true, "%s", "compile", || String::new()); }\n' % (tid, t.raw_decl, ' '.join(uses), tid))
        return t, src, dict(values=1, traits=traits)
    def make(self, r, tid):
        c0 = r.random()
        if c0 < 0.2:
            return self.make_union(r, tid)
        if c0 < 0.32:
            return self.make_const_only(r, tid)
        kind = pick(r, ['struct', 'enum'])
        traits = r.sample(['Debug', 'Clone', 'PartialEq', 'Hash', 'PartialOrd'], pick(r, [1, 2, 3]))
        extra = pick(r, [None, None, 'Into', 'Deref', 'Default'])
        if 'PartialOrd' in traits and 'PartialEq' not in traits:
            traits.append('PartialEq')
        # companions
        if 'PartialEq' in traits and r.random() < 0.4:
            traits.append('Eq')
            if 'PartialOrd' in traits and r.random() < 0.6:
                traits.append('Ord')
        if 'Clone' in traits and r.random() < 0.3 and extra != 'Default':
            traits.append('Copy')
        if extra:
            traits.append(extra)
        where = pick(r, ['where X: Mk', 'where X: Mk,', 'where X: Mk, [X; N]: Sized', ''])
        header = pick(r, ["<'a, X: 'a + Copy, const N: usize>", "<'a, X: 'a + Copy, const N: usize>", "<'a, X: 'a + Copy = Good, const N: usize = 2>",
                          "<'a, const N: usize, X: 'a + Copy>"])
        inst = "T<'static, 2, Good>" if header.startswith("<'a, const") else "T<'static, Good, 2>"
        hyg = r.random() < 0.3      # parameters named like the identifiers templates pick (C19)
        if hyg:
            header = header.replace('const N', 'const __H').replace('X', '__H_')
        def fields(shape):
            fs = [("r", "&'a X"), ("arr", "[X; N]"), ("n", "u8")]
            if 'Hash' in traits and r.random() < 0.5:
                fs.append(("state", "u8"))
            if 'Default' in traits:
                fs = [("opt", "Option<X>"), ("n", "u8"), ("ph", "::core::marker::PhantomData<&'a X>")]
            r.shuffle(fs)
            return fs
        def decl_fields(shape, fs, markers):
            out = []
            vis = 'pub ' if kind == 'struct' else ''
            for nm, ty in fs:
                a = ''.join('#[educe(%s)] ' % m for m in markers) if (nm == 'n' and markers) else ''
                if nm == 'arr' and arr_method:
                    a += '#[educe(%s)] ' % arr_method
                out.append('%s%s%s: %s' % (a, vis, nm, ty) if shape == 'named' else '%s%s%s' % (a, vis, ty))
            return ' { ' + ', '.join(out) + ' }' if shape == 'named' else '(' + ', '.join(out) + ')'
        markers = []
        uses_new = [False]
        # a Debug method that needs the type's own where-clause: the wrapper impl emitted inside `fmt` must carry it too
        arr_method = None
        if 'Debug' in traits and 'X: Mk' in where and r.random() < 0.6:
            arr_method = pick(r, ['Debug(method = show_mk)', 'Debug(method(show_mk))', 'Debug(method = "show_mk")'])
        if 'Into' in traits:
            markers.append('Into(u8)')
        if 'Deref' in traits:
            markers.append('Deref')
        tattrs = []
        for tr in traits:
            if tr == 'Into':
                b = pick(r, ['', ', bound(*)', ', bound = false'])
                tattrs.append('Into(u8%s)' % b)
            elif tr == 'Deref':
                tattrs.append('Deref')
            else:
                bt = GEN_TRAITS[tr][0]
                mode = pick(r, ['', '', '(bound(*))', '(bound(X: %s))' % bt, '(bound = "X: %s")' % bt, '(bound = true)', '(bound(true))'])
                # a companion's bound is taken from its primary: no `bound` of its own is allowed there
                if bt is None or (tr == 'PartialOrd' and 'Ord' in traits) or (tr == 'Eq' and 'PartialEq' in traits) or (tr == 'Copy' and 'Clone' in traits):
                    mode = ''
                if tr == 'Default' and r.random() < 0.5:
                    inner = [mode[1:-1]] if mode else []
                    inner.append(pick(r, ['new', 'new = true']))
                    r.shuffle(inner)
                    mode = '(%s)' % ', '.join(inner)
                    uses_new[0] = True
                tattrs.append(tr + mode)
        r.shuffle(tattrs)
        shape = pick(r, ['named', 'unnamed'])
        if kind == 'struct':
            fs = fields(shape)
            body = 'pub struct T%s%s%s%s' % (header, (' ' + where + ' ') if shape == 'named' else '', decl_fields(shape, fs, markers),
                                             '' if shape == 'named' else (' ' + where + ';'))
            ctor_fs = fs
            ctor = 'T'
        else:
            fs = fields(shape)
            body = 'pub enum T%s %s { %sV%s, W%s }' % (header, where, '#[educe(Default)] ' if 'Default' in traits else '', decl_fields(shape, fs, markers), decl_fields(shape, fields(shape), markers) if 'Deref' not in traits and 'Into' not in traits else decl_fields(shape, fs, markers))
            ctor_fs = fs
            ctor = 'T::V'
        vals = {"&'a X": '&G', 'u8': '5', '[X; N]': '[Good(1), Good(2)]', 'Option<X>': 'None', 'u8': '5', "::core::marker::PhantomData<&'a X>": '::core::marker::PhantomData'}
        if shape == 'named':
            mk = '%s { %s }' % (ctor, ', '.join('%s: %s' % (nm, vals[ty]) for nm, ty in ctor_fs))
        else:
            mk = '%s(%s)' % (ctor, ', '.join(vals[ty] for nm, ty in ctor_fs))
        uses = []
        for tr in traits:
            uses.append('{ let x: %s = %s; %s }' % (inst, mk, GEN_TRAITS[tr][1].replace('INST', inst)))
        if uses_new[0]:
            uses.append('{ let _ = <%s>::new(); }' % inst)
        if hyg:
            body = re.sub(r"\bX\b", "__H_", body).replace('; N]', '; __H]')
            tattrs = [re.sub(r"\bX\b", "__H_", a) for a in tattrs]
        t = Ty(tid, kind, [])
        t.raw_decl = '#[derive(Educe)]\n' + '\n'.join('#[educe(%s)]' % a for a in tattrs) + '\n' + body
        src = ('// %s\n#![allow(dead_code, unused_variables, unused_mut, unused_imports)]\nuse crate::support::*;\n'
               'pub mod ty {\n    #![deny(warnings)]\n    #![allow(dead_code, unused_imports)]\n    use crate::support::{Good, Bad, Mk, show_mk};\n    use educe::Educe;\n%s\n}\npub use ty::T;\n'
               'static G: Good = Good(9);\npub fn run(out: &mut Out) { %s out.check(true, "%s", "compile", || String::new()); }\n' % (tid, t.raw_decl, ' '.join(uses), tid))
        return t, src, dict(values=1, traits=traits)

SUITES['generics'] = GenericsSuite()

def add_noise(t, r, suite):
    """educe one more trait with attributes of its own on the same items"""
    if suite in ('bounds', 'union', 'default') and suite != 'default':
        return
    if t.kind == 'union':
        return
    noise = 'Hash' if suite == 'debug' else 'Debug'
    if any(a.split('(')[0].strip() == noise or noise in [x.strip() for x in a.split(',')] for a in t.type_attrs):
        return
    all_a = all(f.ft.rust.startswith(('A<', 'C<')) for v in t.variants for f in v.fields)
    if noise == 'Hash' and not all_a:
        return
    if r.random() < 0.45:
        return
    t.type_attrs = t.type_attrs + [noise] if r.random() < 0.5 else [noise] + t.type_attrs
    if suite == 'debug' and t.kind == 'enum' and all_a and r.random() < 0.6:
        # a second noise trait with a VARIANT-level marker: Default on one variant
        t.type_attrs = t.type_attrs + ['Default']
        dv = pick(r, t.variants)
        dv.at['_noise'] = ['Default']
    for v in t.variants:
        v.at['_r'] = r
        for f in v.fields:
            f.at['_r'] = r
            c = r.random()
            if c < 0.3:
                f.at['_noise'] = [pick(r, ['%s(ignore)', '%s = false', '%s(ignore = true)']) % noise]
            elif c < 0.4 and noise == 'Debug' and v.shape == 'named':
                f.at['_noise'] = ['Debug(name = zz%d)' % r.randrange(9)]
            elif c < 0.5:
                f.at['_noise'] = ['%s(ignore = false)' % noise]

# ---- known findings: fixed probes of defects that are recorded (known_findings.txt) rather than repaired.
# Each probe is a module that SHOULD compile and pass by the property; while the defect is present it does not,
# and the check prints KNOWN-FINDING for it (the key is stable: 'known:<name>').
KNOWN_PROBES = {
    'copy_bound_clone_method': ('C01', '''
pub mod ty { #![deny(warnings)] #![allow(dead_code)] use educe::Educe;
  fn dup(x: &u8) -> u8 { *x }
  #[derive(Educe)] #[educe(Clone, Copy)]
  pub enum T<X> { V(#[educe(Clone(method = dup))] u8, X), W } }
pub fn run(out: &mut Out) { let _ = ty::T::<u8>::W; out.check(true, "known_copy_bound_clone_method", "compile", || String::new()); }'''),
    'debugfield_helper_bound': ('C01', '''
pub mod ty { #![deny(warnings)] #![allow(dead_code)] use educe::Educe;
  fn show<X: ::core::fmt::Display>(x: &X, f: &mut ::core::fmt::Formatter<'_>) -> ::core::fmt::Result { write!(f, "{}", x) }
  #[derive(Educe)] #[educe(Debug(bound(X: ::core::fmt::Display)))]
  pub struct T<X> { #[educe(Debug(method = show))] pub a: X } }
pub fn run(out: &mut Out) { let g = format!("{:?}", ty::T { a: 5u8 }); out.check(g == "T { a: 5 }", "known_debugfield_helper_bound", "debug", || g.clone()); }'''),
    'non_snake_case_binding': ('C01', '''
pub mod ty { #![deny(warnings)] #![allow(dead_code)] use educe::Educe;
  #[derive(Educe)] #[educe(PartialEq, Clone, Hash)]
  pub enum T { V { _a: u8, a: u8 }, W } }
pub fn run(out: &mut Out) { let x = ty::T::V { _a: 1, a: 2 }; out.check(x == x.clone(), "known_non_snake_case_binding", "eq", || String::new()); }'''),
    'deref_mut_shared_ref_field': ('C01', '''
pub mod ty { #![deny(warnings)] #![allow(dead_code)] use educe::Educe;
  #[derive(Educe)] #[educe(Deref, DerefMut)]
  pub struct T<'a> { pub a: &'a mut u8 }
  #[derive(Educe)] #[educe(Deref, DerefMut)]
  pub struct U<'a> { pub a: &'a u8 } }
pub fn run(out: &mut Out) { out.check(true, "known_deref_mut_shared_ref_field", "compile", || String::new()); }'''),
    'deref_trait_object_lifetime': ('C01', '''
pub mod ty { #![deny(warnings)] #![allow(dead_code)] use educe::Educe;
  pub trait Tr { fn v(&self) -> u8; }
  impl Tr for u8 { fn v(&self) -> u8 { *self } }
  #[derive(Educe)] #[educe(Deref)]
  pub struct T<'a> { pub a: &'a dyn Tr } }
pub fn run(out: &mut Out) { use ty::Tr; let v = 7u8; let t = ty::T { a: &v }; out.check((*t).v() == 7, "known_deref_trait_object_lifetime", "deref", || String::new()); }'''),
    'deref_paren_target_unused_parens': ('C01', '''
pub mod ty { #![deny(warnings)] #![allow(dead_code)] use educe::Educe;
  pub trait Tr { fn v(&self) -> u8; }
  impl Tr for u8 { fn v(&self) -> u8 { *self } }
  #[derive(Educe)] #[educe(Deref)]
  pub struct T<'a> { pub a: &'a (dyn Tr + Sync + 'a) } }
pub fn run(out: &mut Out) { use ty::Tr; let v = 7u8; let t = ty::T { a: &v }; out.check((*t).v() == 7, "known_deref_paren_target_unused_parens", "deref", || String::new()); }'''),
    'into_reference_target_static': ('C10', '''
pub mod ty { #![deny(warnings)] #![allow(dead_code)] use educe::Educe;
  #[derive(Educe)] #[educe(Into(&'a u8))]
  pub struct T<'a> { pub a: &'a u8, pub b: u16 } }
pub fn run(out: &mut Out) { let v = 7u8; let r: &u8 = ::core::convert::Into::into(ty::T { a: &v, b: 1 }); out.check(*r == 7, "known_into_reference_target_static", "into", || String::new()); }'''),
    'unqualified_primitive_names': ('C19', '''
pub mod ty { #![deny(warnings)] #![allow(dead_code, non_camel_case_types)] use educe::Educe;
  pub struct bool; pub struct u8;
  #[derive(Educe)] #[educe(PartialEq)]
  pub struct T { pub a: ::core::primitive::u16 } }
pub fn run(out: &mut Out) { let x = ty::T { a: 1 }; out.check(x == x, "known_unqualified_primitive_names", "eq", || String::new()); }'''),
}

def known_modules(pid):
    mods = []
    for name, (p, src) in sorted(KNOWN_PROBES.items()):
        if p == pid:
            mods.append(('known_' + name, '// known-finding probe %s\n#![allow(dead_code, unused_variables, unused_imports)]\nuse crate::support::*;\n%s\n' % (name, src)))
    return mods

# ------------------------------------------------------------------ build & run
MAIN_HEAD = '#![allow(clippy::all)]\nmod support;\n'

def write_crate(mods):
    if os.path.isdir(GEN):
        shutil.rmtree(GEN)
    os.makedirs(GEN)
    with open(os.path.join(K2DIR, 'src', 'gen', 'mod.rs'), 'w') as f:
        for tid, src in mods:
            f.write('pub mod %s;\n' % tid)
    for tid, src in mods:
        with open(os.path.join(GEN, tid + '.rs'), 'w') as f:
            f.write(src)
    with open(os.path.join(K2DIR, 'src', 'main.rs'), 'w') as f:
        f.write(MAIN_HEAD + 'mod gen;\nuse support::Out;\nfn main() {\n    let mut out = Out { checks: 0, fails: 0 };\n')
        for tid, src in mods:
            f.write('    { let before = out.checks; gen::%s::run(&mut out); println!("RAN\\t%s\\t{}", out.checks - before); }\n' % (tid, tid))
        f.write('    println!("DONE\\t{}\\t{}", out.checks, out.fails);\n}\n')

def cargo(args, timeout=1500):
    env = dict(os.environ, CARGO_NET_OFFLINE='true', RUSTFLAGS='-Awarnings')
    lock = os.path.join(K2DIR, 'Cargo.lock')
    if not os.path.exists(lock):
        shutil.copy('/repo/Cargo.lock', lock)
    p = vlib.run_cargo(['cargo'] + args + ['--offline', '--message-format=short'], cwd=K2DIR, env=env, timeout=timeout)
    return p.returncode, p.stdout, p.stderr

def build_and_run(mods, max_rounds=4):
    """returns (results lines, compile_failures {tid: message})"""
    compile_fail = {}
    mods = list(mods)
    for _ in range(max_rounds):
        write_crate(mods)
        rc, out, err = cargo(['build'])
        if rc == 0:
            break
        bad = {}
        for line in err.split('\n'):
            m = re.match(r'src/gen/(\w+)\.rs:(\d+):(\d+): error(.*)', line)
            if m:
                bad.setdefault(m.group(1), []).append(m.group(4).strip())
        if not bad:
            raise RuntimeError('k2 crate does not build:\n' + err[-3000:])
        for tid, msgs in bad.items():
            compile_fail[tid] = '; '.join(msgs[:3])
        mods = [(tid, src) for tid, src in mods if tid not in bad]
    else:
        raise RuntimeError('k2 crate keeps failing to build')
    p = subprocess.run([os.path.join(ROOT, '_build/k2target/debug/k2')], stdin=subprocess.DEVNULL, capture_output=True, text=True, timeout=600)
    return p.stdout.split('\n'), compile_fail, p.returncode

def meta_traits(meta):
    return list(meta.get('traits') or []) + ([meta['trait']] if meta.get('trait') else [])

def run(pid, suites, tier, seed, n=None, hostile=False, only_ops=None, also=None, n_by=None):
    """-> (failures, stats).  failure: dict(key, what, type_def, detail).
    also: [(suite, trait, n)] - types of another suite (generics / bounds) that educe `trait`; their failures count too"""
    with vlib.Lock('k2lock'):
        t0 = time.time()
        n = n or (40 if tier == 'quick' else 400)
        HOSTILE[0] = hostile
        mods, info = [], {}
        plan = [(sname, None, (n_by or {}).get(sname, (n, n))[0 if tier == 'quick' else 1] if (n_by or {}).get(sname) else n) for sname in suites] + [(a[0], a[1], a[2][0 if tier == 'quick' else 1]) for a in (also or [])]
        for sname, want, cnt in plan:
            S = SUITES[sname]
            for i in range(cnt):
                tid = '%s_%d' % (S.name, i) if want is None else '%s_%s_%d' % (S.name, want.lower(), i)
                res, k = None, 0
                while res is None or (want is not None and want not in meta_traits(res[2]) and k < 60):
                    r = random.Random('k2-%s-%d-%d-%d' % (S.name, seed, i, k))
                    NOISE[0] = (S.name, random.Random('k2n-%s-%d-%d-%d' % (S.name, seed, i, k)))
                    res = S.make(r, tid)
                    k += 1
                t, src, meta = res
                if want is not None and want not in meta_traits(meta):
                    continue
                mods.append((tid, src))
                info[tid] = (t, src, meta)
        HOSTILE[0] = False
        known = known_modules(pid)
        for tid, src in known:
            mods.append((tid, src))
            info[tid] = (None, src, dict(known=True))
        lines, compile_fail, rc = build_and_run(mods)
        failures = []
        ran, checks = 0, 0
        for line in lines:
            p = line.split('\t')
            if p[0] == 'FAIL' and len(p) >= 4 and p[1].startswith('known_'):
                failures.append(dict(key='known:' + p[1][6:], what='known-finding probe %s still fails: %s' % (p[1][6:], p[3][:200]), type_def=info[p[1]][1], detail=p[3], op=p[2]))
            elif p[0] == 'FAIL' and len(p) >= 4:
                t, src, meta = info[p[1]]
                key = 'k2:%s:%s:%s' % (p[1].split('_')[0], p[2], hashlib.sha256((type_decl(t) + p[3]).encode()).hexdigest()[:10])
                failures.append(dict(key=key, what='%s: real educe output disagrees with the oracle: %s' % (p[2], p[3][:300]),
                                     type_def=type_decl(t), detail=p[3], module_source=src, op=p[2]))
            elif p[0] == 'RAN':
                ran += 1
            elif p[0] == 'DONE':
                checks = int(p[1])
        # implementation = model under Sem/Interp.v (extracted, interpretation I0) on the same values
        real_res = {}
        for line in lines:
            p = line.split('\t')
            if p[0] == 'RES' and len(p) == 4:
                real_res[(p[1], p[2])] = p[3]
        xcases = []
        for tid, (t, src, meta) in info.items():
            if t is not None and t.kind == 'union' and meta.get('xops'):
                # unions (C20): the value is its bytes; size_of::<T>() as rustc laid the union out (RES union_size)
                size = real_res.get((tid, 'union_size'))
                if size is None or not size.isdigit() or int(size) == 0:
                    continue
                for op in meta['xops']:
                    if (tid, op) in real_res:
                        try:
                            xcases.append(('RUN', '%s:%s' % (tid, op), op, dinput_sx(t), union_xvalues(int(size))))
                        except Exception as e:
                            pass
                continue
            if t is None or not meta.get('xops') or getattr(t, 'xvalues', None) is None or t.kind == 'union':
                continue
            if re.search(r'method = [\w:]*::<[^>"]*,', type_decl(t)):
                continue        # `method = a::<0, _>`: commas inside generic arguments of a name-value expression are outside the model's domain (Syn.v: classify_angle); oracle only
            for op in meta['xops']:
                if (tid, op) in real_res:
                    try:
                        case = ('RUN', '%s:%s' % (tid, op), op, dinput_sx(t), xvalues_sx(t))
                        if op in meta.get('xextra', {}):
                            import dinput as D
                            case += (D.sx_text(meta['xextra'][op]),)      # the Into target's tokens
                        xcases.append(case)
                    except Exception as e:
                        pass
        xstats = dict(compared=0, agree=0, model_stuck=0)
        if xcases:
            import k1
            inp = ''.join('\t'.join(c) + '\n' for c in xcases)
            pr = subprocess.run([k1.MODEL], input=inp, capture_output=True, text=True)
            for line in pr.stdout.split('\n'):
                p = line.split('\t')
                if len(p) == 3 and p[1] == 'RUN':
                    tid, op = p[0].split(':')
                    real = real_res[(tid, op)]
                    xstats['compared'] += 1
                    if p[2] == real:
                        xstats['agree'] += 1
                    elif '?' in p[2] or p[2].startswith('BADINPUT'):
                        xstats['model_stuck'] += 1
                        failures.append(dict(key='k2:model-stuck:%s' % op, what='the model (expand + Sem/Interp.v under I0) does not evaluate %s on this type: %s' % (op, p[2][:120]),
                                             type_def=type_decl(info[tid][0]), detail=p[2][:300], op='model_' + op))
                    else:
                        i = next(k for k in range(min(len(real), len(p[2]))) if real[k] != p[2][k]) if len(real) == len(p[2]) else -1
                        failures.append(dict(key='k2:model-vs-real:%s:%s' % (op, hashlib.sha256(type_decl(info[tid][0]).encode()).hexdigest()[:10]),
                                             what='%s: the real compiled code and the model run under Sem/Interp.v disagree (first difference at result %d: real %s, model %s)'
                                                  % (op, i, real[i:i + 1] if i >= 0 else real[:40], p[2][i:i + 1] if i >= 0 else p[2][:40]),
                                             type_def=type_decl(info[tid][0]), detail='real=%s model=%s' % (real[:200], p[2][:200]), op='model_' + op))
        for tid, (t, src, meta) in info.items():
            if meta.get('must_not_compile') and tid not in compile_fail:
                failures.append(dict(key='k2:accepted:%s:%s' % (meta['must_not_compile'], hashlib.sha256(type_decl(t).encode()).hexdigest()[:10]),
                                     what='this request must not yield compiling code (%s), yet the generated impl compiles' % meta['why'],
                                     type_def=type_decl(t), detail='', module_source=src, op='must_not_compile'))
        for tid, msg in compile_fail.items():
            t, src, meta = info[tid]
            if meta.get('must_not_compile'):
                continue        # the expected outcome
            if t is None:
                failures.append(dict(key='known:' + tid[6:], what='known-finding probe %s still does not compile: %s' % (tid[6:], msg[:200]), type_def=src, detail=msg, op='compile'))
                continue
            cls = 'non_snake_case_binding' if re.search(r'should have a snake case name', msg) and not re.search(r'\[E\d+\]', msg) else hashlib.sha256(type_decl(t).encode()).hexdigest()[:10]
            failures.append(dict(key='k2:compile:%s' % cls,
                                 what='generated code (or the oracle harness) for this accepted request does not compile: %s' % msg[:300],
                                 type_def=type_decl(t), detail=msg, module_source=src, op='compile'))
        if rc != 0 and not failures:
            failures.append(dict(key='k2:crash', what='k2 binary crashed (rc=%s): %s' % (rc, '\n'.join(lines[-5:])), type_def='', detail='', op='crash'))
        # one failure per (suite, op, type) is enough in the report
        seen, uniq = set(), []
        for f in failures:
            k = (f['type_def'], f['op'])
            if k not in seen:
                seen.add(k); uniq.append(f)
        if only_ops:
            uniq = [f for f in uniq if f['op'] in only_ops]
        stats = dict(types=len(mods), ran=ran, checks=checks, failures=len(failures), compile_failures=len(compile_fail), model_cross_check=xstats,
                     wall_s=round(time.time() - t0, 1))
        return uniq, stats

if __name__ == '__main__':
    suites = sys.argv[1].split(',')
    n = int(sys.argv[2]) if len(sys.argv) > 2 else 20
    seed = int(sys.argv[3]) if len(sys.argv) > 3 else 0
    fails, stats = run('X', suites, 'quick', seed, n)
    print(stats)
    for f in fails[:10]:
        print('---', f['key'], f['what']); print(f['type_def'])
