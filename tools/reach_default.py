"""Default handler: K1 over several seeds + branch-reach table (which request shapes the
generator produced and how the real macro answered).  usage: reach_default.py [-n N] [--seeds a,b,c] [--traits ..]"""
import sys, collections, argparse
import gen, k1

def main():
    ap = argparse.ArgumentParser()
    ap.add_argument('-n', type=int, default=2000)
    ap.add_argument('--seeds', default='1')
    ap.add_argument('--traits', default='Default')
    ap.add_argument('--show', type=int, default=5)
    ap.add_argument('--table', action='store_true')
    a = ap.parse_args()
    pool = a.traits.split(',')
    reach = collections.Counter()
    stats = collections.Counter()
    shown = 0
    for seed in a.seeds.split(','):
        cases = []
        for i in range(a.n):
            c = gen.gen_case('%s-%d' % (seed, i), 0, pool, want_fault=(i % 100) < 30)
            cases.append((str(i), c))
        real = k1.run_real([(i, c.rust()) for i, c in cases])
        model = k1.run_model([(i, c.sx()) for i, c in cases])
        for i, c in cases:
            v, d = k1.compare(real[i], model[i])
            stats[v] += 1
            stats['real_' + real[i][0]] += 1
            has_default = 'Default' in c.traits
            if has_default:
                stats['with_Default'] += 1
                stats['with_Default_' + real[i][0]] += 1
            if real[i][0] == 'ERR' and has_default:
                stats['err:' + k1.err_kind(real[i][1].split(' || ')[0])] += 1
            for key in getattr(c, 'reach', []):
                reach[key + (real[i][0],)] += 1
            if has_default:
                reach[('Default', 'shape', c.kind, getattr(c, 'fkind', '') if c.kind == 'struct' else
                       ('%dv' % min(len(c.variants), 2) if c.kind == 'enum' else '%df' % min(len(c.fields), 2)), real[i][0])] += 1
            if v != 'same' and shown < a.show:
                shown += 1
                print('--- seed %s case %s fault=%s %s\n%s\n%s' % (seed, i, c.fault, v, c.rust(), d))
    print(dict(stats))
    if a.table:
        for k in sorted(reach, key=lambda k: tuple(str(x) for x in k)):
            print('%6d  %s' % (reach[k], ' | '.join(str(x) for x in k[1:])))

if __name__ == '__main__':
    main()
