"""Source translators T1-T5: static facts of /repo/src the theorems depend on, regenerated on every
run into coq/Gen/Sources.v (written only when the content changes, so make rebuilds dependants only then).

T1 feature gates      (C18)  cfg conditions of modules / uses / items and of references to gated names
T2 panic sites        (C17)  unwrap / expect / unreachable! / panic! / assert! / indexing / insert_str ...
T3 unordered iteration(C16)  HashMap / HashSet variables and every iteration over them
T3b ambient inputs    (C16)  env, time, fs, statics, thread_local, RandomState
T5 template identifiers(C19) identifiers inside quote!/format_ident! templates not under `::`, `.`, `#`, `'`

The scanners are lexical (comments and strings are blanked first); they have no type information.
"""
import os, re, sys, json

REPO_SRC = '/repo/src'
ROOT = os.path.dirname(os.path.dirname(os.path.abspath(__file__)))
OUT = os.path.join(ROOT, 'coq', 'Gen', 'Sources.v')

def blank_comments_strings(src, keep_strings=False):
    """replace comments (and string contents) by spaces, preserving positions / newlines"""
    out = []
    i, n = 0, len(src)
    while i < n:
        c = src[i]
        if src.startswith('//', i):
            j = src.find('\n', i)
            j = n if j < 0 else j
            out.append(' ' * (j - i)); i = j; continue
        if src.startswith('/*', i):
            depth, j = 1, i + 2
            while j < n and depth:
                if src.startswith('/*', j): depth += 1; j += 2
                elif src.startswith('*/', j): depth -= 1; j += 2
                else: j += 1
            out.append(''.join(ch if ch == '\n' else ' ' for ch in src[i:j])); i = j; continue
        m = re.match(r'(b|c)?r(#*)"', src[i:])
        if m and (i == 0 or not (src[i - 1].isalnum() or src[i - 1] == '_')):
            end = src.find('"' + m.group(2), i + m.end())
            end = n if end < 0 else end + 1 + len(m.group(2))
            body = src[i:end]
            out.append(body if keep_strings else '"' + ''.join(ch if ch == '\n' else ' ' for ch in body[1:-1]) + '"'); i = end; continue
        if c == '"':
            j = i + 1
            while j < n and src[j] != '"':
                j += 2 if src[j] == '\\' else 1
            body = src[i:j + 1]
            out.append(body if keep_strings else '"' + ''.join(ch if ch == '\n' else ' ' for ch in body[1:-1]) + '"'); i = j + 1; continue
        if c == "'":
            m = re.match(r"'(\\.|[^\\'])'", src[i:])
            if m:
                out.append("' '" if not keep_strings else m.group(0)); i += m.end(); continue
        out.append(c); i += 1
    return ''.join(out)

def files():
    l = []
    for dp, dn, fn in os.walk(REPO_SRC):
        dn.sort()
        for f in sorted(fn):
            if f.endswith('.rs'):
                l.append(os.path.join(dp, f))
    return l

def rel(p):
    return os.path.relpath(p, REPO_SRC)

def strip_doc_header(path, src):
    """lib.rs starts with a ~1900 line doc comment (//!): already blanked by the comment pass"""
    return src

def enclosing_fn(src, pos):
    m = None
    for mm in re.finditer(r'\bfn\s+([A-Za-z_0-9]+)', src[:pos]):
        m = mm
    return m.group(1) if m else '-'

# ------------------------------------------------------------------ T2 panic sites
PANIC_RX = [
    ('unwrap', re.compile(r'\.unwrap\(\)')),
    ('expect', re.compile(r'\.expect\(')),
    ('unwrap_unchecked', re.compile(r'unwrap_unchecked')),
    ('unreachable', re.compile(r'\bunreachable!')),
    ('panic', re.compile(r'\bpanic!')),
    ('todo', re.compile(r'\b(todo|unimplemented)!')),
    ('assert', re.compile(r'\b(debug_)?assert(_eq|_ne)?!')),
    ('insert_str', re.compile(r'\.insert_str\(')),
    ('string_index_edit', re.compile(r'\.(remove|truncate|split_at|split_off|replace_range|swap_remove)\(')),
    ('index', re.compile(r'[A-Za-z_0-9\)\]]\[[^\]\n]*\]')),
    ('slice_range', re.compile(r'\[[^\]\n]*\.\.[^\]\n]*\]')),
    ('arith_cast', re.compile(r'\bas (isize|usize|i8|i16|i32|i64|u8|u16|u32|u64)\b')),
    ('process_exit', re.compile(r'process::(exit|abort)')),
    ('loop', re.compile(r'\b(loop|while)\b')),
]

def in_quote_template(src, pos):
    """is `pos` inside the token tree of a quote!/quote_spanned!/format_ident!/stringify! invocation?"""
    for m in re.finditer(r'\b(quote|quote_spanned|stringify)!\s*([\(\{\[])', src[:pos + 1]):
        o = m.end() - 1
        close = {'(': ')', '{': '}', '[': ']'}[src[o]]
        depth, j = 0, o
        while j < len(src):
            if src[j] in '({[': depth += 1
            elif src[j] in ')}]':
                depth -= 1
                if depth == 0: break
            j += 1
        if o < pos < j:
            return True
    return False

def scan_panic():
    sites = []
    for p in files():
        src = blank_comments_strings(open(p).read())
        for kind, rx in PANIC_RX:
            for m in rx.finditer(src):
                if kind in ('index', 'slice_range', 'loop', 'recursion_marker', 'arith_cast', 'string_index_edit', 'unreachable', 'panic', 'assert') and in_quote_template(src, m.start()):
                    continue          # text of generated code, not code of the macro
                if kind == 'index':
                    t = m.group(0)
                    if re.match(r'.\[\s*\]', t) or t[1:].startswith('[cfg') or 'feature' in t or t.endswith('[..]'):
                        continue
                    # attribute syntax `#[...]`, array types `[u8; 3]`, slices of types
                    line = src[src.rfind('\n', 0, m.start()) + 1: src.find('\n', m.start())]
                    if re.search(r'#\s*!?\[', line) and line.strip().startswith('#'):
                        continue
                    if re.search(r':\s*&?\[|-> *&?\[|<\[|\(\[|&\[\w', t) or re.match(r'.\[[A-Z&\'a-z_]*(; *\w+)?\]$', t) and not re.match(r'.\[\d+\]$|.\[[a-z_]+\]$', t):
                        continue
                line = src[src.rfind('\n', 0, m.start()) + 1: src.find('\n', m.start())].strip()
                sites.append((rel(p), enclosing_fn(src, m.start()), kind, re.sub(r'\s+', ' ', line)[:90]))
    sites = sorted(set(sites))
    return sites

# ------------------------------------------------------------------ T3 unordered iteration, ambient inputs
def scan_hash():
    decls, iters = [], []
    for p in files():
        src = blank_comments_strings(open(p).read())
        names = set()
        for m in re.finditer(r'\b(?:let\s+(?:mut\s+)?|pub\(crate\)\s+)?([a-z_][a-z_0-9]*)\s*:\s*(Vec<)?(HashMap|HashSet)\b', src):
            if m.group(2):      # a Vec of maps: iterating the Vec is ordered
                decls.append((rel(p), m.group(1), 'Vec<%s>' % m.group(3))); continue
            names.add(m.group(1)); decls.append((rel(p), m.group(1), m.group(3)))
        for m in re.finditer(r'\blet\s+(?:mut\s+)?([a-z_][a-z_0-9]*)\s*=\s*(HashMap|HashSet)::', src):
            names.add(m.group(1)); decls.append((rel(p), m.group(1), m.group(2)))
        for nm in sorted(names):
            for m in re.finditer(r'(?:\bin\s+&?(?:mut\s+)?(?:\w+\.)*%s\b(?!\s*\.\s*(get|contains|len|is_empty|insert|entry)))|(?:\b(?:\w+\.)*%s\s*\.\s*(iter|iter_mut|keys|values|values_mut|into_iter|into_keys|into_values|drain|retain)\s*\()' % (nm, nm), src):
                line = src[src.rfind('\n', 0, m.start()) + 1: src.find('\n', m.start())].strip()
                iters.append((rel(p), enclosing_fn(src, m.start()), nm, re.sub(r'\s+', ' ', line)[:90]))
    return sorted(set(decls)), sorted(set(iters))

AMBIENT_RX = re.compile(r'\b(std::env|env::var|env!|option_env!|SystemTime|Instant::|thread_local!|static\s+mut|lazy_static|OnceCell|OnceLock|RandomState|std::fs|File::|std::process|std::net|rand::|Atomic[A-Z]\w*|Mutex<|RwLock<|RefCell<|\bCell<|static\s+[A-Za-z_]\w*\s*:|LazyLock|LazyCell|include_str!|include_bytes!|file!|line!|column!|Span::mixed_site|def_site)\b')
def scan_ambient():
    out = []
    for p in files():
        src = blank_comments_strings(open(p).read())
        for m in AMBIENT_RX.finditer(src):
            line = src[src.rfind('\n', 0, m.start()) + 1: src.find('\n', m.start())].strip()
            out.append((rel(p), enclosing_fn(src, m.start()), m.group(1), re.sub(r'\s+', ' ', line)[:90]))
    return sorted(set(out))

PROFILE_RX = re.compile(r'\b(debug_assert(?:_eq|_ne)?!|cfg!\s*\(\s*debug_assertions|cfg\s*\(\s*(?:not\s*\(\s*)?debug_assertions|cfg!\s*\(\s*(?!feature)\w+|overflow_checks|target_(?:os|arch|family|pointer_width|endian|env|vendor|feature|has_atomic))')
def scan_profile():
    """T3c: code that exists under one build profile / target only (debug assertions, cfg!(...) other than features).
    Here the line is kept WITH its string literals: the reviewed inventory pins the exact expression, which must be
    free of effects (a `debug_assert!(map.insert(..).is_none())` would make the output depend on the profile)."""
    out = []
    for p in files():
        raw = open(p).read()
        src = blank_comments_strings(raw)
        for m in PROFILE_RX.finditer(src):
            a = m.start()
            # the whole macro call / attribute up to the closing parenthesis
            j = src.find('(', a); d = 0; k = j
            while k < len(src):
                if src[k] == '(':
                    d += 1
                elif src[k] == ')':
                    d -= 1
                    if d == 0:
                        break
                k += 1
            text = re.sub(r'\s+', ' ', raw[a:k + 1])[:160]
            out.append((rel(p), enclosing_fn(src, a), re.sub(r'\W+$', '', m.group(1)), text))
    return sorted(set(out))

# ------------------------------------------------------------------ Coq output
def q(s):
    return '"' + s.replace('"', '""') + '"'
def coq_list(rows):
    if not rows:
        return '[]'
    return '[\n   ' + ';\n   '.join('(' + ', '.join(q(str(x)) for x in r) + ')' for r in rows) + ']'

def generate(extra_sections=None):
    ps = scan_panic()
    decls, iters = scan_hash()
    amb = scan_ambient()
    prof = scan_profile()
    parts = ['(** GENERATED by tools/scan.py from /repo/src on every run -- do not edit. *)',
             'From Coq Require Import List String.', 'Import ListNotations.', 'Open Scope string_scope.', '',
             '(** T2: panic-capable sites (file, enclosing fn, kind, normalised line) *)',
             'Definition panic_sites : list (string * string * string * string) := %s.' % coq_list(ps), '',
             '(** T3: HashMap / HashSet variables (file, name, kind) and iterations over them (file, fn, name, line) *)',
             'Definition hash_decls : list (string * string * string) := %s.' % coq_list(decls),
             'Definition hash_iterations : list (string * string * string * string) := %s.' % coq_list(iters), '',
             '(** T3b: ambient inputs (file, fn, what, line) *)',
             'Definition ambient : list (string * string * string * string) := %s.' % coq_list(amb), '',
             '(** T3c: code compiled under one build profile / target only (file, fn, what, full text) *)',
             'Definition profile_code : list (string * string * string * string) := %s.' % coq_list(prof), '']
    for s in (extra_sections or []):
        parts.append(s)
    txt = '\n'.join(parts) + '\n'
    os.makedirs(os.path.dirname(OUT), exist_ok=True)
    old = open(OUT).read() if os.path.exists(OUT) else None
    if old != txt:
        with open(OUT, 'w') as f:
            f.write(txt)
    return dict(panic_sites=len(ps), hash_decls=len(decls), hash_iterations=len(iters), ambient=len(amb), profile_code=len(prof), changed=(old != txt))

def extra():
    try:
        import scan_features, scan_templates
        return [scan_features.coq_section(), scan_templates.coq_section()]
    except ImportError:
        return []

if __name__ == '__main__':
    r = generate(extra())
    print(r)
    if '--snapshot' in sys.argv:
        # the inventory the proofs were written against: a copy of the current scan, to be reviewed by hand
        inv = os.path.join(ROOT, 'coq', 'Model', 'Inventory.v')
        txt = open(OUT).read().replace('(** GENERATED by tools/scan.py from /repo/src on every run -- do not edit. *)',
              '(** The source inventories the theorems were proved against (a reviewed snapshot of Gen/Sources.v;\n    regenerate with `python3 tools/scan.py --snapshot` only after reviewing every new entry). *)')
        open(inv, 'w').write(txt)
