#!/bin/sh
# regenerate coq/_CoqProject from the files present (coq_makefile/coqdep order the build)
cd "$(dirname "$0")/../coq" || exit 1
{
  cat <<'EOT'
-Q Model Educe.Model
-Q Extract Educe.Extract
-Q Sem Educe.Sem
-Q Spec Educe.Spec
-Q Proofs Educe.Proofs
-Q Properties Educe.Properties
-Q Gen Educe.Gen
EOT
  ls Gen/*.v Model/*.v Sem/*.v Spec/*.v Proofs/*.v Properties/*.v Extract/*.v 2>/dev/null | sort
} > _CoqProject.new
if ! cmp -s _CoqProject.new _CoqProject; then mv _CoqProject.new _CoqProject; rm -f Makefile; else rm -f _CoqProject.new; fi
