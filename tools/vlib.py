"""Shared machinery of the checks: build, Coq obligations, evidence, violations, known findings."""
import os, sys, json, time, hashlib, subprocess, fcntl, re

ROOT = os.path.dirname(os.path.dirname(os.path.abspath(__file__)))
BUILD = os.path.join(ROOT, '_build')
# evalmut.py (seeded-change evaluation) points this elsewhere so that runs against a patched /repo never
# overwrite the evidence of the unchanged tree
EVID = os.environ.get('VERIF_EVIDENCE_DIR') or os.path.join(ROOT, 'evidence')
REPLAY = os.path.join(EVID, 'replay')
REPO = '/repo'
COQ_Q = ['-Q', 'Model', 'Educe.Model', '-Q', 'Extract', 'Educe.Extract', '-Q', 'Sem', 'Educe.Sem',
         '-Q', 'Spec', 'Educe.Spec', '-Q', 'Gen', 'Educe.Gen', '-Q', 'Proofs', 'Educe.Proofs',
         '-Q', 'Properties', 'Educe.Properties']

TRUSTED_BASE = [
    'Coq 8.16.1 kernel + coqc; vm_compute; no native_compute',
    'axioms under the property theorems: none (Print Assumptions: Closed under the global context)',
    'extraction of the executable model (ExtrOcamlBasic, ExtrOcamlNativeString; no Extract Constant / Extract Inductive of our own) + ocaml/driver.ml',
    'K1 token-level correspondence harness (harness/src/k1driver.rs, tools/k1.py, tools/gen*.py, tools/rlex.py)',
    'hook verif_expand under cfg(magiclen_educe_verif) calls the same derive_input_handler',
    'modelled, not verified: everything in /repo/src (hand-written Gallina model coq/Model/*.v); syn / quote / proc-macro2 behaviour (coq/Model/Syn.v)',
    'my formalisation of the Rust subset semantics (coq/Sem/*.v), validated against rustc-compiled code by K2',
]

def env_seed():
    try:
        return int(os.environ.get('VERIF_SEED', '0'))
    except ValueError:
        return 0

def env_tier(default='quick'):
    t = os.environ.get('VERIF_TIER', default)
    return t if t in ('quick', 'thorough') else default

class Lock:
    def __init__(self, name='lock'):
        os.makedirs(BUILD, exist_ok=True)
        self.path = os.path.join(BUILD, name)
    def __enter__(self):
        self.f = open(self.path, 'w')
        fcntl.flock(self.f, fcntl.LOCK_EX)
        return self
    def __exit__(self, *a):
        fcntl.flock(self.f, fcntl.LOCK_UN)
        self.f.close()

def repo_hash():
    h = hashlib.sha256()
    files = []
    for base in ('src',):
        for dp, dn, fn in os.walk(os.path.join(REPO, base)):
            dn.sort()
            for f in sorted(fn):
                files.append(os.path.join(dp, f))
    files += [os.path.join(REPO, 'Cargo.toml'), os.path.join(REPO, 'Cargo.lock')]
    for f in files:
        if os.path.exists(f):
            h.update(f.encode()); h.update(open(f, 'rb').read())
    return h.hexdigest()[:16]

def run(cmd, timeout=1800, cwd=ROOT, env=None, input=None):
    e = dict(os.environ)
    e.update({'CARGO_NET_OFFLINE': 'true'})
    if env:
        e.update(env)
    kw = dict(input=input) if input is not None else dict(stdin=subprocess.DEVNULL)     # never inherit our stdin
    p = subprocess.run(cmd, cwd=cwd, env=e, capture_output=True, text=True, timeout=timeout, **kw)
    return p.returncode, p.stdout, p.stderr

def run_cargo(cmd, **kw):
    """subprocess.run for cargo with an empty stdin, retried when cargo's own rustc probe fails (observed
    transiently on this machine under load: 'failed to run `rustc` to learn about target-specific information')"""
    kw.setdefault('capture_output', True)
    kw.setdefault('text', True)
    if 'stdin' not in kw and 'input' not in kw:
        kw['input'] = '' if kw.get('text') else b''      # an empty pipe, not /dev/null (which was found to be a regular file in this sandbox)
    for attempt in range(4):
        p = subprocess.run(cmd, **kw)
        if p.returncode == 0 or 'to learn about target-specific information' not in (p.stderr or ''):
            return p
        time.sleep(1 + attempt)
    return p

def ensure_built(what='all'):
    """(re)build model, extraction, harness from the current /verif and /repo trees.
    Returns (ok, log)."""
    with Lock():
        t0 = time.time()
        rc, out, err = run([os.path.join(ROOT, 'build.sh'), what], timeout=3400)
        return rc == 0, (out + err)[-4000:], time.time() - t0

# ------------------------------------------------------------------ Coq obligations
def coq_obligations(pid, theorems, module=None):
    """Compile a small file that requires the property file, pins nothing itself but prints the
    assumptions of every listed theorem.  Returns list of dicts {name, ok, axioms, detail}."""
    mods = module or ['Educe.Properties.%s' % pid]
    if isinstance(mods, str):
        mods = [mods]
    os.makedirs(BUILD, exist_ok=True)
    path = os.path.join(BUILD, 'obl_%s.v' % pid)
    with open(path, 'w') as f:
        for m in mods:
            f.write('Require Import %s.\n' % m)
        for t in theorems:
            f.write('Print Assumptions %s.\n' % t)
    rc, out, err = run(['coqc', '-q', '-noglob'] + COQ_Q + ['-o', os.path.join(BUILD, 'obl_%s.vo' % pid), path],
                       cwd=os.path.join(ROOT, 'coq'), timeout=600)
    res = []
    if rc != 0:
        return [dict(name=t, ok=False, axioms=[], detail=(err or out)[-600:]) for t in theorems], out + err
    # coqc prints one block per Print Assumptions, in order
    blocks = re.split(r'(?m)^(?=Closed under the global context|Axioms:)', out)
    blocks = [b for b in blocks if b.strip()]
    for i, t in enumerate(theorems):
        b = blocks[i] if i < len(blocks) else ''
        if b.startswith('Closed under the global context'):
            res.append(dict(name=t, ok=True, axioms=[], detail='Closed under the global context'))
        else:
            ax = re.findall(r'(?m)^([A-Za-z_][\w.\']*)\s*:', b)
            res.append(dict(name=t, ok=False, axioms=ax, detail=b.strip()[:400]))
    return res, out + err

def coqchk(modules, timeout=3000):
    """re-check the compiled property modules (and everything they depend on) with the independent checker;
    returns (ok, axioms text)"""
    cmd = ['coqchk', '-o', '-silent'] + [x for x in COQ_Q if True] + list(modules)
    cmd = [c for c in cmd]
    # coqchk has no -Q for the Extract dir in our use; reuse COQ_Q as is
    rc, out, err = run(cmd, cwd=os.path.join(ROOT, 'coq'), timeout=timeout)
    txt = out + err
    m = re.search(r'\* Axioms:(.*?)\n\s*\n\* Constants', txt, re.S)
    ax = m.group(1).strip() if m else 'unparsed'
    ok = rc == 0 and ax == '<none>' and 'type-in-type: <none>' in txt and 'unsafe (co)fixpoints: <none>' in txt and 'positivity is assumed: <none>' in txt
    return ok, ax if rc == 0 else (txt[-400:])

def forbidden_grep():
    """no Admitted / admit / Axiom / Parameter / ... anywhere in the development"""
    bad = []
    rx = re.compile(r'\b(Admitted|admit|Axiom|Axioms|Parameter|Parameters|Conjecture|Admit Obligations|Unset Guard Checking|bypass_check|Unset Positivity Checking|Unset Universe Checking|type-in-type|impredicative-set)\b')
    rx_var = re.compile(r'^\s*(Variable|Variables|Hypothesis|Hypotheses)\b')
    for dp, dn, fn in os.walk(os.path.join(ROOT, 'coq')):
        for f in fn:
            if not f.endswith('.v'):
                continue
            depth = 0
            p = os.path.join(dp, f)
            txt = open(p).read()
            # strip comments
            txt = re.sub(r'\(\*.*?\*\)', lambda m: '\n' * m.group(0).count('\n'), txt, flags=re.S)
            for ln, line in enumerate(txt.split('\n'), 1):
                if re.match(r'^\s*Section\b', line):
                    depth += 1
                if re.match(r'^\s*End\b', line) and depth > 0:
                    depth -= 1
                if rx.search(line):
                    bad.append('%s:%d: %s' % (p, ln, line.strip()))
                if depth == 0 and rx_var.match(line):
                    bad.append('%s:%d: %s (outside a section)' % (p, ln, line.strip()))
    return bad

# ------------------------------------------------------------------ evidence / violations
def write_evidence(pid, tier, seed, level, coverage, assumptions, wall_s, violations):
    os.makedirs(EVID, exist_ok=True)
    ev = dict(property_id=pid, tier=tier, seed=seed, level=level, coverage=coverage,
              assumptions=assumptions, wall_s=round(wall_s, 2), violations=violations)
    with open(os.path.join(EVID, '%s.json' % pid), 'w') as f:
        json.dump(ev, f, indent=1, sort_keys=True)
    return ev

def load_known():
    """known_findings.txt: `finding: property=<id> key=<key> <what>` and `fixed: property=<id> <commit> <what>`"""
    out = []
    p = os.path.join(ROOT, 'known_findings.txt')
    if os.path.exists(p):
        for line in open(p):
            line = line.strip()
            m = re.match(r'finding:\s+property=(\S+)\s+key=(\S+)\s+(.*)$', line)
            if m:
                out.append(dict(pid=m.group(1), key=m.group(2), what=m.group(3)))
    return out

def write_replay(pid, payload):
    os.makedirs(REPLAY, exist_ok=True)
    s = json.dumps(payload, indent=1, sort_keys=True)
    h = hashlib.sha256(s.encode()).hexdigest()[:12]
    path = os.path.join(REPLAY, '%s-%s.json' % (pid, h))
    with open(path, 'w') as f:
        f.write(s)
    return path

class Report:
    """collects what a check did; prints KNOWN-FINDING / VIOLATION lines; decides the exit code"""
    def __init__(self, pid):
        self.pid = pid
        self.known = [k for k in load_known() if k['pid'] == pid]
        self.violations = []     # (key, what, payload, found_input)
        self.known_hit = {}
        self.notes = []
    def fail(self, key, what, payload=None, found_input=True):
        """a violation identified by `key` (stable id of the failing input / obligation)"""
        for k in self.known:
            if k['key'] == key:
                self.known_hit[key] = k
                return
        self.violations.append((key, what, payload or {}, found_input))
    def finish(self):
        for key, k in sorted(self.known_hit.items()):
            print('KNOWN-FINDING: property=%s %s' % (self.pid, k['what']))
        seen = set()
        n = 0
        # failing inputs first; then what no longer checks
        ordered = [v for v in self.violations if v[3]] + [v for v in self.violations if not v[3]]
        for key, what, payload, found in ordered:
            if key in seen:
                continue
            seen.add(key)
            n += 1
            if n > 8:
                continue
            payload = dict(payload)
            payload.update(property=self.pid, key=key, what=what, failing_input_found=found)
            path = write_replay(self.pid, payload)
            print('VIOLATION property=%s replay=%s%s' % (self.pid, path, '' if found else ' no-failing-input-found'))
        return 1 if self.violations else 0
