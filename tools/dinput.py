"""Derive inputs: python structure, Rust source printer, s-expression printer (model input)."""
from rlex import lex, sx_toks, q

class Attr:
    """#[path(args)] / #[path = args] / #[path]"""
    def __init__(self, path, kind='list', args='', delim='('):
        self.path, self.kind, self.args, self.delim = path, kind, args, delim
    def rust(self):
        if self.kind == 'path':
            return '#[%s]' % self.path
        if self.kind == 'nv':
            return '#[%s = %s]' % (self.path, self.args)
        close = {'(': ')', '[': ']', '{': '}'}[self.delim]
        return '#[%s%s%s%s]' % (self.path, self.delim, self.args, close)
    def sx(self):
        segs = '(' + ' '.join(q(s) for s in self.path.split('::')) + ')'
        if self.kind == 'path':
            m = 'Path'
        elif self.kind == 'nv':
            m = '(NV %s)' % sx_toks(lex(self.args))
        else:
            m = '(List %s %s)' % ({'(': 'p', '{': 'b', '[': 'k'}[self.delim], sx_toks(lex(self.args)))
        return '(attr %s %s)' % (segs, m)

def educe(args):
    return Attr('educe', 'list', args)

def sx_opt(x, f):
    return 'None' if x is None else '(Some %s)' % f(x)
def sx_list(l, f):
    return '(' + ' '.join(f(x) for x in l) + ')'
def sx_text(t):
    return sx_toks(lex(t))

class Field:
    def __init__(self, name, ty, attrs=None):
        self.name, self.ty, self.attrs = name, ty, attrs or []
    def rust(self):
        a = ' '.join(x.rust() for x in self.attrs)
        if self.name is None:
            return ('%s %s' % (a, self.ty)).strip()
        return ('%s %s: %s' % (a, self.name, self.ty)).strip()
    def sx(self):
        return '(field %s %s %s)' % (sx_list(self.attrs, Attr.sx),
                                     'None' if self.name is None else '(Some %s)' % q(self.name),
                                     sx_text(self.ty))

def fields_rust(kind, fields, term=''):
    if kind == 'unit':
        return term
    body = ', '.join(f.rust() for f in fields)
    if kind == 'named':
        return ' { %s }' % body
    return '(%s)%s' % (body, term)
def fields_sx(kind, fields):
    if kind == 'unit':
        return 'Unit'
    return '(%s %s)' % ('Named' if kind == 'named' else 'Unnamed', sx_list(fields, Field.sx))

class Variant:
    def __init__(self, name, kind, fields=None, attrs=None, discr=None):
        self.name, self.kind, self.fields, self.attrs, self.discr = name, kind, fields or [], attrs or [], discr
    def rust(self):
        a = ' '.join(x.rust() for x in self.attrs)
        d = '' if self.discr is None else ' = %s' % self.discr
        return ('%s %s%s%s' % (a, self.name, fields_rust(self.kind, self.fields), d)).strip()
    def sx(self):
        return '(variant %s %s %s %s)' % (sx_list(self.attrs, Attr.sx), q(self.name),
                                          fields_sx(self.kind, self.fields), sx_opt(self.discr, sx_text))

class Generics:
    """params: list of dicts {kind: life|type|const, name, bounds, default, ty}"""
    def __init__(self, params=None, trailing=False, where=None, where_trailing=False):
        self.params, self.trailing = params or [], trailing
        self.where, self.where_trailing = where or [], where_trailing
    def rust_params(self):
        if not self.params:
            return ''
        out = []
        for p in self.params:
            if p['kind'] == 'life':
                s = "'" + p['name'] + (': ' + p['bounds'] if p.get('bounds') else '')
            elif p['kind'] == 'type':
                s = p['name'] + (': ' + p['bounds'] if p.get('bounds') else '')
                if p.get('default') is not None:
                    s += ' = ' + p['default']
            else:
                s = 'const %s: %s' % (p['name'], p['ty'])
                if p.get('default') is not None:
                    s += ' = ' + p['default']
            out.append(s)
        return '<' + ', '.join(out) + (',' if self.trailing else '') + '>'
    def rust_where(self):
        if not self.where:
            return ''
        return ' where ' + ', '.join(self.where) + (',' if self.where_trailing else '')
    def sx(self):
        ps = []
        for p in self.params:
            if p['kind'] == 'life':
                ps.append('(Life %s %s)' % (q(p['name']), sx_text(p.get('bounds') or '')))
            elif p['kind'] == 'type':
                ps.append('(Type %s %s %s)' % (q(p['name']), sx_text(p.get('bounds') or ''),
                                               sx_opt(p.get('default'), sx_text)))
            else:
                ps.append('(Const %s %s %s)' % (q(p['name']), sx_text(p['ty']), sx_opt(p.get('default'), sx_text)))
        return '(generics (%s) %s %s %s)' % (' '.join(ps), 'true' if self.trailing else 'false',
                                             sx_list(self.where, sx_text),
                                             'true' if self.where_trailing else 'false')

class Input:
    """kind: struct|enum|union.  struct: fkind + fields; enum: variants; union: fields (named)."""
    def __init__(self, kind, name, attrs=None, generics=None, fkind='named', fields=None, variants=None):
        self.kind, self.name, self.attrs = kind, name, attrs or []
        self.generics = generics or Generics()
        self.fkind, self.fields, self.variants = fkind, fields or [], variants or []
    def rust(self, derive=False):
        a = '\n'.join(x.rust() for x in self.attrs)
        if derive:
            a = '#[derive(Educe)]\n' + a
        g = self.generics
        if self.kind == 'struct':
            if self.fkind == 'named':
                body = 'struct %s%s%s%s' % (self.name, g.rust_params(), g.rust_where(), fields_rust('named', self.fields))
            elif self.fkind == 'unnamed':
                body = 'struct %s%s%s%s;' % (self.name, g.rust_params(), fields_rust('unnamed', self.fields), g.rust_where())
            else:
                body = 'struct %s%s%s;' % (self.name, g.rust_params(), g.rust_where())
        elif self.kind == 'enum':
            body = 'enum %s%s%s { %s }' % (self.name, g.rust_params(), g.rust_where(),
                                           ', '.join(v.rust() for v in self.variants))
        else:
            body = 'union %s%s%s%s' % (self.name, g.rust_params(), g.rust_where(), fields_rust('named', self.fields))
        return (a + '\n' + body).strip()
    def sx(self):
        if self.kind == 'struct':
            d = '(Struct %s)' % fields_sx(self.fkind, self.fields)
        elif self.kind == 'enum':
            d = '(Enum %s)' % sx_list(self.variants, Variant.sx)
        else:
            d = '(Union %s)' % sx_list(self.fields, Field.sx)
        return '(dinput %s %s %s %s)' % (sx_list(self.attrs, Attr.sx), q(self.name), self.generics.sx(), d)
