"""reach / outcome statistics for the PartialOrd, Ord generator"""
import sys, collections
import os; sys.path.insert(0, os.path.dirname(os.path.abspath(__file__)))
import gen, k1
def main():
    import argparse
    ap = argparse.ArgumentParser()
    ap.add_argument('-n', type=int, default=2000)
    ap.add_argument('--seed', type=int, default=1)
    ap.add_argument('--traits', default='PartialOrd,Ord')
    ap.add_argument('--full', action='store_true')
    a = ap.parse_args()
    pool = a.traits.split(',')
    cases = []
    for i in range(a.n):
        c = gen.gen_case('%d-%d' % (a.seed, i), 0, pool, want_fault=(i % 100) < 30)
        cases.append((str(i), c))
    real = k1.run_real([(i, c.rust()) for i, c in cases])
    outcome = collections.Counter()
    errk = collections.Counter()
    reach = collections.Counter()
    faults = collections.Counter()
    unexpected = []
    for i, c in cases:
        rc, rp = real[i]
        outcome[rc] += 1
        k = None
        if rc == 'ERR':
            k = k1.err_kind(rp.split(' || ')[0])
            errk[(k, c.kind if k == 'E_no_union' else '')] += 1
        faults[(c.fault, rc, k)] += 1
        if c.fault is None and rc != 'OK' and c.kind != 'union':
            unexpected.append((i, rp[:100]))
        for t in c.notes.get('reach', []):
            reach[t if a.full else t[:3]] += 1
        if rc == 'OK' and c.kind == 'enum':
            toks = rp.split('\x1f')
            if 'cast' in toks:
                j = toks.index('cast')
                ty = toks[j + 4]
                src = 'repr' if any(a.path == 'repr' and a.kind == 'list' and any(w.strip(' ,') == ty for w in a.args.split(',')[:1]) for a in c.attrs) else 'literal range'
                reach[('discriminant type', ty, src)] += 1
                body = 'all-unit 3-arm match' if all(v.kind == 'unit' for v in c.variants) else 'match self arms'
                reach[('enum body', body, '')] += 1
            else:
                reach[('enum body', 'no variant: Equal', '')] += 1
            vals = [v.discr for v in c.variants]
            if any(d and d.replace('_', '').lstrip('0') .startswith('170141183460469231731687303715884105727') for d in vals[:-1]):
                reach[('discr', 'i128::MAX followed by a variant (saturating_add)', '')] += 1
            if any(d and d.replace(' ', '').startswith('-170141183460469231731687303715884105728') for d in vals):
                reach[('discr', '-2^127 special case', '')] += 1
        tr = '+'.join(c.traits)
        shape = c.kind + ('/' + c.fkind if c.kind == 'struct' else '')
        reach[('shape', tr if len(pool) <= 2 else ('both' if 'Ord' in c.traits and 'PartialOrd' in c.traits else 'one'), shape, rc)] += 1
    print('outcomes', dict(outcome))
    print('error kinds'); [print('   ', k, v) for k, v in sorted(errk.items(), key=str)]
    print('faults'); [print('   ', k, v) for k, v in sorted(faults.items(), key=str)]
    print('reach'); [print('   ', k, v) for k, v in sorted(reach.items(), key=str)]
    print('unexpected errors on fault-free non-union cases:', unexpected[:10])
main()
