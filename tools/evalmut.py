#!/usr/bin/env python3
"""Evaluate a seeded change: confirm it (demo fails with the patch, passes without; test suite passes),
then run the checks of the given properties against /repo with the patch applied, and undo it.
usage: evalmut.py <worktree> <variant a|b> <property id> [other property ids to run as well]
Stores /verif/seeded/<pid>_<variant>/ {patch.diff, demo/, meta.json} when confirmed."""
import os, sys, subprocess, json, shutil, time
ROOT = os.path.dirname(os.path.dirname(os.path.abspath(__file__)))
def sh(cmd, cwd=None, timeout=1800):
    p = subprocess.run(cmd, shell=True, cwd=cwd, stdin=subprocess.DEVNULL, capture_output=True, text=True, timeout=timeout,
                       env=dict(os.environ, CARGO_NET_OFFLINE='true', VERIF_EVIDENCE_DIR='/root/scratch/mut_evidence'))
    return p.returncode, p.stdout + p.stderr
wt, var, pid = sys.argv[1], sys.argv[2], sys.argv[3]
others = sys.argv[4:]
out = os.path.join(wt, 'OUT', var)
patch = os.path.join(out, 'patch.diff')
res = dict(property=pid, variant=var)
sh('git checkout -- src', cwd=wt)
rc0, o0 = sh('sh run.sh', cwd=os.path.join(out, 'demo'))
res['demo_without_patch'] = rc0
rc, o = sh('git apply %s' % patch, cwd=wt)
assert rc == 0, o
rc1, o1 = sh('sh run.sh', cwd=os.path.join(out, 'demo'))
res['demo_with_patch'] = rc1
rc, o = sh('cargo test --offline 2>&1 | grep -E "^test result" | grep -v " 0 failed" | wc -l', cwd=wt)
res['suite_failed_binaries'] = int(o.strip().split()[-1])
rc, o = sh('cargo build --offline 2>&1 | grep -c "^warning"', cwd=wt)
res['build_warnings'] = int(o.strip().split()[-1])
sh('git checkout -- src', cwd=wt)
res['confirmed'] = (rc0 == 0 and rc1 != 0 and res['suite_failed_binaries'] == 0)
# run my checks against /repo
assert sh('git -C /repo status --porcelain src')[1].strip() == '', 'repo not clean'
rc, o = sh('git -C /repo apply %s' % patch)
assert rc == 0, o
checks = {}
try:
    for p in [pid] + others:
        t0 = time.time()
        rc, o = sh('./check %s' % p, cwd=ROOT, timeout=3000)
        lines = [l for l in o.split('\n') if l.startswith('VIOLATION') or l.startswith('KNOWN') or ' tier=' in l]
        checks[p] = dict(rc=rc, lines=lines[:6], wall=round(time.time() - t0))
        # copy the first replay for the record
        for l in lines:
            if l.startswith('VIOLATION') and 'replay=' in l:
                rp = l.split('replay=')[1].split()[0]
                try:
                    checks[p]['what'] = json.load(open(rp)).get('what', '')[:400]
                except Exception:
                    pass
                break
finally:
    sh('git -C /repo checkout -- .')
    sh('./build.sh', cwd=ROOT)          # the binaries must be those of the unchanged tree again
res['checks'] = checks
res['detected_with_input'] = any(l.startswith('VIOLATION') and 'no-failing-input-found' not in l for l in checks[pid]['lines'])
res['detected'] = checks[pid]['rc'] != 0
print(json.dumps(res, indent=1))
if res['confirmed']:
    dst = os.path.join(ROOT, 'seeded', '%s_%s' % (pid, var))
    if os.path.isdir(dst):
        shutil.rmtree(dst)
    os.makedirs(dst)
    shutil.copy(patch, dst)
    shutil.copytree(os.path.join(out, 'demo'), os.path.join(dst, 'demo'), ignore=shutil.ignore_patterns('target', 'Cargo.lock'))
    meta = json.load(open(os.path.join(out, 'meta.json')))
    meta['evaluation'] = res
    json.dump(meta, open(os.path.join(dst, 'meta.json'), 'w'), indent=1)
