"""K1 with per-property views: segmentation of flat token output into impl items, and the
comparison of the real macro's outcome with the model's under a view."""
import k1

SEP = k1.SEP
OPEN = {'(': ')', '[': ']', '{': '}'}
CLOSE = set(OPEN.values())

def split_items(flat):
    """split a flat token list into top-level items.  An item ends at a top-level `}` that is followed
    by the end of the input, `impl` or `#` (a brace group inside a header, `Foo<{ 1 + 2 }>`, does not
    end it); returns list of (header_tokens, body_tokens_including_braces) with body = the last
    top-level brace group of the item"""
    items = []
    depth = 0
    start = 0
    last_open = None
    n = len(flat)
    for i, t in enumerate(flat):
        if t in OPEN:
            if depth == 0 and t == '{':
                last_open = i
            depth += 1
        elif t in CLOSE:
            depth -= 1
            if depth == 0 and t == '}' and (i + 1 == n or flat[i + 1] in ('impl', '#')):
                items.append((flat[start:last_open], flat[last_open:i + 1]))
                start = i + 1
                last_open = None
    if start < n:
        items.append((flat[start:], []))
    return items

def skip_angle(toks, i):
    """toks[i] == '<' : index just after the matching '>' (handles `->`)"""
    depth = 0
    n = len(toks)
    while i < n:
        t = toks[i]
        if t == '-' and i + 1 < n and toks[i + 1] == '>':
            i += 2
            continue
        if t == '<':
            depth += 1
        elif t == '>':
            depth -= 1
            if depth == 0:
                return i + 1
        elif t in OPEN:
            # skip a delimited group entirely
            d = 1
            i += 1
            while i < n and d > 0:
                if toks[i] in OPEN:
                    d += 1
                elif toks[i] in CLOSE:
                    d -= 1
                i += 1
            continue
        i += 1
    return n

def item_key(header):
    """('Trait', target-tokens-for-Into) of an impl header; ('inherent', ()) for inherent impls"""
    h = list(header)
    # leading attributes
    i = 0
    while i < len(h) and h[i] == '#':
        # '#', '[', ... ']'
        d = 0
        i += 1
        while i < len(h):
            if h[i] in OPEN:
                d += 1
            elif h[i] in CLOSE:
                d -= 1
                if d == 0:
                    i += 1
                    break
            i += 1
    if i >= len(h) or h[i] != 'impl':
        return ('?', ())
    i += 1
    if i < len(h) and h[i] == '<':
        i = skip_angle(h, i)
    # trait path up to `for` at angle depth 0
    j = i
    depth = 0
    path = []
    while j < len(h):
        t = h[j]
        if t == '<':
            k = skip_angle(h, j)
            path.append(('<', tuple(h[j:k])))
            j = k
            continue
        if t == 'for' or t == 'where':
            break
        path.append(t)
        j += 1
    if j < len(h) and h[j] == 'for':
        idents = [p for p in path if isinstance(p, str) and p != ':']
        name = idents[-1] if idents else '?'
        args = ()
        for p in path:
            if isinstance(p, tuple):
                args = p[1]
        return (name, args if name == 'Into' else ())
    return ('inherent', ())

def segments(flat):
    return [(item_key(h), h, b) for h, b in split_items(flat)]

# ------------------------------------------------------------------ views
def view_whole(flat):
    return ('whole', tuple(flat))

def make_view_items(names):
    names = set(names)
    def v(flat):
        out = []
        for key, h, b in segments(flat):
            if key[0] in names:
                out.append((key, tuple(h), tuple(b)))
        return ('items', tuple(out))
    return v

def nested_impl_headers(b):
    """headers of the impl blocks written inside a body (the Debug field wrapper, ...): they carry the
    type's generics and where-clause as well"""
    out = []
    i, n = 0, len(b)
    while i < n:
        if b[i] == 'impl' and (i == 0 or b[i - 1] in (';', '{', '}', ']')):
            j, d = i + 1, 0
            while j < n:
                t = b[j]
                if t in ('(', '['):
                    d += 1
                elif t in (')', ']'):
                    d -= 1
                elif t == '{':
                    if d == 0 and b[j - 1] not in ('<', ',', '='):
                        break
                    # a brace group inside the header (const argument): skip it
                    k, dd = j, 0
                    while k < n:
                        if b[k] == '{':
                            dd += 1
                        elif b[k] == '}':
                            dd -= 1
                            if dd == 0:
                                break
                        k += 1
                    j = k
                j += 1
            out.append(tuple(b[i:j]))
            i = j
        i += 1
    return tuple(out)

def view_headers(flat):
    return ('headers', tuple((key, tuple(h), nested_impl_headers(b)) for key, h, b in segments(flat)))

def view_skeleton(flat):
    return ('skeleton', tuple(key for key, h, b in segments(flat)))

def view_outcome(flat):
    return ('ok',)

VIEWS = {'whole': view_whole, 'headers': view_headers, 'skeleton': view_skeleton, 'outcome': view_outcome}

def get_view(spec):
    if spec in VIEWS:
        return VIEWS[spec]
    if spec.startswith('items:'):
        return make_view_items(spec[6:].split(','))
    raise KeyError(spec)

def classify(side, which):
    """normalise an outcome to (class, kind-or-None, flat-or-None)"""
    c, p = side
    if which == 'model' and c in ('OOD', 'BADINPUT'):
        return ('OOD', p, None)
    if c == 'OK':
        return ('OK', None, p.split(SEP) if p else [])
    if c == 'ERR':
        kind = p if which == 'model' else k1.err_kind(p.split(' || ')[0])
        return ('ERR', kind, None)
    if c in ('PANIC', 'CRASH', 'TIMEOUT'):
        return ('PANIC', None, None)
    if c == 'NONDET':
        return ('NONDET', None, None)
    return (c, None, None)

def compare_view(real, model, view, errkind=True):
    """-> (verdict, detail); verdict: same | ood | diff"""
    r = classify(real, 'real')
    m = classify(model, 'model')
    if m[0] == 'OOD':
        return ('ood', m[1])
    if r[0] != m[0]:
        return ('diff', 'outcome class: real %s%s, model %s%s' % (r[0], '(%s)' % r[1] if r[1] else '',
                                                                    m[0], '(%s)' % m[1] if m[1] else ''))
    if r[0] == 'ERR':
        if errkind and r[1] != m[1]:
            return ('diff', 'error kind: real %s (%s), model %s' % (r[1], real[1][:100], m[1]))
        return ('same', '')
    if r[0] == 'OK':
        a, b = view(r[2]), view(m[2])
        if a == b:
            return ('same', '')
        return ('diff', 'tokens differ under view %s: %s' % (a[0], first_diff(r[2], m[2])))
    return ('same', '')

def first_diff(a, b):
    i = 0
    while i < min(len(a), len(b)) and a[i] == b[i]:
        i += 1
    return 'at token %d: real …%s | model …%s' % (i, ' '.join(a[max(0, i - 8):i + 10]), ' '.join(b[max(0, i - 8):i + 10]))
