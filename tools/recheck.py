#!/usr/bin/env python3
"""Re-run the property checks against the stored seeded changes (after the checks were strengthened).
usage: recheck.py [<pid>_<variant> ...]     (default: every directory of /verif/seeded)
For each: git -C /repo apply seeded/<id>/patch.diff ; ./check <pid> ; git -C /repo checkout -- . ; the result
goes to seeded/<id>/recheck.json.  Evidence of these runs goes to a scratch directory, never to /verif/evidence."""
import os, sys, subprocess, json, time
ROOT = os.path.dirname(os.path.dirname(os.path.abspath(__file__)))
ENV = dict(os.environ, CARGO_NET_OFFLINE='true', VERIF_EVIDENCE_DIR='/root/scratch/mut_evidence')
def sh(cmd, cwd=ROOT, timeout=3000):
    p = subprocess.run(cmd, shell=True, cwd=cwd, stdin=subprocess.DEVNULL, capture_output=True, text=True, timeout=timeout, env=ENV)
    return p.returncode, p.stdout + p.stderr
ids = sys.argv[1:] or sorted(os.listdir(os.path.join(ROOT, 'seeded')))
for sid in ids:
    d = os.path.join(ROOT, 'seeded', sid)
    patch = os.path.join(d, 'patch.diff')
    if not os.path.exists(patch):
        continue
    pid = sid.split('_')[0]
    assert sh('git -C /repo status --porcelain')[1].strip() == '', 'repo not clean'
    rc, o = sh('git -C /repo apply %s' % patch)
    assert rc == 0, o
    t0 = time.time()
    try:
        rc, o = sh('./check %s' % pid)
    finally:
        sh('git -C /repo checkout -- .')
    lines = [l for l in o.split('\n') if l.startswith('VIOLATION') or l.startswith('KNOWN') or ' tier=' in l]
    what = []
    for l in lines:
        if l.startswith('VIOLATION') and 'replay=' in l:
            try:
                what.append(json.load(open(l.split('replay=')[1].split()[0])).get('what', '')[:300])
            except Exception:
                pass
    res = dict(id=sid, rc=rc, detected=rc != 0,
               with_input=any(l.startswith('VIOLATION') and 'no-failing-input-found' not in l for l in lines),
               lines=[l[:200] for l in lines[:6]], what=what[:3], wall=round(time.time() - t0))
    json.dump(res, open(os.path.join(d, 'recheck.json'), 'w'), indent=1)
    print(sid, 'detected', res['detected'], 'with_input', res['with_input'], '|', (what or [''])[0][:160], flush=True)
sh('./build.sh')
