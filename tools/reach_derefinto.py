"""Branch reach of the Deref / DerefMut / Into generators: tallies the (shape, parameter, spelling)
tuples recorded by tools/gen.py (`reach(ctx, ...)`), the outcome classes of the real macro, the
error kinds, and how often K1 had to use the Into-specific comparison rules."""
import sys, collections, os
sys.path.insert(0, os.path.dirname(os.path.abspath(__file__)))
import gen, k1

def main():
    import argparse
    ap = argparse.ArgumentParser()
    ap.add_argument('-n', type=int, default=4000)
    ap.add_argument('--seeds', default='1,2,3,4,5')
    ap.add_argument('--traits', default='Deref,DerefMut,Into')
    ap.add_argument('--full', action='store_true')
    a = ap.parse_args()
    pool = a.traits.split(',')
    reach = collections.Counter()
    errs = collections.Counter()
    cls = collections.Counter()
    special = collections.Counter()
    shapes = collections.Counter()
    for seed in a.seeds.split(','):
        cases = []
        for i in range(a.n):
            c = gen.gen_case('%s-%d' % (seed, i), 0, pool, want_fault=(i % 100) < 30)
            cases.append((str(i), c))
        real = k1.run_real([(i, c.rust()) for i, c in cases])
        model = k1.run_model([(i, c.sx()) for i, c in cases])
        for i, c in cases:
            rc, rp = real[i]
            mc, mp = model[i]
            v, d = k1.compare(real[i], model[i])
            cls[(rc, v)] += 1
            for t in set(c.notes.get('reach', [])):
                reach[t + (rc,)] += 1
            if rc == 'ERR':
                k = k1.err_kind(rp.split(' || ')[0])
                errs[(k, c.fault or '-')] += 1
                if mc == 'ERR' and '|' in mp:
                    special['ERR with alternatives (%s)' % ('first' if mp.split('|')[0] == k else 'other')] += 1
            if rc == 'OK' and mc == 'OK':
                n_into = sum(1 for it in k1.split_items(rp.split(k1.SEP)) if k1.is_into_item(it))
                special['OK with %d Into impls' % min(n_into, 3)] += 1
                if rp != mp:
                    special['OK equal only as multiset'] += 1
            # shapes
            if c.kind == 'struct':
                shapes[('struct', c.fkind, min(len(c.fields), 3))] += 1
            elif c.kind == 'enum':
                shapes[('enum', 'variants=%d' % min(len(c.variants), 3))] += 1
                for v_ in c.variants:
                    shapes[('variant', v_.kind, min(len(v_.fields), 3))] += 1
            else:
                shapes[('union',)] += 1
    print('== outcome classes (real class, verdict)')
    for k, v in sorted(cls.items()):
        print('  %-30s %d' % (k, v))
    print('== Into-specific comparison rules used')
    for k, v in sorted(special.items()):
        print('  %-40s %d' % (k, v))
    print('== shapes')
    for k, v in sorted(shapes.items(), key=str):
        print('  %-40s %d' % (k, v))
    print('== error kinds (kind, injected fault)')
    agg = collections.Counter()
    for (k, f), v in errs.items():
        agg[k] += v
    for k, v in sorted(agg.items()):
        print('  %-28s %d' % (k, v))
    if a.full:
        for k, v in sorted(errs.items()):
            print('     %-50s %d' % (k, v))
    print('== reach tuples')
    # aggregate: drop the outcome unless --full
    if a.full:
        for k, v in sorted(reach.items(), key=str):
            print('  %-100s %d' % (' / '.join(map(str, k)), v))
    else:
        agg = collections.Counter()
        for k, v in reach.items():
            agg[k[:-1]] += v
        for k, v in sorted(agg.items(), key=str):
            print('  %-100s %d' % (' / '.join(map(str, k)), v))

if __name__ == '__main__':
    main()
