"""Structured generator of derive inputs for the K1 correspondence.

Two independent PRNG streams per case: `rng` decides the *request* (shape, traits,
which fields are ignored / have methods / ranks / ...), `sp` decides the *spelling* of
that request (p = v vs p(v), string forms, attribute grouping and order).  Cases with
the same request seed and different spelling seeds form a C14 spelling group.
"""
import random
from dinput import Attr, educe, Field, Variant, Generics, Input

ALL_TRAITS = ['Debug', 'Clone', 'Copy', 'PartialEq', 'Eq', 'PartialOrd', 'Ord', 'Hash',
              'Default', 'Deref', 'DerefMut', 'Into']

FIELD_NAMES = ['a', 'b', 'c', 'x', 'y', 'value', 'state', 'other', 'f', 'source', 'r#type',
               'builder', 'arg', 'size', 'data', '_0', '_s_a', 'v_x', 'H', 'self_data']
VARIANT_NAMES = ['A', 'B', 'C', 'Unit', 'Tuple', 'Struct', 'None', 'Some', 'Ok', 'V1', 'r#Box']
PLAIN_TYPES = ['u8', 'i32', 'bool', 'char', 'f64', 'String', "&'static str", 'Vec<u8>', '[u8; 3]',
               '(u8, i16)', 'Option<u8>', 'Box<[u8]>', 'usize', 'i128', '()', '::core::primitive::u8',
               '&&u8' if False else "&'static [u8]", 'fn(u8) -> u8' if False else 'Option<Vec<u8>>']
METHOD_PATHS = ['m', 'my_mod::m', '::my_crate::m', 'Self::m', 'self::m', 'super::m', 'crate::a::b::m']

class Ctx:
    def __init__(self, rng, sp, traits):
        self.rng, self.sp, self.traits = rng, sp, traits
        self.kind = None
        self.generics = None
        self.type_params = []
        self.lifetimes = []
        self.consts = []
        self.fault = None        # name of the injected invalid construct (None = valid request)
        self.want_fault = False
        self.notes = {}

def pick(r, l):
    return l[r.randrange(len(l))]

# ---------------------------------------------------------------- generics
def gen_generics(ctx):
    r = ctx.rng
    c = r.randrange(8)
    g = Generics()
    if c <= 2:
        pass
    elif c == 3:
        g.params = [dict(kind='type', name='T')]
    elif c == 4:
        g.params = [dict(kind='type', name='T', bounds='Copy'), dict(kind='type', name='U', default='u8')]
        g.where = ['U: Clone']
    elif c == 5:
        g.params = [dict(kind='life', name='a'), dict(kind='type', name='T', bounds="'a + Copy", default='u8'),
                    dict(kind='const', name='N', ty='usize', default='3')]
        g.where = ['T: Clone', "Vec<T>: 'a"]
        g.where_trailing = r.random() < 0.5
    elif c == 6:
        g.params = [dict(kind='life', name='a'), dict(kind='life', name='b', bounds="'a"),
                    dict(kind='type', name='H'), dict(kind='type', name='V', bounds='::core::fmt::Debug + Sized')]
        g.trailing = r.random() < 0.5
    else:
        g.params = [dict(kind='const', name='N', ty='usize'), dict(kind='type', name='T')]
        g.where = ['[T; N]: Sized']
        g.trailing = r.random() < 0.3
    ctx.generics = g
    ctx.type_params = [p['name'] for p in g.params if p['kind'] == 'type']
    ctx.lifetimes = [p['name'] for p in g.params if p['kind'] == 'life']
    ctx.consts = [p['name'] for p in g.params if p['kind'] == 'const']
    return g

def gen_type(ctx):
    r = ctx.rng
    opts = list(PLAIN_TYPES)
    for t in ctx.type_params:
        opts += [t, t, 'Vec<%s>' % t, 'Option<%s>' % t, '::core::marker::PhantomData<%s>' % t]
        for l in ctx.lifetimes:
            opts += ["&'%s %s" % (l, t), "&'%s mut %s" % (l, t)]
        for n in ctx.consts:
            opts += ['[%s; %s]' % (t, n)]
    for l in ctx.lifetimes:
        opts += ["&'%s str" % l, "&'%s u8" % l]
    for n in ctx.consts:
        opts += ['[u8; %s]' % n]
    return pick(r, opts)

# ---------------------------------------------------------------- shared parameter spellings
def sp_bool_param(sp, name, value):
    """`name` flag-like parameter with an explicit boolean"""
    forms = ['%s = %s' % (name, 'true' if value else 'false'), '%s(%s)' % (name, 'true' if value else 'false')]
    if value:
        forms.append(name)
    return pick(sp, forms)

def sp_path_param(sp, name, path):
    return pick(sp, ['%s(%s)' % (name, path), '%s = %s' % (name, path),
                     '%s = "%s"' % (name, path), '%s("%s")' % (name, path)])

def gen_bound(ctx, extra_preds=()):
    """returns (mode, spelled parameter text or None)"""
    r, sp = ctx.rng, ctx.sp
    c = r.random()
    if c < 0.55:
        return ('auto', None)
    if c < 0.60:
        return ('auto', pick(sp, ['bound = true', 'bound(true)']))
    if c < 0.72:
        return ('false', pick(sp, ['bound = false', 'bound(false)', 'bound = ""']))
    if c < 0.84:
        return ('all', 'bound(*)')
    preds = []
    for t in ctx.type_params:
        if r.random() < 0.7:
            preds.append('%s: %s' % (t, pick(r, ['Clone', '::core::fmt::Debug + Copy', 'Into<Vec<u8>>', "'static", 'PartialEq<%s>' % t])))
    for l in ctx.lifetimes:
        if r.random() < 0.3:
            preds.append("'%s: '%s" % (l, l))
    if r.random() < 0.3:
        preds.append('Vec<u8>: Clone')
    preds += list(extra_preds)
    body = ', '.join(preds)
    if preds and sp.random() < 0.3:
        body += ','
    if not preds:
        return ('custom', pick(sp, ['bound()', 'bound( )']))
    return ('custom', pick(sp, ['bound(%s)' % body, 'bound = "%s"' % body, 'bound("%s")' % body]))

def join_params(sp, params):
    params = [p for p in params if p is not None]
    sp.shuffle(params)
    s = ', '.join(params)
    if params and sp.random() < 0.15:
        s += ','
    return s

def trait_with_params(sp, trait, params, allow_bare=True):
    params = [p for p in params if p is not None]
    if not params and allow_bare:
        return pick(sp, [trait, trait, trait + '()']) if sp.random() < 0.2 else trait
    return '%s(%s)' % (trait, join_params(sp, params))

# ---------------------------------------------------------------- per-trait generators
# type_meta(ctx) -> text of the trait's type-level meta
# field_meta(ctx, field_ctx) -> text or None ; variant_meta(ctx) -> text or None

def ignore_method_field(ctx, trait, method_ok=True, ignore_ok=True, extra=None):
    """field-level Trait(ignore / method(..)) in any documented spelling"""
    r, sp = ctx.rng, ctx.sp
    c = r.random()
    if c < 0.55:
        if r.random() < 0.1:   # explicit non-ignore
            return pick(sp, ['%s = true' % trait, '%s(ignore = false)' % trait, '%s(ignore(false))' % trait])
        return None
    if c < 0.78 and ignore_ok:
        return pick(sp, ['%s = false' % trait, '%s(ignore)' % trait, '%s(ignore = true)' % trait,
                         '%s(ignore(true))' % trait])
    if method_ok:
        m = pick(r, METHOD_PATHS)
        params = [sp_path_param(sp, 'method', m)]
        if r.random() < 0.15:
            params.append(sp_bool_param(sp, 'ignore', r.random() < 0.5))
        return '%s(%s)' % (trait, join_params(sp, params))
    return None

class TG:
    """default: flag-only trait with optional bound"""
    name = None
    union_unsafe = False
    def type_meta(self, ctx):
        mode, b = gen_bound(ctx)
        if ctx.kind == 'union' and self.union_unsafe:
            return '%s(unsafe)' % self.name
        return trait_with_params(ctx.sp, self.name, [b])
    def variant_meta(self, ctx, variant):
        """variant.index / variant.count / variant.kind are set"""
        return None
    def field_meta(self, ctx, field):
        """field.index / field.count / field.variant (Variant or None) / field.named are set"""
        return None
    def post(self, ctx, inp):
        """called once with the finished Input: may add #[repr], discriminants, ... (mutates inp)"""
        return None

class G_PartialEq(TG):
    name = 'PartialEq'
    union_unsafe = True
    def field_meta(self, ctx, field):
        if ctx.kind == 'union':
            return None
        name = 'PartialEq'
        if 'Eq' in ctx.traits and ctx.rng.random() < 0.3:
            name = 'Eq'            # documented synonym when Eq is educed
        return ignore_method_field(ctx, name)

class G_Eq(TG):
    name = 'Eq'
    def type_meta(self, ctx):
        if 'PartialEq' in ctx.traits:
            return 'Eq'
        mode, b = gen_bound(ctx)
        return trait_with_params(ctx.sp, 'Eq', [b])

class G_Hash(TG):
    name = 'Hash'
    union_unsafe = True
    def field_meta(self, ctx, field):
        if ctx.kind == 'union':
            return None
        return ignore_method_field(ctx, 'Hash')


def note(ctx, *tag):
    """record a reached (trait, place, shape, parameter, spelling) branch; observation only"""
    ctx.notes.setdefault('reach', []).append(tuple(tag))

def own_fault(ctx, p):
    """True (probability p, request stream) when this case may still receive its one invalid construct"""
    return ctx.want_fault and ctx.fault is None and ctx.rng.random() < p

PATH_FORMS = ['%s(%s)', '%s = %s', '%s = "%s"', '%s("%s")']
PATH_FORM_NAMES = ['p(v)', 'p=v', 'p="v"', 'p("v")']

class G_Clone(TG):
    """Clone: type-level flag / bound; field-level method (structs without Copy, enums); unions: nothing"""
    name = 'Clone'
    def shape(self, ctx):
        return ctx.kind + ('+Copy' if 'Copy' in ctx.traits else '')
    def type_meta(self, ctx):
        r, sp = ctx.rng, ctx.sp
        copy = 'Copy' in ctx.traits
        # per-type request: does any field get a custom method at all
        ctx.notes['clone_methods'] = r.random() < (0.35 if copy else 0.6)
        extra = []
        if copy and ctx.type_params and r.random() < 0.5:
            extra = ['%s: Copy' % t for t in ctx.type_params]
        mode, b = gen_bound(ctx, extra)
        if own_fault(ctx, 0.04):
            ctx.fault = 'clone_type_bad@type'
            k = r.randrange(5)
            note(ctx, 'Clone', 'type', self.shape(ctx), 'fault', k)
            return ['Clone(method(m))', 'Clone(ignore)', 'Clone = true', 'Clone(bound(T: Clone), method = "m")',
                    'Clone(bound = 3)'][k]
        form = 'flag' if b is None else ('nv' if ' = ' in b else 'list')
        note(ctx, 'Clone', 'type', self.shape(ctx), 'bound:' + mode, form)
        return trait_with_params(sp, 'Clone', [b])
    def variant_meta(self, ctx, variant):
        r, sp = ctx.rng, ctx.sp
        c = r.random()
        if c < 0.06:
            # an empty parameter list is accepted at a variant (and means nothing)
            note(ctx, 'Clone', 'variant', variant.kind, 'empty-list')
            return pick(sp, ['Clone()', 'Clone( )'])
        if own_fault(ctx, 0.05):
            ctx.fault = 'clone_variant_bad@variant'
            k = r.randrange(4)
            note(ctx, 'Clone', 'variant', variant.kind, 'fault', k)
            return ['Clone(method(m))', 'Clone = false', 'Clone(bound = false)', 'Clone'][k]
        return None
    def field_meta(self, ctx, field):
        r, sp = ctx.rng, ctx.sp
        copy = 'Copy' in ctx.traits
        place = 'union' if ctx.kind == 'union' else \
                ('%s/%s' % (self.shape(ctx), 'named' if field.named else 'tuple'))
        allowed = ctx.kind == 'enum' or (ctx.kind == 'struct' and not copy)
        c, c2 = r.random(), r.random()
        m = pick(r, METHOD_PATHS)
        if allowed and ctx.notes.get('clone_methods') and c < 0.5:
            k = sp.randrange(4)
            note(ctx, 'Clone', 'field', place, 'method', PATH_FORM_NAMES[k])
            s = 'Clone(%s%s)' % (PATH_FORMS[k] % ('method', m), ',' if sp.random() < 0.15 else '')
            return s
        if c2 < 0.05:
            note(ctx, 'Clone', 'field', place, 'empty-list')
            return pick(sp, ['Clone()', 'Clone( )'])
        if not allowed and own_fault(ctx, 0.2):
            ctx.fault = 'clone_method_refused@' + place
            k = sp.randrange(4)
            note(ctx, 'Clone', 'field', place, 'method-refused', PATH_FORM_NAMES[k])
            return 'Clone(%s)' % (PATH_FORMS[k] % ('method', m))
        if own_fault(ctx, 0.06):
            ctx.fault = 'clone_field_bad@' + place
            k = r.randrange(11)
            note(ctx, 'Clone', 'field', place, 'fault', k)
            return ['Clone', 'Clone = "m"', 'Clone = false', 'Clone(ignore)', 'Clone(bound(*))',
                    'Clone(method = "a b")', 'Clone(method(1))', 'Clone(method = "")',
                    'Clone(method(m), method(m))', 'Clone(method(m) method(n))', 'Clone(method)'][k]
        note(ctx, 'Clone', 'field', place, 'plain')
        return None
    def post(self, ctx, inp):
        nonlist_educe(ctx, inp, 'Clone')

def nonlist_educe(ctx, inp, who):
    """`#[educe]` / `#[educe = ".."]` (not a list) on a variant or a field is skipped by every
    build_from_attributes; on the type itself lib.rs refuses it.  Called from the post hooks."""
    if ctx.notes.get('nonlist_done'):
        return
    ctx.notes['nonlist_done'] = True
    r = ctx.rng
    c, where, form = r.random(), r.randrange(3), r.randrange(2)
    a = [Attr('educe', 'path'), Attr('educe', 'nv', '"Clone"')][form]
    if c >= 0.08:
        return
    items = []
    if inp.kind == 'enum':
        items = [('variant', v) for v in inp.variants] + [('field', f) for v in inp.variants for f in v.fields]
    else:
        items = [('field', f) for f in inp.fields]
    if where == 0:
        if own_fault(ctx, 1.0):
            ctx.fault = 'educe_nonlist@type'
            note(ctx, who, 'type', ctx.kind, 'fault', 'non-list educe attribute', form)
            inp.attrs.append(a)
        return
    if items:
        place, it = items[r.randrange(len(items))]
        it.attrs.insert(r.randrange(len(it.attrs) + 1), a)
        note(ctx, who, place, ctx.kind, 'non-list educe attribute (skipped)', form)

class G_Copy(TG):
    """Copy: alone = flag / bound at type level, nothing elsewhere; with Clone = flag only, and
    whatever is written at variants / fields is never looked at"""
    name = 'Copy'
    def type_meta(self, ctx):
        r, sp = ctx.rng, ctx.sp
        if 'Clone' in ctx.traits:
            if own_fault(ctx, 0.06):
                ctx.fault = 'copy_bound_with_clone@type'
                k = r.randrange(4)
                note(ctx, 'Copy', 'type', ctx.kind + '+Clone', 'bound-refused', k)
                return ['Copy(bound(*))', 'Copy(bound = false)', 'Copy(bound(T: Copy))', 'Copy(bound = "")'][k]
            k = sp.randrange(3)
            note(ctx, 'Copy', 'type', ctx.kind + '+Clone', 'flag', ['Copy', 'Copy()', 'Copy( )'][k])
            return ['Copy', 'Copy()', 'Copy'][k]
        mode, b = gen_bound(ctx)
        form = 'flag' if b is None else ('nv' if ' = ' in b else 'list')
        note(ctx, 'Copy', 'type', ctx.kind, 'bound:' + mode, form)
        return trait_with_params(sp, 'Copy', [b])
    def variant_meta(self, ctx, variant):
        r, sp = ctx.rng, ctx.sp
        c = r.random()
        if 'Clone' in ctx.traits:
            if c < 0.06:
                k = r.randrange(5)
                note(ctx, 'Copy', 'variant', '+Clone', 'unchecked', k)
                return ['Copy', 'Copy(bound(*))', 'Copy = 3', 'Copy(anything(at, all))', 'Copy()'][k]
            return None
        if c < 0.05:
            note(ctx, 'Copy', 'variant', 'alone', 'empty-list')
            return 'Copy()'
        if own_fault(ctx, 0.05):
            ctx.fault = 'copy_variant_bad@variant'
            k = r.randrange(4)
            note(ctx, 'Copy', 'variant', 'alone', 'fault', k)
            return ['Copy', 'Copy(bound(*))', 'Copy = false', 'Copy(bound = false)'][k]
        return None
    def field_meta(self, ctx, field):
        r, sp = ctx.rng, ctx.sp
        c = r.random()
        if 'Clone' in ctx.traits:
            if c < 0.05:
                k = r.randrange(5)
                note(ctx, 'Copy', 'field', ctx.kind + '+Clone', 'unchecked', k)
                return ['Copy', 'Copy(method(m))', 'Copy = false', 'Copy(bound(*))', 'Copy()'][k]
            return None
        if own_fault(ctx, 0.06):
            ctx.fault = 'copy_field@' + ctx.kind
            k = r.randrange(4)
            note(ctx, 'Copy', 'field', ctx.kind, 'refused', k)
            return ['Copy', 'Copy()', 'Copy = true', 'Copy(ignore)'][k]
        return None
    def post(self, ctx, inp):
        nonlist_educe(ctx, inp, 'Copy')

# ---- Debug
DBG_NAMES = ['Hi', 'Name2', 'r#type', '_n', 'x', 'A', 'f', 'builder', 'r#Box']
DBG_PATHKW = ['Self', 'self', 'crate', 'super']      # identifiers only the `= Ident` form accepts

def dbg_reach(ctx, *t):
    ctx.notes.setdefault('reach', []).append(t)

def dbg_name_forms(sp, value, quoted=True):
    """`name` / `rename` parameter carrying an identifier or a boolean, every documented spelling"""
    kw = pick(sp, ['name', 'name', 'rename'])
    o, c = pick(sp, ['()', '()', '()', '()', '[]', '{}'])
    forms = ['%s = %s' % (kw, value), '%s%s%s%s' % (kw, o, value, c)]
    if quoted:
        forms += ['%s = "%s"' % (kw, value), '%s%s"%s"%s' % (kw, o, value, c)]
    i = sp.randrange(len(forms))
    return forms[i], '%s:%s' % (kw, ['nv', 'list' + ('' if o == '(' else o), 'nv_str', 'list_str' + ('' if o == '(' else o)][i])

def dbg_delim(ctx, text):
    """spelling: `Debug(...)` may be written `Debug[...]` / `Debug{...}`"""
    if text is None or not (text.startswith('Debug(') and text.endswith(')')):
        return text
    if ctx.sp.random() < 0.93:
        return text
    o, c = pick(ctx.sp, ['[]', '{}'])
    dbg_reach(ctx, 'any', 'delimiter', o)
    return 'Debug' + o + text[6:-1] + c

DBG_TYPE_FAULTS = {
    # name: (texts, where it applies: s=struct e=enum u=union v=variant)
    'name_str_kw':   (['name = "Self"', 'name("struct")', 'rename = "crate"', 'name("_")'], 'seuv'),
    'short_str_kw':  (['= "type"', '= "self"', '= ""', '= "a b"', '= "1"'], 'sev'),
    'name_kw':       (['name(struct)', 'name = type', 'name(Self)', 'name(_)', 'name = fn', 'name = mut', 'name = try', 'name(try)', 'name = _'], 'seuv'),
    'short_bad':     (['= 1', '= type', '= true', "= 'c'", '= a::b', '= -1', '= x()', '= try', '= _'], 'sev'),
    'name_bad_lit':  (['name = 1', 'name(1)', "name = 'c'", 'name(b"x")', 'name = "a b"', 'name = "1"',
                       'name(x y)', 'name(x, y)', 'name(-1)', 'name = -1', 'name = a::b', 'name(a::b)',
                       'name()', 'name("x" y)', 'name(true false)', 'name = "a-b"'], 'seuv'),
    'name_lit_then_ident': (['name(1 x)', 'name(-1 y)', "name('c' z)", 'name(1.5 w)', 'name(b"q" k)'], 'seuv'),
    'name_flag':     (['name', 'rename'], 'seuv'),
    'named_field_bad': (['named_field', 'named_field = 1', 'named_field("true")', 'named_field(yes)',
                         'named_field = "true"', 'named_field()', 'named_field(true, false)',
                         'named_field = yes'], 'sv'),
    'named_field_off': (['named_field = true', 'named_field(false)', 'named_field'], 'eu'),
    'bound_off':     (['bound(*)', 'bound = false', 'bound'], 'uv'),
    'bound_bad':     (['bound', 'bound = 1', 'bound(T)', 'bound = "T"', 'bound(* ,)'], 'se'),
    'dup_name':      (['name = A, rename = B', 'name(A), name(A)', 'rename = false, name = true'], 'seuv'),
    'dup_name_bad':  (['name = A, name = 1', 'name = 1, name = A', 'name = A, name'], 'seuv'),
    'dup_named_field': (['named_field = true, named_field(false)', 'named_field = true, named_field = 1'], 'sv'),
    'dup_bound':     (['bound(*), bound = false', 'bound = false, bound'], 'se'),
    'unknown_param': (['foo', 'ignore', 'method(m)', 'a::name = x', 'Name = x', 'unsafe_'], 'seuv'),
    'unsafe_misuse': (['unsafe', 'unsafe, name = A', 'name = A, unsafe'], 'sev'),
}
DBG_UNION_FAULTS = ['no_unsafe', 'unsafe_late', 'unsafe_nocomma', 'unsafe_twice', 'short']

DBG_FIELD_FAULTS = {
    'flag':        ['Debug'],
    'short_bad':   ['Debug = 1', 'Debug = "a b"', 'Debug = type', "Debug = 'c'", 'Debug = a::b', 'Debug = -1',
                    'Debug = "struct"'],
    'name_bad':    ['Debug(name = false)', 'Debug(name)', 'Debug(name(true))', 'Debug(name = 1)', 'Debug(name(1 x))',
                    'Debug(name = "")', 'Debug(name(""))', 'Debug(name("a" b))', 'Debug(name(a b))', 'Debug(name = a::b)',
                    'Debug(name(struct))', 'Debug(name = Self)', 'Debug(name(Self))', 'Debug(rename = "Self")', 'Debug(name())'],
    'ignore_bad':  ['Debug(ignore = 1)', 'Debug(ignore(x))', 'Debug(ignore = "true")', 'Debug(ignore())', 'Debug(ignore(true false))'],
    'method_bad':  ['Debug(method)', 'Debug(method = 1)', 'Debug(method(a b))', 'Debug(method = "a b")', 'Debug(method())',
                    'Debug(method(""))', 'Debug(method = false)'],
    'dup':         ['Debug(name = a, rename = b)', 'Debug(ignore, ignore)', 'Debug(method(a), method(b))',
                    'Debug(ignore, ignore = 1)', 'Debug(method(a), method = 1)', 'Debug(name = a, name)'],
    'unknown':     ['Debug(skip)', 'Debug(named_field = true)', 'Debug(bound(*))', 'Debug(a::ignore)', 'Debug(unsafe)'],
    'dup_trait':   ['Debug(ignore), Debug = false', 'Debug = a, Debug = a'],
}

class G_Debug(TG):
    name = 'Debug'

    def _name(self, ctx, level, weights):
        """weights: (default, custom, false, true, pathkw) -> (mode, value) decided by the request stream"""
        r = ctx.rng
        c = r.random()
        acc = 0.0
        for mode, w in zip(['default', 'custom', 'false', 'true', 'pathkw'], weights):
            acc += w
            if c < acc:
                break
        if mode == 'custom':
            return mode, pick(r, DBG_NAMES)
        if mode == 'pathkw':
            return mode, pick(r, DBG_PATHKW)
        return mode, {'default': None, 'false': 'false', 'true': 'true'}[mode]

    def _assemble(self, ctx, level, mode, value, extra, allow_short, lead=None):
        """spelling of a type / variant level meta. lead = 'unsafe' for unions."""
        sp = ctx.sp
        extra = [e for e in extra if e is not None]
        if mode in ('custom', 'pathkw') and not extra and allow_short and lead is None and sp.random() < 0.4:
            if mode == 'custom' and sp.random() < 0.4:
                dbg_reach(ctx, level, 'name=' + mode, 'short_str')
                return 'Debug = "%s"' % value
            dbg_reach(ctx, level, 'name=' + mode, 'short')
            return 'Debug = %s' % value
        params = list(extra)
        if mode == 'custom':
            t, form = dbg_name_forms(sp, value)
            params.append(t); dbg_reach(ctx, level, 'name=custom', form)
        elif mode == 'pathkw':
            kw = pick(sp, ['name', 'rename'])
            params.append('%s = %s' % (kw, value)); dbg_reach(ctx, level, 'name=pathkw', kw + ':nv')
        elif mode == 'true':
            t, form = dbg_name_forms(sp, 'true', quoted=False)
            params.append(t); dbg_reach(ctx, level, 'name=true', form)
        elif mode == 'false':
            kw = pick(sp, ['name', 'name', 'rename'])
            forms = ['%s = false' % kw, '%s(false)' % kw, '%s = ""' % kw, '%s("")' % kw]
            i = sp.randrange(4)
            params.append(forms[i]); dbg_reach(ctx, level, 'name=false', kw + ':' + ['nv', 'list', 'nv_empty', 'list_empty'][i])
        else:
            dbg_reach(ctx, level, 'name=default', '-')
        if lead is not None:
            sp.shuffle(params)
            s = ', '.join([lead] + params)
            if sp.random() < 0.15:
                s += ','
            return 'Debug(%s)' % s
        if not params:
            form = 'Debug' if (level.startswith('variant') or sp.random() < 0.8) else 'Debug()'
            if level.startswith('variant'):
                return None if sp.random() < 0.8 else 'Debug()'
            return form
        return 'Debug(%s)' % join_params(sp, params)

    def _nf(self, ctx, level):
        r, sp = ctx.rng, ctx.sp
        c = r.random()
        if c < 0.6:
            dbg_reach(ctx, level, 'named_field=default', '-')
            return None, None
        v = c < 0.8
        i = sp.randrange(2)
        dbg_reach(ctx, level, 'named_field=%s' % v, ['nv', 'list'][i])
        b = 'true' if v else 'false'
        return v, ['named_field = %s' % b, 'named_field(%s)' % b][i]

    def _fault(self, ctx, where, p=0.2):
        """own invalid constructs at type / variant level; returns text or None"""
        r = ctx.rng
        if not ctx.want_fault or ctx.fault is not None or r.random() > p:
            return None
        code = {'struct': 's', 'enum': 'e', 'union': 'u', 'variant': 'v'}[where]
        kinds = sorted(k for k, (_, w) in DBG_TYPE_FAULTS.items() if code in w)
        k = pick(r, kinds)
        t = pick(r, DBG_TYPE_FAULTS[k][0])
        ctx.fault = 'dbg:%s@%s' % (k, where)
        dbg_reach(ctx, where, 'fault:' + k, t)
        lead = 'unsafe, ' if where == 'union' else ''
        if t.startswith('='):
            return 'Debug ' + t
        return 'Debug(%s%s)' % (lead, t)

    def type_meta(self, ctx):
        return dbg_delim(ctx, self._type_meta(ctx))
    def variant_meta(self, ctx, variant):
        return dbg_delim(ctx, self._variant_meta(ctx, variant))
    def field_meta(self, ctx, field):
        return dbg_delim(ctx, self._field_meta(ctx, field))

    def _type_meta(self, ctx):
        r, sp = ctx.rng, ctx.sp
        kind = ctx.kind
        ctx.notes['nf_req'] = None
        f = self._fault(ctx, kind)
        if f is not None:
            return f
        if kind == 'union':
            if ctx.want_fault and ctx.fault is None and r.random() < 0.25:
                k = pick(r, DBG_UNION_FAULTS)
                ctx.fault = 'dbg:union_%s' % k
                t = {'no_unsafe': pick(r, ['Debug', 'Debug()', 'Debug(name = A)', 'Debug(name(false))', 'Debug(name = 1)']),
                     'unsafe_late': pick(r, ['Debug(name = A, unsafe)', 'Debug(name = false, unsafe,)']),
                     'unsafe_nocomma': pick(r, ['Debug(unsafe name = A)', 'Debug(unsafe unsafe)']),
                     'unsafe_twice': 'Debug(unsafe, unsafe)',
                     'short': pick(r, ['Debug = A', 'Debug = "A"', 'Debug = 1', 'Debug = false'])}[k]
                dbg_reach(ctx, 'union', 'fault:' + k, t)
                return t
            mode, value = self._name(ctx, 'union', (0.45, 0.3, 0.17, 0.06, 0.02))
            return self._assemble(ctx, 'union', mode, value, [], False, lead='unsafe')
        if kind == 'struct':
            mode, value = self._name(ctx, 'struct', (0.5, 0.25, 0.15, 0.08, 0.02))
            nf, nft = self._nf(ctx, 'struct')
            ctx.notes['nf_req'] = nf
        else:
            mode, value = self._name(ctx, 'enum', (0.45, 0.25, 0.08, 0.2, 0.02))
            nft = None
        bmode, b = gen_bound(ctx)
        dbg_reach(ctx, kind, 'bound=' + bmode, (b or '-').split('(')[0].split(' =')[0] + ('(' if b and '(' in b else '=' if b else ''))
        return self._assemble(ctx, kind, mode, value, [nft, b], True)

    def _variant_meta(self, ctx, variant):
        ctx.notes['v_nf_req'] = None
        level = 'variant_' + variant.kind
        f = self._fault(ctx, 'variant', p=0.1)
        if f is not None:
            return f
        mode, value = self._name(ctx, level, (0.5, 0.25, 0.17, 0.06, 0.02))
        nf, nft = self._nf(ctx, level)
        ctx.notes['v_nf_req'] = nf
        return self._assemble(ctx, level, mode, value, [nft], True)

    def _field_meta(self, ctx, field):
        r, sp = ctx.rng, ctx.sp
        if ctx.kind == 'union':
            if ctx.want_fault and ctx.fault is None and r.random() < 0.15:
                t = pick(r, ['Debug', 'Debug = false', 'Debug(ignore)', 'Debug = x', 'Debug(name = x)', 'Debug(method(m))', 'Debug(foo)'])
                ctx.fault = 'dbg:union_field'
                dbg_reach(ctx, 'union_field', 'fault', t)
                return t
            if r.random() < 0.05:
                dbg_reach(ctx, 'union_field', 'empty_list', 'Debug()')
                return 'Debug()'
            return None
        if field.variant is not None:
            req = ctx.notes.get('v_nf_req')
            level = 'field@variant_' + field.variant.kind
        else:
            req = ctx.notes.get('nf_req')
            level = 'field@struct_' + ('named' if field.named else 'unnamed')
        eff_named = field.named if req is None else req
        level += ':as_named' if eff_named else ':as_tuple'
        if ctx.want_fault and ctx.fault is None and r.random() < 0.06:
            k = pick(r, sorted(DBG_FIELD_FAULTS))
            t = pick(r, DBG_FIELD_FAULTS[k])
            ctx.fault = 'dbg:field_%s' % k
            dbg_reach(ctx, level, 'fault:' + k, t)
            return t
        c = r.random()
        fname = pick(r, DBG_NAMES + ['key', '_0', 'r#fn'])
        m = pick(r, METHOD_PATHS + ['fmt', '::core::fmt::Display::fmt'])
        igb = r.random() < 0.5
        name_here = eff_named or (ctx.want_fault and ctx.fault is None and r.random() < 0.3)
        if c < 0.35:
            dbg_reach(ctx, level, 'none', '-')
            return None
        if c < 0.40:
            i = sp.randrange(3)
            dbg_reach(ctx, level, 'ignore=false', ['short', 'nv', 'list'][i])
            return ['Debug = true', 'Debug(ignore = false)', 'Debug(ignore(false))'][i]
        if c < 0.55:
            i = sp.randrange(4)
            dbg_reach(ctx, level, 'ignore', ['short', 'flag', 'nv', 'list'][i])
            return ['Debug = false', 'Debug(ignore)', 'Debug(ignore = true)', 'Debug(ignore(true))'][i]
        if c < 0.58:
            # `Debug = ""`: means "ignore" when names are enabled, a syn error otherwise
            if not eff_named and ctx.fault is None:
                ctx.fault = 'dbg:field_empty_str_tuple'
            dbg_reach(ctx, level, 'ignore_empty_str', 'short')
            return 'Debug = ""'
        if c < 0.78:
            if not name_here:
                dbg_reach(ctx, level, 'none', '-')
                return None
            if not eff_named:
                ctx.fault = 'dbg:field_name_in_tuple_style'
            if r.random() < 0.06:
                kw = pick(r, DBG_PATHKW)
                i = sp.randrange(3)
                dbg_reach(ctx, level, 'name=pathkw', ['short', 'name:nv', 'rename:nv'][i])
                return ['Debug = %s' % kw, 'Debug(name = %s)' % kw, 'Debug(rename = %s)' % kw][i]
            if sp.random() < 0.35:
                i = sp.randrange(2)
                dbg_reach(ctx, level, 'name=custom', ['short', 'short_str'][i])
                return ['Debug = %s' % fname, 'Debug = "%s"' % fname][i]
            t, form = dbg_name_forms(sp, fname)
            dbg_reach(ctx, level, 'name=custom', form)
            return 'Debug(%s)' % (t + (',' if sp.random() < 0.1 else ''))
        if c < 0.92:
            t = sp_path_param(sp, 'method', m)
            dbg_reach(ctx, level, 'method', 'list' if t.startswith('method(') else 'nv')
            return 'Debug(%s)' % t
        # combinations
        params = [sp_path_param(sp, 'method', m)]
        what = 'method'
        if name_here and r.random() < 0.6:
            if not eff_named:
                ctx.fault = 'dbg:field_name_in_tuple_style'
            params.append(dbg_name_forms(sp, fname)[0]); what += '+name'
        if r.random() < 0.5:
            params.append(sp_bool_param(sp, 'ignore', igb)); what += '+ignore=%s' % igb
        dbg_reach(ctx, level, what, 'list')
        return 'Debug(%s)' % join_params(sp, params)

    def post(self, ctx, inp):
        """attributes the per-item scanners must skip: non-educe attributes and `educe` attributes
        that are not lists (`#[educe]`, `#[educe = 1]`), on variants and fields"""
        r, sp = ctx.rng, ctx.sp
        if r.random() > 0.12:
            return
        items = list(inp.fields)
        for v in inp.variants:
            items.append(v)
            items += v.fields
        if not items:
            return
        it = pick(r, items)
        a = pick(r, [Attr('educe', 'path'), Attr('educe', 'nv', '1'), Attr('educe', 'nv', '"Debug"'),
                     Attr('doc', 'nv', '" d"'), Attr('serde', 'list', 'skip'), Attr('educe::x', 'list', 'Debug'),
                     Attr('educe', 'list', ''), Attr('educe', 'list', ',') if False else Attr('educe', 'list', ' ')])
        dbg_reach(ctx, 'item_attr', a.rust(), '-')
        it.attrs.insert(sp.randrange(len(it.attrs) + 1), a)

GENS = {'PartialEq': G_PartialEq(), 'Eq': G_Eq(), 'Hash': G_Hash()}
GENS['Clone'] = G_Clone()
GENS['Copy'] = G_Copy()
GENS['Debug'] = G_Debug()

# ---------------------------------------------------------------- attribute assembly
OTHER_ATTRS = [Attr('doc', 'nv', '" some docs"'), Attr('allow', 'list', 'dead_code'),
               Attr('cfg_attr', 'list', 'any(), educe(Nope)'), Attr('educe_other', 'list', 'x')]

def assemble(ctx, metas, extra_attrs=False):
    """distribute meta texts over one or more #[educe(...)] attributes"""
    sp = ctx.sp
    metas = [m for m in metas if m is not None]
    out = []
    if metas:
        sp.shuffle(metas)
        groups = []
        for m in metas:
            if groups and sp.random() < 0.6:
                groups[-1].append(m)
            else:
                groups.append([m])
        for g in groups:
            s = ', '.join(g)
            if sp.random() < 0.1:
                s += ','
            out.append(educe(s))
    if extra_attrs and sp.random() < 0.3:
        out.insert(sp.randrange(len(out) + 1), pick(sp, OTHER_ATTRS))
    return out

# ---------------------------------------------------------------- faults (C13 one-invalid-construct stream)
def apply_fault(ctx, where, metas, educed):
    """maybe replace / extend the metas of one item by an invalid construct.
    where: 'type' | 'variant' | 'field'."""
    r = ctx.rng
    if not ctx.want_fault or ctx.fault is not None or r.random() > 0.25:
        return metas
    metas = [m for m in metas if m is not None]
    kinds = ['unknown_trait', 'unknown_param', 'dup_param', 'bad_form']
    if where == 'type':
        kinds += ['dup_trait']
    else:
        kinds += ['trait_not_used', 'dup_trait_item']
    if where == 'variant':
        kinds += ['variant_flag', 'variant_bound']
    k = pick(r, kinds)
    t = pick(r, sorted(educed)) if educed else 'PartialEq'
    if k == 'unknown_trait':
        metas.append(pick(r, ['Foo', 'Display', 'a::Debug', 'partial_eq', 'Serialize(x)']))
    elif k == 'unknown_param':
        metas = [m for m in metas if not m.startswith(t)] + ['%s(%s)' % (t, pick(r, ['foo', 'foo = 1', 'skip', 'a::ignore']))]
    elif k == 'dup_param':
        p = pick(r, ['bound(*), bound = false'] if where == 'type' else ['ignore, ignore = true', 'method(m), method = "n"'])
        metas = [m for m in metas if not m.startswith(t)] + ['%s(%s)' % (t, p)]
    elif k == 'bad_form':
        metas = [m for m in metas if not m.startswith(t)] + [pick(r, ['%s = 5' % t, '%s = "x"' % t, '%s(ignore = 1)' % t, '%s(bound)' % t, '%s(method)' % t, '%s(method = 1)' % t])]
    elif k == 'dup_trait':
        metas.append(t)
    elif k == 'dup_trait_item':
        metas = [m for m in metas if not m.startswith(t)] + ['%s(ignore)' % t, '%s = false' % t]
    elif k == 'trait_not_used':
        others = [x for x in ALL_TRAITS if x not in ctx.traits]
        if not others:
            return metas
        metas.append(pick(r, others) + pick(r, ['', '(ignore)', ' = false']))
    elif k == 'variant_flag':
        metas.append(t)
    elif k == 'variant_bound':
        metas.append('%s(bound(*))' % t)
    ctx.fault = '%s@%s' % (k, where)
    return metas

# ---------------------------------------------------------------- the case generator
def gen_fields(ctx, n, named, variant=None):
    r = ctx.rng
    names = r.sample(FIELD_NAMES, n) if named else [None] * n
    fields = []
    for idx, nm in enumerate(names):
        f = Field(nm, gen_type(ctx))
        f.index, f.count, f.variant, f.named = idx, n, variant, named
        metas = [GENS[t].field_meta(ctx, f) for t in ALL_TRAITS if t in ctx.traits and t in GENS]
        metas = apply_fault(ctx, 'field', metas, ctx.traits)
        f.attrs = assemble(ctx, metas)
        fields.append(f)
    return fields

def gen_case(seed, spseed, modelled, want_fault=False, kinds=('struct', 'enum', 'union'), force_traits=None, must=None):
    rng = random.Random('cfg-%s' % seed)
    sp = random.Random('sp-%s-%s' % (seed, spseed))
    pool = [t for t in ALL_TRAITS if t in modelled]
    if force_traits is not None:
        traits = list(force_traits)
    else:
        k = 1 + min(rng.randrange(len(pool)), rng.randrange(len(pool)))
        traits = rng.sample(pool, k)
        if must:
            # forced traits plus (usually few) others as cross-talk
            if rng.random() < 0.5:
                traits = traits[:1]
            traits = list(must) + [t for t in traits if t not in must]
    traits = [t for t in ALL_TRAITS if t in traits]
    ctx = Ctx(rng, sp, set(traits))
    ctx.want_fault = want_fault
    ctx.kind = pick(rng, list(kinds) + ['struct', 'enum'])
    if ctx.kind not in kinds:
        ctx.kind = kinds[0]
    g = gen_generics(ctx)
    type_metas = [GENS[t].type_meta(ctx) for t in traits]
    type_metas = apply_fault(ctx, 'type', type_metas, ctx.traits)
    name = pick(rng, ['S', 'Foo', 'r#Type', 'E1'])
    inp = Input(ctx.kind, name, generics=g)
    inp.attrs = assemble(ctx, type_metas, extra_attrs=True)
    if ctx.kind == 'struct':
        inp.fkind = pick(rng, ['named', 'unnamed', 'unnamed', 'named', 'unit'])
        n = 0 if inp.fkind == 'unit' else pick(rng, [0, 1, 1, 2, 2, 3, 4, 5])
        inp.fields = gen_fields(ctx, n, inp.fkind == 'named')
    elif ctx.kind == 'enum':
        nv = pick(rng, [0, 1, 1, 2, 2, 3, 3, 4])
        vnames = rng.sample(VARIANT_NAMES, nv)
        for vidx, vn in enumerate(vnames):
            vk = pick(rng, ['unit', 'named', 'unnamed'])
            v = Variant(vn, vk)
            v.index, v.count = vidx, nv
            n = 0 if vk == 'unit' else pick(rng, [0, 1, 1, 2, 2, 3, 4])
            metas = [GENS[t].variant_meta(ctx, v) for t in traits]
            metas = apply_fault(ctx, 'variant', metas, ctx.traits)
            v.attrs = assemble(ctx, metas)
            v.fields = gen_fields(ctx, n, vk == 'named', variant=v)
            inp.variants.append(v)
    else:
        n = pick(rng, [1, 1, 2, 3])
        inp.fields = gen_fields(ctx, n, True)
    for t in traits:
        if t in GENS:
            GENS[t].post(ctx, inp)
    inp.fault = ctx.fault
    inp.notes = ctx.notes
    inp.traits = traits
    inp.notes = ctx.notes
    return inp

if __name__ == '__main__':
    import sys
    n = int(sys.argv[1]) if len(sys.argv) > 1 else 5
    for i in range(n):
        c = gen_case(i, 0, GENS.keys(), want_fault=(i % 3 == 0))
        print('//', i, c.fault)
        print(c.rust())
