"""Structured generator of derive inputs for the K1 correspondence.

Two independent PRNG streams per case: `rng` decides the *request* (shape, traits,
which fields are ignored / have methods / ranks / ...), `sp` decides the *spelling* of
that request (p = v vs p(v), string forms, attribute grouping and order).  Cases with
the same request seed and different spelling seeds form a C14 spelling group.
"""
import random, re
from dinput import Attr, educe, Field, Variant, Generics, Input

ALL_TRAITS = ['Debug', 'Clone', 'Copy', 'PartialEq', 'Eq', 'PartialOrd', 'Ord', 'Hash',
              'Default', 'Deref', 'DerefMut', 'Into']

FIELD_NAMES = ['a', 'b', 'c', 'x', 'y', 'value', 'state', 'other', 'f', 'source', 'r#type',
               'builder', 'arg', 'size', 'data', '_0', '_s_a', 'v_x', 'H', 'self_data']
VARIANT_NAMES = ['A', 'B', 'C', 'Unit', 'Tuple', 'Struct', 'None', 'Some', 'Ok', 'V1', 'r#Box']
PLAIN_TYPES = ['u8', 'i32', 'bool', 'char', 'f64', 'String', "&'static str", 'Vec<u8>', '[u8; 3]',
               '(u8, i16)', 'Option<u8>', 'Box<[u8]>', 'usize', 'i128', '()', '::core::primitive::u8',
               '&&u8' if False else "&'static [u8]", 'fn(u8) -> u8' if False else 'Option<Vec<u8>>']
METHOD_PATHS = ['m', 'my_mod::m', '::my_crate::m', 'Self::m', 'self::m', 'super::m', 'crate::a::b::m']
# method paths with generic arguments (drawn with the request stream like the plain ones; every entry meets all
# four PATH_FORMS through the spelling stream).  syn reads `method(P)` and the string forms with Path::parse
# (generic arguments with or without the `::` turbofish, no qualified self) and `method = P` as an expression
# (turbofish only, `<T as A>::f` accepted and reduced to `A::f`), so the last three are spelling dependent or refused:
# qualified self, type-style arguments, and a malformed one.  One entry has commas in its arguments (see path_form).
# A second group (tools/k1_paths.py holds the long hand-made list): short valid forms, a type-style path
# (`Vec<u8>::new`: Path::parse takes it, the expression parser of `method = P` does not), and paths every spelling
# refuses: arguments left open (`a::<`, `a::<u8`), `a<>b`, arguments without a segment (`::<u8>`).
# The plain paths keep about five sixths of the draws (84 of 102).
METHOD_PATHS = METHOD_PATHS * 12 + [
    'g::m::<4>', 'Conv::<u8>::m', "h::<{ 2 + 1 }>::m", '::k::m::<-1>', "Self::m::<'static>", "m::<Vec<u8>, 3, _, true,>",
    '<T as A>::f', 'g::m<0>', 'Conv::<u8>::',
    'm::<u8>', 'a::b::<T, 4>::c', 'Vec<u8>::new', "a::<'a, { 1 }>::f", 'Opt<Vec<u8>>::f::<i8>',
    'a::<', 'a::<u8', 'a<>b', '::<u8>']

class Ctx:
    def __init__(self, rng, sp, traits):
        self.rng, self.sp, self.traits = rng, sp, traits
        self.kind = None
        self.generics = None
        self.type_params = []
        self.lifetimes = []
        self.consts = []
        self.fault = None        # name of the injected invalid construct (None = valid request)
        self.want_fault = False
        self.notes = {}

def pick(r, l):
    return l[r.randrange(len(l))]

# ---------------------------------------------------------------- generics
def gen_generics(ctx):
    r = ctx.rng
    c = r.randrange(10)
    g = Generics()
    if c <= 2:
        pass
    elif c == 3:
        g.params = [dict(kind='type', name='T')]
    elif c == 4:
        g.params = [dict(kind='type', name='T', bounds='Copy'), dict(kind='type', name='U', default='u8')]
        g.where = ['U: Clone']
    elif c == 5:
        g.params = [dict(kind='life', name='a'), dict(kind='type', name='T', bounds="'a + Copy", default='u8'),
                    dict(kind='const', name='N', ty='usize', default='3')]
        g.where = ['T: Clone', "Vec<T>: 'a"]
        g.where_trailing = r.random() < 0.5
    elif c == 6:
        g.params = [dict(kind='life', name='a'), dict(kind='life', name='b', bounds="'a"),
                    dict(kind='type', name='H'), dict(kind='type', name='V', bounds='::core::fmt::Debug + Sized')]
        g.trailing = r.random() < 0.5
    elif c == 7:
        g.params = [dict(kind='const', name='N', ty='usize'), dict(kind='type', name='T')]
        g.where = ['[T; N]: Sized']
        g.trailing = r.random() < 0.3
    elif c == 8:
        # parameters named like the identifiers the templates pick (hasher parameter `__H`, then `__H_`, ...)
        g.params = [dict(kind='type', name='__H'), dict(kind='const', name='__H_', ty='usize')]
    elif c == 9 and r.random() < 0.5:
        g.params = [dict(kind='const', name='__H', ty='usize'), dict(kind='type', name='__H_'), dict(kind='type', name='T')]
    else:
        # no type parameter at all: only a const (and perhaps a lifetime) carries the template-like name
        g.params = ([dict(kind='life', name='a')] if r.random() < 0.4 else []) + [dict(kind='const', name=pick(r, ['__H', '__H', '__H_', 'N']), ty='usize')]
    ctx.generics = g
    ctx.type_params = [p['name'] for p in g.params if p['kind'] == 'type']
    ctx.lifetimes = [p['name'] for p in g.params if p['kind'] == 'life']
    ctx.consts = [p['name'] for p in g.params if p['kind'] == 'const']
    return g

def gen_type(ctx):
    r = ctx.rng
    opts = list(PLAIN_TYPES)
    for t in ctx.type_params:
        opts += [t, t, 'Vec<%s>' % t, 'Option<%s>' % t, '::core::marker::PhantomData<%s>' % t]
        for l in ctx.lifetimes:
            opts += ["&'%s %s" % (l, t), "&'%s mut %s" % (l, t)]
        for n in ctx.consts:
            opts += ['[%s; %s]' % (t, n)]
    for l in ctx.lifetimes:
        opts += ["&'%s str" % l, "&'%s u8" % l]
    for n in ctx.consts:
        opts += ['[u8; %s]' % n]
    return pick(r, opts)

# ---------------------------------------------------------------- shared parameter spellings
def sp_bool_param(sp, name, value):
    """`name` flag-like parameter with an explicit boolean"""
    forms = ['%s = %s' % (name, 'true' if value else 'false'), '%s(%s)' % (name, 'true' if value else 'false')]
    if value:
        forms.append(name)
    return pick(sp, forms)

def nv_path_ood(path):
    """`name = path` is outside the model's domain (Syn.v: classify_angle / angle_expr) although the model decides the
    other three spellings of the same path: commas inside the generic arguments; generic arguments still open at the
    end of the value (more `<` than `>`: a comma that follows would belong to them -- the real macro refuses the
    parameter either way); `a<>b`, which the expression parser reads as a comparison without a right operand."""
    p = path.replace('->', '')
    return ',' in path or p.count('<') > p.count('>') or re.search(r'(?<!::)<\s*>', p) is not None

def path_form(k, name, path):
    """the k-th spelling of PATH_FORMS.  A path with commas in its generic arguments is not written `name = path`:
    the model's meta parser cuts a parameter list at its top-level commas before it reads the values, so that
    spelling is OutOfDomain for it (nothing to compare; the real macro meets it in the K2 suites; tools/k1_paths.py
    counts these).  The same holds for the other values of nv_path_ood.  The list form stands in; the spelling stream
    is consumed all the same."""
    if k == 1 and nv_path_ood(path):
        k = 0
    return ['%s(%s)', '%s = %s', '%s = "%s"', '%s("%s")'][k] % (name, path)

def sp_path_param(sp, name, path):
    return path_form(sp.randrange(4), name, path)

def gen_bound(ctx, extra_preds=()):
    """returns (mode, spelled parameter text or None)"""
    r, sp = ctx.rng, ctx.sp
    c = r.random()
    if c < 0.55:
        return ('auto', None)
    if c < 0.60:
        return ('auto', pick(sp, ['bound = true', 'bound(true)']))
    if c < 0.72:
        return ('false', pick(sp, ['bound = false', 'bound(false)', 'bound = ""']))
    if c < 0.84:
        return ('all', 'bound(*)')
    preds = []
    for t in ctx.type_params:
        if r.random() < 0.7:
            preds.append('%s: %s' % (t, pick(r, ['Clone', '::core::fmt::Debug + Copy', 'Into<Vec<u8>>', "'static", 'PartialEq<%s>' % t])))
    for l in ctx.lifetimes:
        if r.random() < 0.3:
            preds.append("'%s: '%s" % (l, l))
    if r.random() < 0.3:
        preds.append('Vec<u8>: Clone')
    preds += list(extra_preds)
    body = ', '.join(preds)
    if preds and sp.random() < 0.3:
        body += ','
    if not preds:
        return ('custom', pick(sp, ['bound()', 'bound( )']))
    return ('custom', pick(sp, ['bound(%s)' % body, 'bound = "%s"' % body, 'bound("%s")' % body]))

def join_params(sp, params):
    params = [p for p in params if p is not None]
    sp.shuffle(params)
    s = ', '.join(params)
    if params and sp.random() < 0.15:
        s += ','
    return s

def trait_with_params(sp, trait, params, allow_bare=True):
    params = [p for p in params if p is not None]
    if not params and allow_bare:
        return pick(sp, [trait, trait, trait + '()']) if sp.random() < 0.2 else trait
    return '%s(%s)' % (trait, join_params(sp, params))

# ---------------------------------------------------------------- per-trait generators
# type_meta(ctx) -> text of the trait's type-level meta
# field_meta(ctx, field_ctx) -> text or None ; variant_meta(ctx) -> text or None

def ignore_method_field(ctx, trait, method_ok=True, ignore_ok=True, extra=None):
    """field-level Trait(ignore / method(..)) in any documented spelling"""
    r, sp = ctx.rng, ctx.sp
    c = r.random()
    if c < 0.55:
        if r.random() < 0.1:   # explicit non-ignore
            return pick(sp, ['%s = true' % trait, '%s(ignore = false)' % trait, '%s(ignore(false))' % trait])
        return None
    if c < 0.78 and ignore_ok:
        return pick(sp, ['%s = false' % trait, '%s(ignore)' % trait, '%s(ignore = true)' % trait,
                         '%s(ignore(true))' % trait])
    if method_ok:
        m = pick(r, METHOD_PATHS)
        params = [sp_path_param(sp, 'method', m)]
        if r.random() < 0.15:
            params.append(sp_bool_param(sp, 'ignore', r.random() < 0.5))
        return '%s(%s)' % (trait, join_params(sp, params))
    return None

class TG:
    """default: flag-only trait with optional bound"""
    name = None
    union_unsafe = False
    def type_meta(self, ctx):
        mode, b = gen_bound(ctx)
        if ctx.kind == 'union' and self.union_unsafe:
            if ctx.want_fault and ctx.fault is None and ctx.rng.random() < 0.35:
                # the union handlers of PartialEq / Hash accept `unsafe` and nothing else
                k = pick(ctx.rng, ['%s', '%s()', '%s( )', '%s(bound(*))', '%s(unsafe, bound(*))', '%s(unsafe, unsafe)',
                                   '%s(bound = false, unsafe)', '%s = false', '%s(unsafe,)', '%s(unsafe x)', '%s[unsafe]'])
                ctx.fault = 'union_unsafe_form:' + k + '@type'
                return k % self.name
            return '%s(unsafe)' % self.name
        return trait_with_params(ctx.sp, self.name, [b])
    def variant_meta(self, ctx, variant):
        """variant.index / variant.count / variant.kind are set"""
        return None
    def field_meta(self, ctx, field):
        """field.index / field.count / field.variant (Variant or None) / field.named are set"""
        return None
    def post(self, ctx, inp):
        """called once with the finished Input: may add #[repr], discriminants, ... (mutates inp)"""
        return None
    def shape(self, ctx, what, value):
        """may bias a shape decision of the case generator (what: kind | fkind | nvariants | vkind |
        nfields | ftype); must draw from ctx.rng only; default: leave it"""
        return value

def union_field_fault(ctx, name):
    """a union field takes no PartialEq / Hash parameter at all: any of them is an invalid construct"""
    if own_fault(ctx, 0.12):
        ctx.fault = 'union_field_param:' + name
        return pick(ctx.rng, ['%s(ignore)', '%s = false', '%s(method(m))', '%s(ignore = true)', '%s(method = m)', '%s(ignore(true))']) % name
    return None

class G_PartialEq(TG):
    name = 'PartialEq'
    union_unsafe = True
    def field_meta(self, ctx, field):
        if ctx.kind == 'union':
            return union_field_fault(ctx, 'PartialEq')
        name = 'PartialEq'
        if 'Eq' in ctx.traits and ctx.rng.random() < 0.3:
            name = 'Eq'            # documented synonym when Eq is educed
        return ignore_method_field(ctx, name)

class G_Eq(TG):
    name = 'Eq'
    def type_meta(self, ctx):
        if 'PartialEq' in ctx.traits:
            return 'Eq'
        mode, b = gen_bound(ctx)
        return trait_with_params(ctx.sp, 'Eq', [b])

class G_Hash(TG):
    name = 'Hash'
    union_unsafe = True
    def field_meta(self, ctx, field):
        if ctx.kind == 'union':
            return union_field_fault(ctx, 'Hash')
        return ignore_method_field(ctx, 'Hash')


def note(ctx, *tag):
    """record a reached (trait, place, shape, parameter, spelling) branch; observation only"""
    ctx.notes.setdefault('reach', []).append(tuple(tag))

def own_fault(ctx, p):
    """True (probability p, request stream) when this case may still receive its one invalid construct"""
    return ctx.want_fault and ctx.fault is None and ctx.rng.random() < p

PATH_FORMS = ['%s(%s)', '%s = %s', '%s = "%s"', '%s("%s")']
PATH_FORM_NAMES = ['p(v)', 'p=v', 'p="v"', 'p("v")']

class G_Clone(TG):
    """Clone: type-level flag / bound; field-level method (structs without Copy, enums); unions: nothing"""
    name = 'Clone'
    def shape_name(self, ctx):
        return ctx.kind + ('+Copy' if 'Copy' in ctx.traits else '')
    def type_meta(self, ctx):
        r, sp = ctx.rng, ctx.sp
        copy = 'Copy' in ctx.traits
        # per-type request: does any field get a custom method at all
        ctx.notes['clone_methods'] = r.random() < (0.35 if copy else 0.6)
        extra = []
        if copy and ctx.type_params and r.random() < 0.5:
            extra = ['%s: Copy' % t for t in ctx.type_params]
        mode, b = gen_bound(ctx, extra)
        if own_fault(ctx, 0.04):
            ctx.fault = 'clone_type_bad@type'
            k = r.randrange(5)
            note(ctx, 'Clone', 'type', self.shape_name(ctx), 'fault', k)
            return ['Clone(method(m))', 'Clone(ignore)', 'Clone = true', 'Clone(bound(T: Clone), method = "m")',
                    'Clone(bound = 3)'][k]
        form = 'flag' if b is None else ('nv' if ' = ' in b else 'list')
        note(ctx, 'Clone', 'type', self.shape_name(ctx), 'bound:' + mode, form)
        return trait_with_params(sp, 'Clone', [b])
    def variant_meta(self, ctx, variant):
        r, sp = ctx.rng, ctx.sp
        c = r.random()
        if c < 0.06:
            # an empty parameter list is accepted at a variant (and means nothing)
            note(ctx, 'Clone', 'variant', variant.kind, 'empty-list')
            return pick(sp, ['Clone()', 'Clone( )'])
        if own_fault(ctx, 0.05):
            ctx.fault = 'clone_variant_bad@variant'
            k = r.randrange(4)
            note(ctx, 'Clone', 'variant', variant.kind, 'fault', k)
            return ['Clone(method(m))', 'Clone = false', 'Clone(bound = false)', 'Clone'][k]
        return None
    def field_meta(self, ctx, field):
        r, sp = ctx.rng, ctx.sp
        copy = 'Copy' in ctx.traits
        place = 'union' if ctx.kind == 'union' else \
                ('%s/%s' % (self.shape_name(ctx), 'named' if field.named else 'tuple'))
        allowed = ctx.kind == 'enum' or (ctx.kind == 'struct' and not copy)
        c, c2 = r.random(), r.random()
        m = pick(r, METHOD_PATHS)
        if allowed and ctx.notes.get('clone_methods') and c < 0.5:
            k = sp.randrange(4)
            note(ctx, 'Clone', 'field', place, 'method', PATH_FORM_NAMES[k])
            s = 'Clone(%s%s)' % (path_form(k, 'method', m), ',' if sp.random() < 0.15 else '')
            return s
        if c2 < 0.05:
            note(ctx, 'Clone', 'field', place, 'empty-list')
            return pick(sp, ['Clone()', 'Clone( )'])
        if not allowed and own_fault(ctx, 0.2):
            ctx.fault = 'clone_method_refused@' + place
            k = sp.randrange(4)
            note(ctx, 'Clone', 'field', place, 'method-refused', PATH_FORM_NAMES[k])
            return 'Clone(%s)' % (path_form(k, 'method', m))
        if own_fault(ctx, 0.06):
            ctx.fault = 'clone_field_bad@' + place
            k = r.randrange(11)
            note(ctx, 'Clone', 'field', place, 'fault', k)
            return ['Clone', 'Clone = "m"', 'Clone = false', 'Clone(ignore)', 'Clone(bound(*))',
                    'Clone(method = "a b")', 'Clone(method(1))', 'Clone(method = "")',
                    'Clone(method(m), method(m))', 'Clone(method(m) method(n))', 'Clone(method)'][k]
        note(ctx, 'Clone', 'field', place, 'plain')
        return None
    def post(self, ctx, inp):
        nonlist_educe(ctx, inp, 'Clone')

def nonlist_educe(ctx, inp, who):
    """`#[educe]` / `#[educe = ".."]` (not a list) on a variant or a field is skipped by every
    build_from_attributes; on the type itself lib.rs refuses it.  Called from the post hooks."""
    if ctx.notes.get('nonlist_done'):
        return
    ctx.notes['nonlist_done'] = True
    r = ctx.rng
    c, where, form = r.random(), r.randrange(3), r.randrange(2)
    a = [Attr('educe', 'path'), Attr('educe', 'nv', '"Clone"')][form]
    if c >= 0.08:
        return
    items = []
    if inp.kind == 'enum':
        items = [('variant', v) for v in inp.variants] + [('field', f) for v in inp.variants for f in v.fields]
    else:
        items = [('field', f) for f in inp.fields]
    if where == 0:
        if own_fault(ctx, 1.0):
            ctx.fault = 'educe_nonlist@type'
            note(ctx, who, 'type', ctx.kind, 'fault', 'non-list educe attribute', form)
            inp.attrs.append(a)
        return
    if items:
        place, it = items[r.randrange(len(items))]
        it.attrs.insert(r.randrange(len(it.attrs) + 1), a)
        note(ctx, who, place, ctx.kind, 'non-list educe attribute (skipped)', form)

class G_Copy(TG):
    """Copy: alone = flag / bound at type level, nothing elsewhere; with Clone = flag only, and
    whatever is written at variants / fields is never looked at"""
    name = 'Copy'
    def type_meta(self, ctx):
        r, sp = ctx.rng, ctx.sp
        if 'Clone' in ctx.traits:
            if own_fault(ctx, 0.06):
                ctx.fault = 'copy_bound_with_clone@type'
                k = r.randrange(4)
                note(ctx, 'Copy', 'type', ctx.kind + '+Clone', 'bound-refused', k)
                return ['Copy(bound(*))', 'Copy(bound = false)', 'Copy(bound(T: Copy))', 'Copy(bound = "")'][k]
            k = sp.randrange(3)
            note(ctx, 'Copy', 'type', ctx.kind + '+Clone', 'flag', ['Copy', 'Copy()', 'Copy( )'][k])
            return ['Copy', 'Copy()', 'Copy'][k]
        mode, b = gen_bound(ctx)
        form = 'flag' if b is None else ('nv' if ' = ' in b else 'list')
        note(ctx, 'Copy', 'type', ctx.kind, 'bound:' + mode, form)
        return trait_with_params(sp, 'Copy', [b])
    def variant_meta(self, ctx, variant):
        r, sp = ctx.rng, ctx.sp
        c = r.random()
        if 'Clone' in ctx.traits:
            if c < 0.06:
                k = r.randrange(5)
                note(ctx, 'Copy', 'variant', '+Clone', 'unchecked', k)
                return ['Copy', 'Copy(bound(*))', 'Copy = 3', 'Copy(anything(at, all))', 'Copy()'][k]
            return None
        if c < 0.05:
            note(ctx, 'Copy', 'variant', 'alone', 'empty-list')
            return 'Copy()'
        if own_fault(ctx, 0.05):
            ctx.fault = 'copy_variant_bad@variant'
            k = r.randrange(4)
            note(ctx, 'Copy', 'variant', 'alone', 'fault', k)
            return ['Copy', 'Copy(bound(*))', 'Copy = false', 'Copy(bound = false)'][k]
        return None
    def field_meta(self, ctx, field):
        r, sp = ctx.rng, ctx.sp
        c = r.random()
        if 'Clone' in ctx.traits:
            if c < 0.05:
                k = r.randrange(5)
                note(ctx, 'Copy', 'field', ctx.kind + '+Clone', 'unchecked', k)
                return ['Copy', 'Copy(method(m))', 'Copy = false', 'Copy(bound(*))', 'Copy()'][k]
            return None
        if own_fault(ctx, 0.06):
            ctx.fault = 'copy_field@' + ctx.kind
            k = r.randrange(4)
            note(ctx, 'Copy', 'field', ctx.kind, 'refused', k)
            return ['Copy', 'Copy()', 'Copy = true', 'Copy(ignore)'][k]
        return None
    def post(self, ctx, inp):
        nonlist_educe(ctx, inp, 'Copy')

# ---- Debug
DBG_NAMES = ['Hi', 'Name2', 'r#type', '_n', 'x', 'A', 'f', 'builder', 'r#Box']
DBG_PATHKW = ['Self', 'self', 'crate', 'super']      # identifiers only the `= Ident` form accepts

def dbg_reach(ctx, *t):
    ctx.notes.setdefault('reach', []).append(t)

def dbg_name_forms(sp, value, quoted=True):
    """`name` / `rename` parameter carrying an identifier or a boolean, every documented spelling"""
    kw = pick(sp, ['name', 'name', 'rename'])
    o, c = pick(sp, ['()', '()', '()', '()', '[]', '{}'])
    forms = ['%s = %s' % (kw, value), '%s%s%s%s' % (kw, o, value, c)]
    if quoted:
        forms += ['%s = "%s"' % (kw, value), '%s%s"%s"%s' % (kw, o, value, c)]
    i = sp.randrange(len(forms))
    return forms[i], '%s:%s' % (kw, ['nv', 'list' + ('' if o == '(' else o), 'nv_str', 'list_str' + ('' if o == '(' else o)][i])

def dbg_delim(ctx, text):
    """spelling: `Debug(...)` may be written `Debug[...]` / `Debug{...}`"""
    if text is None or not (text.startswith('Debug(') and text.endswith(')')):
        return text
    if ctx.sp.random() < 0.93:
        return text
    o, c = pick(ctx.sp, ['[]', '{}'])
    dbg_reach(ctx, 'any', 'delimiter', o)
    return 'Debug' + o + text[6:-1] + c

DBG_TYPE_FAULTS = {
    # name: (texts, where it applies: s=struct e=enum u=union v=variant)
    'name_str_kw':   (['name = "Self"', 'name("struct")', 'rename = "crate"', 'name("_")'], 'seuv'),
    'short_str_kw':  (['= "type"', '= "self"', '= ""', '= "a b"', '= "1"'], 'sev'),
    'name_kw':       (['name(struct)', 'name = type', 'name(Self)', 'name(_)', 'name = fn', 'name = mut', 'name = try', 'name(try)', 'name = _'], 'seuv'),
    'short_bad':     (['= 1', '= type', '= true', "= 'c'", '= a::b', '= -1', '= x()', '= try', '= _'], 'sev'),
    'name_bad_lit':  (['name = 1', 'name(1)', "name = 'c'", 'name(b"x")', 'name = "a b"', 'name = "1"',
                       'name(x y)', 'name(x, y)', 'name(-1)', 'name = -1', 'name = a::b', 'name(a::b)',
                       'name()', 'name("x" y)', 'name(true false)', 'name = "a-b"'], 'seuv'),
    'name_lit_then_ident': (['name(1 x)', 'name(-1 y)', "name('c' z)", 'name(1.5 w)', 'name(b"q" k)'], 'seuv'),
    'name_flag':     (['name', 'rename'], 'seuv'),
    'named_field_bad': (['named_field', 'named_field = 1', 'named_field("true")', 'named_field(yes)',
                         'named_field = "true"', 'named_field()', 'named_field(true, false)',
                         'named_field = yes'], 'sv'),
    'named_field_off': (['named_field = true', 'named_field(false)', 'named_field'], 'eu'),
    'bound_off':     (['bound(*)', 'bound = false', 'bound'], 'uv'),
    'bound_bad':     (['bound', 'bound = 1', 'bound(T)', 'bound = "T"', 'bound(* ,)'], 'se'),
    'dup_name':      (['name = A, rename = B', 'name(A), name(A)', 'rename = false, name = true'], 'seuv'),
    'dup_name_bad':  (['name = A, name = 1', 'name = 1, name = A', 'name = A, name'], 'seuv'),
    'dup_named_field': (['named_field = true, named_field(false)', 'named_field = true, named_field = 1'], 'sv'),
    'dup_bound':     (['bound(*), bound = false', 'bound = false, bound'], 'se'),
    'unknown_param': (['foo', 'ignore', 'method(m)', 'a::name = x', 'Name = x', 'unsafe_'], 'seuv'),
    'unsafe_misuse': (['unsafe', 'unsafe, name = A', 'name = A, unsafe'], 'sev'),
}
DBG_UNION_FAULTS = ['no_unsafe', 'unsafe_late', 'unsafe_nocomma', 'unsafe_twice', 'short']

DBG_FIELD_FAULTS = {
    'flag':        ['Debug'],
    'short_bad':   ['Debug = 1', 'Debug = "a b"', 'Debug = type', "Debug = 'c'", 'Debug = a::b', 'Debug = -1',
                    'Debug = "struct"'],
    'name_bad':    ['Debug(name = false)', 'Debug(name)', 'Debug(name(true))', 'Debug(name = 1)', 'Debug(name(1 x))',
                    'Debug(name = "")', 'Debug(name(""))', 'Debug(name("a" b))', 'Debug(name(a b))', 'Debug(name = a::b)',
                    'Debug(name(struct))', 'Debug(name = Self)', 'Debug(name(Self))', 'Debug(rename = "Self")', 'Debug(name())'],
    'ignore_bad':  ['Debug(ignore = 1)', 'Debug(ignore(x))', 'Debug(ignore = "true")', 'Debug(ignore())', 'Debug(ignore(true false))'],
    'method_bad':  ['Debug(method)', 'Debug(method = 1)', 'Debug(method(a b))', 'Debug(method = "a b")', 'Debug(method())',
                    'Debug(method(""))', 'Debug(method = false)'],
    'dup':         ['Debug(name = a, rename = b)', 'Debug(ignore, ignore)', 'Debug(method(a), method(b))',
                    'Debug(ignore, ignore = 1)', 'Debug(method(a), method = 1)', 'Debug(name = a, name)'],
    'unknown':     ['Debug(skip)', 'Debug(named_field = true)', 'Debug(bound(*))', 'Debug(a::ignore)', 'Debug(unsafe)'],
    'dup_trait':   ['Debug(ignore), Debug = false', 'Debug = a, Debug = a'],
}

class G_Debug(TG):
    name = 'Debug'

    def _name(self, ctx, level, weights):
        """weights: (default, custom, false, true, pathkw) -> (mode, value) decided by the request stream"""
        r = ctx.rng
        c = r.random()
        acc = 0.0
        for mode, w in zip(['default', 'custom', 'false', 'true', 'pathkw'], weights):
            acc += w
            if c < acc:
                break
        if mode == 'custom':
            return mode, pick(r, DBG_NAMES)
        if mode == 'pathkw':
            return mode, pick(r, DBG_PATHKW)
        return mode, {'default': None, 'false': 'false', 'true': 'true'}[mode]

    def _assemble(self, ctx, level, mode, value, extra, allow_short, lead=None):
        """spelling of a type / variant level meta. lead = 'unsafe' for unions."""
        sp = ctx.sp
        extra = [e for e in extra if e is not None]
        if mode in ('custom', 'pathkw') and not extra and allow_short and lead is None and sp.random() < 0.4:
            if mode == 'custom' and sp.random() < 0.4:
                dbg_reach(ctx, level, 'name=' + mode, 'short_str')
                return 'Debug = "%s"' % value
            dbg_reach(ctx, level, 'name=' + mode, 'short')
            return 'Debug = %s' % value
        params = list(extra)
        if mode == 'custom':
            t, form = dbg_name_forms(sp, value)
            params.append(t); dbg_reach(ctx, level, 'name=custom', form)
        elif mode == 'pathkw':
            kw = pick(sp, ['name', 'rename'])
            params.append('%s = %s' % (kw, value)); dbg_reach(ctx, level, 'name=pathkw', kw + ':nv')
        elif mode == 'true':
            t, form = dbg_name_forms(sp, 'true', quoted=False)
            params.append(t); dbg_reach(ctx, level, 'name=true', form)
        elif mode == 'false':
            kw = pick(sp, ['name', 'name', 'rename'])
            forms = ['%s = false' % kw, '%s(false)' % kw, '%s = ""' % kw, '%s("")' % kw]
            i = sp.randrange(4)
            params.append(forms[i]); dbg_reach(ctx, level, 'name=false', kw + ':' + ['nv', 'list', 'nv_empty', 'list_empty'][i])
        else:
            dbg_reach(ctx, level, 'name=default', '-')
        if lead is not None:
            sp.shuffle(params)
            s = ', '.join([lead] + params)
            if sp.random() < 0.15:
                s += ','
            return 'Debug(%s)' % s
        if not params:
            form = 'Debug' if (level.startswith('variant') or sp.random() < 0.8) else 'Debug()'
            if level.startswith('variant'):
                return None if sp.random() < 0.8 else 'Debug()'
            return form
        return 'Debug(%s)' % join_params(sp, params)

    def _nf(self, ctx, level):
        r, sp = ctx.rng, ctx.sp
        c = r.random()
        if c < 0.6:
            dbg_reach(ctx, level, 'named_field=default', '-')
            return None, None
        v = c < 0.8
        i = sp.randrange(2)
        dbg_reach(ctx, level, 'named_field=%s' % v, ['nv', 'list'][i])
        b = 'true' if v else 'false'
        return v, ['named_field = %s' % b, 'named_field(%s)' % b][i]

    def _fault(self, ctx, where, p=0.2):
        """own invalid constructs at type / variant level; returns text or None"""
        r = ctx.rng
        if not ctx.want_fault or ctx.fault is not None or r.random() > p:
            return None
        code = {'struct': 's', 'enum': 'e', 'union': 'u', 'variant': 'v'}[where]
        kinds = sorted(k for k, (_, w) in DBG_TYPE_FAULTS.items() if code in w)
        k = pick(r, kinds)
        t = pick(r, DBG_TYPE_FAULTS[k][0])
        ctx.fault = 'dbg:%s@%s' % (k, where)
        dbg_reach(ctx, where, 'fault:' + k, t)
        lead = 'unsafe, ' if where == 'union' else ''
        if t.startswith('='):
            return 'Debug ' + t
        return 'Debug(%s%s)' % (lead, t)

    def type_meta(self, ctx):
        return dbg_delim(ctx, self._type_meta(ctx))
    def variant_meta(self, ctx, variant):
        return dbg_delim(ctx, self._variant_meta(ctx, variant))
    def field_meta(self, ctx, field):
        return dbg_delim(ctx, self._field_meta(ctx, field))

    def _type_meta(self, ctx):
        r, sp = ctx.rng, ctx.sp
        kind = ctx.kind
        ctx.notes['nf_req'] = None
        f = self._fault(ctx, kind)
        if f is not None:
            return f
        if kind == 'union':
            if ctx.want_fault and ctx.fault is None and r.random() < 0.25:
                k = pick(r, DBG_UNION_FAULTS)
                ctx.fault = 'dbg:union_%s' % k
                t = {'no_unsafe': pick(r, ['Debug', 'Debug()', 'Debug(name = A)', 'Debug(name(false))', 'Debug(name = 1)',
                                           'Debug = A', 'Debug = "A"', 'Debug = false', 'Debug = true', 'Debug = 1', 'Debug( )', 'Debug(,)']),
                     'unsafe_late': pick(r, ['Debug(name = A, unsafe)', 'Debug(name = false, unsafe,)']),
                     'unsafe_nocomma': pick(r, ['Debug(unsafe name = A)', 'Debug(unsafe unsafe)']),
                     'unsafe_twice': 'Debug(unsafe, unsafe)',
                     'short': pick(r, ['Debug = A', 'Debug = "A"', 'Debug = 1', 'Debug = false'])}[k]
                dbg_reach(ctx, 'union', 'fault:' + k, t)
                return t
            mode, value = self._name(ctx, 'union', (0.45, 0.3, 0.17, 0.06, 0.02))
            return self._assemble(ctx, 'union', mode, value, [], False, lead='unsafe')
        if kind == 'struct':
            mode, value = self._name(ctx, 'struct', (0.5, 0.25, 0.15, 0.08, 0.02))
            nf, nft = self._nf(ctx, 'struct')
            ctx.notes['nf_req'] = nf
        else:
            mode, value = self._name(ctx, 'enum', (0.45, 0.25, 0.08, 0.2, 0.02))
            nft = None
        bmode, b = gen_bound(ctx)
        dbg_reach(ctx, kind, 'bound=' + bmode, (b or '-').split('(')[0].split(' =')[0] + ('(' if b and '(' in b else '=' if b else ''))
        return self._assemble(ctx, kind, mode, value, [nft, b], True)

    def _variant_meta(self, ctx, variant):
        ctx.notes['v_nf_req'] = None
        level = 'variant_' + variant.kind
        f = self._fault(ctx, 'variant', p=0.1)
        if f is not None:
            return f
        mode, value = self._name(ctx, level, (0.5, 0.25, 0.17, 0.06, 0.02))
        nf, nft = self._nf(ctx, level)
        ctx.notes['v_nf_req'] = nf
        return self._assemble(ctx, level, mode, value, [nft], True)

    def _field_meta(self, ctx, field):
        r, sp = ctx.rng, ctx.sp
        if ctx.kind == 'union':
            if ctx.want_fault and ctx.fault is None and r.random() < 0.15:
                t = pick(r, ['Debug', 'Debug = false', 'Debug(ignore)', 'Debug = x', 'Debug(name = x)', 'Debug(method(m))', 'Debug(foo)'])
                ctx.fault = 'dbg:union_field'
                dbg_reach(ctx, 'union_field', 'fault', t)
                return t
            if r.random() < 0.05:
                dbg_reach(ctx, 'union_field', 'empty_list', 'Debug()')
                return 'Debug()'
            return None
        if field.variant is not None:
            req = ctx.notes.get('v_nf_req')
            level = 'field@variant_' + field.variant.kind
        else:
            req = ctx.notes.get('nf_req')
            level = 'field@struct_' + ('named' if field.named else 'unnamed')
        eff_named = field.named if req is None else req
        level += ':as_named' if eff_named else ':as_tuple'
        if ctx.want_fault and ctx.fault is None and r.random() < 0.06:
            k = pick(r, sorted(DBG_FIELD_FAULTS))
            t = pick(r, DBG_FIELD_FAULTS[k])
            ctx.fault = 'dbg:field_%s' % k
            dbg_reach(ctx, level, 'fault:' + k, t)
            return t
        c = r.random()
        fname = pick(r, DBG_NAMES + ['key', '_0', 'r#fn'])
        m = pick(r, METHOD_PATHS + ['fmt', '::core::fmt::Display::fmt'])
        igb = r.random() < 0.5
        name_here = eff_named or (ctx.want_fault and ctx.fault is None and r.random() < 0.3)
        if c < 0.35:
            dbg_reach(ctx, level, 'none', '-')
            return None
        if c < 0.40:
            i = sp.randrange(3)
            dbg_reach(ctx, level, 'ignore=false', ['short', 'nv', 'list'][i])
            return ['Debug = true', 'Debug(ignore = false)', 'Debug(ignore(false))'][i]
        if c < 0.55:
            i = sp.randrange(4)
            dbg_reach(ctx, level, 'ignore', ['short', 'flag', 'nv', 'list'][i])
            return ['Debug = false', 'Debug(ignore)', 'Debug(ignore = true)', 'Debug(ignore(true))'][i]
        if c < 0.58:
            # `Debug = ""`: means "ignore" when names are enabled, a syn error otherwise
            if not eff_named and ctx.fault is None:
                ctx.fault = 'dbg:field_empty_str_tuple'
            dbg_reach(ctx, level, 'ignore_empty_str', 'short')
            return 'Debug = ""'
        if c < 0.78:
            if not name_here:
                dbg_reach(ctx, level, 'none', '-')
                return None
            if not eff_named:
                ctx.fault = 'dbg:field_name_in_tuple_style'
            if r.random() < 0.06:
                kw = pick(r, DBG_PATHKW)
                i = sp.randrange(3)
                dbg_reach(ctx, level, 'name=pathkw', ['short', 'name:nv', 'rename:nv'][i])
                return ['Debug = %s' % kw, 'Debug(name = %s)' % kw, 'Debug(rename = %s)' % kw][i]
            if sp.random() < 0.35:
                i = sp.randrange(2)
                dbg_reach(ctx, level, 'name=custom', ['short', 'short_str'][i])
                return ['Debug = %s' % fname, 'Debug = "%s"' % fname][i]
            t, form = dbg_name_forms(sp, fname)
            dbg_reach(ctx, level, 'name=custom', form)
            return 'Debug(%s)' % (t + (',' if sp.random() < 0.1 else ''))
        if c < 0.92:
            t = sp_path_param(sp, 'method', m)
            dbg_reach(ctx, level, 'method', 'list' if t.startswith('method(') else 'nv')
            return 'Debug(%s)' % t
        # combinations
        params = [sp_path_param(sp, 'method', m)]
        what = 'method'
        if name_here and r.random() < 0.6:
            if not eff_named:
                ctx.fault = 'dbg:field_name_in_tuple_style'
            params.append(dbg_name_forms(sp, fname)[0]); what += '+name'
        if r.random() < 0.5:
            params.append(sp_bool_param(sp, 'ignore', igb)); what += '+ignore=%s' % igb
        dbg_reach(ctx, level, what, 'list')
        return 'Debug(%s)' % join_params(sp, params)

    def post(self, ctx, inp):
        """attributes the per-item scanners must skip: non-educe attributes and `educe` attributes
        that are not lists (`#[educe]`, `#[educe = 1]`), on variants and fields"""
        r, sp = ctx.rng, ctx.sp
        if r.random() > 0.12:
            return
        items = list(inp.fields)
        for v in inp.variants:
            items.append(v)
            items += v.fields
        if not items:
            return
        it = pick(r, items)
        a = pick(r, [Attr('educe', 'path'), Attr('educe', 'nv', '1'), Attr('educe', 'nv', '"Debug"'),
                     Attr('doc', 'nv', '" d"'), Attr('serde', 'list', 'skip'), Attr('educe::x', 'list', 'Debug'),
                     Attr('educe', 'list', ''), Attr('educe', 'list', ',') if False else Attr('educe', 'list', ' ')])
        dbg_reach(ctx, 'item_attr', a.rust(), '-')
        it.attrs.insert(sp.randrange(len(it.attrs) + 1), a)

# ---------------------------------------------------------------- PartialOrd / Ord
ISIZE_MIN, ISIZE_MAX = -2 ** 63, 2 ** 63 - 1
I128_MIN, I128_MAX = -2 ** 127, 2 ** 127 - 1
RANK_POOL = [0, 1, 2, 3, 4, 5, 7, 10, 16, 100, 255, 65536, -1, -2, -3, -10, -128, ISIZE_MAX, ISIZE_MAX - 1,
             ISIZE_MIN + 100, 4294967296, -4294967297]
REPR_INTS = ['i8', 'i16', 'i32', 'i64', 'i128', 'isize', 'u8', 'u16', 'u32', 'u64', 'u128', 'usize']

def sp_int(sp, v, allow_suffix=True):
    """a spelling of the integer literal v (sign included as a leading minus)"""
    m = abs(v)
    forms = [str(m), str(m)]
    forms.append(hex(m))
    forms.append('0b' + bin(m)[2:] if m < 256 else '0o' + oct(m)[2:])
    if m >= 1000:
        forms.append('{:_}'.format(m))
    else:
        forms.append('0' + str(m) if m else '0_0')
    if allow_suffix:
        forms.append(str(m) + pick(sp, ['isize', 'i64', 'u8', 'i128', '_i32']))
    t = pick(sp, forms)
    return ('-' + pick(sp, ['', ' ']) + t) if v < 0 else t

def sp_rank(sp, v):
    """every documented (and accepted) spelling of `rank = v`"""
    c = sp.randrange(6)
    if c == 0:
        return 'rank = %s' % sp_int(sp, v)
    if c == 1:
        return 'rank(%s)' % sp_int(sp, v)
    if c == 2 or c == 3:
        d = str(abs(v))
        if sp.random() < 0.2:
            d = '0' + d
        s = ('-' + d) if v < 0 else (pick(sp, ['', '', '+']) + d)
        return pick(sp, ['rank = "%s"', 'rank("%s")']) % s
    if c == 4:
        return 'rank = %d' % v
    return 'rank(%d)' % v

RANK_BAD_FORMS = [
    ('rank_path', 'rank'), ('rank_float', 'rank = 1.5'), ('rank_float', 'rank(1.5)'), ('rank_float', 'rank = -1.5'),
    ('rank_float', 'rank(-1.5)'), ('rank_str_bad', 'rank = "x"'), ('rank_str_bad', 'rank("")'), ('rank_str_bad', 'rank = ""'),
    ('rank_str_bad', 'rank = "+"'), ('rank_str_bad', 'rank("-")'), ('rank_str_bad', 'rank = " 1"'), ('rank_str_bad', 'rank = "0x10"'),
    ('rank_str_bad', 'rank("1_0")'), ('rank_str_bad', 'rank = "1 "'), ('rank_str_bad', 'rank = "--1"'), ('rank_str_bad', 'rank = "1.0"'),
    ('rank_bool', 'rank(true)'), ('rank_bool', 'rank = true'), ('rank_bool', 'rank(false)'),
    ('rank_extra', 'rank(1, 2)'), ('rank_extra', 'rank(1,)'), ('rank_extra', 'rank("x" 2)'), ('rank_extra', 'rank(1 2)'),
    ('rank_empty', 'rank()'), ('rank_ident', 'rank = x'), ('rank_ident', 'rank(x)'), ('rank_ident', 'rank = -x'),
    ('rank_ident', 'rank(-x)'), ('rank_ident', 'rank = a::b'), ('rank_char', "rank('c')"), ('rank_char', "rank = 'c'"),
    ('rank_char', 'rank(b"x")'), ('rank_char', "rank = b'x'"), ('rank_negstr', 'rank(-"1")'), ('rank_negstr', "rank(-'c')"),
    ('rank_negstr', 'rank(-true)'), ('rank_negstr', 'rank(- -1)'), ('rank_call', 'rank = f(1)'),
    ('rank_range', 'rank = 9223372036854775808'), ('rank_range', 'rank(9223372036854775808)'),
    ('rank_range', 'rank = "9223372036854775808"'), ('rank_range', 'rank = -9223372036854775809'),
    ('rank_range', 'rank(-9223372036854775809)'), ('rank_range', 'rank = "-9223372036854775809"'),
    ('rank_range', 'rank = -9223372036854775809, ignore = false'), ('rank_range', 'rank = 0xffff_ffff_ffff_ffff'),
    ('rank_range', 'rank = 340282366920938463463374607431768211456'), ('rank_range', 'rank = 18446744073709551616u8'),
    ('rank_reset', 'rank = 1, rank = 2'), ('rank_reset', 'rank(1), rank(1)'), ('rank_reset', 'rank = "x", rank = 1'),
    ('rank_reset', 'rank = 1, rank = "x"'), ('rank_reset', 'rank = 1, rank'),
]

def ord_names(ctx):
    return [t for t in ('PartialOrd', 'Ord') if t in ctx.traits]

def ord_reach(ctx, *tag):
    ctx.notes.setdefault('reach', []).append(tag)

def ord_plan_container(ctx, field):
    """decide (request stream only) the ignore / method / rank request of every field of the
    struct / variant `field` belongs to; called when its first field is generated"""
    r = ctx.rng
    n = field.count
    reqs = []
    for i in range(n):
        q = dict(ignore=None, method=None, rank=None, fault=None)
        c = r.random()
        if c < 0.18:
            q['ignore'] = True
        elif c < 0.24:
            q['ignore'] = False
        if r.random() < 0.25:
            q['method'] = pick(r, METHOD_PATHS)
        if r.random() < 0.45:
            c = r.random()
            if c < 0.75:
                q['rank'] = pick(r, RANK_POOL)
            elif c < 0.9:
                q['rank'] = ISIZE_MIN + r.randrange(n)      # the default rank of one of the fields
            else:
                q['rank'] = pick(r, [ISIZE_MIN, ISIZE_MAX, 0, -0])
        reqs.append(q)
    want_dup = ctx.want_fault and ctx.fault is None and n >= 2 and r.random() < 0.12
    def eff(i):
        q = reqs[i]
        return None if q['ignore'] else (q['rank'] if q['rank'] is not None else ISIZE_MIN + i)
    if want_dup:
        i, j = r.sample(range(n), 2)
        reqs[i]['ignore'] = reqs[j]['ignore'] = None if r.random() < 0.7 else False
        mode = r.randrange(3)
        if mode == 0:
            reqs[i]['rank'] = reqs[j]['rank'] = pick(r, RANK_POOL)
            kind = 'rank_dup_explicit'
        else:
            reqs[j]['rank'] = None
            reqs[i]['rank'] = ISIZE_MIN + j
            kind = 'rank_dup_default'
        ctx.fault = kind
        ord_reach(ctx, 'fault', kind)
        ord_reach(ctx, 'fault_at', kind, ('variant_' if field.variant is not None else 'struct_') + ('named' if field.named else 'tuple'))
    else:
        # make the request valid: explicit ranks that collide are re-drawn / dropped
        used = set()
        for i in range(n):
            if reqs[i]['ignore']:
                continue
            if reqs[i]['rank'] is None:
                used.add(ISIZE_MIN + i)
        for i in range(n):
            q = reqs[i]
            if q['ignore'] or q['rank'] is None:
                continue
            tries = 0
            while q['rank'] in used and tries < 20:
                q['rank'] = pick(r, RANK_POOL + [ISIZE_MIN + k for k in range(n)])
                tries += 1
            if q['rank'] in used:
                q['rank'] = 1000 + i
            used.add(q['rank'])
    if ctx.want_fault and ctx.fault is None and n >= 1 and r.random() < 0.12:
        i = r.randrange(n)
        kind, text = pick(r, RANK_BAD_FORMS)
        reqs[i]['fault'] = (kind, text)
        ctx.fault = kind
        ord_reach(ctx, 'fault', kind, text)
    elif ctx.want_fault and ctx.fault is None and n >= 1 and len(ord_names(ctx)) == 2 and r.random() < 0.08:
        reqs[r.randrange(n)]['fault'] = ('both_names', None)
        ctx.fault = 'ord_both_names'
        ord_reach(ctx, 'fault', 'ord_both_names')
    elif ctx.want_fault and ctx.fault is None and n >= 1 and r.random() < 0.04:
        reqs[r.randrange(n)]['fault'] = ('field_flag', None)
        ctx.fault = 'ord_field_flag'
        ord_reach(ctx, 'fault', 'ord_field_flag')
    return reqs

def ord_spelling_class(text):
    """`rank = "-3"` -> 'rank=str' ; `ignore` -> 'ignore' ; `method(a::b)` -> 'method()tok'"""
    head = text.split('=')[0].split('(')[0].strip()
    if text.strip() == head:
        return head
    form = '=' if '=' in text.split('(')[0] else '()'
    return head + form + ('str' if '"' in text else 'tok')

def ord_field_text(ctx, field):
    """returns {trait name: meta text} for this field"""
    r, sp = ctx.rng, ctx.sp
    key = ('ordplan', field.variant.index if field.variant is not None else -1)
    if field.index == 0 or key not in ctx.notes:
        ctx.notes[key] = ord_plan_container(ctx, field)
    q = ctx.notes[key][field.index]
    names = ord_names(ctx)
    carrier = pick(sp, names)
    shape = ('variant_' if field.variant is not None else 'struct_') + ('named' if field.named else 'tuple')
    if q['fault'] is not None:
        ord_reach(ctx, 'fault_at', q['fault'][0], shape)
    if q['fault'] is not None and q['fault'][0] == 'both_names':
        return {'PartialOrd': pick(sp, ['PartialOrd(ignore)', 'PartialOrd = false', 'PartialOrd(rank = 1)']),
                'Ord': pick(sp, ['Ord(rank = 2)', 'Ord(method(m))', 'Ord = true'])}
    if q['fault'] is not None and q['fault'][0] == 'field_flag':
        return {carrier: carrier}
    if q['fault'] is not None:
        params = [q['fault'][1]]
        if q['method'] is not None and sp.random() < 0.5 and 'ignore' not in q['fault'][1]:
            params.append(sp_path_param(sp, 'method', q['method']))
        sp.shuffle(params)
        return {carrier: '%s(%s)' % (carrier, ', '.join(params))}
    params = []
    if q['method'] is not None:
        params.append(sp_path_param(sp, 'method', q['method']))
    if q['rank'] is not None:
        params.append(sp_rank(sp, q['rank']))
    if q['ignore'] is not None:
        if not params and sp.random() < 0.4:
            ord_reach(ctx, shape, 'ignore', 'Trait=bool')
            ord_reach(ctx, 'carrier', carrier, 'of %d' % len(names))
            return {carrier: '%s = %s' % (carrier, 'false' if q['ignore'] else 'true')}
        params.append(sp_bool_param(sp, 'ignore', q['ignore']))
    if not params:
        if r.random() < 0.05:
            ord_reach(ctx, shape, 'no parameter', 'Trait()')
            ord_reach(ctx, 'carrier', carrier, 'of %d' % len(names))
            return {carrier: '%s()' % carrier}
        ord_reach(ctx, shape, 'no attribute', '')
        return {}
    ord_reach(ctx, 'carrier', carrier, 'of %d' % len(names))
    text = join_params(sp, params)
    for ptxt in params:
        cls = ord_spelling_class(ptxt)
        if ptxt.startswith('rank') and q['rank'] < 0:
            cls += ' negative'
            if '"' not in ptxt and '(' not in ptxt.split('=')[0] and not text.rstrip().endswith(ptxt):
                cls += ' not-last(Expr::Unary)'
        ord_reach(ctx, shape, ptxt.split('=')[0].split('(')[0].strip(), cls)
    if q['ignore']:
        ord_reach(ctx, shape, 'ignored field', 'with rank' if q['rank'] is not None else '')
    return {carrier: '%s(%s)' % (carrier, text)}

def ord_field_meta(ctx, field, name):
    if ctx.kind == 'union':
        return None
    key = ('ordtext', field.variant.index if field.variant is not None else -1, field.index)
    if key not in ctx.notes:
        ctx.notes[key] = ord_field_text(ctx, field)
    return ctx.notes[key].get(name)

DISCR_POOL = [0, 1, 2, 3, 5, 100, 127, 128, 200, 255, 256, 32767, 32768, 65535, 2147483647, 2147483648,
              4294967295, ISIZE_MAX, ISIZE_MAX + 1, 2 ** 64, I128_MAX - 1, I128_MAX,
              -1, -2, -128, -129, -32768, -32769, -2147483648, -2147483649, ISIZE_MIN, ISIZE_MIN - 1, I128_MIN + 1, I128_MIN]
DISCR_BAD = [('discr_op', '!1'), ('discr_op', '!0'), ('discr_op', '*1'), ('discr_nonlit', 'FOO'), ('discr_nonlit', 'a::B'), ('discr_nonlit', '1 + 1'), ('discr_nonlit', '-(1)'),
             ('discr_nonlit', '- -1'), ('discr_nonlit', '(1)'), ('discr_nonlit', 'foo(1)'), ('discr_nonlit', '1 as u8'),
             ('discr_nonlit', '-x'), ('discr_nonlit', 'A | B'), ('discr_op', '!0'), ('discr_op', '*x'), ('discr_op', '!FOO'),
             ('discr_notint', '"x"'), ('discr_notint', '1.0'), ('discr_notint', 'true'), ('discr_notint', '-1.5'),
             ('discr_notint', "'c'"), ('discr_notint', "b'a'"), ('discr_notint', '-"x"'), ('discr_notint', '-true'),
             ('discr_range', '170141183460469231731687303715884105728'),
             ('discr_range', '-170141183460469231731687303715884105729'),
             ('discr_range', '340282366920938463463374607431768211455'),
             ('discr_range', '0xffff_ffff_ffff_ffff_ffff_ffff_ffff_ffff'),
             ('discr_range', '-340282366920938463463374607431768211456')]
REPR_BAD = ['align(8)', 'C, align(4)', 'u8 u16', ',', 'u8,,', 'fn', 'C, packed(2)', '"u8"', 'u8; 2', 'a::u8', '8', 'u8, 8']

def ord_post(ctx, inp):
    """#[repr(..)] attributes and explicit discriminants of an ordered enum (once per case)"""
    if ctx.notes.get('ord_post_done') or inp.kind != 'enum':
        return
    ctx.notes['ord_post_done'] = True
    r, sp = ctx.rng, ctx.sp
    nv = len(inp.variants)
    all_unit = all(v.kind == 'unit' for v in inp.variants)
    ord_reach(ctx, 'enum', 'variants', min(nv, 2), 'all_unit' if (all_unit and nv) else 'mixed' if nv else 'empty')
    # ---- repr
    reprs = []
    c = r.random()
    if c < 0.45:
        kind = 'none'
    elif c < 0.62:
        kind = 'int'
        reprs.append(Attr('repr', 'list', pick(r, REPR_INTS)))
    elif c < 0.70:
        kind = 'C'
        reprs.append(Attr('repr', 'list', 'C'))
    elif c < 0.78:
        kind = 'C_int'
        reprs.append(Attr('repr', 'list', 'C, ' + pick(r, REPR_INTS)))
    elif c < 0.82:
        kind = 'int_C'
        reprs.append(Attr('repr', 'list', pick(r, REPR_INTS) + ', C'))
    elif c < 0.87:
        kind = 'two_attrs'
        reprs.append(Attr('repr', 'list', pick(r, ['C', 'transparent', '', 'Rust'])))
        reprs.append(Attr('repr', 'list', pick(r, REPR_INTS)))
    elif c < 0.90:
        kind = 'two_ints'
        reprs.append(Attr('repr', 'list', pick(r, REPR_INTS)))
        reprs.append(Attr('repr', 'list', pick(r, REPR_INTS)))
    elif c < 0.93:
        kind = 'not_list'
        reprs.append(pick(r, [Attr('repr', 'path'), Attr('repr', 'nv', '"u8"'), Attr('a::repr', 'list', 'u8'),
                              Attr('repr', 'list', 'r#u8'), Attr('repr', 'list', 'U8'), Attr('repr', 'list', '')]))
    else:
        kind = 'other_word'
        reprs.append(Attr('repr', 'list', pick(r, ['transparent', 'Rust', 'C, C', 'packed, u8', 'align, i16'])))
    repr_fault = False
    if ctx.want_fault and ctx.fault is None and r.random() < 0.10:
        bad = Attr('repr', 'list', pick(r, REPR_BAD))
        # a bad repr list is only an error when no earlier #[repr(int)] decided
        if kind in ('int', 'two_ints', 'int_C') and r.random() < 0.5:
            reprs.append(bad)             # shadowed: still a valid request
            kind += '+shadowed_bad'
        else:
            reprs.insert(0, bad)
            ctx.fault = 'repr_bad'
            repr_fault = True
            ord_reach(ctx, 'fault', 'repr_bad', bad.args)
    for a in reprs:
        if a.kind == 'list':
            a.delim = pick(sp, ['(', '(', '(', '(', '[', '{'])
            if a.args and not a.args.endswith(',') and sp.random() < 0.1 and a.args not in REPR_BAD:
                a.args += ','
    ord_reach(ctx, 'enum', 'repr', kind)
    # keep the relative order of the repr attributes, interleave them with the others
    pos = sorted(sp.randrange(len(inp.attrs) + 1) for _ in reprs)
    for k, (p, a) in enumerate(zip(pos, reprs)):
        inp.attrs.insert(p + k, a)
    # ---- discriminants
    if nv == 0:
        return
    c = r.random()
    decided_by_repr = kind.split('+')[0] in ('int', 'two_attrs', 'two_ints', 'int_C') and not repr_fault
    if c < 0.45:
        ord_reach(ctx, 'enum', 'discr', 'none')
    else:
        vals = []
        for v in inp.variants:
            if r.random() < 0.6:
                vals.append(pick(r, DISCR_POOL) if r.random() < 0.7 else r.randrange(-300, 300))
            else:
                vals.append(None)
        for v, x in zip(inp.variants, vals):
            if x is not None:
                v.discr = sp_int(sp, x, allow_suffix=True)
        ord_reach(ctx, 'enum', 'discr', 'explicit', 'neg' if any(x is not None and x < 0 for x in vals) else 'nonneg')
    if ctx.want_fault and (ctx.fault is None or (decided_by_repr and r.random() < 0.3)) and r.random() < 0.15:
        kind2, text = pick(r, DISCR_BAD)
        pick(r, inp.variants).discr = text
        if decided_by_repr:
            ord_reach(ctx, 'enum', 'discr_bad_but_repr', kind2)   # never looked at: still valid
        else:
            if ctx.fault is None:
                ctx.fault = kind2
            ord_reach(ctx, 'fault', kind2, text)

class G_PartialOrd(TG):
    name = 'PartialOrd'
    union_ok = False
    def type_meta(self, ctx):
        r, sp = ctx.rng, ctx.sp
        if 'Ord' in ctx.traits:
            # the Ord handler owns the implementation: only the flag form is accepted here
            if ctx.want_fault and ctx.fault is None and r.random() < 0.06:
                ctx.fault = 'pord_bound_with_ord'
                ord_reach(ctx, 'fault', 'pord_bound_with_ord')
                return pick(r, ['PartialOrd(bound(*))', 'PartialOrd(bound = false)', 'PartialOrd(bound(T: Copy))'])
            ord_reach(ctx, 'type', 'PartialOrd', 'flag_with_ord')
            return pick(sp, ['PartialOrd', 'PartialOrd', 'PartialOrd', 'PartialOrd()'])
        mode, b = gen_bound(ctx)
        ord_reach(ctx, 'type', 'PartialOrd', 'bound_' + mode, (b or '').split('(')[0].split('=')[0].strip() + ('=' if b and '=' in b.split('(')[0] else '()' if b else ''))
        return trait_with_params(sp, 'PartialOrd', [b])
    def variant_meta(self, ctx, variant):
        if ctx.rng.random() < 0.04:
            ord_reach(ctx, 'variant_meta', 'PartialOrd()')
            ctx.notes[('ord_vmeta', variant.index)] = True
            return 'PartialOrd()'
        return None
    def field_meta(self, ctx, field):
        return ord_field_meta(ctx, field, 'PartialOrd')
    def post(self, ctx, inp):
        ord_post(ctx, inp)

class G_Ord(TG):
    name = 'Ord'
    union_ok = False
    def type_meta(self, ctx):
        mode, b = gen_bound(ctx)
        ord_reach(ctx, 'type', 'Ord', 'bound_' + mode, (b or '').split('(')[0].split('=')[0].strip() + ('=' if b and '=' in b.split('(')[0] else '()' if b else ''))
        return trait_with_params(ctx.sp, 'Ord', [b])
    def variant_meta(self, ctx, variant):
        if ctx.rng.random() < 0.04 and not ctx.notes.get(('ord_vmeta', variant.index)):
            ord_reach(ctx, 'variant_meta', 'Ord()')
            return 'Ord()'
        return None
    def field_meta(self, ctx, field):
        return ord_field_meta(ctx, field, 'Ord')
    def post(self, ctx, inp):
        ord_post(ctx, inp)

GENS = {'PartialEq': G_PartialEq(), 'Eq': G_Eq(), 'Hash': G_Hash()}
GENS['Clone'] = G_Clone()
GENS['Copy'] = G_Copy()
GENS['Debug'] = G_Debug()
GENS['PartialOrd'] = G_PartialOrd()
GENS['Ord'] = G_Ord()

# ---------------------------------------------------------------- Default
INT_TYS = ['u8', 'u16', 'u32', 'u64', 'u128', 'usize', 'i8', 'i16', 'i32', 'i64', 'i128', 'isize']
FLOAT_TYS = ['f32', 'f64']
# (kind name, spellings): every literal kind syn::Lit distinguishes
D_LITS = {
    'int':      ['0', '1', '42', '1_000', '0xff', '0b101', '0o17', '11111111111111111111111111111'],
    'int_suf':  ['1u8', '5i64', '7usize', '1_u16', '0x1fu32', '3i128', '9isize', '2u128', '1i8', '1i16',
                 '1i32', '1u64', '1f32', '2f64', '1foo'],
    'float':    ['1.5', '2.', '1e3', '1e-3', '0.1', '1_0.0_1'],
    'float_suf': ['1.5f32', '2.5f64', '1e3f32', '1.0foo'],
    'str':      ['"Hi"', '""', '"a b"', 'r"raw"', 'r#"a"b"#', '"q\\"uote"', '"T: Clone"', '"u8::MAX"'],
    'char':     ["'M'", "'\\n'", "'\\''", "'\\u{1F600}'"],
    'byte':     ["b'a'", "b'\\n'", "b'\\x7f'"],
    'bytestr':  ['b"ab"', 'br"ab"', 'b""'],
    'cstr':     ['c"ab"'],
    'bool':     ['true', 'false'],
    'neg_int':  ['-1', '-0x10', '-1i8', '-11111111111111111111111111111'],
    'neg_float': ['-1.5', '-2.', '-1e3', '-1.5f32'],
}
D_LIT_KINDS = sorted(D_LITS)
# field types the auto-adjust table distinguishes (plus decoys that look similar)
D_TYPES = INT_TYS + FLOAT_TYS + ['bool', 'char', "&'static str", '&str', "&'static mut str", 'String', 'u8',
          'Option<u8>', 'Option<String>', "&'static [u8; 2]", '&[u8; 2]', "&'static [u8]", "&'static [i8; 2]",
          '[u8; 2]', '(u8)', '::core::primitive::u8', 'std::primitive::bool', 'foo', 'r#u8', "&&'static str",
          'Vec<u8>', "&'static mut [u8; 2]", 'str', 'Self']
D_PATHS = ['u8::MAX', 'Self::X', 'X', '::core::u8::MAX', 'crate::a::B', 'self::C', 'super::D', 'Self', 'r#type']
D_CALLS = ['f(1, 2)', 'String::new()', 'Self::make()', 'f()', 'g(1,)', 'h(-1, "a", \'c\')', 'f(g(1), u8::MAX)',
           'String::from("Hello")', '::core::default::Default::default()', 'Some(1)', 'f(1)(2)', 'f((1, 2), ())']
D_OTHERS = ['0 + 1', '-11111111111111111111111111111 * -1', '1.0 + 0.1', '!false', '-x', '&1', '*p', '&&x',
            'a * b - 3 / c % 2 ^ d & e', '(1)', '(1, 2)', '()', '(1,)', '-(1)', '"abc".to_string()', 'a.b',
            'a.b.c(1).d', 'a[0]', 'a[i + 1].f(2)', 'vec![1, 2]', 'format!("x{}", 1)', 'm!{a b}', 'a::m!(;)',
            '{ 1 }', '{ f(1) }', 'P { a: 1, b: "x" }', 'P {}', 'P { a }', 'a::P { a: 1, }', 'Self { x: -1 }',
            "-'a'", '-"s"', '-true', '- -1', '!-1', 'f(P { a: 1 })', 'x & &y', '1 - -1']
# expressions the (non-"full") syn parser refuses
D_BAD_EXPRS = ['1 2', 'f(1 2)', '[1, 2]', '+1', 'a ! b', 'a::', 'f(,)', '(,)', 'a b', '1 +', '-', '{ 1 2 }',
               '{ }', 'a::(1)', '"a" "b"', 'f(1,,2)', '/ 2', 'a.b!(1)', '1 true', 'a[1 2]', 'a[]', '::']

def d_gen_expr(ctx):
    """returns (text, kind)"""
    r = ctx.rng
    c = r.random()
    if c < 0.62:
        k = pick(r, D_LIT_KINDS)
        return pick(r, D_LITS[k]), k
    if c < 0.72:
        return pick(r, D_PATHS), 'path'
    if c < 0.82:
        return pick(r, D_CALLS), 'call'
    return pick(r, D_OTHERS), 'other'

def d_form(text):
    """'expr = 1' -> 'expr=', 'expression(1)' -> 'expression()', 'new' -> 'new' (reach bookkeeping only)"""
    import re
    name = re.match(r'[A-Za-z_]+', text).group(0)
    rest = text[len(name):].lstrip()
    return name + ('=' if rest.startswith('=') else '()' if rest.startswith('(') else rest[:1] + '..' if rest[:1] in ('[', '{') else '')

def d_sp_expr_param(sp, e):
    """list-style spelling of an expression parameter"""
    if sp.random() < 0.04:          # parse_args ignores the delimiter kind
        return pick(sp, ['expression[%s]' % e, 'expr{%s}' % e])
    return pick(sp, ['expression = %s' % e, 'expression(%s)' % e, 'expr = %s' % e, 'expr(%s)' % e])

D_NATURAL = {
    'int': INT_TYS, 'int_suf': INT_TYS, 'float': FLOAT_TYS, 'float_suf': FLOAT_TYS,
    'str': ["&'static str", '&str', "&'static mut str"], 'char': ['char'], 'byte': ['u8'],
    'bytestr': ["&'static [u8; 2]", '&[u8; 2]', "&'static mut [u8; 2]"], 'bool': ['bool'],
    'neg_int': ['i8', 'i16', 'i32', 'i64', 'i128', 'isize', 'u8'], 'neg_float': FLOAT_TYS,
}

def d_type_for(ctx, kind, text):
    """a field type to put the literal kind against: the kind's natural types, the whole table
    (decoys included), a generic parameter, or the type already generated"""
    import re
    r = ctx.rng
    c = r.random()
    if c < 0.30 and kind in D_NATURAL:
        m = re.search(r'([iu](8|16|32|64|128|size)|f32|f64|foo)$', text)
        if m and kind in ('int_suf', 'float_suf') and r.random() < 0.5:
            return m.group(1)                 # the type named by the literal's suffix
        return pick(r, D_NATURAL[kind])
    if c < 0.70:
        return pick(r, D_TYPES)
    if c < 0.85 and ctx.type_params:
        return pick(r, ctx.type_params)
    return None          # keep the generated type

class G_Default(TG):
    name = 'Default'
    def note(self, ctx, *key):
        ctx.notes.setdefault('reach', []).append(('Default',) + key)

    def type_meta(self, ctx):
        r, sp = ctx.rng, ctx.sp
        n = ctx.notes
        n['d_texpr'] = False
        params = []
        forms = []
        if r.random() < 0.18:
            e, k = d_gen_expr(ctx)
            if r.random() < 0.4:
                e = pick(r, ['S { a: 1 }', 'E::A', 'Self::new_default()', 'make()', 'S(1, 2)', 'Foo { a: 1, b: 2 }'])
                k = 'ctor'
            n['d_texpr'] = True
            spell = d_sp_expr_param(sp, e)
            params.append(spell)
            forms.append(('expression', k, d_form(spell)))
        if r.random() < 0.3:
            v = r.random() < 0.8
            spell = sp_bool_param(sp, 'new', v)
            params.append(spell)
            forms.append(('new', v, d_form(spell)))
        mode, b = gen_bound(ctx)
        if b is not None:
            params.append(b)
            forms.append(('bound', mode, d_form(b)))
        if ctx.want_fault and ctx.fault is None and r.random() < 0.12:
            bad = pick(r, ['Default = 1', 'Default = "x"', 'Default(foo)', 'Default(new, new = true)',
                           'Default(expression = 1, expr(2))', 'Default(new = 1)', 'Default(new(1))', 'Default(new = "true")',
                           'Default(expression)', 'Default(expr)', 'Default(expression())', 'Default(expression(1, 2))',
                           'Default(expression = )', 'Default(bound)', 'Default(bound(*), bound = false)',
                           'Default(a::new)', 'Default(::new)', 'Default(new())', 'Default(expression(1,))',
                           'Default(expr = %s)' % pick(r, D_BAD_EXPRS), 'Default(expression(%s))' % pick(r, D_BAD_EXPRS),
                           'Default(expression = 1 new)', 'Default(new expression = 1)'])
            ctx.fault = 'default_type:' + bad
            n['d_texpr'] = 'expression' in bad or 'expr' in bad
            self.note(ctx, 'type', 'fault', bad[:16])
            return bad
        for f in forms:
            self.note(ctx, 'type', *f)
        if not forms:
            self.note(ctx, 'type', 'flag')
        return trait_with_params(sp, 'Default', params)

    # --- enums: the default variant is drawn when the first variant is generated
    def variant_meta(self, ctx, variant):
        r, sp, n = ctx.rng, ctx.sp, ctx.notes
        if variant.index == 0:
            n['d_dv'] = r.randrange(variant.count)
            n['d_vfault'] = None
            if ctx.want_fault and ctx.fault is None and not n.get('d_texpr') and r.random() < 0.25:
                n['d_vfault'] = pick(r, ['none', 'two', 'bad_form', 'field_on_other', 'empty_list'])
        vf = n.get('d_vfault')
        if n.get('d_texpr'):
            # a type-level expression: variants must not carry the attribute
            if ctx.want_fault and ctx.fault is None and r.random() < 0.1:
                bad = pick(r, ['Default', 'Default(new)', 'Default = 1'])
                ctx.fault = 'default_variant_with_texpr:' + bad
                self.note(ctx, 'variant', 'texpr', 'fault', bad)
                return bad
            if r.random() < 0.1:
                self.note(ctx, 'variant', 'texpr', 'Default()')
                return 'Default()'          # accepted: an empty list sets nothing
            return None
        is_default = variant.index == n['d_dv']
        if vf == 'none' and variant.count != 1:
            ctx.fault = 'default_no_variant'
            self.note(ctx, 'variant', 'fault', 'none')
            return None
        if vf == 'two' and variant.count >= 2:
            other = (n['d_dv'] + 1) % variant.count
            if variant.index == other:
                ctx.fault = 'default_multi_variants'
                self.note(ctx, 'variant', 'fault', 'two')
                return 'Default'
        if vf == 'bad_form' and is_default:
            bad = pick(r, ['Default(new)', 'Default = 1', 'Default(bound(*))', 'Default(expression = 1)', 'Default(flag)',
                           'Default = true', 'Default(expr(1))', 'Default(bound = false)', 'Default, Default',
                           'Default(), Default'])
            ctx.fault = 'default_variant_form:' + bad
            self.note(ctx, 'variant', 'fault', bad)
            return bad
        if vf == 'empty_list' and is_default and variant.count >= 2:
            ctx.fault = 'default_variant_empty_list'      # `Default()` is not the flag
            self.note(ctx, 'variant', 'fault', 'Default()')
            return 'Default()'
        if is_default:
            if variant.count == 1 and r.random() < 0.5:
                self.note(ctx, 'variant', 'only', variant.kind, 'unmarked')
                return None
            self.note(ctx, 'variant', 'only' if variant.count == 1 else 'marked', variant.kind, 'flag')
            return 'Default'
        if r.random() < 0.05:
            self.note(ctx, 'variant', 'other', 'Default()')
            return 'Default()'              # accepted on a non-default variant: flag stays false
        return None

    def value_meta(self, ctx, field, where):
        """a field that may carry a default value: returns the meta text or None"""
        r, sp = ctx.rng, ctx.sp
        if r.random() < 0.45:
            self.note(ctx, 'field', where, 'no_value')
            if r.random() < 0.08:
                self.note(ctx, 'field', where, 'Default()')
                return 'Default()'
            return None
        e, k = d_gen_expr(ctx)
        ty = d_type_for(ctx, k, e)
        if ty is not None:
            field.ty = ty
        tyclass = field.ty if field.ty in D_TYPES else ('T' if field.ty in ctx.type_params else 'other')
        spell = pick(sp, ['Default = %s' % e, 'Default(%s)' % d_sp_expr_param(sp, e)])
        form = 'Default=' if spell.startswith('Default =') else d_form(spell[len('Default('):])
        self.note(ctx, 'value', 'where x form', where, form)
        self.note(ctx, 'value', 'kind x type', k, tyclass)
        if ctx.want_fault and ctx.fault is None and r.random() < 0.2:
            bad = pick(r, ['Default(foo)', 'Default(expression = 1, expression = 2)', 'Default(expr = 1, expression(2))',
                           'Default(expr)', 'Default(expression)', 'Default(new)', 'Default(bound(*))',
                           'Default(expression())', 'Default(expression(1, 2))', 'Default = ', 'Default(expression = )',
                           'Default = %s' % pick(r, D_BAD_EXPRS), 'Default(expr = %s)' % pick(r, D_BAD_EXPRS),
                           'Default(expression(%s))' % pick(r, D_BAD_EXPRS), 'Default(a::expr = 1)', 'Default(expression(1,))',
                           'Default = 1, Default = 2', 'Default(expr = 1), Default()'])
            if where != 'union':
                bad = pick(r, [bad, bad, 'Default'])     # the flag is only allowed on union fields
            ctx.fault = 'default_field:' + bad
            self.note(ctx, 'field', where, 'fault', bad[:18])
            return bad
        return spell

    def field_meta(self, ctx, field):
        r, sp, n = ctx.rng, ctx.sp, ctx.notes
        if n.get('d_texpr'):
            if ctx.want_fault and ctx.fault is None and r.random() < 0.06:
                bad = pick(r, ['Default = 1', 'Default(expression = 1)', 'Default'])
                ctx.fault = 'default_field_with_texpr:' + bad
                self.note(ctx, 'field', 'texpr', 'fault', bad)
                return bad
            if r.random() < 0.05:
                self.note(ctx, 'field', 'texpr', 'Default()')
                return 'Default()'
            return None
        if ctx.kind == 'struct':
            return self.value_meta(ctx, field, 'struct_named' if field.named else 'struct_tuple')
        if ctx.kind == 'enum':
            v = field.variant
            if v.index == n.get('d_dv') and n.get('d_vfault') not in ('none', 'empty_list'):
                return self.value_meta(ctx, field, 'variant_named' if field.named else 'variant_tuple')
            if v.count == 1:
                return self.value_meta(ctx, field, 'variant_named' if field.named else 'variant_tuple')
            if n.get('d_vfault') == 'field_on_other' and ctx.fault is None:
                bad = pick(r, ['Default = 1', 'Default(expression = 1)', 'Default'])
                ctx.fault = 'default_field_on_other_variant:' + bad
                self.note(ctx, 'field', 'other_variant', 'fault', bad)
                return bad
            if r.random() < 0.04:
                self.note(ctx, 'field', 'other_variant', 'Default()')
                return 'Default()'
            return None
        # union
        if field.index == 0:
            n['d_df'] = r.randrange(field.count)
            n['d_ufault'] = None
            if ctx.want_fault and ctx.fault is None and r.random() < 0.25:
                n['d_ufault'] = pick(r, ['none', 'two'])
        uf = n['d_ufault']
        is_default = field.index == n['d_df']
        if uf == 'none' and field.count != 1:
            ctx.fault = 'default_no_field'
            self.note(ctx, 'field', 'union', 'fault', 'none')
            return None
        if uf == 'two' and field.count >= 2 and field.index == (n['d_df'] + 1) % field.count:
            ctx.fault = 'default_multi_fields'
            self.note(ctx, 'field', 'union', 'fault', 'two')
            return pick(r, ['Default', 'Default = 1'])
        if is_default:
            if field.count == 1 and r.random() < 0.3:
                self.note(ctx, 'field', 'union', 'only', 'unmarked')
                return None
            if r.random() < 0.5:
                self.note(ctx, 'field', 'union', 'only' if field.count == 1 else 'marked', 'flag')
                return 'Default'
            m = self.value_meta(ctx, field, 'union')
            if m is None or m == 'Default()':
                self.note(ctx, 'field', 'union', 'marked', 'flag')
                return 'Default'
            return m
        if r.random() < 0.05:
            self.note(ctx, 'field', 'union', 'other', 'Default()')
            return 'Default()'
        return None

    def post(self, ctx, inp):
        inp.reach = ctx.notes.get('reach', [])

GENS['Default'] = G_Default()
# ---------------------------------------------------------------- Deref / DerefMut / Into
import re
from rlex import lex as _lex_ty, flat as _flat_ty

def reach(ctx, *what):
    """branch-reach bookkeeping (read by tools/reach_derefinto.py)"""
    ctx.notes.setdefault('reach', []).append(tuple(what))

def norm_type(ty):
    """python twin of into/common.rs:to_hash_type on flat tokens: `&['a] [mut]`* T  ->  &'static T"""
    toks = _flat_ty(_lex_ty(ty))
    is_ref = False
    while toks and toks[0] == '&':
        is_ref = True
        toks = toks[1:]
        if toks and toks[0] == "'":
            toks = toks[2:]
        if toks and toks[0] == 'mut':
            toks = toks[1:]
    return tuple((['&', "'", 'static'] if is_ref else []) + toks)

# field types beyond PLAIN_TYPES: references (plain, nested, mutable, without lifetime), generic
# arguments, tuples, arrays, slices, raw pointers
EXTRA_FIELD_TYPES = ['&u8', '&mut u8', "&'static mut [u8]", '&&u8', "&'static &'static str", '& & mut u16',
                     'Vec<Vec<u8>>', "Option<&'static str>", '(u8,)', "(&'static str, u8)",
                     "[&'static str; 2]", '[u8]', '*const u8', '*mut Vec<u8>',
                     '::std::collections::HashMap<u8, Vec<u8>>', '(u8)', 'u16', 'u16', 'u8', 'u8', 'String',
                     "Cow<'static, str>", 'Result<u8, ()>', '&String', "&'static Vec<u8>", '&[u8; 3]', '&(u8, i16)',
                     # bare fn, trait objects, qualified paths, macros (passed through as tokens by the handlers)
                     'fn(u8) -> u8', 'Box<dyn Fn(u8) -> u8>', "&'static dyn ::core::fmt::Debug",
                     "Box<dyn ::core::fmt::Debug + Send + 'static>", '<Vec<u8> as IntoIterator>::Item',
                     "for<'x> fn(&'x u8) -> &'x u8", 'unsafe extern "C" fn(*const u8) -> usize',
                     '&mut dyn FnMut(u8)', 'impl Copy', 'dyn A + B', 'my_ty!(u8)', "&'static (dyn A + Sync)"]

def extra_field_type(ctx):
    r = ctx.rng
    opts = list(EXTRA_FIELD_TYPES)
    for t in ctx.type_params:
        opts += ['&%s' % t, '&mut %s' % t, '&&%s' % t, '(%s, u8)' % t, '[%s]' % t, 'Box<%s>' % t,
                 '<%s as IntoIterator>::Item' % t, 'Box<dyn Fn(%s) -> %s>' % (t, t), 'fn(&%s)' % t]
        for l in ctx.lifetimes:
            opts += ["&'%s &'%s %s" % (l, l, t), "Option<&'%s %s>" % (l, t), "&'%s [%s]" % (l, t)]
    return pick(r, opts)

class FieldPicking(TG):
    """traits that designate one field per struct / variant: bias the shapes towards the ones the
    handlers accept (no union, no empty enum, no unit variant, at least one field)"""
    def shape(self, ctx, what, value):
        r = ctx.rng
        if what == 'kind' and value == 'union':
            return pick(r, ['struct', 'enum']) if r.random() < 0.85 else value
        if what == 'fkind' and value == 'unit':
            return pick(r, ['named', 'unnamed']) if r.random() < 0.8 else value
        if what == 'nvariants' and value == 0:
            return 1 + r.randrange(3) if r.random() < 0.85 else value
        if what == 'vkind' and value == 'unit':
            return pick(r, ['named', 'unnamed']) if r.random() < 0.93 else value
        if what == 'nfields' and value == 0:
            return 1 + r.randrange(3) if r.random() < 0.9 else value
        if what == 'ftype':
            return extra_field_type(ctx) if r.random() < 0.3 else value
        return value

def educe_noise(ctx, inp):
    """once per case, rarely: an `educe` attribute that is not a list (`#[educe]`, `#[educe = ".."]`) on a
    field or variant - the handlers skip those - or, as a fault, on the type (refused by lib.rs)"""
    if ctx.notes.get('educe_noise_done'):
        return
    ctx.notes['educe_noise_done'] = True
    r = ctx.rng
    if r.random() >= 0.05:
        return
    a = pick(r, [Attr('educe', 'path'), Attr('educe', 'nv', '"Deref"'), Attr('educe', 'nv', '1')])
    items = [f for f in inp.fields] + [v for v in inp.variants] + [f for v in inp.variants for f in v.fields]
    if ctx.want_fault and ctx.fault is None and r.random() < 0.3:
        inp.attrs.insert(r.randrange(len(inp.attrs) + 1), a)
        ctx.fault = 'educe_not_list@type'
        reach(ctx, 'noise', 'educe-not-list', 'type')
    elif items:
        it = pick(r, items)
        it.attrs.insert(r.randrange(len(it.attrs) + 1), a)
        reach(ctx, 'noise', 'educe-not-list', 'field-or-variant')

def container_key(field):
    return ('v', id(field.variant)) if field.variant is not None else ('s',)

class G_Deref(FieldPicking):
    name = 'Deref'
    def type_meta(self, ctx):
        r = ctx.rng
        reach(ctx, self.name, 'type', ctx.kind, 'flag')
        # reserve the case's one invalid construct early (before the generic apply_fault runs)
        if ctx.want_fault and ctx.fault is None and ctx.kind != 'union' and r.random() < 0.25:
            mode = pick(r, ['none', 'multi', 'form', 'none', 'multi'])
            ctx.notes[(self.name, 'fault')] = mode
            ctx.fault = '%s_%s@field' % (self.name, mode)
        return self.name
    def plan(self, ctx, field):
        """decided at the first field of every struct / variant: the set of flagged indices"""
        r = ctx.rng
        n = field.count
        mode = 'ok'
        pending = ctx.notes.get((self.name, 'fault'))
        if pending is not None and (n > 1 or pending == 'form') and r.random() < 0.7:
            mode = pending
            ctx.notes[(self.name, 'fault')] = None
            ctx.notes[(self.name, 'fault-applied')] = True
        chosen = r.randrange(n)
        if self.name == 'DerefMut':
            other = ctx.notes.get(('Deref',) + container_key(field))
            if other is not None and other['chosen'] is not None and r.random() < 0.7:
                chosen = other['chosen']
        if n == 1:
            flagged = {0} if r.random() < 0.35 else set()
        elif mode == 'none':
            flagged, chosen = set(), None
        elif mode == 'multi':
            flagged = set(r.sample(range(n), 2 + (r.random() < 0.3 and n > 2)))
        else:
            flagged = {chosen}
        form_at = r.randrange(n) if mode == 'form' else None
        where = 'struct' if field.variant is None else 'variant'
        reach(ctx, self.name, where, 'named' if field.named else 'tuple',
              'sole' if n == 1 else 'many', mode, 'flagged' if flagged else 'unflagged')
        return dict(flagged=flagged, chosen=chosen, form_at=form_at)
    def field_meta(self, ctx, field):
        if ctx.kind == 'union':
            return None
        key = (self.name,) + container_key(field)
        if field.index == 0:
            ctx.notes[key] = self.plan(ctx, field)
        p = ctx.notes[key]
        if p['form_at'] == field.index:
            bad = pick(ctx.rng, ['%s = true', '%s()', '%s(x)', '%s(ignore)', '%s = "x"', '%s(bound(*))'])
            reach(ctx, self.name, 'field-form', bad)
            return bad % self.name
        if field.index in p['flagged']:
            if p['chosen'] == field.index:
                reach(ctx, self.name, 'designated', 'ref' if field.ty.lstrip().startswith('&') else 'value',
                      'index>0' if field.index > 0 else 'index0')
            return self.name
        return None
    def post(self, ctx, inp):
        educe_noise(ctx, inp)
        if (self.name, 'fault') in ctx.notes and not ctx.notes.get((self.name, 'fault-applied')):
            if ctx.fault is not None and ctx.fault.startswith(self.name + '_'):
                ctx.fault = None       # the reserved fault found no struct / variant to sit in

class G_DerefMut(G_Deref):
    name = 'DerefMut'

INTO_POOL = ['u8', 'u16', 'i64', 'String', 'Vec<u8>', 'Option<u8>', 'Option<Vec<u8>>', '(u8, i16)', '(u8,)', '()',
             '[u8; 3]', '[u8]', '&str', "&'static str", '&[u8]', '&mut u8', '&&u8', 'Box<[u8]>',
             '::std::string::String', '::core::primitive::u8', 'Vec<Vec<u8>>', 'HashMap<u8, Vec<u8>>',
             "Cow<'static, str>", '*const u8', 'Result<u8, ()>', 'Vec::<u8>', '[Option<u8>; 2]',
             '(u8, (u16, Vec<u8>))', 'Self', 'crate::X', 'super::Y<u8>', '!', '_', 'Foo<3>', 'Foo<-1>',
             'Foo<{ 1 + 2 }>', 'Foo<true>', "Foo<'static>", 'Iter<Item = u8>', 'Vec<u8,>', '(u8)', '[u8; LEN]',
             '[u8; 0x10]', "&'static &'static [u8]", 'u8', 'u16', 'String',
             'fn(u8) -> u8', 'Box<dyn Fn(u8) -> u8>', "&'static dyn ::core::fmt::Debug", 'PhantomData<fn() -> u8>',
             "Box<dyn ::core::fmt::Debug + Send + 'static>", '<Vec<u8> as IntoIterator>::Item',
             "for<'x> fn(&'x u8) -> &'x u8", 'extern "C" fn(a: u8, _: u16)', 'dyn A + B', 'A + B +', 'impl Copy + Send',
             "'static + A", '(A) + B', '(?Sized) + A', 'my_ty!(u8)', 'a::m![u8; 3]', '<u8>::A', '&dyn Fn(u8,) -> (u8)']

def add_meta(ctx, attrs, text):
    """add one meta to an item: into an existing #[educe(...)] (either end) or as a new attribute"""
    sp = ctx.sp
    ed = [a for a in attrs if a.path == 'educe' and a.kind == 'list']
    if ed and sp.random() < 0.5:
        a = pick(sp, ed)
        args = a.args.strip()
        if args == '':
            a.args = text
        elif sp.random() < 0.5:
            a.args = text + ', ' + args
        elif args.endswith(','):
            a.args = args + ' ' + text
        else:
            a.args = args + ', ' + text
    else:
        if sp.random() < 0.1:
            text += ','
        attrs.insert(sp.randrange(len(attrs) + 1), educe(text))

_REF_RE = re.compile(r"^&\s*('[A-Za-z_]\w*\s*)?(mut\b\s*)?")
def respell_ref(r, ty, lifetimes):
    """another type with the same HashType key (only references have several)"""
    ty = ty.strip()
    if not ty.startswith('&'):
        return ty
    inner = ty
    while inner.startswith('&'):
        inner = _REF_RE.sub('', inner, count=1)
    lt = pick(r, ['', "'static ", "'static mut ", 'mut '] + ["'%s " % l for l in lifetimes])
    return '&' + lt + inner

class G_Into(FieldPicking):
    name = 'Into'
    def into_list(self, ctx, ty, params):
        sp = ctx.sp
        params = [p for p in params if p is not None]
        body = ', '.join([ty] + params)
        if sp.random() < 0.12:
            body += ','
        if sp.random() < 0.06:
            return pick(sp, ['Into[%s]', 'Into{%s}']) % body
        return 'Into(%s)' % body
    def field_into(self, ctx, ty, with_method):
        r, sp = ctx.rng, ctx.sp
        params = []
        if with_method:
            params.append(sp_path_param(sp, 'method', pick(r, METHOD_PATHS)))
        return self.into_list(ctx, ty, params)
    def type_meta(self, ctx):
        r = ctx.rng
        # reserve the case's one invalid construct early (before the generic apply_fault runs);
        # the metas themselves are added by `post`, when the field types are known
        if ctx.want_fault and ctx.fault is None and ctx.kind != 'union' and r.random() < 0.5:
            k = pick(r, ['multi', 'no_field', 'no_field2', 'mixed', 'mixed', 'no_impl', 'no_impl', 'reset_type', 'reset_field',
                         'form_type', 'form_type', 'form_field', 'form_field', 'variant'])
            ctx.notes['into_fault'] = k
            ctx.fault = 'Into_' + k
        return None
    def post(self, ctx, inp):
        r, sp = ctx.rng, ctx.sp
        educe_noise(ctx, inp)
        if inp.kind == 'enum':
            containers = [(v, v.fields) for v in inp.variants]
        else:
            containers = [(None, inp.fields)]
        pool = list(INTO_POOL)
        for t in ctx.type_params:
            pool += [t, 'Vec<%s>' % t, 'Option<%s>' % t, '&%s' % t, '(%s, u8)' % t]
            for l in ctx.lifetimes:
                pool += ["&'%s %s" % (l, t), "&'%s mut %s" % (l, t)]
            for n in ctx.consts:
                pool += ['[%s; %s]' % (t, n)]
        for l in ctx.lifetimes:
            pool += ["&'%s str" % l]
        fault = ctx.notes.get('into_fault')
        applied = False
        big = [fs for _, fs in containers if len(fs) >= 2]
        if fault == 'no_field2' and big:
            # two same-typed candidates and no marker: the handler refuses to choose
            fs = pick(r, big)
            i, j = r.sample(range(len(fs)), 2)
            fs[j].ty = fs[i].ty
            if len(fs) >= 3 and r.random() < 0.5:
                # three (or more) candidates: an odd number must be refused just like two
                for q in range(len(fs)):
                    if q not in (i, j) and r.random() < 0.7:
                        fs[q].ty = fs[i].ty
        field_types = [f.ty for _, fs in containers for f in fs]
        # ---- targets
        k = pick(r, [1, 1, 1, 2, 2, 3])
        if fault == 'mixed':
            k = max(k, 2)
        targets = []
        if fault == 'no_field2' and big:
            targets.append(fs[i].ty)
        for _ in range(k):
            t = pick(r, field_types) if field_types and r.random() < 0.6 else pick(r, pool)
            if r.random() < 0.2:
                t = respell_ref(r, t, ctx.lifetimes)
            if norm_type(t) in [norm_type(x) for x in targets]:
                continue
            targets.append(t)
        if fault == 'mixed' and len(targets) < 2:
            targets.append('Foo<3>' if norm_type(targets[0]) != norm_type('Foo<3>') else 'Foo<-1>')
        type_metas = []
        for t in targets:
            mode, b = gen_bound(ctx)
            reach(ctx, 'Into', 'type', inp.kind, 'bound:' + mode, 'ref' if t.startswith('&') else 'value')
            type_metas.append(self.into_list(ctx, t, [b]))
        if fault == 'reset_type':
            t = pick(r, targets)
            type_metas.append(self.into_list(ctx, respell_ref(r, t, ctx.lifetimes), []))
            applied = True
            reach(ctx, 'Into', 'fault', 'reset_type', 'ref' if t.startswith('&') else 'value')
        elif fault == 'form_type':
            bad = pick(r, ['Into', 'Into = u8', 'Into = "u8"', 'Into()', 'Into(5)', 'Into(u8 u16)', 'Into(u8, foo)',
                           'Into(u8, method(m))', 'Into(u8, bound)', 'Into(u8, bound(*), bound = false)',
                           'Into(u8; x)', 'Into(Vec<u8)', 'Into(u8, , )', 'Into(struct)', 'Into(, u8)',
                           'Into(u8, bound = 1)', 'Into("u8")', 'Into(&)', 'Into([u8;])', 'Into((u8 u8))',
                           'Into(a::struct)', 'Into(Vec<u8 u8>)', 'Into(*u8)', 'Into(try)', 'Into(u8, a::bound(*))',
                           'Into(u8, bound(T))', 'Into(u8, bound = "T")', 'Into([u8 u8])', 'Into(-1)',
                           'Into({ u8 })', 'Into(u8, bound(*) x)', 'Into(Foo<-x>)', 'Into(a::<u8>::)',
                           'Into(dyn)', "Into(dyn 'static)", "Into(&'a dyn A + B)", 'Into(fn(u8 u8))', 'Into(<T as A>)',
                           'Into(impl)', 'Into(A + + B)', 'Into(fn)', "Into('a)", 'Into(A!)', 'Into(Vec<u8>!())',
                           'Into((A) +)', 'Into(dyn ?for<\'a> A)', 'Into(fn() -> A + B)', 'Into(for fn())'])
            if r.random() < 0.5:
                type_metas.append(bad)
            else:
                type_metas.insert(0, bad)
            applied = True
            reach(ctx, 'Into', 'fault', 'form_type', bad)
        # The written order of the targets decides the order of the emitted impls: it belongs to the request.
        # The spelling only chooses how consecutive targets are grouped into attributes and where those sit.
        groups = []
        for m in type_metas:
            if groups and sp.random() < 0.5:
                groups[-1].append(m)
            else:
                groups.append([m])
        positions = sorted(sp.randrange(len(inp.attrs) + 1) for _ in groups)
        for off, (pos, g) in enumerate(zip(positions, groups)):
            text = ', '.join(g) + (',' if sp.random() < 0.1 else '')
            inp.attrs.insert(pos + off, educe(text))
        # ... and quite often a list of targets shares its #[educe(...)] with the neighbouring traits
        for _ in range(2):
            idx = [i for i in range(len(inp.attrs) - 1)
                   if all(a.path == 'educe' and a.kind == 'list' and a.delim == '(' and a.args.strip() for a in inp.attrs[i:i + 2])
                   and any(a.args.lstrip().startswith('Into') for a in inp.attrs[i:i + 2])]
            if idx and sp.random() < 0.5:
                i = pick(sp, idx)
                a, b = inp.attrs[i], inp.attrs[i + 1]
                a.args = a.args.rstrip().rstrip(',').rstrip() + ', ' + b.args
                if hasattr(a, 'metas'):
                    del a.metas
                del inp.attrs[i + 1]
        # ---- fields
        faulted = False
        for v, fs in containers:
            n = len(fs)
            if n == 0:
                reach(ctx, 'Into', 'container', 'empty')
                continue
            for ti, t in enumerate(targets):
                key = norm_type(t)
                same = [i for i, f in enumerate(fs) if norm_type(f.ty) == key]
                spelled = respell_ref(r, t, ctx.lifetimes) if r.random() < 0.3 else t
                flagged = []
                if n == 1:
                    if r.random() < 0.4:
                        flagged = [0]
                    how = 'sole'
                else:
                    do_multi = (fault == 'multi' and not faulted and r.random() < 0.6) or \
                               (fault == 'mixed' and ti == 0 and faulted in (False, 'mixed'))
                    do_none = (fault == 'no_field' and not faulted and r.random() < 0.6) or \
                              (fault == 'no_field2' and not faulted and len(same) >= 2) or \
                              (fault == 'mixed' and ti == 1 and faulted in (False, 'mixed'))
                    if do_multi:
                        flagged = r.sample(range(n), 2)
                        faulted = 'mixed' if fault == 'mixed' else True
                        applied = True
                        how = 'multi'
                    elif do_none and len(same) != 1:
                        faulted = 'mixed' if fault == 'mixed' else True
                        applied = True
                        how = 'none(%d same-typed)' % min(len(same), 2)
                    elif len(same) == 1 and r.random() < 0.6:
                        how = 'by-type'
                    else:
                        flagged = [pick(r, same) if same and r.random() < 0.5 else r.randrange(n)]
                        how = 'flagged(%d same-typed)' % min(len(same), 2)
                for i in flagged:
                    f = fs[i]
                    with_method = r.random() < 0.3
                    conv = 'method' if with_method else ('identity' if norm_type(f.ty) == key else 'into')
                    reach(ctx, 'Into', 'field', inp.kind, 'named' if f.name is not None else 'tuple', how, conv,
                          'index>0' if i > 0 else 'index0')
                    add_meta(ctx, f.attrs, self.field_into(ctx, spelled, with_method))
                if not flagged:
                    f = fs[same[0]] if len(same) == 1 and n > 1 else fs[0]
                    conv = 'identity' if norm_type(f.ty) == key else 'into'
                    reach(ctx, 'Into', 'field', inp.kind, 'named' if f.name is not None else 'tuple', how, conv, '-')
            if faulted == 'mixed':
                faulted = True
        all_fields = [f for _, fs in containers for f in fs]
        if fault == 'no_impl' and all_fields:
            f = pick(r, all_fields)
            und, seen_keys = [], set(norm_type(t) for t in targets)
            for p in r.sample(pool, len(pool)):
                if norm_type(p) not in seen_keys:
                    seen_keys.add(norm_type(p)); und.append(p)
            # one or several undeclared targets on the same field (which one the message names must not vary)
            for x in und[:pick(r, [1, 2, 2, 3])]:
                add_meta(ctx, f.attrs, self.field_into(ctx, x, r.random() < 0.3))
            applied = True
            reach(ctx, 'Into', 'fault', 'no_impl')
        elif fault == 'reset_field' and all_fields:
            f = pick(r, all_fields)
            t = pick(r, targets)
            add_meta(ctx, f.attrs, self.field_into(ctx, t, False))
            add_meta(ctx, f.attrs, self.field_into(ctx, respell_ref(r, t, ctx.lifetimes), r.random() < 0.3))
            applied = True
            reach(ctx, 'Into', 'fault', 'reset_field', 'ref' if t.startswith('&') else 'value')
        elif fault == 'form_field' and all_fields:
            f = pick(r, all_fields)
            t = pick(r, targets)
            bad = pick(r, ['Into', 'Into = "%s"', 'Into(%s, bound(*))', 'Into(%s, method)', 'Into(%s, method = 1)',
                           'Into(%s, method(m), method = "n")', 'Into(%s, ignore)', 'Into(%s, method(m) x)',
                           'Into(%s method(m))', 'Into()', 'Into(%s, method("1"))', 'Into(%s, method = "")',
                           'Into(%s, a::method(m))', 'Into(%s, method(m), ignore)', 'Into(%s, method(m::))',
                           'Into(%s, method(struct))'])
            add_meta(ctx, f.attrs, bad.replace('%s', t.replace('"', '\\"') if '"%s"' in bad else t))
            applied = True
            reach(ctx, 'Into', 'fault', 'form_field', bad)
        elif fault == 'variant' and inp.kind == 'enum' and inp.variants:
            v = pick(r, inp.variants)
            bad = pick(r, ['Into', 'Into(%s)' % pick(r, targets), 'Into = 1', 'Into()'])
            add_meta(ctx, v.attrs, bad)
            applied = True
            reach(ctx, 'Into', 'fault', 'variant', bad)
        if fault is not None and not applied and ctx.fault == 'Into_' + fault:
            ctx.fault = None           # the reserved fault found no place

GENS['Deref'] = G_Deref()
GENS['DerefMut'] = G_DerefMut()
GENS['Into'] = G_Into()

def shape_hook(ctx, what, value):
    for t in ALL_TRAITS:
        if t in ctx.traits and t in GENS:
            value = GENS[t].shape(ctx, what, value)
    return value

def flatten_metas(metas):
    """a hook may return several metas (a list) for one item"""
    out = []
    for m in metas:
        if isinstance(m, (list, tuple)):
            out.extend(m)
        else:
            out.append(m)
    return out

# ---------------------------------------------------------------- attribute assembly
OTHER_ATTRS = [Attr('doc', 'nv', '" some docs"'), Attr('allow', 'list', 'dead_code'),
               Attr('cfg_attr', 'list', 'any(), educe(Nope)'), Attr('educe_other', 'list', 'x')]

def assemble(ctx, metas, extra_attrs=False):
    """distribute meta texts over one or more #[educe(...)] attributes"""
    sp = ctx.sp
    metas = [m for m in metas if m is not None]
    into_rank = dict((m, i) for i, m in enumerate(metas))
    out = []
    if metas:
        sp.shuffle(metas)
        # repeated `Into(T)` metas keep their written order: it decides the order of the emitted impls
        # (and is therefore part of the request, not of its spelling)
        into_sorted = sorted((m for m in metas if m.lstrip().startswith('Into')), key=lambda m: into_rank.get(m, 0))
        it = iter(into_sorted)
        metas = [next(it) if m.lstrip().startswith('Into') else m for m in metas]
        groups = []
        join_p = 1.0 if sp.random() < 0.3 else 0.6      # quite often everything sits in ONE #[educe(...)] list
        for m in metas:
            if groups and sp.random() < join_p:
                groups[-1].append(m)
            else:
                groups.append([m])
        for g in groups:
            s = ', '.join(g)
            trailing = sp.random() < 0.1
            if trailing:
                s += ','
            a = educe(s)
            a.metas, a.trailing = list(g), trailing      # kept for C15's `restrict`
            out.append(a)
    if extra_attrs and sp.random() < 0.3:
        out.insert(sp.randrange(len(out) + 1), pick(sp, OTHER_ATTRS))
    return out

# ---------------------------------------------------------------- faults (C13 one-invalid-construct stream)
def apply_fault(ctx, where, metas, educed):
    """maybe replace / extend the metas of one item by an invalid construct.
    where: 'type' | 'variant' | 'field'."""
    r = ctx.rng
    if not ctx.want_fault or ctx.fault is not None or r.random() > 0.25:
        return metas
    metas = [m for m in metas if m is not None]
    kinds = ['unknown_trait', 'unknown_param', 'dup_param', 'bad_form', 'bound_nonlit']
    if where == 'type':
        kinds += ['dup_trait']
    else:
        kinds += ['trait_not_used', 'dup_trait_item', 'dup_trait_item_empty']
    if where == 'variant':
        kinds += ['variant_flag', 'variant_bound']
    k = pick(r, kinds)
    t = pick(r, sorted(educed)) if educed else 'PartialEq'
    if k == 'unknown_trait':
        metas.append(pick(r, ['Foo', 'Display', 'a::Debug', 'partial_eq', 'Serialize(x)']))
    elif k == 'unknown_param':
        metas = [m for m in metas if not m.startswith(t)] + ['%s(%s)' % (t, pick(r, ['foo', 'foo = 1', 'skip', 'a::ignore']))]
    elif k == 'dup_param':
        p = pick(r, ['bound(*), bound = false'] if where == 'type' else ['ignore, ignore = true', 'method(m), method = "n"'])
        metas = [m for m in metas if not m.startswith(t)] + ['%s(%s)' % (t, p)]
    elif k == 'bad_form':
        metas = [m for m in metas if not m.startswith(t)] + [pick(r, ['%s = 5' % t, '%s = "x"' % t, '%s(ignore = 1)' % t, '%s(bound)' % t, '%s(method)' % t, '%s(method = 1)' % t,
                                                                       '%s' % t, '%s = true' % t, '%s(rank)' % t, '%s(name)' % t])]
    elif k == 'dup_trait':
        metas.append(t)
    elif k == 'dup_trait_item':
        # the same trait twice on one item, each entry in a form that is VALID there on its own (so that the first
        # one is accepted and only the repetition is wrong), or the generic forms
        valid = {('Debug', 'variant'): ['Debug = A', 'Debug(name = B)', 'Debug(named_field = true)', 'Debug(name = false)', 'Debug = "C"'],
                 ('Debug', 'field'): ['Debug = false', 'Debug(ignore)', 'Debug(method(m))', 'Debug(ignore = false)'],
                 ('Clone', 'field'): ['Clone(method(m))', 'Clone(method = n)'],
                 ('Default', 'variant'): ['Default', 'Default'],
                 ('Default', 'field'): ['Default = 1', 'Default(expression = 2)', 'Default(expr(3))'],
                 ('Deref', 'field'): ['Deref', 'Deref'], ('DerefMut', 'field'): ['DerefMut', 'DerefMut']}
        for tt in ('PartialEq', 'Eq', 'PartialOrd', 'Ord', 'Hash'):
            valid[(tt, 'field')] = ['%s(ignore)' % tt, '%s = false' % tt, '%s(method(m))' % tt, '%s(ignore = false)' % tt]
        if (t, where) in valid and r.random() < 0.6:
            two = [pick(r, valid[(t, where)]), pick(r, valid[(t, where)])]
        else:
            two = pick(r, [['%s(ignore)' % t, '%s = false' % t], [t, t], ['%s()' % t, t], [t, '%s = false' % t]])
        metas = [m for m in metas if not m.startswith(t)] + two
    elif k == 'dup_trait_item_empty':
        # the same trait twice on one item, each in a form that is accepted there on its own
        metas = [m for m in metas if not m.startswith(t)] + ['%s()' % t, pick(r, ['%s()' % t, '%s( )' % t])]
    elif k == 'bound_nonlit':
        metas = [m for m in metas if not m.startswith(t)] + [pick(r, ['%s(bound = x)', '%s(bound = a::b)', '%s(bound = 1)', '%s(bound = -1)', '%s(bound = f(1))']) % t]
    elif k == 'trait_not_used':
        others = [x for x in ALL_TRAITS if x not in ctx.traits]
        if not others:
            return metas
        metas.append(pick(r, others) + pick(r, ['', '(ignore)', ' = false']))
    elif k == 'variant_flag':
        metas.append(t)
    elif k == 'variant_bound':
        metas.append('%s(bound(*))' % t)
    # the label names the trait where the construct is about one: the stratified tests want every (kind, trait, place)
    ctx.fault = ('%s:%s@%s' % (k, t, where)) if k in ('unknown_param', 'dup_param', 'bad_form', 'dup_trait', 'dup_trait_item', 'dup_trait_item_empty',
                                                       'bound_nonlit', 'variant_flag', 'variant_bound') else '%s@%s' % (k, where)
    return metas

# ---------------------------------------------------------------- the case generator
def gen_fields(ctx, n, named, variant=None):
    r = ctx.rng
    names = r.sample(FIELD_NAMES, n) if named else [None] * n
    fields = []
    for idx, nm in enumerate(names):
        f = Field(nm, shape_hook(ctx, 'ftype', gen_type(ctx)))
        f.index, f.count, f.variant, f.named = idx, n, variant, named
        metas = flatten_metas([GENS[t].field_meta(ctx, f) for t in ALL_TRAITS if t in ctx.traits and t in GENS])
        metas = apply_fault(ctx, 'field', metas, ctx.traits)
        f.attrs = assemble(ctx, metas)
        fields.append(f)
    return fields

def gen_case(seed, spseed, modelled, want_fault=False, kinds=('struct', 'enum', 'union'), force_traits=None, must=None):
    rng = random.Random('cfg-%s' % seed)
    sp = random.Random('sp-%s-%s' % (seed, spseed))
    pool = [t for t in ALL_TRAITS if t in modelled]
    if force_traits is not None:
        traits = list(force_traits)
    else:
        k = 1 + min(rng.randrange(len(pool)), rng.randrange(len(pool)))
        traits = rng.sample(pool, k)
        if must:
            # forced traits plus (usually few) others as cross-talk
            if rng.random() < 0.5:
                traits = traits[:1]
            traits = list(must) + [t for t in traits if t not in must]
    traits = [t for t in ALL_TRAITS if t in traits]
    ctx = Ctx(rng, sp, set(traits))
    ctx.want_fault = want_fault
    ctx.kind = pick(rng, list(kinds) + ['struct', 'enum'])
    if ctx.kind not in kinds:
        ctx.kind = kinds[0]
    if ctx.kind == 'union' and any(not getattr(GENS[t], 'union_ok', True) for t in traits if t in GENS) \
            and len(kinds) > 1 and rng.random() < 0.85:
        ctx.kind = pick(rng, [k for k in kinds if k != 'union'])   # the trait refuses unions: keep them rare
    ctx.kind = shape_hook(ctx, 'kind', ctx.kind)
    g = gen_generics(ctx)
    type_metas = flatten_metas([GENS[t].type_meta(ctx) for t in traits])
    type_metas = apply_fault(ctx, 'type', type_metas, ctx.traits)
    name = pick(rng, ['S', 'Foo', 'r#Type', 'E1'])
    inp = Input(ctx.kind, name, generics=g)
    inp.attrs = assemble(ctx, type_metas, extra_attrs=True)
    if want_fault and ctx.fault is None and rng.random() < 0.01:
        # nothing educed at all: `derive(Educe)` without any `#[educe(...)]` (or with an empty one)
        inp.attrs = pick(rng, [[], [educe('')], [educe(' ')], [Attr('doc', 'nv', '" d"')], [educe(''), educe('')]])
        ctx.fault = 'nothing_educed@type'
    if ctx.kind == 'struct':
        inp.fkind = shape_hook(ctx, 'fkind', pick(rng, ['named', 'unnamed', 'unnamed', 'named', 'unit']))
        n = 0 if inp.fkind == 'unit' else shape_hook(ctx, 'nfields', pick(rng, [0, 1, 1, 2, 2, 3, 4, 5]))
        inp.fields = gen_fields(ctx, n, inp.fkind == 'named')
    elif ctx.kind == 'enum':
        nv = shape_hook(ctx, 'nvariants', pick(rng, [0, 1, 1, 2, 2, 3, 3, 4]))
        vnames = rng.sample(VARIANT_NAMES, nv)
        for vidx, vn in enumerate(vnames):
            vk = shape_hook(ctx, 'vkind', pick(rng, ['unit', 'named', 'unnamed']))
            v = Variant(vn, vk)
            v.index, v.count = vidx, nv
            n = 0 if vk == 'unit' else shape_hook(ctx, 'nfields', pick(rng, [0, 1, 1, 2, 2, 3, 4]))
            metas = flatten_metas([GENS[t].variant_meta(ctx, v) for t in traits])
            metas = apply_fault(ctx, 'variant', metas, ctx.traits)
            v.attrs = assemble(ctx, metas)
            v.fields = gen_fields(ctx, n, vk == 'named', variant=v)
            inp.variants.append(v)
    else:
        n = pick(rng, [1, 1, 2, 3])
        inp.fields = gen_fields(ctx, n, True)
    for t in traits:
        if t in GENS:
            GENS[t].post(ctx, inp)
    inp.fault = ctx.fault
    inp.notes = ctx.notes
    inp.traits = traits
    inp.notes = ctx.notes
    return inp

if __name__ == '__main__':
    import sys
    n = int(sys.argv[1]) if len(sys.argv) > 1 else 5
    for i in range(n):
        c = gen_case(i, 0, GENS.keys(), want_fault=(i % 3 == 0))
        print('//', i, c.fault)
        print(c.rust())
