"""Property table and the generic check driver."""
import re
import os, sys, time, json, collections, hashlib
import vlib, k1, k1lib, gen

ALL = gen.ALL_TRAITS
HOOK_COMMITS = ['272fda8dc2ae4a737966a62b6d9e00e62d621bc4']

def modelled():
    return [t for t in ALL if t in gen.GENS]

# ---------------------------------------------------------------------------------------------
# K1 streams.  A stream = how derive inputs are drawn + the view under which real and model are
# compared.  `force`: traits always educed; `pool`: traits that may be added (cross-talk);
# `kinds`: struct / enum / union; `faults`: share of inputs carrying one invalid construct.
# ---------------------------------------------------------------------------------------------
C19_KEYWORDS = {'if', 'return', 'while', 'match', 'else', 'in', 'let', 'mut', 'ref', 'move', 'as', 'break', 'continue', 'unsafe', 'loop'}
C19_PRELUDE = {'Option', 'Some', 'None', 'Ok', 'Err', 'Result', 'Vec', 'String', 'Box', 'Into', 'From', 'Default', 'Clone', 'Copy', 'Hash', 'Hasher',
               'Debug', 'PartialEq', 'Eq', 'PartialOrd', 'Ord', 'Ordering', 'Formatter', 'Deref', 'DerefMut', 'Sized', 'Send', 'Sync', 'Drop', 'Fn',
               'Iterator', 'ToString', 'ToOwned', 'AsRef', 'AsMut', 'bool', 'u8', 'str', 'usize', 'isize', 'i128'}
def stream(name, view, force=(), pool=None, kinds=('struct', 'enum', 'union'), faults=0.1,
           n=(1500, 30000), errkind=True):
    return dict(name=name, view=view, force=list(force), pool=pool, kinds=tuple(kinds), faults=faults,
                n=n, errkind=errkind)

PROPS = {
    'C02': dict(
        title='PartialEq is exactly field-wise equality over the compared fields',
        theorems=['C02_struct_eq_fieldwise', 'C02_enum_eq_fieldwise', 'C02_ignored_irrelevant',
                  'C02_only_eq_defined', 'C02_equivalence'],
        streams=[stream('peq', 'items:PartialEq,Eq', force=['PartialEq'], kinds=('struct', 'enum'))],
        k2=['eq'], k2_n=(80, 800),
        k2_also=[('generics', 'PartialEq', (40, 300)), ('bounds', 'PartialEq', (40, 300))],
        direct=[('rejections', (1500, 15000), dict(pool=['PartialEq', 'Eq'] + ['Clone', 'Debug'], must=[('PartialEq', 'PartialEq', 'Eq')], key='c02r'))],
        level_text='Theorems (closed under the global context) that the emitted `eq` of every struct / enum computes field-wise equality over the non-ignored fields, for all type definitions, attribute assignments, values and field-type behaviours; the model is tied to /repo by K1 (token equality of the PartialEq/Eq impls on generated inputs) and the real compiled code is compared with an independent oracle on enumerated value pairs (K2).',
        level_note='Trusted: Coq kernel; the hand-written model (tied by K1 on sampled inputs, not proved equal to the Rust source); Sem/Interp.v as the meaning of the emitted Rust subset; rustc as oracle in K2.',
    ),
    'C03': dict(
        title='Ordering is lexicographic over non-ignored fields in rank order',
        theorems=[],
        streams=[stream('ord', 'items:PartialOrd,Ord', force=['Ord'], kinds=('struct', 'enum')),
                 stream('pord', 'items:PartialOrd,Ord', force=['PartialOrd'], kinds=('struct', 'enum'))],
        k2=['ord'], k2_n=(100, 800),
        k2_also=[('generics', 'PartialOrd', (40, 300)), ('bounds', 'PartialOrd', (40, 300))],
        direct=[('c03', (1, 1)), ('rejections', (1500, 15000), dict(pool=['PartialOrd', 'Ord'] + ['Clone', 'Debug'], must=[('PartialOrd', 'Ord')], key='c03r'))],
    ),
    'C04': dict(
        title='Enum variants order by declared discriminant, never by memory layout',
        theorems=[],
        streams=[stream('ordenum', 'items:PartialOrd,Ord', force=['Ord'], kinds=('enum',), n=(1000, 20000)),
                 stream('pordenum', 'items:PartialOrd,Ord', force=['PartialOrd'], kinds=('enum',), n=(1000, 20000))],
        k2=['ordlayout'], k2_n=(100, 800),
        k2_also=[('ord', 'EnumOrdering', (120, 700))],
        direct=[('c04', (1, 1)), ('rejections', (1500, 15000), dict(pool=['PartialOrd', 'Ord', 'PartialEq', 'Eq'], must=[('PartialOrd', 'Ord')], kinds=('enum',), key='c04r'))],
    ),
    'C05': dict(
        title='Hash input is a function of the variant and non-ignored fields only',
        theorems=[],
        streams=[stream('hash', 'items:Hash', force=['Hash'], kinds=('struct', 'enum'))],
        k2=['hash'], k2_n=(100, 800),
        k2_also=[('generics', 'Hash', (40, 300)), ('bounds', 'Hash', (40, 300))],
        direct=[('rejections', (1500, 15000), dict(pool=['Hash'] + ['Clone', 'Debug'], must=['Hash'], key='c05r'))],
    ),
    'C06': dict(
        title="Debug renders the effective shape exactly like core::fmt's builders",
        theorems=[],
        streams=[stream('debug', 'items:Debug', force=['Debug'], kinds=('struct', 'enum'))],
        k2=['debug'], k2_n=(260, 2000),
        k2_also=[('generics', 'Debug', (40, 300)), ('bounds', 'Debug', (40, 300))],
        direct=[('rejections', (1500, 15000), dict(pool=['Debug'] + ['Clone', 'Debug'], must=['Debug'], key='c06r'))],
    ),
    'C07': dict(
        title='Clone and clone_from reproduce the source value field by field',
        theorems=[],
        streams=[stream('clone', 'items:Clone,Copy', force=['Clone'], kinds=('struct', 'enum', 'union'))],
        k2=['clone'], k2_n=(80, 800),
        k2_also=[('generics', 'Clone', (40, 300)), ('bounds', 'Clone', (40, 300))],
        direct=[('c07', (1500, 15000)), ('rejections', (1500, 15000), dict(pool=['Clone', 'Copy', 'Debug'], must=['Clone'], key='c07r'))],
    ),
    'C08': dict(
        title='Default builds exactly the designated value',
        theorems=[],
        streams=[stream('default', 'items:Default,inherent', force=['Default'], kinds=('struct', 'enum', 'union'))],
        k2=['default', 'union'], k2_ops=['default', 'new', 'union_default', 'compile', 'crash'], k2_n=(200, 2000),
        k2_also=[('generics', 'Default', (40, 300)), ('bounds', 'Default', (40, 300))],
        direct=[('rejections', (1500, 15000), dict(pool=['Default'] + ['Clone', 'Debug'], must=['Default'], key='c08r'))],
    ),
    'C20': dict(
        title='Union impls are byte-wise and only generated behind an explicit unsafe',
        theorems=[],
        streams=[stream('union', 'whole', kinds=('union',), faults=0.3)],
        k2=['union'], k2_n=(80, 800),
        k2_also=[('bounds', 'CopyClone', (30, 200)), ('bounds', 'UnionWhere', (20, 150)), ('bounds', 'Default', (40, 300)), ('bounds', 'Eq', (30, 200))],
        direct=[('c20', (1500, 20000)), ('stratified', (2000, 15000), dict(pool=['Debug', 'PartialEq', 'Hash', 'Clone', 'Copy', 'Default', 'Eq'], kinds=('union',), key='c20s')), ('rejections', (1500, 15000), dict(pool=['Debug', 'PartialEq', 'Hash', 'Clone', 'Copy', 'Default', 'Eq'], kinds=('union',), key='c20r'))],
    ),
    'C09': dict(
        title='Deref and DerefMut expose exactly the designated field',
        theorems=[],
        streams=[stream('deref', 'items:Deref,DerefMut', force=['Deref'], kinds=('struct', 'enum')),
                 stream('derefmut', 'items:Deref,DerefMut', force=['Deref', 'DerefMut'], kinds=('struct', 'enum'), n=(800, 15000))],
        k2=['deref'], k2_n=(150, 1200),
        k2_also=[('generics', 'Deref', (40, 300))],
        direct=[('rejections', (1500, 15000), dict(pool=['Deref', 'DerefMut'] + ['Clone', 'Debug'], must=[('Deref', 'Deref', 'DerefMut')], key='c09r'))],
    ),
    'C10': dict(
        title='Into returns the designated field for every requested target type',
        theorems=[],
        streams=[stream('into', 'items:Into', force=['Into'], kinds=('struct', 'enum'))],
        k2=['into'], k2_n=(80, 800),
        k2_also=[('generics', 'Into', (40, 300)), ('bounds', 'Into', (40, 300))],
        direct=[('rejections', (1500, 15000), dict(pool=['Into'] + ['Clone', 'Debug'], must=['Into'], key='c10r'))],
    ),
    'C01': dict(
        title='Every accepted derive request expands to code that compiles',
        theorems=[],
        streams=[stream('all', 'whole', faults=0.05, n=(4000, 60000))],
        k2=['eq', 'hash', 'ord', 'ordlayout', 'debug', 'clone', 'default', 'deref', 'into', 'union', 'bounds', 'generics'],
        k2_ops=['compile', 'crash'], k2_n=(80, 600), k2_n_by={'debug': (200, 1500), 'generics': (150, 1000)},
    ),
    'C11': dict(
        title='Automatic bounds are exactly those the generated code needs',
        theorems=[],
        streams=[stream('hdr_auto', 'headers', kinds=('struct', 'enum', 'union'), faults=0.0, n=(3000, 50000))],
        k2=['bounds'], k2_n=(500, 5000),
        direct=[('rejections', (1500, 15000), dict(key='c11r'))],
    ),
    'C19': dict(
        title='Generated code is insulated from the names at the derive site',
        theorems=[],
        streams=[stream('names', 'whole', faults=0.0, n=(3000, 50000))],
        k2=['eq', 'hash', 'ord', 'debug', 'clone', 'default', 'deref', 'into', 'union', 'generics'], k2_hostile=True, k2_n=(40, 400),
        k2_n_by={'generics': (100, 800)},
    ),
    'C12': dict(
        title="Explicit bound modes and the type's own generics are honoured verbatim",
        theorems=[],
        streams=[stream('hdr', 'headers', kinds=('struct', 'enum', 'union'), faults=0.0, n=(3000, 50000))],
        k2=['generics', 'bounds'], k2_n=(100, 1500), k2_n_by={'bounds': (400, 3000)},
        direct=[('c12', (3000, 30000)), ('rejections', (1500, 15000), dict(key='c12r'))],
    ),
    'C13': dict(
        title='Contradictory, ambiguous or misplaced attributes are rejected, not guessed',
        theorems=[],
        streams=[stream('invalid', 'outcome', faults=0.9, n=(4000, 60000))],
        direct=[('c13', (5000, 80000)), ('c13_subsets', (1500, 20000)), ('stratified', (3000, 20000), dict(key='c13s'))],
    ),
    'C14': dict(
        title='Alternative attribute spellings are interchangeable',
        theorems=[],
        streams=[stream('spell', 'whole', faults=0.0, n=(1500, 20000))],
        k2=['eq', 'hash', 'ord', 'debug', 'clone', 'default', 'into'], k2_n=(40, 300),
        direct=('c14', (700, 8000)),
    ),
    'C15': dict(
        title="Each trait's impl depends only on that trait's own attributes",
        theorems=[],
        streams=[stream('multi', 'whole', faults=0.0, n=(1500, 20000))],
        direct=('c15', (1500, 10000)),
    ),
    'C16': dict(
        title='Expansion is deterministic',
        theorems=['C16_scan_order_irrelevant', 'C16_unordered_iterations_reviewed', 'C16_hash_containers_reviewed', 'C16_no_ambient_inputs'],
        streams=[stream('order', 'skeleton', faults=0.1, n=(2000, 30000))],
        direct=('c16', (1500, 20000)),
    ),
    'C17': dict(
        title='The macro is total: it never panics, aborts or hangs',
        theorems=['C17_no_panic', 'C17_no_panic_flat', 'C17_outcomes', 'C17_ok_nonempty', 'C17_inventory_matches'],
        streams=[stream('malformed', 'outcome', faults=0.9, n=(3000, 50000), errkind=False),
                 stream('malformed_union', 'outcome', kinds=('union',), faults=0.9, n=(1000, 15000), errkind=False)],
        direct=[('c17', (3000, 60000)), ('stratified', (3000, 20000), dict(key='c17s'))],
    ),
    'C18': dict(
        title='Every subset of trait features builds and behaves like the full build',
        theorems=['C18_refs_enabled', 'C18_empty_refused', 'C18_scan_complete', 'C18_disabled_rejected'],
        streams=[],
        direct=('c18', (30, 4095)),
    ),
}

# the theorems each property file must provide (names pinned in tools/theorems.json; regenerate it only
# when a theorem is added).  A theorem that disappears, fails to check or depends on an axiom fails the check.
_TH = json.load(open(os.path.join(os.path.dirname(os.path.abspath(__file__)), 'theorems.json')))
_TM = json.load(open(os.path.join(os.path.dirname(os.path.abspath(__file__)), 'theorem_modules.json')))
def directs(P):
    """the direct tests of a property as a list of (function name, (quick n, thorough n), kwargs)"""
    d = P.get('direct')
    if not d:
        return []
    if isinstance(d, tuple):
        d = [d]
    return [(x[0], x[1], x[2] if len(x) > 2 else {}) for x in d]

for _pid, _P in PROPS.items():
    _P['theorems'] = _TH.get(_pid, _P.get('theorems', []))
    _P['modules'] = ['Educe.Properties.%s' % m for m in _TM.get(_pid, [_pid])]

def default_level_text(pid, P):
    ths = P.get('theorems') or []
    parts = []
    if ths:
        parts.append('Rocq/Coq theorems, closed under the global context (no axioms), over the executable Gallina model of the macro: %s%s.'
                     % (', '.join(ths[:8]), ' (+%d more)' % (len(ths) - 8) if len(ths) > 8 else ''))
    else:
        parts.append('Theorems for this property are being added; on this snapshot the property is decided through the correspondence and the direct search only.')
    if P.get('streams'):
        parts.append('The model is tied to /repo on every run by the token-level differential correspondence K1 (view: %s) on seeded generated derive inputs, valid and with one invalid construct.'
                     % ', '.join(sorted(set(st['view'] for st in P['streams']))))
    if P.get('k2'):
        parts.append('The real, rustc-compiled output of the real proc macro is compared with oracles generated independently from the request on enumerated values (K2 suites: %s); a mismatch is the concrete failing input.' % ', '.join(P['k2']))
    if P.get('direct'):
        parts.append('The property is additionally tested directly on real in-process expansions (%s): that is the search for a failing input.' % ', '.join(x[0] for x in directs(P)))
    return ' '.join(parts)

def default_level_note(pid, P):
    return ('Trusted: the Coq kernel (vm_compute, no native_compute); the hand-written model of /repo/src (tied by K1 on sampled inputs, not proved equal to the Rust source); '
            'coq/Model/Syn.v as the model of syn; coq/Sem/*.v as the meaning of the emitted Rust subset (validated by K2 against rustc); extraction (ExtrOcamlBasic, ExtrOcamlNativeString) and the OCaml / Rust / Python harness code; '
            'the source scanners tools/scan*.py where the property depends on Gen/Sources.v.')

def gen_cases(st, seed, n):
    pool = st['pool'] or modelled()
    pool = [t for t in pool if t in gen.GENS]
    force = [t for t in st['force'] if t in gen.GENS]
    cases = []
    for i in range(n):
        want_fault = (i % 100) < st['faults'] * 100
        # traits: forced ones + a random subset of the pool (decided inside gen_case from its own rng)
        c = gen.gen_case('%s-%d-%d' % (st['name'], seed, i), 0, pool, want_fault=want_fault,
                         kinds=st['kinds'], must=force)
        cases.append(('%s-%d' % (st['name'], i), c))
    return cases

def run_k1(st, seed, n, report, stats, samples):
    cases = gen_cases(st, seed, n)
    real = k1.run_real([(i, c.rust()) for i, c in cases])
    model = k1.run_model([(i, c.sx()) for i, c in cases])
    view = k1lib.get_view(st['view'])
    distinct = set()
    for i, c in cases:
        if i not in real or i not in model:
            stats['missing'] += 1
            report.fail('k1-missing:' + i, 'K1 case %s produced no result' % i, dict(input=c.rust()), found_input=False)
            continue
        v, d = k1lib.compare_view(real[i], model[i], view, errkind=st['errkind'])
        stats['k1_' + v] += 1
        cls = k1lib.classify(real[i], 'real')
        stats['real_' + cls[0]] += 1
        if cls[0] == 'OK' and cls[2]:
            distinct.add(hash(tuple(cls[2])))
        if cls[0] == 'ERR':
            stats['err:' + str(cls[1])] += 1
        if c.fault:
            stats['fault:' + c.fault.split('@')[0]] += 1
        if cls[0] == 'PANIC' and report.pid == 'C17':
            # for C17 the input itself is the counterexample, whatever the model says
            report.fail('c17:' + hashlib.sha256(c.rust().encode()).hexdigest()[:12],
                        'the macro does not return on this input (%s): %s' % (real[i][0], real[i][1][:200]), dict(input=c.rust()), found_input=True)
        if report.pid == 'C19' and cls[0] == 'OK' and '::std' not in c.rust().replace(' ', '') and 'alloc' not in c.rust():
            toks = cls[2]
            for j in range(len(toks) - 3):
                if toks[j] == ':' and toks[j + 1] == ':' and toks[j + 2] in ('std', 'alloc') and (j == 0 or toks[j - 1] not in (':',) and not toks[j - 1][0].isalnum() and toks[j - 1] != '>'):
                    report.fail('c19:std:' + hashlib.sha256(c.rust().encode()).hexdigest()[:12],
                                'the expansion of this input names `::%s`: it cannot compile in a #![no_std] crate (…%s…)' % (toks[j + 2], ' '.join(toks[max(0, j - 6):j + 12])),
                                dict(input=c.rust()), found_input=True)
                    break
        if report.pid == 'C19' and cls[0] == 'OK':
            # a direct oracle on the REAL tokens: a macro invoked, or a prelude item named, without an absolute path
            # (and not written by the user in the input) is resolved at the derive site
            toks, src = cls[2], c.rust()
            for j in range(len(toks) - 2):
                t = toks[j]
                if not (t[0].isalpha() or t[0] == '_') or (j >= 2 and toks[j - 1] == ':' and toks[j - 2] == ':'):
                    continue
                if toks[j + 1] == '!' and toks[j + 2] in ('(', '[', '{') and t not in C19_KEYWORDS:
                    what = 'invokes the macro `%s!` without an absolute path' % t
                elif t in C19_PRELUDE and not (j >= 1 and toks[j - 1] == '.'):
                    what = 'names the prelude item `%s` without an absolute path' % t
                else:
                    continue
                if re.search(r'\b%s\b' % re.escape(t), src):
                    continue        # the user's own tokens
                report.fail('c19:unqualified:' + hashlib.sha256(src.encode()).hexdigest()[:12],
                            'the expansion of this input %s: a derive site that shadows it captures it (…%s…)' % (what, ' '.join(toks[max(0, j - 8):j + 8])),
                            dict(input=src), found_input=True)
                break
        if v == 'diff':
            report.k1_diffs.append(dict(stream=st['name'], case=i, input=c.rust(), detail=d))
        if v == 'ood':
            stats['ood:' + str(d)[:40]] += 1
        if len(samples) < 3 and cls[0] == 'OK' and len(cls[2]) > 40:
            samples.append(dict(stream=st['name'], input=c.rust(), real_tokens=len(cls[2]), verdict=v))
    return len(cases), len(distinct)

def run_check(pid, tier, seed):
    t0 = time.time()
    if pid not in PROPS:
        print('unknown or unclaimed property %s' % pid)
        return 2
    P = PROPS[pid]
    report = vlib.Report(pid)
    report.k1_diffs = []
    stats = collections.Counter()
    samples = []
    ok, log, dt = vlib.ensure_built('all')
    if not ok:
        path = vlib.write_replay(pid, dict(property=pid, what='build failed: the model, its proofs or the harness no longer build against /repo', log=log[-3000:]))
        print(log[-2000:])
        print('VIOLATION property=%s replay=%s no-failing-input-found' % (pid, path))
        vlib.write_evidence(pid, tier, seed, 'proof', dict(obligations=max(1, len(P['theorems'])), discharged=0,
                            checker_cmd='./build.sh', trusted_base=vlib.TRUSTED_BASE, explanation='build failed'),
                            [], time.time() - t0, 1)
        return 1
    # 1. proof obligations
    obl, _ = vlib.coq_obligations(pid, P['theorems'], P.get('modules')) if P['theorems'] else ([], '')
    bad = vlib.forbidden_grep()
    bad_obl = [o for o in obl if not o['ok']]
    if bad_obl:
        # one line for the whole property file: say why it no longer compiles (typically an inventory lemma against
        # the regenerated Gen/Sources.v) with the error of the make log
        why = ''
        try:
            logtxt = open(os.path.join(vlib.BUILD, 'coq_make.log')).read()
            for m in P.get('modules') or []:
                f = './Properties/%s.v' % m.split('.')[-1]
                i = logtxt.find('File "%s"' % f)
                if i >= 0:
                    why += logtxt[i:i + 700] + '\n'
        except Exception:
            pass
        report.fail('obligation:' + ','.join(o['name'] for o in bad_obl[:3]),
                    '%d theorem(s) of %s no longer check (%s%s): %s' % (len(bad_obl), pid, ', '.join(o['name'] for o in bad_obl[:4]), ' ...' if len(bad_obl) > 4 else '',
                                                                          (why or bad_obl[0]['detail'])[:600]),
                    dict(theorems=[o['name'] for o in bad_obl], detail=bad_obl[0]['detail'], make_log=why), found_input=False)
    for b in bad:
        report.fail('forbidden:' + b, 'forbidden construct in the development: ' + b, found_input=False)
    chk = None
    if tier == 'thorough' and P['theorems']:
        okc, ax = vlib.coqchk(P.get('modules') or ['Educe.Properties.%s' % pid])
        chk = dict(ok=okc, axioms=ax)
        if not okc:
            report.fail('coqchk:' + pid, 'coqchk does not accept the compiled property modules, or finds axioms: %s' % ax[:300], found_input=False)
    # 2. K1 correspondence under the property's view
    evaluations = 0
    distinct = 0
    for st in P['streams']:
        n = st['n'][0 if tier == 'quick' else 1]
        e, d = run_k1(st, seed, n, report, stats, samples)
        evaluations += e
        distinct += d
    # 3. behavioural search / validation on the real, rustc-compiled code
    k2_failures = []
    k2_stats = {}
    if P.get('k2'):
        try:
            import k2
            kn = P.get('k2_n')
            k2_failures, k2_stats = k2.run(pid, P['k2'], tier, seed, n=(kn[0 if tier == 'quick' else 1] if kn else None),
                                           hostile=P.get('k2_hostile', False), only_ops=P.get('k2_ops'), also=P.get('k2_also'), n_by=P.get('k2_n_by'))
        except ImportError:
            k2_stats = dict(skipped='k2 not built yet')
    for f in k2_failures:
        report.fail(f['key'], f['what'], f, found_input=True)
    direct_stats = {}
    direct_failed = False
    for name, sizes, kw in directs(P):
        import direct
        dfails, kdiffs, dstats = getattr(direct, name)(seed, sizes[0 if tier == 'quick' else 1], **kw)
        for f in dfails:
            report.fail(f['key'], f['what'], f, found_input=True)
            k2_failures.append(f)
            if not [k for k in report.known if k['key'] == f['key']]:
                direct_failed = True
        report.k1_diffs.extend(kdiffs)
        direct_stats[name] = dstats
        evaluations += dstats.get('pairs', dstats.get('cases', 0)) or sum(v for v in dstats.values() if isinstance(v, int))
    # a broken correspondence without a failing input is still a violation
    if report.k1_diffs and not [v for v in report.violations if v[3]]:
        d0 = report.k1_diffs[0]
        report.fail('k1:' + d0['stream'], 'K1 correspondence broken on %d case(s) (model and /repo disagree under view); first: %s'
                    % (len(report.k1_diffs), d0['detail'][:300]),
                    dict(correspondence='K1 ' + d0['stream'], cases=report.k1_diffs[:5]), found_input=False)
    rc = report.finish()
    n_obl = len(obl) + len(P['streams']) + (1 if P.get('direct') else 0)
    n_ok = sum(1 for o in obl if o['ok']) + sum(1 for st in P['streams'] if not [d for d in report.k1_diffs if d['stream'] == st['name']]) + (1 if P.get('direct') and not direct_failed else 0)
    cov = dict(obligations=max(1, n_obl), discharged=n_ok,
               checker_cmd='./build.sh (coq_makefile + make: full .vo build) ; coqc _build/obl_%s.v (Print Assumptions) ; tools/k1.py view=%s' % (pid, ','.join(st['view'] for st in P['streams'])),
               trusted_base=vlib.TRUSTED_BASE,
               theorems=[dict(name=o['name'], closed=o['ok'], axioms=o['axioms']) for o in obl],
               evaluations=evaluations, distinct_nontrivial=distinct,
               rule='K1: seeded structured derive inputs (valid + one-invalid-construct); distinct_nontrivial = number of distinct non-empty real expansions',
               k1=dict((k, v) for k, v in sorted(stats.items())), k2=k2_stats, direct=direct_stats,
               samples=samples or [dict(note='no sample')], known_findings_reproduced=sorted(report.known_hit.keys()), coqchk=chk)
    vlib.write_evidence(pid, tier, seed, 'proof', cov,
                        ['field types and user methods are arbitrary (universally quantified interp)',
                         'equality of flattened token sequences stands for equality of generated code'],
                        time.time() - t0, len(report.violations))

    print('%s %s tier=%s seed=%d: obligations %d/%d, K1 %s, k2 %s, %.0fs' %
          (pid, 'OK' if rc == 0 else 'FAILED', tier, seed, n_ok, n_obl,
           dict((k, v) for k, v in stats.items() if k.startswith('k1_')), k2_stats, time.time() - t0))
    return rc

def replay(path):
    p = json.load(open(path))
    print(json.dumps(p, indent=1)[:4000])
    pid = p.get('property')
    if 'input' in p:
        real = k1.run_real([('replay', p['input'])])
        print('real outcome now:', real.get('replay', ('?', ''))[0])
    return 0
