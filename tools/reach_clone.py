"""Branch reach of the Clone / Copy generators: counts (a) the generator's own notes and
(b) structural features of the generated inputs, each joined with the real macro's outcome."""
import sys, collections, re
import gen, k1

def structural(c):
    """tags derived from the finished input alone"""
    t = []
    tr = set(c.traits)
    both = 'Clone' in tr and 'Copy' in tr
    who = 'Clone+Copy' if both else ('Clone' if 'Clone' in tr else ('Copy' if 'Copy' in tr else None))
    if who is None:
        return t
    def has_method(f):
        return any('Clone(' in a.rust() and 'method' in a.rust() for a in f.attrs)
    def fl(n):
        return '0' if n == 0 else ('1' if n == 1 else 'many')
    if c.kind == 'struct':
        t.append((who, 'struct', c.fkind, 'fields=' + fl(len(c.fields))))
        for f in c.fields:
            t.append((who, 'struct', c.fkind, 'field:' + ('method' if has_method(f) else 'plain')))
    elif c.kind == 'enum':
        t.append((who, 'enum', 'variants=' + fl(len(c.variants))))
        anym = any(has_method(f) for v in c.variants for f in v.fields)
        t.append((who, 'enum', 'any-method=%s' % anym))
        for v in c.variants:
            t.append((who, 'enum', v.kind, 'fields=' + fl(len(v.fields)), 'enum-has-method=%s' % anym))
            for f in v.fields:
                t.append((who, 'enum', v.kind, 'field:' + ('method' if has_method(f) else 'plain')))
    else:
        t.append((who, 'union', 'fields=' + fl(len(c.fields))))
    g = c.generics
    t.append((who, 'generics', 'params=%d' % len(g.params), 'where=%s' % bool(g.where),
              'where_trailing=%s' % g.where_trailing))
    return t

def main():
    n = int(sys.argv[1]) if len(sys.argv) > 1 else 4000
    seeds = sys.argv[2].split(',') if len(sys.argv) > 2 else ['1', '2', '3']
    pool = sys.argv[3].split(',') if len(sys.argv) > 3 else ['Clone', 'Copy']
    notes = collections.Counter()
    struct = collections.Counter()
    faults = collections.Counter()
    outcome = collections.Counter()
    for s in seeds:
        cases = [(str(i), gen.gen_case('%s-%d' % (s, i), 0, pool, want_fault=(i % 100) < 30)) for i in range(n)]
        real = k1.run_real([(i, c.rust()) for i, c in cases])
        for i, c in cases:
            cls, payload = real[i]
            res = cls if cls != 'ERR' else k1.err_kind(payload.split(' || ')[0])
            outcome[res] += 1
            for tag in c.notes.get('reach', []):
                faulty = len(tag) > 3 and tag[3] in ('fault', 'method-refused', 'bound-refused', 'refused')
                if faulty:
                    notes[tag + ('->' + res,)] += 1
                elif c.fault is None:
                    notes[tag + (('->' + res) if res != 'OK' else '',)] += 1
            if c.fault is None and res != 'OK':
                print('UNEXPECTED: valid request not accepted:', res, c.rust())
            if cls == 'OK':
                for tag in structural(c):
                    struct[tag] += 1
            if c.fault:
                faults[(c.fault.split('@')[0], res)] += 1
    print('== outcomes'); [print('  ', k, v) for k, v in sorted(outcome.items())]
    print('== generator notes (trait, place, shape, parameter, spelling[, outcome of a faulty case])')
    for k, v in sorted(notes.items(), key=str): print('  ', v, k)
    print('== structural features of accepted inputs')
    for k, v in sorted(struct.items(), key=str): print('  ', v, k)
    print('== faults -> outcome')
    for k, v in sorted(faults.items(), key=str): print('  ', v, k)

main()
