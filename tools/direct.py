"""Direct tests of the generator-level properties on the REAL macro (in-process expansions):
the search for a concrete failing input, and the kernel correspondence for C14 / C15 / C16."""
import copy, re, collections, random, os, subprocess
import k1, k1lib, gen, vlib

PARTNERS = {'Copy': ['Clone'], 'Clone': ['Copy'], 'Eq': ['PartialEq'], 'PartialEq': ['Eq'],
            'Ord': ['PartialOrd'], 'PartialOrd': ['Ord']}

def outcome(res):
    c = k1lib.classify(res, 'real')
    return c

def leading_ident(meta_text):
    m = re.match(r'\s*([A-Za-z_][A-Za-z0-9_]*)', meta_text)
    return m.group(1) if m else None

def tok_text(t):
    k = t[0]
    if k in ('I', 'P'):
        return t[1]
    if k == 'L':
        return "'" + t[1]
    if k == 'Lit':
        return t[2]
    if k == 'Str':
        return t[1]
    o, c = {'p': '()', 'b': '{}', 'k': '[]'}[t[1]]
    return o + toks_text(t[2]) + c
def toks_text(ts):
    return ' '.join(tok_text(t) for t in ts)

def split_metas(ts):
    out, cur = [], []
    for t in ts:
        if t[0] == 'P' and t[1] == ',':
            out.append(cur); cur = []
        else:
            cur.append(t)
    out.append(cur)
    return out

def restrict(inp, keep):
    """a copy of the input in which every educe meta of a trait outside `keep` is deleted
    (type, variant and field level); attributes that become empty are dropped"""
    import rlex
    d = copy.deepcopy(inp)
    def fix(attrs):
        out = []
        for a in attrs:
            if a.path != 'educe' or a.kind != 'list':
                out.append(a); continue
            try:
                metas = split_metas(rlex.lex(a.args))
            except Exception:
                out.append(a); continue
            kept = []
            for m in metas:
                if not m:
                    continue
                lead = m[0][1] if m[0][0] == 'I' else None
                if lead in gen.ALL_TRAITS and lead not in keep and (len(m) == 1 or m[1][0] != 'P' or m[1][1] != '::'):
                    continue
                kept.append(m)
            if not kept and any(metas):
                continue
            a.args = ', '.join(toks_text(m) for m in kept)
            out.append(a)
        return out
    d.attrs = fix(d.attrs)
    for f in d.fields:
        f.attrs = fix(f.attrs)
    for v in d.variants:
        v.attrs = fix(v.attrs)
        for f in v.fields:
            f.attrs = fix(f.attrs)
    return d

# ---------------------------------------------------------------- C14
def c14(seed, n, pool=None):
    """spelling groups: the same request (request seed) under different spelling seeds"""
    pool = pool or list(gen.GENS.keys())
    groups = []
    cases = []
    for i in range(n):
        g = []
        for sp in range(3):
            # a quarter of the requests carry one invalid construct: refused under every spelling, or under none
            c = gen.gen_case('c14-%d-%d' % (seed, i), sp, pool, want_fault=(i % 4 == 0))
            cid = 'c14-%d-%d' % (i, sp)
            g.append((cid, c)); cases.append((cid, c))
        groups.append(g)
    # ... and every KIND of invalid construct the generator knows at least twice (see `stratified`)
    seen = collections.Counter()
    for i in range(n, 16 * n):
        c0 = gen.gen_case('c14-%d-%d' % (seed, i), 0, pool, want_fault=True)
        if not c0.fault or seen[c0.fault] >= 2:
            continue
        seen[c0.fault] += 1
        g = [('c14-%d-0' % i, c0)]
        for sp in (1, 2, 3):
            g.append(('c14-%d-%d' % (i, sp), gen.gen_case('c14-%d-%d' % (seed, i), sp, pool, want_fault=True)))
        cases.extend(g)
        groups.append(g)
    real = k1.run_real([(i, c.rust()) for i, c in cases])
    model = k1.run_model([(i, c.sx()) for i, c in cases])
    fails, kdiffs = [], []
    stats = collections.Counter(fault_kinds=len(seen))
    for g in groups:
        base_id, base = g[0]
        r0 = outcome(real[base_id]); m0 = k1lib.classify(model[base_id], 'model')
        for cid, c in g[1:]:
            r = outcome(real[cid]); m = k1lib.classify(model[cid], 'model')
            stats['pairs'] += 1
            if c.rust() == base.rust():
                stats['identical_text'] += 1
            req = (r0[0], r0[2]) == (r[0], r[2])
            meq = (m0[0], m0[2]) == (m[0], m[2])
            if m0[0] == 'OOD' or m[0] == 'OOD':
                stats['ood'] += 1
            if r0[0] == 'OK':
                stats['ok_pairs'] += 1
            if not req and not meq and 'OOD' not in (m0[0], m[0]):
                # the model (whose spelling invariance is proved) says these are two different requests:
                # a generator artefact, not a spelling pair
                stats['request_differs'] += 1
            elif not req:
                fails.append(dict(key='c14:' + k1lib_hash(base.rust() + c.rust()), what='two documented spellings of one request expand differently: ' +
                                  (k1lib.first_diff(r0[2], r[2]) if r0[0] == r[0] == 'OK' else 'outcomes %s / %s' % (r0[0], r[0])),
                                  input=base.rust(), input2=c.rust()))
            elif req != meq and 'OOD' not in (m0[0], m[0]):
                kdiffs.append(dict(stream='c14-kernel', case=cid, input=base.rust(), detail='real expansions agree but the model expansions differ'))
    return fails, kdiffs, dict(stats)

def k1lib_hash(s):
    import hashlib
    return hashlib.sha256(s.encode()).hexdigest()[:12]

# ---------------------------------------------------------------- C15
def c15(seed, n, pool=None):
    pool = pool or list(gen.GENS.keys())
    cases, plan = [], []
    for i in range(n):
        c = gen.gen_case('c15-%d-%d' % (seed, i), 0, pool, want_fault=False)
        if len(c.traits) < 2:
            continue
        cid = 'c15-%d' % i
        cases.append((cid, c))
        for t in c.traits:
            keep = [t] + [p for p in PARTNERS.get(t, []) if p in c.traits]
            d2 = restrict(c, keep)
            rid = '%s-%s' % (cid, t)
            cases.append((rid, d2))
            plan.append((cid, rid, t, keep))
    real = k1.run_real([(i, c.rust()) for i, c in cases])
    model = k1.run_model([(i, c.sx()) for i, c in cases])
    byid = dict(cases)
    fails, kdiffs = [], []
    stats = collections.Counter()
    # a request refused as a whole although every trait's own part of it (with its companion) is accepted alone:
    # some trait's outcome depends on attributes that are not its own
    parts = collections.defaultdict(list)
    for cid, rid, t, keep in plan:
        parts[cid].append((t, rid))
    for cid, l in parts.items():
        r0 = outcome(real[cid])
        if r0[0] == 'ERR' and all(outcome(real[rid])[0] == 'OK' for t, rid in l):
            stats['refused_only_together'] += 1
            fails.append(dict(key='c15:' + k1lib_hash(byid[cid].rust() + 'together'),
                              what='every trait of this request is accepted when requested alone with its own attributes (%s), but together the request is refused: %s'
                                   % (', '.join(t for t, rid in l), real[cid][1][:160]),
                              input=byid[cid].rust(), input2=[byid[rid].rust() for t, rid in l]))
    for cid, rid, t, keep in plan:
        r0 = outcome(real[cid]); r1 = outcome(real[rid])
        if r0[0] != 'OK':
            stats['full_not_ok'] += 1
            continue
        stats['pairs'] += 1
        names = [t] + (['inherent'] if t == 'Default' else [])
        # companion impls are emitted by the primary's handler
        comp = {'Clone': ['Copy'], 'PartialEq': ['Eq'], 'Ord': ['PartialOrd']}
        names += [p for p in comp.get(t, []) if p in keep]
        view = k1lib.make_view_items(names)
        if r1[0] != 'OK':
            fails.append(dict(key='c15:' + k1lib_hash(byid[cid].rust() + t), what='removing the other traits turns the request for %s into %s' % (t, r1[0]),
                              input=byid[cid].rust(), input2=byid[rid].rust()))
            continue
        a, b = view(r0[2]), view(r1[2])
        if a != b:
            fails.append(dict(key='c15:' + k1lib_hash(byid[cid].rust() + t),
                              what="the impl generated for %s changes when the attributes of other traits are removed" % t,
                              input=byid[cid].rust(), input2=byid[rid].rust(), trait=t))
        m0 = k1lib.classify(model[cid], 'model'); m1 = k1lib.classify(model[rid], 'model')
        if m0[0] == 'OK' and m1[0] == 'OK' and (view(m0[2]) == view(m1[2])) != (a == b):
            kdiffs.append(dict(stream='c15-kernel', case=rid, input=byid[cid].rust(), detail='model and real disagree on whether the %s impl is unchanged' % t))
    return fails, kdiffs, dict(stats)

# ---------------------------------------------------------------- C16
def c16(seed, n, pool=None, processes=3):
    pool = pool or list(gen.GENS.keys())
    cases = []
    for i in range(n):
        must = ['Into'] if i % 2 == 0 and 'Into' in pool else None
        c = gen.gen_case('c16-%d-%d' % (seed, i), 0, pool, want_fault=(i % 3 == 0), must=must)
        cases.append(('c16-%d' % i, c))
    # a fixed grid of accepted and refused requests for every trait alone and beside its companion: the diagnostics
    # (usage hints, ...) of one request must not depend on which configuration of the same handler ran earlier
    class _Txt:
        def __init__(self, t): self.t = t
        def rust(self): return self.t
    base = {'Into': 'Into(u8)'}
    sets = [[t] for t in gen.ALL_TRAITS] + [['PartialEq', 'Eq'], ['PartialOrd', 'Ord'], ['Clone', 'Copy'], ['Deref', 'DerefMut']]
    gk = 0
    for S in sets:
        ok = ', '.join(base.get(t, t) for t in S)
        variants = [ok]
        for t in S:
            for bad in ('%s = 1', '%s(foo)', '%s(bound = 3)', '%s(bound(T: Copy), bound = false)'):
                variants.append(', '.join((bad % x) if x == t else base.get(x, x) for x in S))
        for a in variants:
            for body in ('struct S<T> { a: T }', 'enum E<T> { #[educe(Default)] A(T), B }' if 'Default' in S else 'enum E<T> { A(T) }'):
                cases.append(('c16g-%d' % gk, _Txt('#[educe(%s)]\n%s' % (a, body)))); gk += 1
        for t in S:
            for where in ('struct S<T> { #[educe(%s)] a: T }', 'enum E<T> { #[educe(%s)] A(T) }', 'enum E<T> { A(#[educe(%s)] T) }'):
                for bad in ('%s = 1', '%s(foo)', '%s(bound(*))', '%s(ignore, ignore)'):
                    cases.append(('c16g-%d' % gk, _Txt('#[educe(%s)]\n%s' % (ok, where % (bad % t))))); gk += 1
    # unions: refused and accepted forms of the byte-wise traits (their diagnostics are built by separate helpers)
    for a in ('Debug', 'Debug()', 'Debug(name = A)', 'Debug(unsafe)', 'Debug(unsafe, name = A)', 'PartialEq', 'PartialEq(unsafe)', 'Hash', 'Hash()', 'Hash(unsafe)',
              'Debug, PartialEq, Hash', 'Clone', 'Default', 'Ord', 'Deref', 'Into(u8)'):
        for body in ('union U { a: u8, b: u16 }', 'union U { #[educe(Default)] a: u8, b: u16 }', 'union U { a: u8 }'):
            for rep in range(2):
                cases.append(('c16g-%d' % gk, _Txt('#[educe(%s)]\n%s' % (a, body)))); gk += 1
    # several invalid constructs at once: which one the diagnostic names must not vary either
    for a in ('Debug, Clone, Hash)]\n#[educe(Hash, Debug, Clone', 'Debug, Debug, Clone, Clone', 'PartialEq, Eq, Eq, PartialEq, Hash, Hash',
              'Foo, Bar, Debug', 'Debug(foo, bar), Clone(baz)', 'Into(u8), Into(u8), Debug, Debug'):
        for body in ('struct S { a: u8 }', 'enum E { A(u8) }', 'struct S { #[educe(Foo)] #[educe(Bar)] a: u8, #[educe(Baz, Qux)] b: u8 }'):
            cases.append(('c16g-%d' % gk, _Txt('#[educe(%s)]\n%s' % (a, body)))); gk += 1
    src = [(i, c.rust()) for i, c in cases]
    runs = [k1.run_real(src, repeat=3)] + [k1.run_real(src) for _ in range(processes - 1)]
    # history: the same inputs in another order in one process ("for all prior expansions in the same process")
    rs = random.Random('c16o-%d' % seed)
    perm = list(src); rs.shuffle(perm)
    reordered = [k1.run_real(perm), k1.run_real(list(reversed(src)))]
    # the same macro source built under the release profile (no debug assertions, no overflow checks):
    # "the output depends on nothing but the input tokens and the enabled features"
    rel = None
    hdir = os.path.join(k1.ROOT, 'harness')
    env = dict(os.environ, CARGO_NET_OFFLINE='true')
    p = vlib.run_cargo(['cargo', 'build', '--offline', '--release'], cwd=hdir, env=env, timeout=1500)
    reldrv = os.path.join(hdir, 'target/release/k1driver')
    if p.returncode == 0 and os.path.exists(reldrv):
        rel = k1.run_real(src, driver=reldrv)
    fails = []
    stats = collections.Counter(release_profile_compared=0 if rel is None else len(rel))
    if rel is None:
        stats['release_build_failed'] = 1
    for i, c in cases:
        outs = [r[i] for r in runs]
        stats['cases'] += 1
        if outs[0][0] != 'NONDET' and all(o == outs[0] for o in outs[1:]) and any(ro.get(i) != outs[0] for ro in reordered):
            fails.append(dict(key='c16:history:' + k1lib_hash(c.rust()), input=c.rust(),
                              what='the expansion of this input depends on which other inputs were expanded before it in the same process'))
        if rel is not None and i in rel and outs[0][0] != 'NONDET' and rel[i] != outs[0]:
            fails.append(dict(key='c16:profile:' + k1lib_hash(c.rust()), input=c.rust(),
                              what='the same input expands differently when the macro crate is built under the release profile (debug assertions / overflow checks off): %s vs %s'
                                   % (outs[0][0], rel[i][0])))
        if outs[0][0] == 'NONDET':
            fails.append(dict(key='c16:' + k1lib_hash(c.rust()), what='the same input expanded three times in one process gives different token streams', input=c.rust()))
        elif any(o != outs[0] for o in outs[1:]):
            fails.append(dict(key='c16:' + k1lib_hash(c.rust()), what='the same input gives different token streams in different processes', input=c.rust()))
    return fails, [], dict(stats, processes=processes)

# ---------------------------------------------------------------- C17
MUT_TOKENS = ['unsafe', 'true', 'false', '1', '-1', '"x"', '""', "'c'", 'b"q"', 'self', 'Self', 'crate', 'fn', 'mut', '*', '=', '==',
              ',', ',,', '::', '(', ')', '()', '(,)', '[]', '{}', '#', '!', '&', "'a", '..', '?', '1.5', '0xffffffffffffffffffffffffffffffffff',
              '170141183460469231731687303715884105728', '"\\u{301}"', '"é"', 'é' if False else 'r#fn', '\\', '@', '$x', 'bound', 'name', 'ignore', 'method', 'rank', 'Into', 'Debug']

def mutate_text(r, s):
    """token-level mutation of the text inside #[educe( ... )]"""
    toks = re.findall(r'"(?:[^"\\]|\\.)*"|\'(?:[^\'\\]|\\.)\'|[A-Za-z_#][A-Za-z0-9_#]*|\d[\w.]*|::|->|=>|\.\.|\S', s)
    if not toks:
        toks = ['Debug']
    k = r.randrange(9)
    i = r.randrange(len(toks))
    if k == 0:
        del toks[i]
    elif k == 1:
        toks.insert(i, toks[i])
    elif k == 2:
        j = r.randrange(len(toks)); toks[i], toks[j] = toks[j], toks[i]
    elif k == 3:
        toks.insert(i, gen.pick(r, MUT_TOKENS))
    elif k == 4:
        toks[i] = gen.pick(r, MUT_TOKENS)
    elif k == 5:
        toks = toks[:i]
    elif k == 6:
        d = r.randrange(1, 40)
        toks.insert(i, '(' * d + gen.pick(r, ['x', '', '1', 'Debug']) + ')' * d)
    elif k == 7:
        toks = toks[:i] + ['('] + toks[i:] + [')']
    else:
        toks.insert(i, gen.pick(r, ['[', ']', '{', '}', '(', ')']))
    return ' '.join(toks)

def balanced(s):
    st = []
    pairs = {')': '(', ']': '[', '}': '{'}
    in_str = False
    i = 0
    while i < len(s):
        ch = s[i]
        if in_str:
            if ch == '\\': i += 1
            elif ch == '"': in_str = False
        elif ch == '"':
            in_str = True
        elif ch in '([{':
            st.append(ch)
        elif ch in ')]}':
            if not st or st.pop() != pairs[ch]:
                return False
        i += 1
    return not st and not in_str

def c17(seed, n, pool=None):
    pool = pool or list(gen.GENS.keys())
    r = random.Random('c17-%d' % seed)
    cases = []
    for i in range(n):
        c = gen.gen_case('c17-%d-%d' % (seed, i), 0, pool, want_fault=(i % 4 == 0))
        src = c.rust()
        # mutate 1-3 educe attribute argument lists
        spans = [m for m in re.finditer(r'#\[educe\(', src)]
        muts = 0
        for _ in range(r.randrange(1, 4)):
            spans = [m for m in re.finditer(r'#\[educe([\(\[\{])', src)]
            if not spans:
                break
            m = gen.pick(r, spans)
            # find the matching close of the attribute's `[`
            depth, j = 0, m.start() + 1
            in_str = False
            while j < len(src):
                ch = src[j]
                if in_str:
                    if ch == '\\': j += 1
                    elif ch == '"': in_str = False
                elif ch == '"': in_str = True
                elif ch in '([{': depth += 1
                elif ch in ')]}':
                    depth -= 1
                    if depth == 0: break
                j += 1
            inner = src[m.end():j - 1]
            new = mutate_text(r, inner)
            if balanced(new):
                src = src[:m.end()] + new + src[j - 1:]
                muts += 1
        cases.append(('c17-%d' % i, src))
    # deep nesting and long inputs
    for depth in (20, 60, 120):
        cases.append(('c17-deep-%d' % depth, '#[educe(Debug(name = %s x %s))] struct S;' % ('(' * depth, ')' * depth)))
        cases.append(('c17-deepb-%d' % depth, '#[educe(Clone(bound(T: %s u8 %s)))] struct S<T>(T);' % ('Vec<' * depth, '>' * depth)))
        cases.append(('c17-long-%d' % depth, '#[educe(%s)] struct S;' % ', '.join(['Debug'] * depth)))
    real = k1.run_real(cases)
    fails = []
    stats = collections.Counter()
    for cid, src in cases:
        cls = real.get(cid, ('MISSING', ''))[0]
        stats[cls] += 1
        if cls in ('PANIC', 'CRASH', 'TIMEOUT', 'MISSING'):
            fails.append(dict(key='c17:' + k1lib_hash(src), what='the macro %s on this input: %s' % (cls, real.get(cid, ('', ''))[1][:200]), input=src))
    return fails, [], dict(stats)

# ---------------------------------------------------------------- C18
import itertools, concurrent.futures, shutil, vlib
TWELVE = gen.ALL_TRAITS

def cargo_check_subset(args):
    slot, feats = args
    tdir = os.path.join(vlib.BUILD, 'c18target%d' % slot)
    env = dict(os.environ, CARGO_NET_OFFLINE='true', RUSTFLAGS='-D warnings', CARGO_TARGET_DIR=tdir)
    cmd = ['cargo', 'check', '--offline', '--manifest-path', '/repo/Cargo.toml', '--no-default-features', '--message-format=short']
    if feats:
        cmd += ['--features', ' '.join(feats)]
    p = vlib.run_cargo(cmd, env=env, timeout=600)
    return feats, p.returncode, p.stderr[-1500:]

def c18_subsets(seed, n):
    r = random.Random('c18-%d' % seed)
    if n >= 4095:
        return [list(c) for k in range(1, 13) for c in itertools.combinations(TWELVE, k)]
    subs = [[t] for t in TWELVE] + [[u for u in TWELVE if u != t] for t in TWELVE]
    subs += [['Clone', 'Copy'], ['PartialEq', 'Eq'], ['PartialOrd', 'Ord'], ['Ord', 'PartialEq', 'Eq'], ['Into', 'Deref'], ['Default', 'Debug']]
    subs += [['PartialOrd', 'Ord'], ['PartialOrd', 'Ord', 'Eq'], ['Clone', 'Copy', 'Default'], ['Eq'], ['DerefMut', 'Clone', 'Copy', 'Eq', 'Default']]
    while len(subs) < n + 4:
        k = r.randrange(1, 12)
        subs.append(sorted(r.sample(TWELVE, k), key=TWELVE.index))
    return subs

def c18(seed, n, inproc=None):
    inproc = inproc if inproc is not None else (6 if n < 4095 else 40)
    fails = []
    stats = collections.Counter()
    subs = c18_subsets(seed, n)
    slots = 8
    jobs = [(i % slots, s) for i, s in enumerate(subs)]
    # run slot-wise sequentially, slots in parallel (one target dir per slot)
    def run_slot(k):
        return [cargo_check_subset(j) for j in jobs if j[0] == k]
    with concurrent.futures.ThreadPoolExecutor(max_workers=slots) as ex:
        results = [x for l in ex.map(run_slot, range(slots)) for x in l]
    for feats, rc, err in results:
        stats['subsets_built'] += 1
        if rc != 0:
            fails.append(dict(key='c18:build:' + '+'.join(feats), what='educe does not build without errors or warnings with features [%s]: %s' % (' '.join(feats), err[-400:]),
                              input='cargo check --no-default-features --features "%s"' % ' '.join(feats), features=feats))
    feats, rc, err = cargo_check_subset((0, []))
    stats['empty_checked'] += 1
    if rc == 0 or 'at least one of the trait features must be enabled' not in err:
        fails.append(dict(key='c18:empty', what='with no trait feature enabled the crate does not refuse to build with its explicit message (rc=%s)' % rc,
                          input='cargo check --no-default-features'))
    # in-process: expansions under a feature subset vs the all-features build
    r = random.Random('c18p-%d' % seed)
    hdir = os.path.join(vlib.ROOT, 'harness')
    # feature sets for in-process expansion: coupled traits with and without their partners, then random ones
    # every coupled pair is split both ways (a cfg on the PARTNER's feature inside a handler only shows when the partner's
    # feature is off while the handler's own is on), then kept together, then random sets
    fixed = [['PartialOrd', 'Ord'], ['Debug', 'Clone', 'Default'], ['Copy', 'Eq', 'Hash'], ['PartialEq', 'Ord', 'Into'],
             ['Clone', 'Copy', 'PartialEq', 'Eq', 'Hash']]
    sets = fixed[:inproc] + [sorted(r.sample(TWELVE, r.randrange(1, 9)), key=TWELVE.index) for _ in range(max(0, inproc - len(fixed)))]
    kdiffs = []
    for k, F in enumerate(sets):
        tdir = os.path.join(vlib.BUILD, 'c18harness')
        env = dict(os.environ, CARGO_NET_OFFLINE='true', CARGO_TARGET_DIR=tdir)
        p = vlib.run_cargo(['cargo', 'build', '--offline', '--no-default-features', '--features', ' '.join(F)], cwd=hdir, env=env, timeout=900)
        if p.returncode != 0:
            fails.append(dict(key='c18:harness:' + '+'.join(F), what='the crate does not build (as a library, hook on) with features [%s]: %s' % (' '.join(F), p.stderr[-400:]), input=' '.join(F)))
            continue
        cases = []
        for i in range(300):
            pool = F if i % 3 else TWELVE
            # a fifth of the requests carry one invalid construct: refused under the subset exactly as in the full build
            c = gen.gen_case('c18-%d-%d-%d' % (seed, k, i), 0, pool, want_fault=(i % 5 == 1))
            cases.append(('c18-%d-%d' % (k, i), c))
        # systematic: every shape (struct / enum / union, with and without a type-level Default expression) educing one
        # enabled trait, with an attribute of a DISABLED trait on a field or a variant: must be refused
        import dinput as D
        e = lambda txt: [D.educe(txt)] if txt else []
        off = [t for t in TWELVE if t not in F]
        gk = 0
        for B in F:
            for X in off[:4]:
                for form in ('%s', '%s(ignore)', '%s = false'):
                    x = form % X
                    tb = {'Into': 'Into(u8)'}.get(B, B)
                    shapes = [D.Input('struct', 'S', attrs=e(tb), fkind='named', fields=[D.Field('a', 'u8', attrs=e(x))]),
                              D.Input('enum', 'E', attrs=e(tb), variants=[D.Variant('A', 'unnamed', fields=[D.Field(None, 'u8')], attrs=e(('Default, ' if B == 'Default' else '') + x))]),
                              D.Input('enum', 'E', attrs=e(tb), variants=[D.Variant('A', 'unnamed', fields=[D.Field(None, 'u8', attrs=e(x))], attrs=e('Default' if B == 'Default' else ''))])]
                    ub = {'Debug': 'Debug(unsafe)', 'PartialEq': 'PartialEq(unsafe)', 'Hash': 'Hash(unsafe)', 'Clone': 'Clone', 'Copy': 'Copy', 'Eq': 'Eq',
                          'Default': 'Default'}.get(B)
                    if ub:
                        shapes.append(D.Input('union', 'U', attrs=e(ub), fields=[D.Field('a', 'u8', attrs=e(x)), D.Field('b', 'u16')] if B != 'Default'
                                              else [D.Field('a', 'u8', attrs=e('Default, ' + x)), D.Field('b', 'u16')]))
                        if B == 'Default':
                            shapes.append(D.Input('union', 'U', attrs=e('Default(expression = U { a: 1 })'), fields=[D.Field('a', 'u8', attrs=e(x)), D.Field('b', 'u16')]))
                            shapes.append(D.Input('struct', 'S', attrs=e('Default(expression = S { a: 1 })'), fkind='named', fields=[D.Field('a', 'u8', attrs=e(x))]))
                            shapes.append(D.Input('enum', 'E', attrs=e('Default(expression = E::A(1))'), variants=[D.Variant('A', 'unnamed', fields=[D.Field(None, 'u8', attrs=e(x))])]))
                    for inp in shapes:
                        inp.traits = [B, X]; inp.fault = 'grid:disabled'; inp.notes = {}
                        cases.append(('c18g-%d-%d' % (k, gk), inp)); gk += 1
        src = [(i, c.rust()) for i, c in cases]
        sub = k1.run_real(src, driver=os.path.join(tdir, 'debug', 'k1driver'))
        full = k1.run_real(src)
        model = k1.run_model([(i, c.sx()) for i, c in cases], features=','.join(F))
        view = k1lib.get_view('whole')
        for i, c in cases:
            stats['expansions_compared'] += 1
            named = set(c.traits)
            a, b = outcome(sub[i]), outcome(full[i])
            # K1 under the feature set: the model run with the same features
            v, dd = k1lib.compare_view(sub[i], model[i], view, errkind=False)
            if v == 'diff':
                kdiffs.append(dict(stream='c18-features', case=i, input=c.rust(), detail='features [%s]: %s' % (' '.join(F), dd)))
            # the one coupling through a *feature* (C18_same_code's second hypothesis): Ord educed without PartialOrd reads the
            # PartialOrd feature for its `Self: PartialOrd` predicate; every other partner is read from the educed trait list only
            partners_present = not ('Ord' in named and 'PartialOrd' not in named and 'PartialOrd' not in F)
            if named <= set(F) and not partners_present:
                # the property compares with the all-features build "given the same coupled partners are
                # present": e.g. Ord reads the PartialOrd *feature* for its `Self: PartialOrd` predicate
                # (C18_same_code states exactly this side condition)
                stats['partner_feature_absent'] += 1
                if a[0] != b[0]:
                    fails.append(dict(key='c18:code:' + k1lib_hash(c.rust()), what='with features [%s] the request is %s but %s in the all-features build' % (' '.join(F), a[0], b[0]), input=c.rust(), features=F))
            elif named <= set(F):
                if (a[0], a[2]) != (b[0], b[2]):
                    fails.append(dict(key='c18:code:' + k1lib_hash(c.rust()), what='with features [%s] the expansion differs from the all-features build' % ' '.join(F), input=c.rust(), features=F))
            else:
                stats['names_disabled'] += 1
                if a[0] != 'ERR':
                    fails.append(dict(key='c18:disabled:' + k1lib_hash(c.rust()), what='naming a trait whose feature is disabled ([%s] enabled) is not rejected' % ' '.join(F), input=c.rust(), features=F))
    return fails, kdiffs, dict(stats)

# ---------------------------------------------------------------- C13
def c13(seed, n, pool=None, must=None, key='c13', kinds=('struct', 'enum', 'union'), use_grid=True):
    """an input that one of the syntactic classifiers of Spec/Invalid.v (written from the property text,
    proved to imply Err on the model) marks invalid, and that the REAL macro accepts, is a failing input"""
    pool = pool or list(gen.GENS.keys())
    cases = []
    for i in range(n):
        # `must` may hold alternatives (tuple): one of them is forced per case (e.g. PartialEq, or Eq standing alone)
        m1 = [random.Random('%s-must-%d-%d' % (key, seed, i)).choice(list(x)) if isinstance(x, (tuple, list)) else x for x in must] if must else None
        c = gen.gen_case('%s-%d-%d' % (key, seed, i), 0, pool, want_fault=(i % 10 != 0), must=m1, kinds=kinds)
        cases.append(('%s-%d' % (key, i), c))
    grid = c13_grid() if use_grid else []
    if must:
        flat_must = [y for x in must for y in (x if isinstance(x, (tuple, list)) else [x])]
        grid = [g for g in grid if any(re.search(r'\b%s\b' % t, g.attrs[0].args) for t in flat_must)]
    elif n < 20000:
        # quick tier: a seeded third of the grid
        rr = random.Random('c13grid-%d' % seed)
        grid = [g for g in grid if rr.random() < 0.34]
    for j, c in enumerate(grid):
        cases.append(('%sg-%d' % (key, j), c))
    real = k1.run_real([(i, c.rust()) for i, c in cases])
    cls = k1.run_classes([(i, c.sx()) for i, c in cases])
    fails = []
    stats = collections.Counter(grid=len(grid))
    for i, c in cases:
        if i not in cls:
            stats['unclassified'] += 1
            continue
        allc, modgap, gap = cls[i]
        r = outcome(real[i])
        stats['cases'] += 1
        if allc:
            stats['classified_invalid'] += 1
            for k in allc:
                stats['class:' + k] += 1
        if r[0] == 'OK' and modgap:
            fails.append(dict(key=key + ':' + k1lib_hash(c.rust()), what='the request contains %s and is accepted instead of refused' % ', '.join(modgap), input=c.rust(), classes=modgap))
        elif r[0] == 'OK' and allc and gap:
            stats['known_gap_accepted'] += 1
            if key != 'c13':
                continue             # the recorded gap belongs to C13
            fails.append(dict(key='c13:copy-attrs-unchecked-with-clone', what='known gap: Copy(...) attributes below the type level are not validated when Clone is educed', input=c.rust(), classes=allc))
    return fails, [], dict(stats)



# ---------------------------------------------------------------- C13: systematic grid
def c13_grid():
    """systematic invalid requests (beside the random stream): every educed set of one trait (or a trait and its
    companion) x every other trait named below the type level x every position; every ordered pair of spellings
    of one parameter (any values) in one list x every trait / position that takes the parameter"""
    import dinput as D
    T = gen.ALL_TRAITS
    base_type = {'Into': 'Into(u8)', 'Default': 'Default'}
    def type_attr(S):
        return ', '.join(base_type.get(t, t) for t in S)
    sets = [[t] for t in T] + [['PartialEq', 'Eq'], ['PartialOrd', 'Ord'], ['Clone', 'Copy'], ['Deref', 'DerefMut'],
                               ['Debug', 'Hash'], ['PartialEq', 'Eq', 'PartialOrd', 'Ord']]
    def shapes(S, tmeta, where, extra):
        """the request with `extra` put at `where`"""
        out = []
        e = lambda txt: [D.educe(txt)] if txt else []
        if where == 'struct_field':
            out.append(D.Input('struct', 'S', attrs=e(tmeta), fkind='named', fields=[D.Field('a', 'u8', attrs=e(extra))]))
            out.append(D.Input('struct', 'S', attrs=e(tmeta), fkind='unnamed', fields=[D.Field(None, 'u8', attrs=e(extra))]))
        elif where in ('variant', 'variant_field'):
            dflt = ['Default'] if 'Default' in S else []
            for k in range(2):
                va = [[], []]; fa = [[], []]
                (va if where == 'variant' else fa)[k] = [extra]
                vs = [D.Variant('A', 'unnamed', fields=[D.Field(None, 'u8', attrs=e(', '.join(fa[0])))], attrs=e(', '.join(dflt + va[0]))),
                      D.Variant('B', 'named', fields=[D.Field('x', 'u8', attrs=e(', '.join(fa[1])))], attrs=e(', '.join(va[1])))]
                out.append(D.Input('enum', 'E', attrs=e(tmeta), variants=vs))
        elif where == 'type':
            out.append(D.Input('struct', 'S', attrs=e(tmeta), fkind='named', fields=[D.Field('a', 'u8')]))
            out.append(D.Input('enum', 'E', attrs=e(tmeta), variants=[D.Variant('A', 'unnamed', fields=[D.Field(None, 'u8')], attrs=e('Default' if 'Default' in S else ''))]))
        return out
    cases = []
    # (A) a trait that is not educed, named below the type level
    for S in sets:
        for X in T:
            if X in S:
                continue
            for form in ['%s', '%s(ignore)', '%s = false', '%s()', '%s(name = false)', '%s(method(m))']:
                for where in ('struct_field', 'variant', 'variant_field'):
                    for inp in shapes(S, type_attr(S), where, form % X):
                        inp.fault = 'grid:not_educed'
                        cases.append(inp)
    # (B) one parameter twice in one list
    SP = {'ignore': ['ignore', 'ignore = true', 'ignore = false', 'ignore(false)', 'ignore(true)'],
          'method': ['method(m)', 'method = m', 'method = "n"'],
          'rank': ['rank = 1', 'rank(2)', 'rank = "1"'],
          'name': ['name = a', 'name(b)', 'name = "a"', 'name = false', 'name(true)'],
          'named_field': ['named_field = true', 'named_field(false)', 'named_field = false'],
          'bound': ['bound(*)', 'bound = false', 'bound(u8: Copy)', 'bound = "u8: Copy"', 'bound()', 'bound = true'],
          'new': ['new', 'new = true', 'new(false)', 'new = false'],
          'expression': ['expression = 1', 'expr = 1', 'expression(2)', 'expr(1)'],
          'unsafe': ['unsafe', 'unsafe']}
    FIELD_P = {'ignore': ['Debug', 'PartialEq', 'PartialOrd', 'Ord', 'Hash'],
               'method': ['Debug', 'Clone', 'PartialEq', 'PartialOrd', 'Ord', 'Hash'],
               'rank': ['PartialOrd', 'Ord'], 'name': ['Debug'], 'expression': ['Default']}
    TYPE_P = {'bound': ['Debug', 'Clone', 'Copy', 'PartialEq', 'Eq', 'PartialOrd', 'Ord', 'Hash', 'Default'],
              'name': ['Debug'], 'named_field': ['Debug'], 'new': ['Default'], 'expression': ['Default']}
    VAR_P = {'name': ['Debug'], 'named_field': ['Debug']}
    def pairs(param):
        l = SP[param]
        return [(a, b) for a in l for b in l]
    for P, places in ((FIELD_P, ('struct_field', 'variant_field')), (TYPE_P, ('type',)), (VAR_P, ('variant',))):
        for param, traits in P.items():
            for t in traits:
                for a, b in pairs(param):
                    mids = ['']
                    if places == ('struct_field', 'variant_field'):
                        if param != 'ignore' and t in FIELD_P['ignore']:
                            mids.append('ignore = false')
                        if param == 'ignore' and t in FIELD_P['method']:
                            mids.append('method(m)')
                    for mid in mids:
                        lst = ', '.join(x for x in (a, mid, b) if x)
                        S = [t] if t != 'Copy' else ['Clone', 'Copy']
                        tm = type_attr(S)
                        for where in places:
                            if where == 'type':
                                tm2 = ', '.join(('%s(%s)' % (x, lst)) if x == t else base_type.get(x, x) for x in S)
                                shp = shapes(S, tm2, 'type', None)
                            else:
                                shp = shapes(S, tm, where, '%s(%s)' % (t, lst))
                            for inp in shp:
                                inp.fault = 'grid:param_twice'
                                cases.append(inp)
    # (C) `bound` on a companion trait's type-level attribute while its primary is educed (either order of the two
    #     names, every spelling of the parameter): the companion impl comes from the primary's handler with the
    #     primary's bounds, the written bound would be dropped
    for primary, companion in (('PartialEq', 'Eq'), ('Clone', 'Copy'), ('Ord', 'PartialOrd')):
        for b in SP['bound']:
            for tm in ('%s, %s(%s)' % (primary, companion, b), '%s(%s), %s' % (companion, b, primary)):
                for inp in shapes([primary, companion], tm, 'type', None):
                    inp.fault = 'grid:companion_bound'
                    cases.append(inp)
    # (D) a Default item on a variant / a field while the type-level `Default(..)` carries an expression: the value is
    #     that expression, the item below would be dropped (only the empty list `Default()` says nothing)
    below = ['Default', 'Default = 5', 'Default(expression = 5)', 'Default(expr(5))', 'Default = "5"']
    for key in ('expression = %s', 'expr(%s)', 'new, expr = %s'):
        for b in below:
            e = lambda txt: [D.educe(txt)] if txt else []
            te = lambda v: e('Default(%s)' % (key % v))
            shp = [D.Input('struct', 'S', attrs=te('S { a: 0, b: 0 }'), fkind='named', fields=[D.Field('a', 'u8'), D.Field('b', 'u16', attrs=e(b))]),
                   D.Input('struct', 'S', attrs=te('S(0)'), fkind='unnamed', fields=[D.Field(None, 'u8', attrs=e(b))]),
                   D.Input('union', 'U', attrs=te('U { a: 1 }'), fields=[D.Field('a', 'u8', attrs=e(b)), D.Field('b', 'u16')]),
                   D.Input('union', 'U', attrs=te('U { a: 1 }'), fields=[D.Field('a', 'u8', attrs=e(b))]),
                   D.Input('enum', 'E', attrs=te('E::A'), variants=[D.Variant('A', 'unit', fields=[]), D.Variant('B', 'unnamed', fields=[D.Field(None, 'u8', attrs=e(b))])]),
                   D.Input('enum', 'E', attrs=te('E::A'), variants=[D.Variant('A', 'unit', fields=[]), D.Variant('B', 'named', fields=[D.Field('x', 'u8', attrs=e(b))])])]
            if b == 'Default':
                shp += [D.Input('enum', 'E', attrs=te('E::B(1)'), variants=[D.Variant('A', 'unit', fields=[], attrs=e(b)), D.Variant('B', 'unnamed', fields=[D.Field(None, 'u8')])]),
                        D.Input('enum', 'E', attrs=te('E::A'), variants=[D.Variant('A', 'unit', fields=[], attrs=e(b))])]
            for inp in shp:
                inp.fault = 'grid:default_beside_type_expression'
                cases.append(inp)
    # (E) the name-value shorthand `Debug = name` / `Debug = "name"` (an identifier or a string as the value means
    #     "rename") on a field that Debug shows positionally: tuple fields without `named_field`, or any fields under
    #     `named_field = false` (type level for a struct, variant level for a variant).  The only shorthand accepted
    #     there is a boolean; the name would be dropped.  Controls (accepted, no class): a boolean value, the same
    #     shorthand on a field shown by name.
    e = lambda txt: [D.educe(txt)] if txt else []
    def two(kind, v, at):
        """two fields of the given kind, the shorthand `Debug = v` on field number `at`"""
        names = ('a', 'b') if kind == 'named' else (None, None)
        return [D.Field(names[q], ('u8', 'u16')[q], attrs=e('Debug = %s' % v if q == at else '')) for q in range(2)]
    off = ['Debug(named_field = false)', 'Debug(named_field(false))', 'Debug(name = N, named_field = false)']
    for v in ('first', '"first"', '_x', '"x"', '""', 'false', 'true'):
        for at in (0, 1):
            shp = []
            for tm in ['Debug', 'Debug(name = N)', 'Debug(name = false)', 'Debug, Clone', 'PartialEq, Debug(bound(u8: Copy))'] + off:
                shp.append(D.Input('struct', 'S', attrs=e(tm), fkind='unnamed', fields=two('unnamed', v, at)))
            shp.append(D.Input('struct', 'S', attrs=e('Debug'), fkind='unnamed', fields=two('unnamed', v, at)[at:at + 1]))
            for tm in off + ['Hash, ' + off[0]]:
                shp.append(D.Input('struct', 'S', attrs=e(tm), fkind='named', fields=two('named', v, at)))
            for tm in ('Debug', 'Debug(name = true)', 'Debug, PartialEq'):
                for vm in ['', 'Debug(name = V)', 'Debug(name = false)'] + off:
                    shp.append(D.Input('enum', 'E', attrs=e(tm), variants=[D.Variant('A', 'unit'), D.Variant('B', 'unnamed', fields=two('unnamed', v, at), attrs=e(vm))]))
                    shp.append(D.Input('enum', 'E', attrs=e(tm), variants=[D.Variant('B', 'unnamed', fields=two('unnamed', v, at)[at:at + 1], attrs=e(vm)), D.Variant('C', 'named', fields=two('named', 'c', 2))]))
                for vm in off:
                    shp.append(D.Input('enum', 'E', attrs=e(tm), variants=[D.Variant('A', 'unit'), D.Variant('B', 'named', fields=two('named', v, at), attrs=e(vm))]))
                    shp.append(D.Input('enum', 'E', attrs=e(tm), variants=[D.Variant('B', 'named', fields=two('named', v, at), attrs=e(vm)), D.Variant('C', 'unnamed', fields=two('unnamed', 'c', 2))]))
            if at == 0:
                # controls: the field is shown by name
                shp.append(D.Input('struct', 'S', attrs=e('Debug'), fkind='named', fields=two('named', v, at)))
                shp.append(D.Input('struct', 'S', attrs=e('Debug(named_field = true)'), fkind='unnamed', fields=two('unnamed', v, at)))
                shp.append(D.Input('enum', 'E', attrs=e('Debug'), variants=[D.Variant('B', 'named', fields=two('named', v, at))]))
                shp.append(D.Input('enum', 'E', attrs=e('Debug'), variants=[D.Variant('B', 'unnamed', fields=two('unnamed', v, at), attrs=e('Debug(named_field = true)'))]))
            for inp in shp:
                inp.fault = 'grid:name_on_positional'
                cases.append(inp)
    for inp in cases:
        inp.notes = {}; inp.traits = []
    return cases

def rejections(seed, n, pool=None, must=None, key='rej', kinds=('struct', 'enum', 'union')):
    """the rejection side of a behavioural property: a request in which a field / variant designation that the
    generated code cannot honour (two markers, a parameter where it has no effect, a method where the body is a
    bitwise copy, ...) must be refused, not accepted with the designation dropped.  Same classifiers as C13,
    inputs drawn around the property's own traits."""
    return c13(seed, n, pool=pool, must=must, key=key, kinds=kinds, use_grid=(tuple(kinds) != ('union',)))

def c13_subsets(seed, n):
    """the same rejection test with the macro built under feature subsets (a check that is compiled out together with
    a feature would only show there); classifiers evaluated with the same feature set"""
    r = random.Random('c13s-%d' % seed)
    sets = [[t for t in TWELVE if t != 'Into'],
            sorted(r.sample(TWELVE, r.randrange(3, 9)), key=TWELVE.index),
            sorted(r.sample([t for t in TWELVE if t != 'Into'], r.randrange(2, 6)), key=TWELVE.index)]
    if n >= 20000:
        sets += [sorted(r.sample(TWELVE, r.randrange(1, 11)), key=TWELVE.index) for _ in range(9)]
    hdir = os.path.join(vlib.ROOT, 'harness')
    tdir = os.path.join(vlib.BUILD, 'c13harness')
    env = dict(os.environ, CARGO_NET_OFFLINE='true', CARGO_TARGET_DIR=tdir)
    fails = []
    stats = collections.Counter()
    grid = c13_grid()
    for k, F in enumerate(sets):
        p = vlib.run_cargo(['cargo', 'build', '--offline', '--no-default-features', '--features', ' '.join(F)], cwd=hdir, env=env, timeout=900)
        if p.returncode != 0:
            stats['harness_build_failed'] += 1
            continue
        rr = random.Random('c13s-%d-%d' % (seed, k))
        cases = [('c13s-%d-g%d' % (k, j), c) for j, c in enumerate(grid) if rr.random() < 0.2]
        for i in range(min(n, 1500) // 3):
            c = gen.gen_case('c13s-%d-%d-%d' % (seed, k, i), 0, F, want_fault=(i % 10 != 0))
            cases.append(('c13s-%d-%d' % (k, i), c))
        real = k1.run_real([(i, c.rust()) for i, c in cases], driver=os.path.join(tdir, 'debug', 'k1driver'))
        cls = k1.run_classes([(i, c.sx()) for i, c in cases], features=','.join(F))
        for i, c in cases:
            if i not in cls:
                continue
            allc, modgap, gap = cls[i]
            stats['cases'] += 1
            if outcome(real[i])[0] == 'OK' and modgap:
                fails.append(dict(key='c13:features:' + k1lib_hash(c.rust()), input=c.rust(), features=F, classes=modgap,
                                  what='with features [%s] the request contains %s and is accepted instead of refused' % (' '.join(F), ', '.join(modgap))))
    return fails, [], dict(stats, feature_sets=len(sets))

# ---------------------------------------------------------------- stratified invalid requests
def stratified(seed, n, pool=None, kinds=('struct', 'enum', 'union'), must=None, key='strat', per=14):
    """every KIND of invalid construct the generator knows, evenly: a large pool of one-invalid-construct requests is
    generated (cheap), bucketed by the generator's fault label, and up to `per` requests of every bucket are expanded.
    A request the model refuses (the model's refusals are what the theorems of C13 / C20 are about) and the real macro
    accepts is a failing input; any other disagreement is a K1 difference; a panic is reported for C17."""
    pool = pool or list(gen.GENS.keys())
    buckets = collections.defaultdict(list)
    for i in range(20 * n):
        m1 = [random.Random('%s-must-%d-%d' % (key, seed, i)).choice(list(x)) if isinstance(x, (tuple, list)) else x for x in must] if must else None
        c = gen.gen_case('%s-%d-%d' % (key, seed, i), 0, pool, want_fault=True, kinds=kinds, must=m1)
        if c.fault and len(buckets[c.fault]) < per:
            buckets[c.fault].append(c)
    cases = []
    for lab in sorted(buckets):
        for j, c in enumerate(buckets[lab]):
            cases.append(('%s-%d' % (key, len(cases)), c))
    real = k1.run_real([(i, c.rust()) for i, c in cases])
    model = k1.run_model([(i, c.sx()) for i, c in cases])
    fails, kdiffs = [], []
    stats = collections.Counter(cases=len(cases), fault_kinds=len(buckets))
    view = k1lib.get_view('outcome')
    for i, c in cases:
        r = outcome(real[i]); m = k1lib.classify(model[i], 'model')
        stats['real_' + r[0]] += 1
        if m[0] == 'ERR' and r[0] == 'OK':
            fails.append(dict(key=key + ':' + k1lib_hash(c.rust()), input=c.rust(), fault=c.fault,
                              what='a request with an invalid construct (%s) is accepted; the reference refuses it (%s)' % (c.fault, m[1])))
        elif r[0] == 'PANIC':
            fails.append(dict(key=key + ':panic:' + k1lib_hash(c.rust()), input=c.rust(), fault=c.fault,
                              what='the macro does not return on this input (%s): %s' % (real[i][0], real[i][1][:160])))
        else:
            v, d = k1lib.compare_view(real[i], model[i], view, errkind=False)
            if v == 'diff':
                kdiffs.append(dict(stream=key, case=i, input=c.rust(), detail=d))
    return fails, kdiffs, dict(stats)

# ---------------------------------------------------------------- C03 (ranks that clash must be refused)
def c03(seed, n):
    """two compared fields of one struct / variant with the same rank - both explicit, or an explicit rank equal to the
    DEFAULT rank (isize::MIN + index) of another field, earlier or later - have no defined precedence: refused"""
    import dinput as D
    IMIN = -(1 << 63)
    cases = []
    k = 0
    e = lambda txt: [D.educe(txt)] if txt else []
    for tset, carriers in (('PartialEq, Eq, PartialOrd, Ord', ('Ord', 'PartialOrd')), ('PartialEq, PartialOrd', ('PartialOrd',)), ('PartialEq, Eq, Ord', ('Ord',)),
                           ('Ord, PartialEq, PartialOrd, Eq', ('Ord',))):
        for carrier in carriers:
            for (i, j) in ((0, 1), (0, 2), (1, 2), (2, 0), (1, 0), (2, 1)):
                for clash in ('explicit', 'default'):
                    for form in ('rank = %d', 'rank(%d)', 'rank = "%d"'):
                        attrs = [None, None, None]
                        if clash == 'explicit':
                            attrs[i] = '%s(%s)' % (carrier, form % 5); attrs[j] = '%s(%s)' % (carrier, (form % 5) if form != 'rank = "%d"' else 'rank = 5')
                        else:
                            attrs[i] = '%s(%s)' % (carrier, form % (IMIN + j))       # field i takes field j's default rank
                        for shape in ('named', 'unnamed'):
                            def fields():
                                return [D.Field(('a', 'b', 'c')[q] if shape == 'named' else None, 'u8', attrs=e(attrs[q])) for q in range(3)]
                            cases.append(('c03-%d' % k, D.Input('struct', 'S', attrs=e(tset), fkind=shape, fields=fields()))); k += 1
                            cases.append(('c03-%d' % k, D.Input('enum', 'E', attrs=e(tset), variants=[D.Variant('A', 'unit'), D.Variant('B', shape, fields=fields())]))); k += 1
    real = k1.run_real([(i, c.rust()) for i, c in cases])
    model = k1.run_model([(i, c.sx()) for i, c in cases])
    fails, kdiffs = [], []
    stats = collections.Counter(cases=len(cases))
    for i, c in cases:
        r = outcome(real[i]); m = k1lib.classify(model[i], 'model')
        stats['real_' + r[0]] += 1
        if r[0] == 'OK':
            fails.append(dict(key='c03:' + k1lib_hash(c.rust()), input=c.rust(),
                              what='two compared fields have the same rank (explicit, or explicit = another field\'s default rank) and the request is accepted: one of them silently decides'))
        elif m[0] != r[0]:
            kdiffs.append(dict(stream='c03-grid', case=i, input=c.rust(), detail='outcome class: real %s, model %s' % (r[0], m[0])))
    return fails, kdiffs, dict(stats)

# ---------------------------------------------------------------- C12 (bound = false adds nothing)
def c12(seed, n):
    """`bound = false` / `bound(false)` / `bound = ""`: the where-clause of that trait's impl is exactly the type's own
    where-clause (read off the REAL expansion, no model involved)"""
    import rlex
    cases = []
    for i in range(n):
        c = gen.gen_case('c12-%d-%d' % (seed, i), 0, list(gen.GENS.keys()), want_fault=False, kinds=('struct', 'enum', 'union'))
        cases.append(('c12-%d' % i, c))
    real = k1.run_real([(i, c.rust()) for i, c in cases])
    fails = []
    stats = collections.Counter(cases=len(cases))
    def strip_commas(ts):
        ts = list(ts)
        while ts and ts[-1] == ',':
            ts.pop()
        return ts
    for i, c in cases:
        r = outcome(real[i])
        if r[0] != 'OK':
            continue
        text = ' '.join(a.rust() for a in c.attrs)
        off = set(m.group(1) for m in re.finditer(r'\b(Debug|Clone|Copy|PartialEq|Eq|PartialOrd|Ord|Hash|Default)\s*\((?:[^()]|\([^()]*\))*?\bbound\s*(?:=\s*false|\(\s*false\s*\)|=\s*""|\(\s*""\s*\))', text))
        if not off:
            continue
        try:
            want = strip_commas(rlex.flat(rlex.lex(c.generics.rust_where().replace('where', '', 1)))) if c.generics.rust_where().strip() else []
        except Exception:
            continue
        for key, h, b in k1lib.segments(r[2]):
            if key[0] in off:
                h = list(h)
                got = []
                if 'where' in h:
                    k = len(h) - 1 - h[::-1].index('where')
                    got = strip_commas(h[k + 1:])
                stats['headers_checked'] += 1
                if got != want:
                    fails.append(dict(key='c12:' + k1lib_hash(c.rust() + key[0]), input=c.rust(), trait=key[0],
                                      what='`bound = false` on %s: the impl header carries the where-clause `%s` instead of the type\'s own `%s`' % (key[0], ' '.join(got), ' '.join(want))))
    return fails, [], dict(stats)

# ---------------------------------------------------------------- C04 (discriminants the macro cannot evaluate)
def c04(seed, n):
    """an explicit discriminant that is not an integer literal (optionally negated) cannot be evaluated by the macro:
    it must be refused - accepted, the variant order would follow some other value than the declared one"""
    import dinput as D
    cases = []
    texts = sorted(set(t for k, t in gen.DISCR_BAD)) + ['!-1', '-!1', '!!1', '+1', '1u8 as i64', '0 - 1', '1 << 3', '(-1)', '{ 1 }', 'u8::MAX as isize', 'i64::MIN']
    k = 0
    for tset in ('PartialOrd', 'Ord', 'PartialOrd, Ord', 'Ord, PartialOrd'):
        full = 'PartialEq, Eq, ' + tset if 'Ord' in tset.split(', ') else 'PartialEq, ' + tset
        for text in texts:
            for pos in range(3):
                for shape in ('unit', 'mixed'):
                    for rp in ([], [D.Attr('repr', 'list', 'i64')]):
                        vs = []
                        for j, nm in enumerate(['A', 'B', 'C']):
                            kind, fs = ('unit', []) if shape == 'unit' or j != 1 else ('unnamed', [D.Field(None, 'u8')])
                            vs.append(D.Variant(nm, kind, fields=fs, discr=text if j == pos else None))
                        if shape == 'mixed' and not rp:
                            continue
                        inp = D.Input('enum', 'E', attrs=rp + [D.educe(full)], variants=vs)
                        cases.append(('c04-%d' % k, inp)); k += 1
    real = k1.run_real([(i, c.rust()) for i, c in cases])
    model = k1.run_model([(i, c.sx()) for i, c in cases])
    fails, kdiffs = [], []
    stats = collections.Counter(cases=len(cases))
    view = k1lib.get_view('items:PartialOrd,Ord')
    for i, c in cases:
        r = outcome(real[i]); m = k1lib.classify(model[i], 'model')
        stats['real_' + r[0]] += 1
        if m[0] == 'ERR' and r[0] == 'OK':
            fails.append(dict(key='c04:' + k1lib_hash(c.rust()), input=c.rust(),
                              what='a discriminant expression the macro cannot evaluate is accepted: the generated order follows some other value than the declared discriminant'))
        else:
            v, d = k1lib.compare_view(real[i], model[i], view)
            if v == 'diff':
                kdiffs.append(dict(stream='c04-grid', case=i, input=c.rust(), detail=d))
    return fails, kdiffs, dict(stats)

# ---------------------------------------------------------------- C07 (rejection side)
def c07(seed, n, pool=None):
    """where the generated clone cannot honour a custom clone method (unions: `*self`; structs with Copy: `*self`),
    a field that designates one must be refused: accepted, the field would be copied bitwise instead of through
    its method"""
    cases = []
    for i in range(n):
        c = gen.gen_case('c07-%d-%d' % (seed, i), 0, ['Clone', 'Copy'], want_fault=True,
                         kinds=('union', 'struct', 'union'), must=['Clone'])
        cases.append(('c07-%d' % i, c))
    sel = [(i, c) for i, c in cases if (c.fault or '').startswith('clone_method_refused')]
    real = k1.run_real([(i, c.rust()) for i, c in sel])
    fails = []
    stats = collections.Counter(cases=len(cases), method_where_unusable=len(sel))
    for i, c in sel:
        r = outcome(real[i])
        stats['real_' + r[0]] += 1
        if r[0] == 'OK':
            fails.append(dict(key='c07:' + k1lib_hash(c.rust()), input=c.rust(),
                              what='a field designates a custom clone method on a type whose generated clone is a bitwise copy (%s); the request is accepted and the method is never called' % c.fault.split('@')[1]))
    return fails, [], dict(stats)


# ---------------------------------------------------------------- C20 (rejection side)
def c20(seed, n, pool=None):
    """unions: Debug / PartialEq / Hash without `unsafe` as the first parameter must be refused"""
    pool = [t for t in (pool or list(gen.GENS.keys())) if t in ('Debug', 'PartialEq', 'Hash', 'Clone', 'Default', 'Eq', 'Copy')]
    cases = []
    for i in range(n):
        c = gen.gen_case('c20-%d-%d' % (seed, i), 0, pool, want_fault=(i % 3 != 0), kinds=('union',))
        cases.append(('c20-%d' % i, c))
    real = k1.run_real([(i, c.rust()) for i, c in cases])
    cls = k1.run_classes([(i, c.sx()) for i, c in cases])
    fails = []
    stats = collections.Counter()
    for i, c in cases:
        if i not in cls:
            continue
        allc, modgap, gap = cls[i]
        stats['cases'] += 1
        if 'union_without_unsafe' in allc:
            stats['without_unsafe'] += 1
            if outcome(real[i])[0] == 'OK':
                fails.append(dict(key='c20:' + k1lib_hash(c.rust()), what='a union impl of Debug / PartialEq / Hash is generated without the `unsafe` marker as first parameter', input=c.rust()))
    return fails, [], dict(stats)
