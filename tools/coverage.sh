#!/bin/sh
# Measure which lines of /repo/src the K1 input stream reaches (development aid, not a check):
#   tools/coverage.sh [n cases per seed] [seeds]
# builds the harness with -C instrument-coverage using the NIGHTLY toolchain (its llvm-tools match),
# runs the generated K1 stream through it and prints per-file line coverage and the uncovered lines.
set -e
ROOT=$(cd "$(dirname "$0")/.." && pwd)
N=${1:-6000}; SEEDS=${2:-"1 2 3"}
BIN=/root/.rustup/toolchains/nightly-x86_64-unknown-linux-gnu/lib/rustlib/x86_64-unknown-linux-gnu/bin
T=$ROOT/_build/covtarget; P=$ROOT/_build/cov
rm -rf "$P"; mkdir -p "$P"
cd "$ROOT/harness"
CARGO_NET_OFFLINE=true CARGO_TARGET_DIR=$T RUSTFLAGS="--cfg magiclen_educe_verif -C instrument-coverage" cargo +nightly build --offline 2>&1 | tail -2
cd "$ROOT"
for s in $SEEDS; do
  python3 - "$N" "$s" "$P" <<'PY'
import sys
sys.path.insert(0, 'tools')
import gen, direct, random
n, seed, P = int(sys.argv[1]), int(sys.argv[2]), sys.argv[3]
with open('%s/cases_%d.txt' % (P, seed), 'w') as f:
    for i in range(n):
        c = gen.gen_case('cov-%d-%d' % (seed, i), i % 3, list(gen.GENS.keys()), want_fault=(i % 100) < 35)
        f.write('#CASE %d\n%s\n' % (i, c.rust()))
PY
  LLVM_PROFILE_FILE="$P/k1-$s.profraw" "$T/debug/k1driver" "$P/cases_$s.txt" > /dev/null
done
"$BIN/llvm-profdata" merge -sparse "$P"/*.profraw -o "$P/k1.profdata"
"$BIN/llvm-cov" report "$T/debug/k1driver" -instr-profile="$P/k1.profdata" --ignore-filename-regex='registry|rustc|harness/src' 2>/dev/null | awk '{print $1, $(NF-3), $(NF-2), $(NF-1)}' | column -t | tail -140 > "$P/report.txt"
"$BIN/llvm-cov" show "$T/debug/k1driver" -instr-profile="$P/k1.profdata" --ignore-filename-regex='registry|rustc|harness/src' --show-line-counts-or-regions 2>/dev/null > "$P/show.txt"
tail -3 "$P/report.txt"
echo "per-file report: $P/report.txt ; annotated source: $P/show.txt"
