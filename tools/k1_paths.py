"""K1 on hand-made method paths: every path string below is written in the four spellings of the `method`
parameter (`method(P)`, `method = P`, `method = "P"`, `method("P")`) inside three hosts (last parameter,
followed by another parameter, followed by a trailing comma) and the real macro's answer is compared with the
extracted model's (same comparison as tools/k1.py).  usage: python3 tools/k1_paths.py [-v]"""
import sys, collections
import k1
from dinput import Input, Field, Variant, educe
from rlex import try_lex

PATHS = [
    # valid for Path::parse (type style)
    'm', 'a::b', '::a::b', 'm::<u8>', 'a::b::<T, 4>::c', 'Vec<u8>::new', 'Vec::<u8>::new', '::a::<u8>::b',
    'a::<Vec<Vec<u8>>>::f', "a::<'a>::f", "a::<'a, 'b, T>::f", 'a::<{ 1 }>::f', 'a::<{ 1 + 2 }>', 'a::<{ f(1) }>::g',
    'a::<-1>', 'a::<"s">', 'a::<true>', 'a::<Item = u8>::f', 'a::<>::f', 'a::<u8,>::f', "a::<&'a u8>", "a::<&'a mut u8>",
    'a::<(u8, i8)>', 'a::<()>', 'a::<[u8; 3]>', 'a::<[u8]>', 'a::<fn(u8) -> u8>', "a::<dyn Tr + 'a>", 'a::<impl Tr>',
    'a<u8>', 'a<u8>::b<i8>', 'a::<T::U>', 'a::<<T as Tr>::U>', 'a::<<T>::U>', 'Self::<u8>::f', 'a::<_>', 'a::<!>',
    'a::<*const u8>', 'a::<m!()>', 'a::<m![x]>::f', 'a::<Box<dyn Fn(u8) -> u8>>::f', 'a::<dyn Fn(u8, i8)>',
    'a::<impl FnOnce() -> Vec<u8>>', 'a::<u8, { N }, -2, 1.5, \'c\'>::f', 'r#struct::f', 'a::<r#fn>', 'a::<X<Y<Z>>>',
    'a::<::b::C>', "a::<'static>", 'a::<Item<u8> = u8>', "a::<'a + Tr>", 'a::<(u8,)>', 'a::<((u8))>', 'a::<[u8; N]>',
    'a::<[u8; a::N]>', 'a::<&[u8]>', 'a::<&mut dyn Tr>', 'a::<Option<fn()>>', 'a::<unsafe extern "C" fn(u8)>',
    'a::<dyn Tr + Send>', 'a::<dyn ?Sized + Tr>', 'a::<(dyn Tr)>', 'a::<Tr + Send>', 'a::<*mut [u8; 2]>',
    # outside the model's type recogniser (constraints, associated constants, binders, computed lengths)
    'a::<T: Clone>::f', 'a::<N = 3>', 'a::<N = { 3 }>', "a::<for<'a> fn(&'a u8)>", "a::<dyn for<'a> Tr<'a>>",
    'a::<[u8; 1 + 2]>', 'a::<fn(u8, ...)>', 'a::<dyn* Tr>',
    # refused by Path::parse
    'a::<', 'a::<u8', 'a<>b', '::<u8>', 'a::', '::', 'a::<u8>>', 'a::<,>', 'a::<u8 i8>', '<T as Tr>::f', '<T>::f',
    'a::<u8>::', 'a b', 'a::<u8>::<i8>', 'a::1', 'a::(u8)', 'Fn(u8) -> u8', 'a::Fn(u8, i8) -> u8', 'Fn(u8)', 'Fn(u8)::f',
    'Fn::(u8)', 'struct::f', 'a::<struct>', 'a -> b', 'self::<u8>', 'self::<u8>::f', 'crate<u8>::f', 'super<u8>',
    'a::<u8,,>', "a::<'a 'b>", 'a::<u8>::b::', 'a<', 'a>', '<', '>', 'a::<u8>b', 'a::<{ 1 }', 'a::<{ }>', 'a::<{ 1 2 }>',
    'a::<- x>', 'a::<1 + 2>', 'a::<u8>(1)', 'a::<dyn>', 'a::<impl>', 'a::<&>', 'a::<[u8; ]>', 'a::<= u8>', 'a::<T = >',
    'a::<T =, u8>', 'a!', 'a::<u8>!', 'a::b!()', '_', 'a::_', 'a::<u8>.f', 'a<u8>()', 'Self', 'a::Self', 'a::self',
    'a::<u8> ::b ::<i8>', 'a<=b', 'a<<=b', 'a::<<=b>',
]

def hosts(form):
    h = []
    i = Input('struct', 'S', attrs=[educe('PartialEq')], fkind='named',
              fields=[Field('a', 'u8', [educe('PartialEq(%s)' % form)]), Field('b', 'u8')])
    h.append(('last', i))
    i = Input('struct', 'S', attrs=[educe('Debug')], fkind='named',
              fields=[Field('a', 'u8', [educe('Debug(%s, name = "k")' % form)])])
    h.append(('then-param', i))
    i = Input('enum', 'E', attrs=[educe('Hash')],
              variants=[Variant('A', 'unnamed', [Field(None, 'u8', [educe('Hash(%s,)' % form)])])])
    h.append(('trailing-comma', i))
    return h

def main():
    verbose = '-v' in sys.argv
    cases = []
    for p in PATHS:
        for fk, f in enumerate(['method(%s)', 'method = %s', 'method = "%s"', 'method("%s")']):
            form = f % p
            if try_lex(form) is None:
                continue
            for hn, inp in hosts(form):
                cases.append(('%s|%d|%s' % (p, fk, hn), inp))
    real = k1.run_real([(i, c.rust()) for i, c in cases])
    model = k1.run_model([(i, c.sx()) for i, c in cases])
    stats = collections.Counter()
    per_path = collections.defaultdict(list)
    for i, c in cases:
        v, d = k1.compare(real[i], model[i])
        stats[v] += 1
        stats['real_' + real[i][0]] += 1
        if v == 'ood':
            stats['ood:' + d] += 1
        per_path[i.split('|')[0]].append((i, v, real[i][0], model[i][0], d))
        if v == 'diff':
            print('--- DIFF %s\n%s\n%s' % (i, c.rust(), d))
    if verbose:
        for p in PATHS:
            print('%-40s %s' % (p, ' '.join('%s%s' % (r[2][0], {'same': '', 'ood': '?', 'diff': '!'}[r[1]])
                                              for r in per_path[p])))
    print(len(PATHS), 'paths;', dict(stats))
    return 1 if stats['diff'] else 0

if __name__ == '__main__':
    sys.exit(main())
