"""K1: token-level differential correspondence between /repo's educe (in-process, built from
the working tree by harness/) and the extracted Coq model (ocaml/modeldriver)."""
import os, re, subprocess, sys, json, collections, time
import gen

ROOT = os.path.dirname(os.path.dirname(os.path.abspath(__file__)))
K1DRIVER = os.path.join(ROOT, 'harness/target/debug/k1driver')
MODEL = os.path.join(ROOT, 'ocaml/modeldriver')
SEP = '\x1f'

ERR_TABLE = [
    (r'^unsupported trait', 'E_unsupported_trait'),
    (r'^the trait `.*` is used repeatedly', 'E_reuse_trait'),
    (r'^you are using an incorrect format of the `educe` attribute', 'E_educe_format'),
    (r'^the trait `.*` is not used', 'E_trait_not_used'),
    (r'^you are using an incorrect format of the `.*` attribute', 'E_attr_format'),
    (r'^the `.*` attribute cannot be placed here', 'E_attr_format'),
    (r'^you are trying to reset the `.*` parameter', 'E_param_reset'),
    (r'has not been set up yet', 'E_not_set_up'),
    (r'does not support to a union', 'E_no_union'),
    (r'cannot be implemented for an enum which has unit variants', 'E_no_unit_variant'),
    (r'^a unit struct needs to have a name', 'E_debug_unit_struct_name'),
    (r'^a unit variant which', 'E_debug_unit_variant_name'),
    (r'^a unit enum needs to have a name', 'E_debug_unit_enum_name'),
    (r"^a union's `", 'E_union_without_unsafe'),
    (r'^multiple default fields are set', 'E_default_multi_fields'),
    (r'^there is no field set as default', 'E_default_no_field'),
    (r'^multiple default variants are set', 'E_default_multi_variants'),
    (r'^there is no variant set as default', 'E_default_no_variant'),
    (r'^multiple fields (of the `.*` variant )?are set for `Deref`', 'E_deref_multi'),
    (r'^there is no field (for the `.*` variant )?which is assigned for `Deref`', 'E_deref_none'),
    (r'^multiple fields (of the `.*` variant )?are set for `DerefMut`', 'E_deref_mut_multi'),
    (r'^there is no field (for the `.*` variant )?which is assigned for `DerefMut`', 'E_deref_mut_none'),
    (r'^the type `.*` is repeatedly set', 'E_into_reset_type'),
    (r'^there is no field which is assigned for `Into<', 'E_into_no_field'),
    (r'^if you want to impl `Into<', 'E_into_no_impl'),
    (r'^multiple fields are set for `Into<', 'E_into_multi'),
    (r'^the rank `.*` is repeatedly used', 'E_rank_reuse'),
    (r'^not an integer$', 'E_not_integer'),
    (r'^(not a literal|this operation is not allow here)$', 'E_discriminant'),
    (r'^(number too (large|small) to fit in target type|invalid digit found in string|cannot parse integer from empty string)$', 'E_int_parse'),
]
ERR_TABLE = [(re.compile(a), b) for a, b in ERR_TABLE]

def err_kind(msg):
    for rx, k in ERR_TABLE:
        if rx.search(msg):
            return k
    return 'E_syn'

def run_real(cases, repeat=1, workdir=None, driver=None):
    """cases: list of (id, rust source).  returns {id: (class, payload)}; crashes / hangs are
    attributed to the case that was running (class CRASH / TIMEOUT)."""
    out = {}
    todo = list(cases)
    workdir = workdir or os.path.join(ROOT, '_build/k1')
    os.makedirs(workdir, exist_ok=True)
    path = os.path.join(workdir, 'cases_%d.txt' % os.getpid())
    stops = 0
    while todo:
        if stops >= 4:
            # the driver died or hung four times in this batch: report the rest as not run instead of paying a
            # time-out for every remaining input (a hang on a common input shape would otherwise take hours)
            for cid, src in todo:
                out[cid] = ('ABORTED', 'not run: the driver crashed or hung %d times in this batch' % stops)
            break
        with open(path, 'w') as f:
            for cid, src in todo:
                f.write('#CASE %s\n%s\n' % (cid, src))
        cmd = [driver or K1DRIVER, path]
        if repeat > 1:
            cmd += ['--repeat', str(repeat)]
        try:
            p = subprocess.run(cmd, stdin=subprocess.DEVNULL, capture_output=True, text=True, timeout=12 + len(todo) // 60)
            stdout, rc = p.stdout, p.returncode
        except subprocess.TimeoutExpired as e:
            stdout, rc = (e.stdout or b'').decode() if isinstance(e.stdout, bytes) else (e.stdout or ''), 'timeout'
        begun = None
        for line in stdout.split('\n'):
            if line.startswith('#BEGIN\t'):
                begun = line.split('\t', 1)[1]
                continue
            parts = line.split('\t', 2)
            if len(parts) == 3:
                out[parts[0]] = (parts[1], parts[2])
                if parts[0] == begun:
                    begun = None
        if rc == 0:
            break
        # the driver died or hung while running `begun`
        if begun is None:
            raise RuntimeError('k1driver failed without a running case: rc=%s' % rc)
        out[begun] = ('TIMEOUT' if rc == 'timeout' else 'CRASH', 'rc=%s' % rc)
        stops += 1
        idx = [c[0] for c in todo].index(begun)
        todo = todo[idx + 1:]
    os.unlink(path)
    return out

def run_model(cases, features='ALL'):
    """cases: list of (id, sexp).  returns {id: (class, payload)}"""
    inp = ''.join('%s\t%s\t%s\n' % (cid, features, sx) for cid, sx in cases)
    p = subprocess.run([MODEL], input=inp, capture_output=True, text=True)
    if p.returncode != 0:
        raise RuntimeError('modeldriver failed: ' + p.stderr[-2000:])
    out = {}
    for line in p.stdout.split('\n'):
        parts = line.split('\t', 2)
        if len(parts) == 3:
            out[parts[0]] = (parts[1], parts[2])
    return out

# ---- Into: the real handler iterates a HashMap of targets, so the order of its
# `impl ... ::core::convert::Into<..> for ..` items varies from run to run.  When an output
# holds several such items they are compared as a multiset (sorted in place, at the
# positions they occupy); every other item keeps its exact position.
_OPEN, _CLOSE = '([{', ')]}'
def split_items(toks):
    """top-level items of a flat token list: an item ends with its top-level {...} body, i.e. a
    top-level `}` followed by nothing or by the start of the next item (`impl` / `#`); a
    top-level brace group inside a header (`Foo<{ 1 + 2 }>`) is followed by something else"""
    items, cur, depth = [], [], 0
    for k, t in enumerate(toks):
        cur.append(t)
        if len(t) == 1 and t in _OPEN:
            depth += 1
        elif len(t) == 1 and t in _CLOSE:
            depth -= 1
            if depth == 0 and t == '}' and (k + 1 == len(toks) or toks[k + 1] in ('impl', '#')):
                items.append(cur)
                cur = []
    if cur:
        items.append(cur)
    return items

_INTO_PATH = [':', ':', 'core', ':', ':', 'convert', ':', ':', 'Into', '<']
def is_into_item(item):
    if not item or item[0] != 'impl':
        return False
    i = 1
    if i < len(item) and item[i] == '<':          # impl generics
        depth = 0
        while i < len(item):
            if item[i] == '<':
                depth += 1
            elif item[i] == '>' and item[i - 1] != '-':
                depth -= 1
                if depth == 0:
                    i += 1
                    break
            i += 1
    return item[i:i + len(_INTO_PATH)] == _INTO_PATH

def canon_into_order(toks):
    items = split_items(toks)
    pos = [i for i, it in enumerate(items) if is_into_item(it)]
    if len(pos) < 2:
        return toks
    for i, it in zip(pos, sorted(items[i] for i in pos)):
        items[i] = it
    return [t for it in items for t in it]

def run_classes(cases, features='ALL'):
    """cases: list of (id, sexp) -> {id: (all classes, classes modulo the known gap, gap?)}  (Spec/Invalid.v, extracted)"""
    inp = ''.join('CLASSES\t%s\t%s\t%s\n' % (cid, features, sx) for cid, sx in cases)
    p = subprocess.run([MODEL], input=inp, capture_output=True, text=True)
    if p.returncode != 0:
        raise RuntimeError('modeldriver failed: ' + p.stderr[-2000:])
    out = {}
    for line in p.stdout.split('\n'):
        parts = line.split('\t', 2)
        if len(parts) == 3 and parts[1] == 'CLASSES' and parts[2] != 'BADINPUT':
            a, b, g = parts[2].split('|')
            out[parts[0]] = ([x for x in a.split(',') if x], [x for x in b.split(',') if x], g == 'gap')
    return out

def compare(real, model):
    """returns (verdict, detail): verdict in same | ood | diff"""
    rc, rp = real
    mc, mp = model
    if mc == 'OOD' or mc == 'BADINPUT':
        return ('ood', mp)
    if rc == 'OK':
        if mc == 'OK' and rp == mp:
            return ('same', '')
        if mc == 'OK':
            a, b = rp.split(SEP), mp.split(SEP)
            a2, b2 = canon_into_order(a), canon_into_order(b)
            if a2 == b2:
                return ('same', '')
            if sorted(a) == sorted(b):
                a, b = a2, b2
            i = 0
            while i < min(len(a), len(b)) and a[i] == b[i]:
                i += 1
            return ('diff', 'tokens differ at %d: real …%s | model …%s' % (i, ' '.join(a[max(0, i - 6):i + 8]), ' '.join(b[max(0, i - 6):i + 8])))
        return ('diff', 'real OK, model %s %s' % (mc, mp))
    if rc == 'ERR':
        k = err_kind(rp.split(' || ')[0])
        # the model lists, after `|`, the errors of the other failing Into targets (see above)
        if mc == 'ERR' and k in mp.split('|'):
            return ('same', '')
        return ('diff', 'real ERR %s (%s), model %s %s' % (k, rp[:80], mc, mp[:80]))
    if rc in ('PANIC', 'CRASH', 'TIMEOUT'):
        if mc == 'PANIC':
            return ('same', '')
        return ('diff', 'real %s %s, model %s %s' % (rc, rp[:80], mc, mp[:80]))
    return ('diff', 'real %s' % rc)

def main():
    import argparse
    ap = argparse.ArgumentParser()
    ap.add_argument('-n', type=int, default=300)
    ap.add_argument('--seed', type=int, default=0)
    ap.add_argument('--traits', default=None, help='comma separated: restrict the trait pool')
    ap.add_argument('--faults', type=float, default=0.3, help='share of cases with one invalid construct')
    ap.add_argument('--show', type=int, default=5)
    ap.add_argument('--kinds', default='struct,enum,union')
    a = ap.parse_args()
    pool = a.traits.split(',') if a.traits else list(gen.GENS.keys())
    cases = []
    for i in range(a.n):
        c = gen.gen_case('%d-%d' % (a.seed, i), 0, pool, want_fault=(i % 100) < a.faults * 100,
                         kinds=tuple(a.kinds.split(',')))
        cases.append((str(i), c))
    t0 = time.time()
    real = run_real([(i, c.rust()) for i, c in cases])
    t1 = time.time()
    model = run_model([(i, c.sx()) for i, c in cases])
    t2 = time.time()
    stats = collections.Counter()
    shown = 0
    for i, c in cases:
        v, d = compare(real[i], model[i])
        stats[v] += 1
        stats['real_' + real[i][0]] += 1
        if v == 'ood':
            stats['ood:' + d] += 1
        if v == 'diff' and shown < a.show:
            shown += 1
            print('--- case %s fault=%s\n%s\n%s' % (i, c.fault, c.rust(), d))
    print(dict(stats))
    print('real %.1fs model %.1fs' % (t1 - t0, t2 - t1))
    return 1 if stats['diff'] else 0

if __name__ == '__main__':
    sys.exit(main())
