#!/bin/sh
# run every quick check for several seeds on the (unchanged) tree and list anything that is not OK:
#   tools/sweep.sh "1 2 3"
cd "$(dirname "$0")/.."
for s in ${1:-1 2 3}; do
  for p in C01 C02 C03 C04 C05 C06 C07 C08 C09 C10 C11 C12 C13 C14 C15 C16 C17 C18 C19 C20; do
    out=$(VERIF_SEED=$s ./check $p 2>&1)
    rc=$?
    line=$(echo "$out" | grep " tier=" | cut -c1-150)
    echo "seed=$s rc=$rc $line"
    if [ $rc -ne 0 ]; then echo "$out" | grep VIOLATION | head -3; fi
  done
done
