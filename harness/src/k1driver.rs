//! K1 driver: expands derive inputs with /repo's educe in-process and prints flattened tokens.
//!
//! Input (stdin or file argument): blocks
//!     #CASE <id>
//!     <rust source of one derive input, any number of lines>
//! Output, one line per case:  <id> \t OK|ERR|PANIC \t payload
//! payload for OK: tokens joined by 0x1f; for ERR: the messages joined by " || "; PANIC: panic message.
//! `--repeat N` expands each case N times in-process and reports NONDET if outputs differ.
use std::io::{Read, Write};
use std::panic;

use proc_macro2::{Delimiter, TokenStream, TokenTree};

fn flatten(ts: TokenStream, out: &mut Vec<String>) {
    for tt in ts {
        match tt {
            TokenTree::Group(g) => {
                let (o, c) = match g.delimiter() {
                    Delimiter::Parenthesis => ("(", ")"),
                    Delimiter::Brace => ("{", "}"),
                    Delimiter::Bracket => ("[", "]"),
                    Delimiter::None => ("\u{27e6}", "\u{27e7}"),
                };
                out.push(o.to_string());
                flatten(g.stream(), out);
                out.push(c.to_string());
            },
            TokenTree::Ident(i) => out.push(i.to_string()),
            TokenTree::Punct(p) => out.push(p.as_char().to_string()),
            TokenTree::Literal(l) => out.push(l.to_string()),
        }
    }
}

fn run_one(src: &str) -> (String, String) {
    let ts: TokenStream = match src.parse() {
        Ok(ts) => ts,
        Err(e) => return ("LEXERR".to_string(), e.to_string()),
    };
    let r = panic::catch_unwind(|| educe::verif_expand(ts));
    match r {
        Ok(Ok(ts)) => {
            let mut v = Vec::new();
            flatten(ts, &mut v);
            ("OK".to_string(), v.join("\u{1f}"))
        },
        Ok(Err(e)) => {
            let msgs: Vec<String> = e.into_iter().map(|e| e.to_string().replace('\n', "\\n")).collect();
            ("ERR".to_string(), msgs.join(" || "))
        },
        Err(p) => {
            let msg = if let Some(s) = p.downcast_ref::<&str>() {
                s.to_string()
            } else if let Some(s) = p.downcast_ref::<String>() {
                s.clone()
            } else {
                "?".to_string()
            };
            ("PANIC".to_string(), msg.replace('\n', "\\n"))
        },
    }
}

fn main() {
    let args: Vec<String> = std::env::args().collect();
    let mut repeat = 1usize;
    let mut file: Option<String> = None;
    let mut i = 1;
    while i < args.len() {
        if args[i] == "--repeat" {
            repeat = args[i + 1].parse().unwrap();
            i += 2;
        } else {
            file = Some(args[i].clone());
            i += 1;
        }
    }
    let mut input = String::new();
    match file {
        Some(f) => input = std::fs::read_to_string(f).unwrap(),
        None => {
            std::io::stdin().read_to_string(&mut input).unwrap();
        },
    }
    panic::set_hook(Box::new(|_| {}));
    let stdout = std::io::stdout();
    let mut out = stdout.lock();
    let mut cur_id: Option<String> = None;
    let mut cur = String::new();
    let flush = |id: &Option<String>, src: &str, out: &mut dyn Write| {
        if let Some(id) = id {
            // progress marker first, so a crash / hang can be attributed to this case
            writeln!(out, "#BEGIN\t{}", id).unwrap();
            out.flush().unwrap();
            let (class, payload) = run_one(src);
            let mut class = class;
            for _ in 1..repeat {
                let (c2, p2) = run_one(src);
                if c2 != class || p2 != payload {
                    class = "NONDET".to_string();
                }
            }
            writeln!(out, "{}\t{}\t{}", id, class, payload).unwrap();
        }
    };
    for line in input.lines() {
        if let Some(rest) = line.strip_prefix("#CASE ") {
            flush(&cur_id, &cur, &mut out);
            cur_id = Some(rest.trim().to_string());
            cur.clear();
        } else {
            cur.push_str(line);
            cur.push('\n');
        }
    }
    flush(&cur_id, &cur, &mut out);
}
