(* K1/K2 driver for the extracted model.
   stdin: one case per line:   <id> TAB <features: comma separated trait names or ALL> TAB <sexp of dinput>
   stdout: <id> TAB OK|ERR|PANIC|OOD TAB payload   (payload for OK: tokens joined by 0x1f) *)
open Model

type sexp = A of string | S of string | L of sexp list

let parse_sexp (s : string) : sexp =
  let n = String.length s in
  let pos = ref 0 in
  let rec skip () = if !pos < n && (s.[!pos] = ' ' || s.[!pos] = '\n') then (incr pos; skip ()) in
  let rec one () : sexp =
    skip ();
    if !pos >= n then failwith "sexp: eof";
    match s.[!pos] with
    | '(' -> incr pos; let items = ref [] in
      let rec loop () = skip ();
        if !pos >= n then failwith "sexp: unclosed";
        if s.[!pos] = ')' then incr pos else (items := one () :: !items; loop ()) in
      loop (); L (List.rev !items)
    | '"' -> incr pos; let b = Buffer.create 16 in
      let rec loop () =
        if !pos >= n then failwith "sexp: unclosed string";
        let c = s.[!pos] in
        if c = '"' then incr pos
        else if c = '\\' then (Buffer.add_char b s.[!pos+1]; pos := !pos + 2; loop ())
        else (Buffer.add_char b c; incr pos; loop ()) in
      loop (); S (Buffer.contents b)
    | _ -> let st = !pos in
      while !pos < n && s.[!pos] <> ' ' && s.[!pos] <> ')' && s.[!pos] <> '(' do incr pos done;
      A (String.sub s st (!pos - st))
  in one ()

let rec pos_of_int (n : int) : positive =
  if n = 1 then XH else if n land 1 = 1 then XI (pos_of_int (n lsr 1)) else XO (pos_of_int (n lsr 1))
(* integers arrive as decimal strings possibly beyond 63 bits: go through Z arithmetic by hand *)
let z_of_string (s : string) : z =
  (* binary conversion of a decimal string using repeated division by 2 *)
  let neg = String.length s > 0 && s.[0] = '-' in
  let digits = if neg then String.sub s 1 (String.length s - 1) else s in
  let d = Array.init (String.length digits) (fun i -> Char.code digits.[i] - 48) in
  let is_zero a = Array.for_all (fun x -> x = 0) a in
  let div2 a = let r = ref 0 in
    Array.iteri (fun i x -> let v = !r * 10 + x in a.(i) <- v / 2; r := v mod 2) a; !r in
  let bits = ref [] in
  while not (is_zero d) do bits := div2 d :: !bits done;
  (* !bits : most significant first *)
  match !bits with
  | [] -> Z0
  | _ :: rest ->
    let p = List.fold_left (fun acc b -> if b = 1 then XI acc else XO acc) XH rest in
    if neg then Zneg p else Zpos p

let str = function S s -> s | A s -> s | _ -> failwith "expected string"
let boolean = function A "true" -> true | A "false" -> false | _ -> failwith "expected bool"
let delim = function A "p" -> Paren | A "b" -> Brace | A "k" -> Bracket | _ -> failwith "delim"
let opt f = function A "None" -> None | L [A "Some"; x] -> Some (f x) | _ -> failwith "option"
let list f = function L l -> List.map f l | _ -> failwith "list"

let litkind = function
  | L [A "Int"; v; suf] -> LKInt (z_of_string (str v), str suf)
  | L [A "Float"; suf] -> LKFloat (str suf)
  | A "Char" -> LKChar | A "Byte" -> LKByte | A "ByteStr" -> LKByteStr | A "CStr" -> LKCStr
  | _ -> failwith "litkind"

let rec tt = function
  | L [A "I"; s] -> TIdent (str s)
  | L [A "P"; s] -> TPunct (str s)
  | L [A "L"; s] -> TLife (str s)
  | L [A "Lit"; k; text] -> TLit (litkind k, str text)
  | L [A "Str"; text; value; relex] -> TStr (str text, str value, opt toks relex)
  | L [A "G"; d; ts] -> TGroup (delim d, toks ts)
  | _ -> failwith "tt"
and toks x = list tt x

let ameta = function
  | A "Path" -> AMPath
  | L [A "NV"; ts] -> AMNameValue (toks ts)
  | L [A "List"; d; ts] -> AMList (delim d, toks ts)
  | _ -> failwith "ameta"
let attr = function
  | L [A "attr"; p; m] -> { a_path = list str p; a_meta = ameta m }
  | _ -> failwith "attr"
let field = function
  | L [A "field"; attrs; name; ty] ->
    { f_attrs = list attr attrs; f_name = opt str name; f_ty = toks ty }
  | _ -> failwith "field"
let fields = function
  | L [A "Named"; l] -> FNamed (list field l)
  | L [A "Unnamed"; l] -> FUnnamed (list field l)
  | A "Unit" -> FUnit
  | _ -> failwith "fields"
let variant = function
  | L [A "variant"; attrs; name; fs; discr] ->
    { v_attrs = list attr attrs; v_name = str name; v_fields = fields fs; v_discr = opt toks discr }
  | _ -> failwith "variant"
let data = function
  | L [A "Struct"; fs] -> DStruct (fields fs)
  | L [A "Enum"; vs] -> DEnum (list variant vs)
  | L [A "Union"; fs] -> DUnion (list field fs)
  | _ -> failwith "data"
let gparam = function
  | L [A "Life"; n; b] -> GLife (str n, toks b)
  | L [A "Type"; n; b; d] -> GType (str n, toks b, opt toks d)
  | L [A "Const"; n; t; d] -> GConst (str n, toks t, opt toks d)
  | _ -> failwith "gparam"
let generics = function
  | L [A "generics"; ps; tr; wh; wtr] ->
    { g_params = list gparam ps; g_trailing = boolean tr; g_where = list toks wh;
      g_where_trailing = boolean wtr }
  | _ -> failwith "generics"
let dinput = function
  | L [A "dinput"; attrs; name; g; d] ->
    { d_attrs = list attr attrs; d_name = str name; d_generics = generics g; d_data = data d }
  | _ -> failwith "dinput"

(* values for the behavioural cross-check:  (D None|(Some "V") ((key z) ...))  with z a decimal integer *)
let value_of = function
  | L [A "D"; vn; L fs] ->
    VData (opt str vn, List.map (function L [k; (A _ | S _) as z] -> (str k, VAtom (z_of_string (str z))) | _ -> failwith "field") fs)
  | _ -> failwith "value"
(* values whose fields may be references (deref suite):  (key (R z))  is a reference to the root "*key" of the
   heap, which holds the atom z; returns the value and that heap *)
let value_heap_of = function
  | L [A "D"; vn; L fs] ->
    let heap = ref [] in
    let v = VData (opt str vn, List.map (function
      | L [k; L [A "R"; z]] ->
        let root = "*" ^ str k in
        heap := (root, VAtom (z_of_string (str z))) :: !heap;
        (str k, VRef { pl_root = root; pl_path = [] })
      | L [k; z] -> (str k, VAtom (z_of_string (str z)))
      | _ -> failwith "field") fs) in
    (v, List.rev !heap)
  | _ -> failwith "value"
let cmp_char = function Lt -> 'L' | Eq -> 'E' | Gt -> 'G'
(* union values (C20 cross-check): the object representation, a list of bytes  (b0 b1 ...)  in decimal *)
let rec nat_of_int (n : int) : nat = if n <= 0 then O else S (nat_of_int (n - 1))
let rec int_of_nat = function O -> 0 | S n -> 1 + int_of_nat n
let bytes_of = function
  | L bs -> List.map (function (A _ | S _) as z ->
      let n = int_of_string (str z) in
      if n < 0 || n > 255 then failwith "byte" else nat_of_int n | _ -> failwith "byte") bs
  | _ -> failwith "bytes"
(* `{:?}` of a byte slice, as the harness prints the clone's bytes *)
let show_bytes (l : nat list) : string = "[" ^ String.concat ", " (List.map (fun n -> string_of_int (int_of_nat n)) l) ^ "]"

let features (s : string) : trait list =
  if s = "ALL" then all_traits
  else
    let names = String.split_on_char ',' s in
    List.filter (fun t -> List.mem (trait_name t) names) all_traits

let () =
  try
    while true do
      let line = input_line stdin in
      match String.split_on_char '\t' line with
      | "RUN" :: id :: op :: sx :: vsx :: extra ->
        (try
           let d = dinput (parse_sexp sx) in
           let is_ref_op = (op = "deref" || op = "deref_mut" || op = "deref_mut_write") in
           let vhs = (match parse_sexp vsx with L l when is_ref_op -> List.map value_heap_of l | _ -> []) in
           let is_union_op = (String.length op >= 6 && String.sub op 0 6 = "union_") in
           let bs = (match parse_sexp vsx with L l when is_union_op -> List.map bytes_of l | _ -> []) in
           let vs = (match parse_sexp vsx with L l -> if is_ref_op || is_union_op then [] else List.map value_of l | _ -> failwith "values") in
           let b = Buffer.create 256 in
           let each f l = List.iter (fun a -> Buffer.add_string b (match f a with Some t -> t | None -> "?"); Buffer.add_char b '\001') l in
           (match op with
            | "default" -> each (fun () -> model_default d) [()]
            | "deref" -> each (fun (v, h) -> model_deref d v h) vhs
            | "deref_mut" -> each (fun (v, h) -> model_deref_mut d v h) vhs
            | "deref_mut_write" -> each (fun (v, h) -> model_deref_mut_write d v h) vhs
            | _ when String.length op >= 4 && String.sub op 0 4 = "into" ->
              (* the target type's tokens come as a sixth field *)
              let target = (match extra with [tsx] -> toks (parse_sexp tsx) | _ -> failwith "into: target") in
              each (fun v -> model_into d target v) vs
            | "union_eq" -> List.iter (fun a -> List.iter (fun x ->
                Buffer.add_char b (match model_union_eq d a x with Some true -> '1' | Some false -> '0' | None -> '?')) bs) bs
            | "union_hash" -> List.iter (fun a ->
                Buffer.add_string b (match model_union_hash d a with Some l -> String.concat "," l | None -> "?"); Buffer.add_char b ';') bs
            | "union_debug" | "union_debug_alt" -> List.iter (fun a ->
                Buffer.add_string b (match model_union_debug (op = "union_debug_alt") d a with Some t -> String.escaped t | None -> "?"); Buffer.add_char b '\001') bs
            | "union_clone" -> List.iter (fun a ->
                Buffer.add_string b (match model_union_clone d a with Some l -> show_bytes l | None -> "?"); Buffer.add_char b '\001') bs
            | "eq" -> List.iter (fun a -> List.iter (fun x ->
                Buffer.add_char b (match model_eq d a x with Some true -> '1' | Some false -> '0' | None -> '?')) vs) vs
            | "cmp" -> List.iter (fun a -> List.iter (fun x ->
                Buffer.add_char b (match model_cmp d a x with Some c -> cmp_char c | None -> '?')) vs) vs
            | "partial_cmp" -> List.iter (fun a -> List.iter (fun x ->
                Buffer.add_char b (match model_partial_cmp d a x with Some (Some c) -> cmp_char c | Some None -> 'N' | None -> '?')) vs) vs
            | "debug" | "debug_alt" -> List.iter (fun a ->
                Buffer.add_string b (match model_debug (op = "debug_alt") d a with Some t -> String.escaped t | None -> "?"); Buffer.add_char b '\001') vs
            | "clone" -> List.iter (fun a ->
                Buffer.add_string b (match model_clone d a with Some t -> t | None -> "?"); Buffer.add_char b '\001') vs
            | "clone_from" -> List.iter (fun a -> List.iter (fun x ->
                Buffer.add_string b (match model_clone_from d a x with Some t -> t | None -> "?"); Buffer.add_char b '\001') vs) vs
            | "hash" -> List.iter (fun a ->
                Buffer.add_string b (match model_hash d a with Some l -> String.concat "," l | None -> "?"); Buffer.add_char b ';') vs
            | _ -> failwith "op");
           print_string id; print_string "\tRUN\t"; print_string (Buffer.contents b); print_newline ()
         with Failure m -> (print_string id; print_string "\tRUN\tBADINPUT "; print_string m; print_newline ()))
      | ["CLASSES"; id; feats; sx] ->
        (try
           let d = dinput (parse_sexp sx) in
           let f = features feats in
           print_string id; print_char '\t'; print_string "CLASSES"; print_char '\t';
           print_string (String.concat "," (invalid_classes f d)); print_char '|';
           print_string (String.concat "," (invalid_classes_modulo_gap f d)); print_char '|';
           print_string (if known_gap f d then "gap" else ""); print_newline ()
         with Failure m -> (print_string id; print_string "\tCLASSES\tBADINPUT"; print_newline ()))
      | [id; feats; sx] ->
        let (cls, payload) =
          (try
             let d = dinput (parse_sexp sx) in
             match expand_flat (features feats) d with
             | Ok l -> ("OK", String.concat "\x1f" l)
             | Err e -> ("ERR", err_name e)
             | Panic _ -> ("PANIC", "")
             | OutOfDomain w -> ("OOD", w)
           with Failure m -> ("BADINPUT", m)) in
        print_string id; print_char '\t'; print_string cls; print_char '\t';
        print_string payload; print_newline ()
      | _ -> ()
    done
  with End_of_file -> ()
