#!/bin/sh
# exit 0: the macro reported the rank collision as a diagnostic; non-zero: it panicked (or did something else)
cd "$(dirname "$0")"
out=$(CARGO_NET_OFFLINE=true cargo build --offline </dev/null 2>&1)
echo "$out" | grep -E "panicked|error" 
if echo "$out" | grep -q "panicked"; then
    echo "VIOLATION: the derive macro panicked"
    exit 1
fi
if echo "$out" | grep -q "is repeatedly used"; then
    echo "OK: diagnostic reported"
    exit 0
fi
echo "UNEXPECTED: no rank diagnostic"
exit 2
