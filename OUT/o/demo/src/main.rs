// An explicit rank on the first field which equals the default rank of the second field
// (default ranks are `isize::MIN + index`).  This is invalid input: the macro has to refuse it with
// a diagnostic ("the rank `..` is repeatedly used"), it must not panic.
use educe::Educe;

#[derive(Educe)]
#[educe(Ord)]
pub struct S {
    #[educe(Ord(rank = -9223372036854775807))]
    a: u8,
    b: u8,
}

fn main() {}
