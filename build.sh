#!/bin/sh
# Build everything the checks need from files on disk (offline):
#   coq project (model, semantics, specs, proofs, property files) -> extraction -> OCaml model driver
#   harness (in-process build of /repo's educe under --cfg magiclen_educe_verif) -> k1driver
# usage: ./build.sh [coq|ocaml|harness|all]   (default all)
set -e
ROOT=$(cd "$(dirname "$0")" && pwd)
what=${1:-all}
export CARGO_NET_OFFLINE=true
build_coq() {
  cd "$ROOT/coq"
  [ -f Makefile ] && [ Makefile -nt _CoqProject ] || coq_makefile -f _CoqProject -o Makefile >/dev/null
  mkdir -p "$ROOT/_build"
  set +e
  timeout 3000 make -j16 > "$ROOT/_build/coq_make.log" 2>&1
  st=$?
  set -e
  if [ $st -ne 0 ]; then grep -v '^COQC\|^COQDEP\|^make\|^CLEAN' "$ROOT/_build/coq_make.log" | tail -40; echo "coq build failed ($st)"; exit 1; fi
}
build_ocaml() {
  cd "$ROOT/ocaml"
  if [ ! -f modeldriver ] || [ "$ROOT/coq/model.ml" -nt modeldriver ] || [ driver.ml -nt modeldriver ]; then
    cp "$ROOT/coq/model.ml" "$ROOT/coq/model.mli" .
    ocamlfind ocamlopt -O2 -w -a -package str model.mli model.ml driver.ml -o modeldriver 2>/dev/null \
      || ocamlfind ocamlopt -w -a model.mli model.ml driver.ml -o modeldriver
  fi
}
build_harness() {
  cd "$ROOT/harness"
  cp /repo/Cargo.lock Cargo.lock.repo 2>/dev/null || true
  cargo build --offline 2>&1 | tail -3
}
case $what in
  coq) build_coq;;
  ocaml) build_ocaml;;
  harness) build_harness;;
  all) build_coq; build_ocaml; build_harness;;
esac
