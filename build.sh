#!/bin/sh
# Build everything the checks need from files on disk (offline):
#   coq project (model, semantics, specs, proofs, property files) -> extraction -> OCaml model driver
#   harness (in-process build of /repo's educe under --cfg magiclen_educe_verif) -> k1driver
# usage: ./build.sh [coq|ocaml|harness|all]   (default all)
set -e
ROOT=$(cd "$(dirname "$0")" && pwd)
what=${1:-all}
export CARGO_NET_OFFLINE=true
build_coq() {
  mkdir -p "$ROOT/_build"
  # source translators T1-T5: coq/Gen/Sources.v is regenerated from /repo/src (rewritten only when it changes)
  python3 "$ROOT/tools/scan.py" > "$ROOT/_build/scan.log" 2>&1 || { cat "$ROOT/_build/scan.log"; echo "scan failed"; exit 1; }
  "$ROOT/tools/mkcoqproject.sh"
  cd "$ROOT/coq"
  [ -f Makefile ] && [ Makefile -nt _CoqProject ] || coq_makefile -f _CoqProject -o Makefile >/dev/null
    set +e
  # -k: a property file that no longer checks (e.g. because a regenerated inventory changed) must not
  # block the model, the extraction and the other properties; each check looks at its own obligations
  timeout 3000 make -k -j16 > "$ROOT/_build/coq_make.log" 2>&1
  timeout 600 make Extract/Extract.vo >> "$ROOT/_build/coq_make.log" 2>&1
  st=$?
  set -e
  if [ $st -ne 0 ]; then grep -v '^COQC\|^COQDEP\|^make\|^CLEAN' "$ROOT/_build/coq_make.log" | tail -40; echo "coq build failed ($st)"; exit 1; fi
}
build_ocaml() {
  cd "$ROOT/ocaml"
  if [ ! -f modeldriver ] || [ "$ROOT/coq/model.ml" -nt modeldriver ] || [ driver.ml -nt modeldriver ]; then
    cp "$ROOT/coq/model.ml" "$ROOT/coq/model.mli" .
    ocamlfind ocamlopt -O2 -w -a -package str model.mli model.ml driver.ml -o modeldriver 2>/dev/null \
      || ocamlfind ocamlopt -w -a model.mli model.ml driver.ml -o modeldriver
  fi
}
build_harness() {
  cd "$ROOT/harness"
  # (no redirection to /dev/null before a cargo call: see DESIGN.md §8 on this sandbox's /dev/null)
  if [ -f /repo/Cargo.lock ]; then cp /repo/Cargo.lock Cargo.lock.repo || true; fi
  # cargo's rustc probe has been seen to fail transiently under load: retry
  for attempt in 1 2 3; do
    true | cargo build --offline > "$ROOT/_build/harness_build.log" 2>&1 && break
    grep -q "to learn about target-specific information" "$ROOT/_build/harness_build.log" || break
    sleep $attempt
  done
  tail -3 "$ROOT/_build/harness_build.log"
  grep -q "Finished" "$ROOT/_build/harness_build.log" || { echo "harness build failed"; exit 1; }
}
case $what in
  coq) build_coq;;
  ocaml) build_ocaml;;
  harness) build_harness;;
  all) build_coq; build_ocaml; build_harness;;
esac
