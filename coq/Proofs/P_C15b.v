(** C15 — handler by handler: the handler of a trait [t], run on the input restricted to a set
    [keep] of traits that contains [t] and its coupled partner, with any trait list [tr'] that
    agrees with the original on the kept traits, returns the items it returned on the
    original input.  (One direction only: the restricted input has fewer attributes to refuse.) *)
From Educe.Proofs Require Export P_C15.

(** * simulation of the traversals *)
Lemma mapM_r {A A' B B'} (f : A -> outcome B) (f' : A' -> outcome B') (h : A -> A') (g : B -> B') :
  (forall x y, f x = Ok y -> f' (h x) = Ok (g y)) ->
  forall l r, mapM f l = Ok r -> mapM f' (map h l) = Ok (map g r).
Proof.
  intros Hf. induction l as [|x l IH]; intros r H; cbn [mapM map] in *.
  - injection H as <-. reflexivity.
  - bo H. bo H. injection H as <-. rewrite (Hf _ _ Hb), (IH _ Hb0). reflexivity.
Qed.

Lemma foldM_r {A A' S S'} (f : S -> A -> outcome S) (f' : S' -> A' -> outcome S')
      (h : A -> A') (g : S -> S') :
  (forall s x s', f s x = Ok s' -> f' (g s) (h x) = Ok (g s')) ->
  forall l s s', foldM f s l = Ok s' -> foldM f' (g s) (map h l) = Ok (g s').
Proof.
  intros Hf. induction l as [|x l IH]; intros s s' H; cbn [foldM map] in *.
  - injection H as <-. reflexivity.
  - bo H. rewrite (Hf _ _ _ Hb). cbn [bind]. apply IH. exact H.
Qed.

Lemma map_conv {A B} (g : A -> B) (h : A -> A) l :
  (forall x, g (h x) = g x) -> map g (map h l) = map g l.
Proof. intros H. rewrite map_map. apply map_ext. exact H. Qed.

Lemma flat_map_conv {A B} (g : A -> list B) (h : A -> A) l :
  (forall x, g (h x) = g x) -> flat_map g (map h l) = flat_map g l.
Proof.
  intros H. induction l as [|x l IH]; [reflexivity|]. cbn [map flat_map]. rewrite H, IH. reflexivity.
Qed.

Lemma existsb_conv {A} (g : A -> bool) (h : A -> A) l :
  (forall x, g (h x) = g x) -> existsb g (map h l) = existsb g l.
Proof.
  intros H. induction l as [|x l IH]; [reflexivity|]. cbn [map existsb]. rewrite H, IH. reflexivity.
Qed.

Lemma forallb_conv {A} (g : A -> bool) (h : A -> A) l :
  (forall x, g (h x) = g x) -> forallb g (map h l) = forallb g l.
Proof.
  intros H. induction l as [|x l IH]; [reflexivity|]. cbn [map forallb]. rewrite H, IH. reflexivity.
Qed.

Definition on_snd {A B} (h : B -> B) (x : A * B) : A * B := (fst x, h (snd x)).
Definition on_fst {A B} (h : A -> A) (x : A * B) : A * B := (h (fst x), snd x).

Lemma index_from_map {A} (h : A -> A) l : forall i,
  index_from i (map h l) = map (on_snd h) (index_from i l).
Proof. induction l as [|x l IH]; intros i; [reflexivity|]. cbn [map index_from]. rewrite IH. reflexivity. Qed.
Lemma indexed_map {A} (h : A -> A) l : indexed (map h l) = map (on_snd h) (indexed l).
Proof. apply index_from_map. Qed.

Lemma is_nil_map {A B} (h : A -> B) l : is_nil (map h l) = is_nil l.
Proof. destruct l; reflexivity. Qed.

Ltac conv_tac :=
  let x := fresh "x" in
  intros x; repeat match goal with y : (_ * _)%type |- _ => destruct y end; reflexivity.

Ltac emit_eq :=
  repeat first [ rewrite indexed_map
               | rewrite is_nil_map
               | rewrite flat_map_conv by conv_tac
               | rewrite map_conv by conv_tac
               | rewrite existsb_conv by conv_tac
               | rewrite forallb_conv by conv_tac ];
  try reflexivity.

Section Handlers.
  Variables (F : features) (keep : trait -> bool) (tr tr' : list trait).
  Hypothesis Htr : forall t, keep t = true -> has_trait t tr' = has_trait t tr.

  Notation rho := (restrict_attrs keep).
  Notation rf := (map_field (restrict_attrs keep)).
  Notation rv := (map_variant (restrict_attrs keep)).
  Notation rd := (map_dinput (restrict_attrs keep)).

  Lemma Htr1 : forall t, keep t = true -> has_trait t tr = true -> has_trait t tr' = true.
  Proof. intros t Hk H. rewrite (Htr t Hk). exact H. Qed.

  Lemma own_single t0 : keep t0 = true -> forall t, trait_eqb t0 t = true -> keep t = true.
  Proof. intros Hk t E. apply trait_eqb_eq in E. subst. exact Hk. Qed.

  Lemma scan_r {A} t0 (build : meta -> outcome A) attrs r : keep t0 = true ->
    scan_attrs F (trait_eqb t0) build tr attrs = Ok r ->
    scan_attrs F (trait_eqb t0) build tr' (rho attrs) = Ok r.
  Proof.
    intros Hk. apply (scan_restrict F keep tr tr' Htr1); [apply own_single; exact Hk|reflexivity].
  Qed.

  Lemma coupling_r t : keep t = true ->
    has_trait t F && has_trait t tr' = has_trait t F && has_trait t tr.
  Proof. intros Hk. rewrite (Htr t Hk). reflexivity. Qed.

  Lemma fields_list_map fs : fields_list (map_fields rho fs) = map rf (fields_list fs).
  Proof. destruct fs; reflexivity. Qed.

  (** ** Hash *)
  Section Hash.
    Hypothesis Hk : keep THash = true.

    Lemma hash_type_attr_r attrs r :
      hash_type_attr F tr attrs = Ok r -> hash_type_attr F tr' (rho attrs) = Ok r.
    Proof. intros H. unfold hash_type_attr in *. bo H. rewrite (scan_r _ _ _ _ Hk Hb). exact H. Qed.

    Lemma hash_field_attr_r ei em attrs r :
      hash_field_attr F tr ei em attrs = Ok r -> hash_field_attr F tr' ei em (rho attrs) = Ok r.
    Proof. intros H. unfold hash_field_attr in *. bo H. rewrite (scan_r _ _ _ _ Hk Hb). exact H. Qed.

    Lemma hash_field_attrs_r fs l :
      hash_field_attrs F tr fs = Ok l ->
      hash_field_attrs F tr' (map rf fs) = Ok (map (on_fst rf) l).
    Proof.
      unfold hash_field_attrs. apply mapM_r. intros f y H. bo H. injection H as <-.
      cbn [map_field f_attrs]. rewrite (hash_field_attr_r _ _ _ _ Hb). reflexivity.
    Qed.

    Lemma hash_types_r (l : list (field * fattr)) : hash_types (map (on_fst rf) l) = hash_types l.
    Proof. unfold hash_types. emit_eq. Qed.

    Lemma hash_struct_body_r (l : list (field * fattr)) :
      hash_struct_body (indexed (map (on_fst rf) l)) = hash_struct_body (indexed l).
    Proof. unfold hash_struct_body. emit_eq. Qed.

    Lemma hash_arm_r vi n fs (l : list (field * fattr)) :
      hash_arm vi n (map_fields rho fs) (map (on_fst rf) l) = hash_arm vi n fs l.
    Proof. unfold hash_arm. destruct fs; cbn [map_fields]; emit_eq. Qed.

    Lemma hash_variant_r iv r :
      hash_variant F tr iv = Ok r -> hash_variant F tr' (on_snd rv iv) = Ok r.
    Proof.
      destruct iv as [vi v]. intros H. unfold hash_variant, on_snd in *. cbn [fst snd] in *.
      bo H. bo H. injection H as <-. cbn [map_variant v_attrs v_fields v_name].
      rewrite (hash_type_attr_r _ _ Hb). cbn [bind]. rewrite fields_list_map.
      rewrite (hash_field_attrs_r _ _ Hb0). cbn [bind]. rewrite hash_arm_r, hash_types_r. reflexivity.
    Qed.

    Theorem expand_hash_r d m its :
      expand_hash F tr d m = Ok its -> expand_hash F tr' (rd d) m = Ok its.
    Proof.
      intros H. unfold expand_hash in *. cbn [map_dinput d_data].
      destruct (d_data d) as [fs|vs|fs]; cbn [map_data].
      - bo H. bo H. rewrite Hb. cbn [bind]. rewrite fields_list_map, (hash_field_attrs_r _ _ Hb0).
        cbn [bind]. rewrite hash_types_r, hash_struct_body_r. exact H.
      - bo H. bo H. rewrite Hb. cbn [bind]. rewrite indexed_map.
        rewrite (mapM_r _ (hash_variant F tr') (on_snd rv) (fun x => x) hash_variant_r _ _ Hb0).
        cbn [bind]. rewrite map_id. exact H.
      - bo H. rewrite Hb. cbn [bind]. destruct (negb (ta_unsafe a)); [discriminate|]. bo H.
        rewrite (mapM_r _ (fun f => hash_field_attr F tr' false false (f_attrs f)) rf (fun x => x)
                        (fun f y => hash_field_attr_r false false (f_attrs f) y) _ _ Hb0).
        cbn [bind]. exact H.
    Qed.
  End Hash.

  (** ** PartialEq (and the Eq companion it emits) *)
  Section PartialEq.
    Hypothesis Hk : keep TPartialEq = true.
    Hypothesis Hk2 : keep TEq = true.

    Lemma scan_peq_r {A} (build : meta -> outcome A) attrs r :
      scan_attrs F (own_partial_eq tr) build tr attrs = Ok r ->
      scan_attrs F (own_partial_eq tr') build tr' (rho attrs) = Ok r.
    Proof.
      apply (scan_restrict F keep tr tr' Htr1).
      - intros t H. unfold own_partial_eq in H. apply orb_true_iff in H as [H|H].
        + apply trait_eqb_eq in H. subst. exact Hk.
        + apply andb_true_iff in H as [_ H]. apply trait_eqb_eq in H. subst. exact Hk2.
      - intros t _. unfold own_partial_eq. rewrite (Htr TEq Hk2). reflexivity.
    Qed.

    Lemma peq_type_attr_r attrs r :
      peq_type_attr F tr attrs = Ok r -> peq_type_attr F tr' (rho attrs) = Ok r.
    Proof. intros H. unfold peq_type_attr in *. bo H. rewrite (scan_peq_r _ _ _ Hb). exact H. Qed.

    Lemma peq_field_attr_r ei em attrs r :
      peq_field_attr F tr ei em attrs = Ok r -> peq_field_attr F tr' ei em (rho attrs) = Ok r.
    Proof. intros H. unfold peq_field_attr in *. bo H. rewrite (scan_peq_r _ _ _ Hb). exact H. Qed.

    Lemma field_attrs_r fs l :
      field_attrs F tr fs = Ok l -> field_attrs F tr' (map rf fs) = Ok (map (on_fst rf) l).
    Proof.
      unfold field_attrs. apply mapM_r. intros f y H. bo H. injection H as <-.
      cbn [map_field f_attrs]. rewrite (peq_field_attr_r _ _ _ _ Hb). reflexivity.
    Qed.

    Lemma peq_types_r (l : list (field * fattr)) : peq_types (map (on_fst rf) l) = peq_types l.
    Proof. unfold peq_types. emit_eq. Qed.

    Lemma peq_struct_body_r (l : list (field * fattr)) :
      peq_struct_body (map (fun '(i, (f, fa)) => (i, f, fa)) (indexed (map (on_fst rf) l)))
      = peq_struct_body (map (fun '(i, (f, fa)) => (i, f, fa)) (indexed l)).
    Proof.
      unfold peq_struct_body. rewrite indexed_map, !flat_map_concat_map, !map_map.
      f_equal. apply map_ext. conv_tac.
    Qed.

    Lemma peq_arm_named_r n (l : list (field * fattr)) :
      peq_arm_named n (map (on_fst rf) l) = peq_arm_named n l.
    Proof. unfold peq_arm_named. emit_eq. Qed.

    Lemma peq_arm_unnamed_r n (l : list (field * fattr)) :
      peq_arm_unnamed n (indexed (map (on_fst rf) l)) = peq_arm_unnamed n (indexed l).
    Proof. unfold peq_arm_unnamed. emit_eq. Qed.

    Lemma peq_items_r d g body : peq_items tr' F (rd d) g body = peq_items tr F d g body.
    Proof. unfold peq_items. rewrite (coupling_r TEq Hk2). reflexivity. Qed.

    Lemma peq_variant_r v r : peq_variant F tr v = Ok r -> peq_variant F tr' (rv v) = Ok r.
    Proof.
      intros H. unfold peq_variant in *. bo H. cbn [map_variant v_attrs v_fields v_name].
      rewrite (peq_type_attr_r _ _ Hb). cbn [bind].
      destruct (v_fields v) as [fs|fs|]; cbn [map_fields]; [| |exact H].
      - bo H. rewrite (field_attrs_r _ _ Hb0). cbn [bind].
        rewrite peq_arm_named_r, peq_types_r. exact H.
      - bo H. rewrite (field_attrs_r _ _ Hb0). cbn [bind].
        rewrite peq_arm_unnamed_r, peq_types_r. exact H.
    Qed.

    Theorem expand_partial_eq_r d m its :
      expand_partial_eq F tr d m = Ok its -> expand_partial_eq F tr' (rd d) m = Ok its.
    Proof.
      intros H. unfold expand_partial_eq in *. cbn [map_dinput d_data].
      destruct (d_data d) as [fs|vs|fs]; cbn [map_data].
      - bo H. bo H. rewrite Hb. cbn [bind]. rewrite fields_list_map, (field_attrs_r _ _ Hb0).
        cbn [bind]. rewrite peq_types_r, peq_struct_body_r.
        change (d_generics (rd d)) with (d_generics d). rewrite peq_items_r. exact H.
      - bo H. bo H. rewrite Hb. cbn [bind].
        rewrite (mapM_r _ (peq_variant F tr') rv (fun x => x) peq_variant_r _ _ Hb0).
        cbn [bind]. rewrite map_id. change (d_generics (rd d)) with (d_generics d).
        rewrite peq_items_r. exact H.
      - bo H. rewrite Hb. cbn [bind]. destruct (negb (ta_unsafe a)); [discriminate|]. bo H.
        rewrite (mapM_r _ (fun f => peq_field_attr F tr' false false (f_attrs f)) rf (fun x => x)
                        (fun f y => peq_field_attr_r false false (f_attrs f) y) _ _ Hb0).
        cbn [bind]. rewrite (coupling_r TEq Hk2). exact H.
    Qed.
  End PartialEq.

  (** ** Eq, Copy (stand-alone, or validating only) *)
  Section Marker.
    Variable own : trait.
    Hypothesis Hk : keep own = true.

    Lemma marker_field_attr_r attrs r :
      marker_field_attr F own tr attrs = Ok r -> marker_field_attr F own tr' (rho attrs) = Ok r.
    Proof. intros H. unfold marker_field_attr in *. bo H. rewrite (scan_r _ _ _ _ Hk Hb). exact H. Qed.

    Lemma marker_variant_attr_r attrs r :
      marker_variant_attr F own tr attrs = Ok r -> marker_variant_attr F own tr' (rho attrs) = Ok r.
    Proof. intros H. unfold marker_variant_attr in *. bo H. rewrite (scan_r _ _ _ _ Hk Hb). exact H. Qed.

    Lemma marker_fields_r fs r :
      mapM (fun f => let* _ := marker_field_attr F own tr (f_attrs f) in Ok (f_ty f)) fs = Ok r ->
      mapM (fun f => let* _ := marker_field_attr F own tr' (f_attrs f) in Ok (f_ty f)) (map rf fs) = Ok r.
    Proof.
      intros H. rewrite <- (map_id r). revert H. apply mapM_r. intros f y H. bo H.
      cbn [map_field f_attrs f_ty]. rewrite (marker_field_attr_r _ _ Hb). exact H.
    Qed.

    Lemma all_field_types_r dd r :
      all_field_types F own tr dd = Ok r -> all_field_types F own tr' (map_data rho dd) = Ok r.
    Proof.
      intros H. unfold all_field_types in *. destruct dd as [fs|vs|fs]; cbn [map_data].
      - rewrite fields_list_map. apply marker_fields_r. exact H.
      - bo H.
        assert (Hm : mapM (fun v => let* _ := marker_variant_attr F own tr' (v_attrs v) in
                                    mapM (fun f => let* _ := marker_field_attr F own tr' (f_attrs f) in
                                                   Ok (f_ty f)) (fields_list (v_fields v)))
                          (map rv vs) = Ok (map (fun x => x) a)).
        { revert Hb. apply mapM_r. intros v y Hv. bo Hv. cbn [map_variant v_attrs v_fields].
          rewrite (marker_variant_attr_r _ _ Hb). cbn [bind]. rewrite fields_list_map.
          apply marker_fields_r. exact Hv. }
        rewrite Hm, map_id. exact H.
      - apply marker_fields_r. exact H.
    Qed.
  End Marker.

  Theorem expand_eq_r d m its : keep TEq = true -> keep TPartialEq = true ->
    expand_eq F tr d m = Ok its -> expand_eq F tr' (rd d) m = Ok its.
  Proof.
    intros Hk Hk2 H. unfold expand_eq in *. rewrite (coupling_r TPartialEq Hk2).
    bo H. rewrite Hb. cbn [bind].
    destruct (has_trait TPartialEq F && has_trait TPartialEq tr); [exact H|].
    bo H. cbn [map_dinput d_data]. rewrite (all_field_types_r TEq Hk _ _ Hb0). exact H.
  Qed.

  Theorem expand_copy_r d m its : keep TCopy = true -> keep TClone = true ->
    expand_copy F tr d m = Ok its -> expand_copy F tr' (rd d) m = Ok its.
  Proof.
    intros Hk Hk2 H. unfold expand_copy in *. rewrite (coupling_r TClone Hk2).
    bo H. rewrite Hb. cbn [bind].
    destruct (has_trait TClone F && has_trait TClone tr); [exact H|].
    bo H. cbn [map_dinput d_data]. rewrite (all_field_types_r TCopy Hk _ _ Hb0). exact H.
  Qed.

  (** ** Deref, DerefMut *)
  Section Deref.
    Variable own : trait.
    Hypothesis Hk : keep own = true.

    Definition rx (x : string * (nat * field)) : string * (nat * field) :=
      (fst x, (fst (snd x), rf (snd (snd x)))).
    Definition map_dplan (p : deref_plan) : deref_plan :=
      match p with
      | DPStruct i f => DPStruct i (rf f)
      | DPEnum x r => DPEnum (rx x) (map rx r)
      end.

    Lemma deref_field_flag_r attrs r :
      deref_field_flag F own tr attrs = Ok r -> deref_field_flag F own tr' (rho attrs) = Ok r.
    Proof. intros H. unfold deref_field_flag in *. bo H. rewrite (scan_r _ _ _ _ Hk Hb). exact H. Qed.

    Lemma deref_variant_attr_r attrs r :
      deref_variant_attr F own tr attrs = Ok r -> deref_variant_attr F own tr' (rho attrs) = Ok r.
    Proof. intros H. unfold deref_variant_attr in *. bo H. rewrite (scan_r _ _ _ _ Hk Hb). exact H. Qed.

    Lemma deref_select_r fs x :
      deref_select F own tr fs = Ok x ->
      deref_select F own tr' (map rf fs) = Ok (on_snd rf x).
    Proof.
      intros H. unfold deref_select in *.
      assert (Hgen : forall o, foldM (deref_pick F own tr) None (indexed fs) = Ok o ->
                foldM (deref_pick F own tr') None (indexed (map rf fs)) = Ok (option_map (on_snd rf) o)).
      { intros o Hf. rewrite indexed_map.
        apply (foldM_r (deref_pick F own tr) (deref_pick F own tr') (on_snd rf)
                       (option_map (on_snd rf))) with (s := None); [|exact Hf].
        intros s y s' Hs. unfold deref_pick in *. bo Hs. cbn [on_snd snd map_field f_attrs].
        rewrite (deref_field_flag_r _ _ Hb). cbn [bind]. destruct a.
        - destruct s; [discriminate|]. injection Hs as <-. reflexivity.
        - injection Hs as <-. reflexivity. }
      destruct fs as [|f1 [|f2 l]].
      - bo H. rewrite (Hgen _ Hb). cbn [bind]. destruct a; [|discriminate]. injection H as <-. reflexivity.
      - bo H. cbn [map map_field f_attrs]. rewrite (deref_field_flag_r _ _ Hb). cbn [bind].
        injection H as <-. reflexivity.
      - bo H. change (map rf (f1 :: f2 :: l)) with (rf f1 :: rf f2 :: map rf l) in *.
        rewrite (Hgen _ Hb). cbn [bind]. destruct a; [|discriminate]. injection H as <-. reflexivity.
    Qed.

    Lemma deref_variant_r v x :
      deref_variant F own tr v = Ok x -> deref_variant F own tr' (rv v) = Ok (rx x).
    Proof.
      intros H. unfold deref_variant in *. bo H. cbn [map_variant v_attrs v_fields v_name].
      rewrite (deref_variant_attr_r _ _ Hb). cbn [bind].
      destruct (v_fields v) as [fs|fs|]; cbn [map_fields fields_list] in *; [| |discriminate].
      - bo H. rewrite (deref_select_r _ _ Hb0). cbn [bind]. injection H as <-. reflexivity.
      - bo H. rewrite (deref_select_r _ _ Hb0). cbn [bind]. injection H as <-. reflexivity.
    Qed.

    Lemma deref_analyse_r d m p :
      deref_analyse F own tr d m = Ok p -> deref_analyse F own tr' (rd d) m = Ok (map_dplan p).
    Proof.
      intros H. unfold deref_analyse in *. cbn [map_dinput d_data].
      destruct (d_data d) as [fs|vs|fs]; cbn [map_data]; [| |discriminate].
      - bo H. bo H. rewrite Hb. cbn [bind]. rewrite fields_list_map, (deref_select_r _ _ Hb0).
        cbn [bind]. injection H as <-. reflexivity.
      - bo H. bo H. rewrite Hb. cbn [bind].
        rewrite (mapM_r _ (deref_variant F own tr') rv rx deref_variant_r _ _ Hb0). cbn [bind].
        destruct a0; [discriminate|]. injection H as <-. reflexivity.
    Qed.

    Lemma deref_arm_rx x : deref_arm (rx x) = deref_arm x.
    Proof. destruct x as [v [i f]]. reflexivity. Qed.

    Lemma deref_emit_r d p : deref_emit (rd d) (map_dplan p) = deref_emit d p.
    Proof.
      destruct p as [i f|x r]; [reflexivity|]. cbn [map_dplan deref_emit]. unfold deref_match.
      cbn [map]. rewrite deref_arm_rx, map_map.
      rewrite (map_ext _ _ (fun x => deref_arm_rx x)). destruct x as [v [i f]]. reflexivity.
    Qed.

    Lemma deref_mut_emit_r d p : deref_mut_emit (rd d) (map_dplan p) = deref_mut_emit d p.
    Proof.
      destruct p as [i f|x r]; [reflexivity|]. cbn [map_dplan deref_mut_emit]. unfold deref_match.
      cbn [map]. rewrite deref_arm_rx, map_map.
      rewrite (map_ext _ _ (fun x => deref_arm_rx x)). reflexivity.
    Qed.
  End Deref.

  Theorem expand_deref_r d m its : keep TDeref = true ->
    expand_deref F tr d m = Ok its -> expand_deref F tr' (rd d) m = Ok its.
  Proof.
    intros Hk H. unfold expand_deref in *. bo H. rewrite (deref_analyse_r TDeref Hk _ _ _ Hb).
    cbn [bind]. rewrite deref_emit_r. exact H.
  Qed.

  Theorem expand_deref_mut_r d m its : keep TDerefMut = true ->
    expand_deref_mut F tr d m = Ok its -> expand_deref_mut F tr' (rd d) m = Ok its.
  Proof.
    intros Hk H. unfold expand_deref_mut in *. bo H. rewrite (deref_analyse_r TDerefMut Hk _ _ _ Hb).
    cbn [bind]. rewrite deref_mut_emit_r. exact H.
  Qed.

  (** ** Clone (and the Copy companion it emits) *)
  Section Clone.
    Hypothesis Hk : keep TClone = true.
    Hypothesis Hk2 : keep TCopy = true.

    Definition rcv (v : cvariant) : cvariant :=
      {| cv_name := cv_name v; cv_fields := map_fields rho (cv_fields v);
         cv_plan := map (on_fst rf) (cv_plan v) |}.

    Lemma clone_field_attr_r em attrs r :
      clone_field_attr F tr em attrs = Ok r -> clone_field_attr F tr' em (rho attrs) = Ok r.
    Proof. intros H. unfold clone_field_attr in *. bo H. rewrite (scan_r _ _ _ _ Hk Hb). exact H. Qed.

    Lemma clone_variant_attr_r attrs r :
      clone_variant_attr F tr attrs = Ok r -> clone_variant_attr F tr' (rho attrs) = Ok r.
    Proof. intros H. unfold clone_variant_attr in *. bo H. rewrite (scan_r _ _ _ _ Hk Hb). exact H. Qed.

    Lemma clone_field_attrs_r em fs l :
      clone_field_attrs F tr em fs = Ok l ->
      clone_field_attrs F tr' em (map rf fs) = Ok (map (on_fst rf) l).
    Proof.
      unfold clone_field_attrs. apply mapM_r. intros f y H. bo H. injection H as <-.
      cbn [map_field f_attrs]. rewrite (clone_field_attr_r _ _ _ Hb). reflexivity.
    Qed.

    Lemma clone_variant_r v r :
      clone_variant F tr v = Ok r -> clone_variant F tr' (rv v) = Ok (rcv r).
    Proof.
      intros H. unfold clone_variant in *. bo H. bo H. injection H as <-.
      cbn [map_variant v_attrs v_fields v_name]. rewrite (clone_variant_attr_r _ _ Hb). cbn [bind].
      rewrite fields_list_map, (clone_field_attrs_r _ _ _ Hb0). reflexivity.
    Qed.

    Lemma clone_types_r (l : list cfield) : clone_types (map (on_fst rf) l) = clone_types l.
    Proof. unfold clone_types. emit_eq. Qed.

    Lemma clone_struct_body_r fs (l : list cfield) :
      clone_struct_body (map_fields rho fs) (map (on_fst rf) l) = clone_struct_body fs l.
    Proof. unfold clone_struct_body. destruct fs; cbn [map_fields]; emit_eq. Qed.

    Lemma clone_from_struct_body_r fs (l : list cfield) :
      clone_from_struct_body (map_fields rho fs) (map (on_fst rf) l) = clone_from_struct_body fs l.
    Proof. unfold clone_from_struct_body. destruct fs; cbn [map_fields]; emit_eq. Qed.

    Lemma clone_arm_r v : clone_arm (rcv v) = clone_arm v.
    Proof. unfold clone_arm. cbn [rcv cv_name cv_fields cv_plan]. destruct (cv_fields v); cbn [map_fields]; emit_eq. Qed.

    Lemma clone_from_arm_r v : clone_from_arm (rcv v) = clone_from_arm v.
    Proof. unfold clone_from_arm. cbn [rcv cv_name cv_fields cv_plan]. destruct (cv_fields v); cbn [map_fields]; emit_eq. Qed.

    Lemma clone_enum_body_r vs : clone_enum_body (map rcv vs) = clone_enum_body vs.
    Proof.
      unfold clone_enum_body. rewrite is_nil_map, map_map.
      rewrite (map_ext _ _ clone_arm_r). reflexivity.
    Qed.

    Lemma clone_from_enum_body_r vs : clone_from_enum_body (map rcv vs) = clone_from_enum_body vs.
    Proof.
      unfold clone_from_enum_body. rewrite is_nil_map, map_map.
      rewrite (map_ext _ _ clone_from_arm_r). reflexivity.
    Qed.

    Lemma has_custom_method_r vs : has_custom_method (map rcv vs) = has_custom_method vs.
    Proof.
      unfold has_custom_method. apply existsb_conv. intros v. cbn [rcv cv_plan]. emit_eq.
    Qed.

    Lemma clone_variant_types_r vs :
      flat_map (fun v => clone_types (cv_plan v)) (map rcv vs)
      = flat_map (fun v => clone_types (cv_plan v)) vs.
    Proof. apply flat_map_conv. intros v. cbn [rcv cv_plan]. apply clone_types_r. Qed.

    Theorem expand_clone_r d m its :
      expand_clone F tr d m = Ok its -> expand_clone F tr' (rd d) m = Ok its.
    Proof.
      intros H. unfold expand_clone in *. rewrite (coupling_r TCopy Hk2).
      bo H. rewrite Hb. cbn [bind]. cbn [map_dinput d_data].
      destruct (d_data d) as [fs|vs|fs]; cbn [map_data].
      - bo H. rewrite fields_list_map, (clone_field_attrs_r _ _ _ Hb0). cbn [bind].
        rewrite clone_types_r, clone_struct_body_r, clone_from_struct_body_r. exact H.
      - bo H. rewrite (mapM_r _ (clone_variant F tr') rv rcv clone_variant_r _ _ Hb0). cbn [bind].
        rewrite has_custom_method_r, clone_variant_types_r, clone_enum_body_r, clone_from_enum_body_r.
        exact H.
      - bo H. rewrite (clone_field_attrs_r _ _ _ Hb0). cbn [bind].
        rewrite map_map. exact H.
    Qed.
  End Clone.

  (** ** Default *)
  Section Default.
    Hypothesis Hk : keep TDefault = true.

    Lemma default_variant_attr_r fl attrs r :
      default_variant_attr F tr fl attrs = Ok r -> default_variant_attr F tr' fl (rho attrs) = Ok r.
    Proof. intros H. unfold default_variant_attr in *. bo H. rewrite (scan_r _ _ _ _ Hk Hb). exact H. Qed.

    Lemma default_field_attr_r a b f r :
      default_field_attr F tr a b f = Ok r -> default_field_attr F tr' a b (rf f) = Ok r.
    Proof.
      intros H. unfold default_field_attr in *. bo H. cbn [map_field f_attrs f_ty].
      rewrite (scan_r _ _ _ _ Hk Hb). exact H.
    Qed.

    Lemma ensure_no_attribute_r fs r :
      ensure_no_attribute F tr fs = Ok r -> ensure_no_attribute F tr' (map rf fs) = Ok r.
    Proof.
      intros H. unfold ensure_no_attribute in *. bo H.
      rewrite (mapM_r _ (default_field_attr F tr' false false) rf (fun x => x)
                      (default_field_attr_r false false) _ _ Hb). exact H.
    Qed.

    Lemma default_field_value_r f r :
      default_field_value F tr f = Ok r -> default_field_value F tr' (rf f) = Ok r.
    Proof.
      intros H. unfold default_field_value in *. bo H. rewrite (default_field_attr_r _ _ _ _ Hb). exact H.
    Qed.

    Lemma default_fields_body_r p fs r :
      default_fields_body F tr p fs = Ok r -> default_fields_body F tr' p (map_fields rho fs) = Ok r.
    Proof.
      intros H. unfold default_fields_body in *. destruct fs as [l|l|]; cbn [map_fields]; [| |exact H].
      - bo H.
        assert (Hm : mapM (fun f => let* v := default_field_value F tr' f in Ok (field_name f, v))
                          (map rf l) = Ok (map (fun x => x) a)).
        { revert Hb. apply mapM_r. intros f y Hf. bo Hf. rewrite (default_field_value_r _ _ Hb). exact Hf. }
        rewrite Hm, map_id. exact H.
      - bo H. rewrite (mapM_r _ (default_field_value F tr') rf (fun x => x) default_field_value_r _ _ Hb).
        rewrite map_id. exact H.
    Qed.

    Lemma select_variant_r vs v :
      select_variant F tr vs = Ok v -> select_variant F tr' (map rv vs) = Ok (rv v).
    Proof.
      intros H. unfold select_variant in *.
      assert (Hgen : forall o, foldM (select_variant_step F tr) None vs = Ok o ->
                foldM (select_variant_step F tr') None (map rv vs) = Ok (option_map rv o)).
      { intros o. apply (foldM_r (select_variant_step F tr) (select_variant_step F tr') rv (option_map rv)).
        intros s x s' Hs. unfold select_variant_step in *. bo Hs. cbn [map_variant v_attrs v_fields].
        rewrite (default_variant_attr_r _ _ _ Hb). cbn [bind]. destruct (dt_flag a).
        - destruct s; [discriminate|]. injection Hs as <-. reflexivity.
        - bo Hs. rewrite fields_list_map, (ensure_no_attribute_r _ _ Hb0). cbn [bind].
          injection Hs as <-. reflexivity. }
      destruct vs as [|v1 [|v2 l]].
      - bo H. rewrite (Hgen _ Hb). cbn [bind]. destruct a; [|discriminate]. injection H as <-. reflexivity.
      - bo H. cbn [map map_variant v_attrs]. rewrite (default_variant_attr_r _ _ _ Hb). cbn [bind].
        injection H as <-. reflexivity.
      - bo H. change (map rv (v1 :: v2 :: l)) with (rv v1 :: rv v2 :: map rv l) in *.
        rewrite (Hgen _ Hb). cbn [bind]. destruct a; [|discriminate]. injection H as <-. reflexivity.
    Qed.

    Lemma select_field_r fs x :
      select_field F tr fs = Ok x -> select_field F tr' (map rf fs) = Ok (on_fst rf x).
    Proof.
      intros H. unfold select_field in *.
      assert (Hgen : forall o, foldM (select_field_step F tr) None fs = Ok o ->
                foldM (select_field_step F tr') None (map rf fs) = Ok (option_map (on_fst rf) o)).
      { intros o. apply (foldM_r (select_field_step F tr) (select_field_step F tr') rf
                                 (option_map (on_fst rf))).
        intros s f s' Hs. unfold select_field_step in *. bo Hs.
        rewrite (default_field_attr_r _ _ _ _ Hb). cbn [bind].
        destruct (df_flag a || match df_expr a with Some _ => true | None => false end).
        - destruct s; [discriminate|]. injection Hs as <-. reflexivity.
        - injection Hs as <-. reflexivity. }
      destruct fs as [|f1 [|f2 l]].
      - bo H. rewrite (Hgen _ Hb). cbn [bind]. destruct a; [|discriminate]. injection H as <-. reflexivity.
      - bo H. cbn [map]. rewrite (default_field_attr_r _ _ _ _ Hb). cbn [bind].
        injection H as <-. reflexivity.
      - bo H. change (map rf (f1 :: f2 :: l)) with (rf f1 :: rf f2 :: map rf l) in *.
        rewrite (Hgen _ Hb). cbn [bind]. destruct a; [|discriminate]. injection H as <-. reflexivity.
    Qed.

    Lemma default_plan_r d m p :
      default_plan F tr d m = Ok p -> default_plan F tr' (rd d) m = Ok p.
    Proof.
      intros H. unfold default_plan in *. bo H. rewrite Hb. cbn [bind]. bo H.
      cbn [map_dinput d_data].
      assert (Hbody : (match map_data rho (d_data d) with
        | DStruct fs =>
            match dt_expr a with
            | Some e => let* _ := ensure_no_attribute F tr' (fields_list fs) in Ok (DBExpr e)
            | None => default_fields_body F tr' RSelf fs
            end
        | DEnum vs =>
            match dt_expr a with
            | Some e =>
                let* _ := mapM (fun v => let* _ := default_variant_attr F tr' false (v_attrs v) in
                                         ensure_no_attribute F tr' (fields_list (v_fields v))) vs in
                Ok (DBExpr e)
            | None => let* v := select_variant F tr' vs in
                      default_fields_body F tr' (RSelfV (v_name v)) (v_fields v)
            end
        | DUnion fs =>
            match dt_expr a with
            | Some e => let* _ := ensure_no_attribute F tr' fs in Ok (DBExpr e)
            | None => let* (f, fa) := select_field F tr' fs in
                      Ok (DBNamed RSelf [(field_name f, field_value_of f fa)])
            end
        end) = Ok a0); [|rewrite Hbody; exact H].
      clear H. destruct (d_data d) as [fs|vs|fs]; cbn [map_data]; destruct (dt_expr a).
      - bo Hb0. rewrite fields_list_map, (ensure_no_attribute_r _ _ Hb1). exact Hb0.
      - apply default_fields_body_r. exact Hb0.
      - bo Hb0.
        assert (Hm : mapM (fun v => let* _ := default_variant_attr F tr' false (v_attrs v) in
                                    ensure_no_attribute F tr' (fields_list (v_fields v)))
                          (map rv vs) = Ok (map (fun x => x) a1)).
        { revert Hb1. apply mapM_r. intros v y Hv. bo Hv. cbn [map_variant v_attrs v_fields].
          rewrite (default_variant_attr_r _ _ _ Hb1). cbn [bind]. rewrite fields_list_map.
          apply ensure_no_attribute_r. exact Hv. }
        rewrite Hm. exact Hb0.
      - bo Hb0. rewrite (select_variant_r _ _ Hb1). cbn [bind map_variant v_name v_fields].
        apply default_fields_body_r. exact Hb0.
      - bo Hb0. rewrite (ensure_no_attribute_r _ _ Hb1). exact Hb0.
      - bo Hb0. rewrite (select_field_r _ _ Hb1). cbn [bind]. destruct a1 as [f fa]. exact Hb0.
    Qed.

    Theorem expand_default_r d m its :
      expand_default F tr d m = Ok its -> expand_default F tr' (rd d) m = Ok its.
    Proof.
      intros H. unfold expand_default in *. bo H. rewrite (default_plan_r _ _ _ Hb). exact H.
    Qed.
  End Default.

  (** ** PartialOrd, Ord (and the PartialOrd companion Ord emits) *)
  Section Ord.
    Definition rof (x : ofield) : ofield := (fst (fst x), rf (snd (fst x)), snd x).
    Definition rfp (p : fplan) : fplan :=
      {| fp_declared := map rof (fp_declared p); fp_sorted := map (on_snd rof) (fp_sorted p) |}.
    Definition rvp (v : vplan) : vplan :=
      match v with
      | VPUnit n => VPUnit n
      | VPNamed n p => VPNamed n (rfp p)
      | VPUnnamed n p => VPUnnamed n (rfp p)
      end.

    Lemma rank_mem_r {A} (h : A -> A) k m : rank_mem k (map (on_snd h) m) = rank_mem k m.
    Proof. induction m as [|[k' y] r IH]; [reflexivity|]. cbn [map on_snd fst snd rank_mem]. rewrite IH. reflexivity. Qed.

    Lemma rank_insert_r {A} (h : A -> A) k x m :
      rank_insert k (h x) (map (on_snd h) m) = map (on_snd h) (rank_insert k x m).
    Proof.
      induction m as [|[k' y] r IH]; [reflexivity|]. cbn [map on_snd fst snd rank_insert].
      destruct (Z.ltb k k'); [reflexivity|]. cbn [map on_snd fst snd]. rewrite IH. reflexivity.
    Qed.

    Variables (own own' : trait -> bool).
    Hypothesis Hown : forall t, own t = true -> keep t = true.
    Hypothesis Hown' : forall t, keep t = true -> own' t = own t.

    Lemma scan_ord_r {A} (build : meta -> outcome A) attrs r :
      scan_attrs F own build tr attrs = Ok r -> scan_attrs F own' build tr' (rho attrs) = Ok r.
    Proof. apply (scan_restrict F keep tr tr' Htr1); assumption. Qed.

    Lemma ord_field_attr_r i attrs r :
      ord_field_attr F own tr i attrs = Ok r -> ord_field_attr F own' tr' i (rho attrs) = Ok r.
    Proof. intros H. unfold ord_field_attr in *. bo H. rewrite (scan_ord_r _ _ _ Hb). exact H. Qed.

    Lemma ord_variant_attr_r attrs r :
      ord_variant_attr F own tr attrs = Ok r -> ord_variant_attr F own' tr' (rho attrs) = Ok r.
    Proof. intros H. unfold ord_variant_attr in *. bo H. rewrite (scan_ord_r _ _ _ Hb). exact H. Qed.

    Lemma plan_fields_r fs p :
      plan_fields F own tr fs = Ok p -> plan_fields F own' tr' (map rf fs) = Ok (rfp p).
    Proof.
      unfold plan_fields. rewrite indexed_map.
      apply (foldM_r (plan_field F own tr) (plan_field F own' tr') (on_snd rf) rfp).
      intros s [i f] s' H. unfold plan_field in *. cbn [on_snd fst snd map_field f_attrs].
      bo H. rewrite (ord_field_attr_r _ _ _ Hb). cbn [bind].
      destruct (oa_ignore a).
      - injection H as <-. unfold rfp. cbn [fp_declared fp_sorted]. rewrite map_app. reflexivity.
      - unfold rfp at 1. cbn [fp_sorted]. rewrite rank_mem_r.
        destruct (rank_mem (oa_rank a) (fp_sorted s)); [discriminate|]. injection H as <-.
        unfold rfp. cbn [fp_declared fp_sorted]. rewrite map_app.
        change (i, rf f, a) with (rof (i, f, a)). rewrite rank_insert_r. reflexivity.
    Qed.

    Lemma plan_variant_r v r :
      plan_variant F own tr v = Ok r -> plan_variant F own' tr' (rv v) = Ok (rvp r).
    Proof.
      intros H. unfold plan_variant in *. bo H. cbn [map_variant v_attrs v_fields v_name].
      rewrite (ord_variant_attr_r _ _ Hb). cbn [bind].
      destruct (v_fields v) as [fs|fs|]; cbn [map_fields].
      - bo H. rewrite (plan_fields_r _ _ Hb0). cbn [bind]. injection H as <-. reflexivity.
      - bo H. rewrite (plan_fields_r _ _ Hb0). cbn [bind]. injection H as <-. reflexivity.
      - injection H as <-. reflexivity.
    Qed.

    Lemma sorted_fields_r p : sorted_fields (rfp p) = map rof (sorted_fields p).
    Proof. unfold sorted_fields, rfp. cbn [fp_sorted]. rewrite !map_map. reflexivity. Qed.

    Lemma ord_types_r p : ord_types (rfp p) = ord_types p.
    Proof. unfold ord_types. rewrite sorted_fields_r. emit_eq. Qed.

    Lemma cmp_struct_body_r partial p : cmp_struct_body partial (rfp p) = cmp_struct_body partial p.
    Proof. unfold cmp_struct_body. rewrite sorted_fields_r. emit_eq. Qed.

    Lemma cmp_arm_named_r partial n p : cmp_arm_named partial n (rfp p) = cmp_arm_named partial n p.
    Proof. unfold cmp_arm_named. rewrite sorted_fields_r. cbn [rfp fp_declared]. emit_eq. Qed.

    Lemma cmp_arm_unnamed_r partial n p : cmp_arm_unnamed partial n (rfp p) = cmp_arm_unnamed partial n p.
    Proof. unfold cmp_arm_unnamed. rewrite sorted_fields_r. cbn [rfp fp_declared]. emit_eq. Qed.

    Lemma cmp_arm_r partial v : cmp_arm partial (rvp v) = cmp_arm partial v.
    Proof. destruct v; cbn [rvp cmp_arm]; [reflexivity|apply cmp_arm_named_r|apply cmp_arm_unnamed_r]. Qed.

    Lemma vplan_types_r vps : flat_map vplan_types (map rvp vps) = flat_map vplan_types vps.
    Proof. apply flat_map_conv. intros [n|n p|n p]; cbn [rvp vplan_types]; [reflexivity|apply ord_types_r..]. Qed.

    Lemma cmp_enum_body_r partial ds vps :
      cmp_enum_body partial ds (map rvp vps) = cmp_enum_body partial ds vps.
    Proof.
      unfold cmp_enum_body. rewrite is_nil_map.
      rewrite (forallb_conv vplan_is_unit rvp) by (intros [n|n p|n p]; reflexivity).
      rewrite (map_conv (cmp_arm partial) rvp) by (apply cmp_arm_r). reflexivity.
    Qed.

    Lemma discr_values_from_r vs : forall c,
      discr_values_from c (map rv vs) = discr_values_from c vs.
    Proof.
      induction vs as [|v r IH]; intros c; [reflexivity|]. cbn [map discr_values_from map_variant v_discr v_name].
      apply cg_bind_r. intros c1. rewrite IH. reflexivity.
    Qed.
  End Ord.

  Theorem expand_partial_ord_r d m its : keep TPartialOrd = true -> keep TOrd = true ->
    expand_partial_ord F tr d m = Ok its -> expand_partial_ord F tr' (rd d) m = Ok its.
  Proof.
    intros Hk Hk2 H. unfold expand_partial_ord in *. rewrite (coupling_r TOrd Hk2).
    destruct (has_trait TOrd F && has_trait TOrd tr); [exact H|].
    cbn [map_dinput d_data].
    pose proof (own_single TPartialOrd Hk) as Hown.
    assert (Hown' : forall t, keep t = true -> trait_eqb TPartialOrd t = trait_eqb TPartialOrd t) by reflexivity.
    destruct (d_data d) as [fs|vs|fs]; cbn [map_data]; [| |exact H].
    - bo H. bo H. rewrite Hb. cbn [bind]. rewrite fields_list_map.
      rewrite (plan_fields_r _ _ Hown Hown' _ _ Hb0). cbn [bind].
      rewrite ord_types_r, cmp_struct_body_r. exact H.
    - bo H. bo H. bo H. rewrite Hb. cbn [bind]. unfold discriminant_values in *.
      rewrite discr_values_from_r, Hb0. cbn [bind].
      rewrite (mapM_r _ (plan_variant F (trait_eqb TPartialOrd) tr') rv rvp
                      (plan_variant_r _ _ Hown Hown') _ _ Hb1). cbn [bind].
      rewrite vplan_types_r, cmp_enum_body_r. exact H.
  Qed.

  Theorem expand_ord_r d m its : keep TOrd = true -> keep TPartialOrd = true ->
    expand_ord F tr d m = Ok its -> expand_ord F tr' (rd d) m = Ok its.
  Proof.
    intros Hk Hk2 H. unfold expand_ord in *. cbn [map_dinput d_data].
    assert (Hown : forall t, own_ord F tr t = true -> keep t = true).
    { intros t Ht. unfold own_ord in Ht. apply orb_true_iff in Ht as [Ht|Ht].
      - apply trait_eqb_eq in Ht. subst. exact Hk.
      - apply andb_true_iff in Ht as [_ Ht]. apply trait_eqb_eq in Ht. subst. exact Hk2. }
    assert (Hown' : forall t, keep t = true -> own_ord F tr' t = own_ord F tr t).
    { intros t _. unfold own_ord. rewrite (coupling_r TPartialOrd Hk2). reflexivity. }
    assert (Hsup : ord_supertraits F tr' = ord_supertraits F tr).
    { unfold ord_supertraits. rewrite (Htr TPartialOrd Hk2). reflexivity. }
    assert (Hitems : forall g body, ord_items F tr' (rd d) g body = ord_items F tr d g body).
    { intros g body. unfold ord_items. rewrite (coupling_r TPartialOrd Hk2). reflexivity. }
    rewrite Hsup.
    destruct (d_data d) as [fs|vs|fs]; cbn [map_data]; [| |exact H].
    - bo H. bo H. rewrite Hb. cbn [bind]. rewrite fields_list_map.
      rewrite (plan_fields_r _ _ Hown Hown' _ _ Hb0). cbn [bind].
      rewrite ord_types_r, cmp_struct_body_r, Hitems. exact H.
    - bo H. bo H. bo H. rewrite Hb. cbn [bind]. unfold discriminant_values in *.
      rewrite discr_values_from_r, Hb0. cbn [bind].
      rewrite (mapM_r _ (plan_variant F (own_ord F tr') tr') rv rvp
                      (plan_variant_r _ _ Hown Hown') _ _ Hb1). cbn [bind].
      rewrite vplan_types_r, cmp_enum_body_r, Hitems. exact H.
  Qed.

  (** ** Debug *)
  Section Debug.
    Hypothesis Hk : keep TDebug = true.

    Notation rl := (on_snd (A := nat) (on_fst (B := Expand_Debug.dfattr) rf)).
    Definition rdv (v : dvariant) : dvariant :=
      {| dv_ident := dv_ident v; dv_fields := map_fields rho (dv_fields v);
         dv_name_string := dv_name_string v; dv_named_field := dv_named_field v;
         dv_list := map rl (dv_list v) |}.

    Lemma debug_variant_attr_r b attrs r :
      debug_variant_attr F tr b attrs = Ok r -> debug_variant_attr F tr' b (rho attrs) = Ok r.
    Proof. intros H. unfold debug_variant_attr in *. bo H. rewrite (scan_r _ _ _ _ Hk Hb). exact H. Qed.

    Lemma debug_field_attr_r a b c attrs r :
      debug_field_attr F tr a b c attrs = Ok r -> debug_field_attr F tr' a b c (rho attrs) = Ok r.
    Proof. intros H. unfold debug_field_attr in *. bo H. rewrite (scan_r _ _ _ _ Hk Hb). exact H. Qed.

    Lemma debug_field_attrs_r en fs l :
      debug_field_attrs F tr en fs = Ok l ->
      debug_field_attrs F tr' en (map rf fs) = Ok (map rl l).
    Proof.
      intros H. unfold debug_field_attrs in *. bo H. injection H as <-.
      assert (Hm : mapM (fun f => let* fa := debug_field_attr F tr' en true true (f_attrs f) in Ok (f, fa))
                        (map rf fs) = Ok (map (on_fst rf) a)).
      { revert Hb. apply mapM_r. intros f y Hf. bo Hf. injection Hf as <-. cbn [map_field f_attrs].
        rewrite (debug_field_attr_r _ _ _ _ _ Hb). reflexivity. }
      rewrite Hm. cbn [bind]. rewrite indexed_map. reflexivity.
    Qed.

    Lemma dbg_types_r l : dbg_types (map rl l) = dbg_types l.
    Proof. unfold dbg_types. emit_eq. Qed.
    Lemma has_shown_r l : has_shown (map rl l) = has_shown l.
    Proof. unfold has_shown. emit_eq. Qed.
    Lemma dbg_struct_body_r d name nf l :
      dbg_struct_body (rd d) name nf (map rl l) = dbg_struct_body d name nf l.
    Proof. unfold dbg_struct_body. destruct nf; emit_eq. Qed.
    Lemma dbg_arm_block_r d v : dbg_arm_block (rd d) (rdv v) = dbg_arm_block d v.
    Proof.
      unfold dbg_arm_block. cbn [rdv dv_name_string dv_named_field dv_list].
      destruct (dv_named_field v); emit_eq.
    Qed.
    Lemma dbg_arm_r d v : dbg_arm (rd d) (rdv v) = dbg_arm d v.
    Proof.
      unfold dbg_arm. rewrite dbg_arm_block_r. cbn [rdv dv_fields dv_ident dv_name_string dv_list].
      destruct (dv_fields v); cbn [map_fields]; emit_eq.
    Qed.
    Lemma dbg_enum_body_r d name vs : dbg_enum_body (rd d) name (map rdv vs) = dbg_enum_body d name vs.
    Proof.
      unfold dbg_enum_body. rewrite is_nil_map, map_map.
      rewrite (map_ext _ _ (dbg_arm_r d)). reflexivity.
    Qed.
    Lemma dbg_variant_types_r vs :
      flat_map (fun v => dbg_types (dv_list v)) (map rdv vs) = flat_map (fun v => dbg_types (dv_list v)) vs.
    Proof. apply flat_map_conv. intros v. cbn [rdv dv_list]. apply dbg_types_r. Qed.

    Lemma debug_variant_r name v r :
      debug_variant F tr name v = Ok r -> debug_variant F tr' name (rv v) = Ok (rdv r).
    Proof.
      intros H. unfold debug_variant in *. cbn [map_variant v_attrs v_fields v_name].
      assert (Hnamed : match map_fields rho (v_fields v) with FNamed _ => true | _ => false end
                       = match v_fields v with FNamed _ => true | _ => false end)
        by (destruct (v_fields v); reflexivity).
      rewrite Hnamed. bo H. rewrite (debug_variant_attr_r _ _ _ Hb). cbn [bind].
      destruct (v_fields v) as [fs|fs|]; cbn [map_fields fields_list] in *.
      - bo H. rewrite (debug_field_attrs_r _ _ _ Hb0). cbn [bind]. rewrite has_shown_r.
        destruct (negb (has_shown a0) && negb (is_some (name_string name (tname_ident (dt_name a) (v_name v)))));
          [discriminate|]. injection H as <-. reflexivity.
      - bo H. rewrite (debug_field_attrs_r _ _ _ Hb0). cbn [bind]. rewrite has_shown_r.
        destruct (negb (has_shown a0) && negb (is_some (name_string name (tname_ident (dt_name a) (v_name v)))));
          [discriminate|]. injection H as <-. reflexivity.
      - destruct (is_some (name_string name (tname_ident (dt_name a) (v_name v)))); [|discriminate].
        injection H as <-. reflexivity.
    Qed.

    Theorem expand_debug_r d m its :
      expand_debug F tr d m = Ok its -> expand_debug F tr' (rd d) m = Ok its.
    Proof.
      intros H. unfold expand_debug in *. cbn [map_dinput d_data d_name d_generics].
      destruct (d_data d) as [fs|vs|fs]; cbn [map_data].
      - assert (Htup : match map_fields rho fs with FUnnamed _ => true | _ => false end
                       = match fs with FUnnamed _ => true | _ => false end) by (destruct fs; reflexivity).
        rewrite Htup. bo H. rewrite Hb. cbn [bind]. bo H.
        rewrite fields_list_map, (debug_field_attrs_r _ _ _ Hb0). cbn [bind].
        rewrite has_shown_r, dbg_types_r.
        destruct (negb (has_shown a0) && negb (is_some (tname_ident (dt_name a) (d_name d))));
          [discriminate|].
        rewrite <- (dbg_struct_body_r d) in H. exact H.
      - bo H. rewrite Hb. cbn [bind]. bo H.
        rewrite (mapM_r _ (debug_variant F tr' (tname_ident (dt_name a) (d_name d))) rv rdv
                        (debug_variant_r _) _ _ Hb0). cbn [bind].
        rewrite is_nil_map, dbg_variant_types_r.
        destruct (is_nil a0 && negb (is_some (tname_ident (dt_name a) (d_name d)))); [discriminate|].
        rewrite <- (dbg_enum_body_r d) in H. exact H.
      - bo H. rewrite Hb. cbn [bind]. destruct (negb (dt_unsafe a)); [discriminate|]. bo H.
        rewrite (mapM_r _ (fun f => debug_field_attr F tr' false false false (f_attrs f)) rf (fun x => x)
                        (fun f y => debug_field_attr_r false false false (f_attrs f) y) _ _ Hb0).
        cbn [bind]. exact H.
    Qed.
  End Debug.

  (** ** Into *)
  Section Into.
    Hypothesis Hk : keep TInto = true.

    Definition rc (c : into_choice) : into_choice := (fst (fst c), rf (snd (fst c)), snd c).
    Definition rsc (x : string * into_choice) : string * into_choice := (fst x, rc (snd x)).
    Definition rp1 (p : into_plan1) : into_plan1 :=
      match p with IPStruct c => IPStruct (rc c) | IPEnum l => IPEnum (map rsc l) end.
    Definition rpt (x : toks * bound * into_plan1) : toks * bound * into_plan1 := (fst x, rp1 (snd x)).
    Definition omap {A B} (g : A -> B) (o : outcome A) : outcome B :=
      match o with Ok a => Ok (g a) | Err e => Err e | Panic s => Panic s | OutOfDomain w => OutOfDomain w end.

    Lemma into_variant_attr_r attrs r :
      into_variant_attr F tr attrs = Ok r -> into_variant_attr F tr' (rho attrs) = Ok r.
    Proof.
      intros H. unfold into_variant_attr in *. bo H.
      rewrite (into_collect_restrict F keep tr tr' Htr1 _ _ Hk Hb). exact H.
    Qed.

    Lemma into_field_attr_r tg f r :
      into_field_attr F tr tg f = Ok r -> into_field_attr F tr' tg (rf f) = Ok (on_fst rf r).
    Proof.
      intros H. unfold into_field_attr in *. bo H. cbn [map_field f_attrs].
      rewrite (into_collect_restrict F keep tr tr' Htr1 _ _ Hk Hb). cbn [bind]. bo H.
      rewrite Hb0. cbn [bind]. destruct (forallb (fun '(k, _) => ty_mem k tg) a0); [|discriminate].
      injection H as <-. reflexivity.
    Qed.

    Lemma flat_map_map_comm {A B} (g : A -> list B) (g' : A -> list B) (h : A -> A) (k : B -> B) l :
      (forall x, g' (h x) = map k (g x)) -> flat_map g' (map h l) = map k (flat_map g l).
    Proof.
      intros H. induction l as [|x l IH]; [reflexivity|]. cbn [map flat_map].
      rewrite map_app, H, IH. reflexivity.
    Qed.

    Lemma into_flagged_r tg (fs : list (field * into_fattr)) :
      into_flagged tg (map (on_fst rf) fs) = map rc (into_flagged tg fs).
    Proof.
      unfold into_flagged. rewrite indexed_map. apply flat_map_map_comm.
      intros [i [f fa]]. cbn [on_snd on_fst fst snd]. destruct (ty_lookup tg fa); reflexivity.
    Qed.

    Lemma into_same_typed_r tg (fs : list (field * into_fattr)) :
      into_same_typed tg (map (on_fst rf) fs) = map rc (into_same_typed tg fs).
    Proof.
      unfold into_same_typed. rewrite indexed_map. apply flat_map_map_comm.
      intros [i [f fa]]. cbn [on_snd on_fst fst snd map_field f_ty].
      destruct (flat_eqb tg (hash_type (f_ty f))); reflexivity.
    Qed.

    Lemma into_select_r tg (fs : list (field * into_fattr)) :
      into_select tg (map (on_fst rf) fs) = omap rc (into_select tg fs).
    Proof.
      unfold into_select. pose proof (into_flagged_r tg fs) as Hf. pose proof (into_same_typed_r tg fs) as Hs.
      destruct fs as [|[f1 fa1] [|x2 l]].
      - reflexivity.
      - reflexivity.
      - change (map (on_fst rf) ((f1, fa1) :: x2 :: l))
          with ((rf f1, fa1) :: on_fst rf x2 :: map (on_fst rf) l) in *.
        destruct x2 as [f2 fa2]. cbn [on_fst fst snd] in *.
        rewrite Hf, Hs.
        destruct (into_flagged tg ((f1, fa1) :: (f2, fa2) :: l)) as [|c1 [|c2 r]]; cbn [map omap]; try reflexivity.
        destruct (into_same_typed tg ((f1, fa1) :: (f2, fa2) :: l)) as [|c1 [|c2 r]]; reflexivity.
    Qed.

    Lemma into_struct_target_r (l : list (field * into_fattr)) t :
      into_struct_target (map (on_fst rf) l) t = omap rpt (into_struct_target l t).
    Proof.
      unfold into_struct_target. rewrite into_select_r. destruct (into_select (fst t) l); reflexivity.
    Qed.

    Definition rvl (x : variant * list (field * into_fattr)) := (rv (fst x), map (on_fst rf) (snd x)).

    Lemma into_variant_choice_r tg x :
      into_variant_choice tg (rvl x) = omap rsc (into_variant_choice tg x).
    Proof.
      unfold into_variant_choice, rvl. cbn [fst snd map_variant v_fields v_name].
      destruct (v_fields (fst x)); cbn [map_fields]; try reflexivity;
        rewrite into_select_r; destruct (into_select tg (snd x)); reflexivity.
    Qed.

    Lemma mapM_omap {A B} (f f' : A -> outcome B) (h : A -> A) (g : B -> B) l :
      (forall x, f' (h x) = omap g (f x)) -> mapM f' (map h l) = omap (map g) (mapM f l).
    Proof.
      intros H. induction l as [|x l IH]; [reflexivity|]. cbn [map mapM]. rewrite H, IH.
      destruct (f x); cbn [omap bind]; try reflexivity. destruct (mapM f l); reflexivity.
    Qed.

    Lemma into_enum_target_r l t :
      into_enum_target (map rvl l) t = omap rpt (into_enum_target l t).
    Proof.
      unfold into_enum_target.
      rewrite (mapM_omap (into_variant_choice (fst t)) (into_variant_choice (fst t)) rvl rsc)
        by (apply into_variant_choice_r).
      destruct (mapM (into_variant_choice (fst t)) l) as [a| | |]; cbn [omap bind]; try reflexivity.
      rewrite is_nil_map. destruct (is_nil a); reflexivity.
    Qed.

    Lemma into_results_r d ms rs :
      into_results F tr d ms = Ok rs -> into_results F tr' (rd d) ms = Ok (map (omap rpt) rs).
    Proof.
      intros H. unfold into_results in *. cbn [map_dinput d_data].
      destruct (d_data d) as [fs|vs|fs]; cbn [map_data]; [| |discriminate].
      - bo H. bo H. rewrite Hb. cbn [bind]. rewrite fields_list_map.
        rewrite (mapM_r _ (into_field_attr F tr' a) rf (on_fst rf) (into_field_attr_r a) _ _ Hb0).
        cbn [bind]. injection H as <-. rewrite map_map. f_equal. apply map_ext.
        intros t. apply into_struct_target_r.
      - bo H. bo H. rewrite Hb. cbn [bind].
        assert (Hm : mapM (fun v => let* _ := into_variant_attr F tr' (v_attrs v) in
                                    let* fl := mapM (into_field_attr F tr' a) (fields_list (v_fields v)) in
                                    Ok (v, fl)) (map rv vs) = Ok (map rvl a0)).
        { revert Hb0. apply mapM_r. intros v y Hv. bo Hv. bo Hv. injection Hv as <-.
          cbn [map_variant v_attrs v_fields]. rewrite (into_variant_attr_r _ _ Hb0). cbn [bind].
          rewrite fields_list_map.
          rewrite (mapM_r _ (into_field_attr F tr' a) rf (on_fst rf) (into_field_attr_r a) _ _ Hb1).
          reflexivity. }
        rewrite Hm. cbn [bind]. injection H as <-. rewrite map_map. f_equal. apply map_ext.
        intros t. apply into_enum_target_r.
    Qed.

    Lemma into_conv_r tg c e : into_conv tg (rc c) e = into_conv tg c e.
    Proof. destruct c as [[i f] m]. reflexivity. Qed.
    Lemma into_types_r tg c : into_types tg (rc c) = into_types tg c.
    Proof. destruct c as [[i f] m]. reflexivity. Qed.
    Lemma into_arm_r tg x : into_arm tg (rsc x) = into_arm tg x.
    Proof. destruct x as [v [[i f] m]]. reflexivity. Qed.

    Lemma into_emit1_r d x : into_emit1 (rd d) (rpt x) = into_emit1 d x.
    Proof.
      destruct x as [[tg b] p]. unfold rpt. cbn [fst snd]. destruct p as [c|l]; cbn [rp1 into_emit1].
      - destruct c as [[i f] m]. reflexivity.
      - unfold into_enum_item.
        rewrite (flat_map_conv (fun x => into_types tg (snd x)) rsc)
          by (intros [v c]; cbn [rsc fst snd]; apply into_types_r).
        rewrite (map_conv (into_arm tg) rsc) by (apply into_arm_r). reflexivity.
    Qed.

    Theorem expand_into_r d ms its :
      expand_into F tr d ms = Ok its -> expand_into F tr' (rd d) ms = Ok its.
    Proof.
      intros H. unfold expand_into, into_analyse in *. bo H. bo Hb.
      rewrite (into_results_r _ _ _ Hb0). cbn [bind].
      assert (Hm : mapM (fun r => r) (map (omap rpt) a0) = Ok (map rpt a)).
      { revert Hb. clear. revert a. induction a0 as [|o l IH]; intros a H; cbn [map mapM] in *.
        - injection H as <-. reflexivity.
        - bo H. bo H. injection H as <-. rewrite Hb. cbn [omap bind]. rewrite (IH _ Hb0). reflexivity. }
      rewrite Hm. cbn [bind]. injection H as <-. unfold into_emit. rewrite map_map. f_equal.
      apply map_ext. apply into_emit1_r.
    Qed.
  End Into.
End Handlers.
