(** C14, part i: Default. *)
From Educe.Proofs Require Export P_C14h.
Import Expand_Default.

Lemma default_dtattr_respects F pos ef en ee eb :
  pos <> PField -> build_respects F (trait_eqb TDefault) (build_dtattr ef en ee eb) pos.
Proof.
  intros Hpos m m' H t Et Eo. apply trait_eqb_eq in Eo. subst t.
  apply (default_build_dtattr_equiv pos ef en ee eb m m' Hpos H).
  exact (trait_from_path_name F _ TDefault Et).
Qed.

Lemma default_dfattr_respects F pos ef ee ty :
  build_respects F (trait_eqb TDefault) (build_dfattr ef ee ty) pos.
Proof.
  intros m m' H t Et Eo. apply trait_eqb_eq in Eo. subst t.
  apply (default_build_dfattr_equiv pos ef ee ty m m' H).
  exact (trait_from_path_name F _ TDefault Et).
Qed.

Lemma default_variant_attr_spelling F traits traits' ef attrs attrs' :
  (forall t, has_trait t traits = has_trait t traits') ->
  variant_attrs_equiv attrs attrs' ->
  osim (default_variant_attr F traits ef attrs) (default_variant_attr F traits' ef attrs').
Proof.
  intros Ht H. unfold default_variant_attr. apply osim_bind; [|intros o; apply osim_refl].
  apply (scan_attrs_spelling F _ _ _ traits traits' PVariant); auto.
  apply default_dtattr_respects. discriminate.
Qed.

Lemma default_field_attr_spelling F traits traits' ef ee f f' :
  (forall t, has_trait t traits = has_trait t traits') ->
  field_equiv (field_attrs_equiv F traits) f f' ->
  osim (default_field_attr F traits ef ee f) (default_field_attr F traits' ef ee f').
Proof.
  intros Ht [_ Hty H]. unfold default_field_attr. rewrite <- Hty.
  apply (scan_default_spelling F (trait_eqb TDefault) (trait_eqb TDefault) (build_dfattr ef ee (f_ty f))
           traits traits' dfattr_default);
    [exact Ht|intros; reflexivity|apply one_trait_group
    |intros p t _ Hin Ho; exfalso; apply trait_eqb_eq in Ho; subst; cbn in Hin; intuition discriminate
    |apply default_dfattr_respects|exact H].
Qed.

Lemma default_ufield_attr_spelling F traits traits' ef ee f f' :
  (forall t, has_trait t traits = has_trait t traits') ->
  field_equiv ufield_attrs_equiv f f' ->
  osim (default_field_attr F traits ef ee f) (default_field_attr F traits' ef ee f').
Proof.
  intros Ht [_ Hty H]. unfold default_field_attr. rewrite <- Hty.
  apply osim_bind; [|intros o; apply osim_refl].
  apply (scan_attrs_spelling F _ _ _ traits traits' PField); auto. apply default_dfattr_respects.
Qed.

Lemma ensure_no_attribute_spelling F traits traits' fs fs' :
  (forall t, has_trait t traits = has_trait t traits') ->
  Forall2 (field_equiv (field_attrs_equiv F traits)) fs fs' ->
  osim (ensure_no_attribute F traits fs) (ensure_no_attribute F traits' fs').
Proof.
  intros Ht H. unfold ensure_no_attribute. apply osim_bind; [|intros x; apply osim_refl].
  apply (mapM_osim (field_equiv (field_attrs_equiv F traits))); [|exact H].
  intros f f' Hf. exact (default_field_attr_spelling F traits traits' _ _ f f' Ht Hf).
Qed.

Lemma ensure_no_attribute_uspelling F traits traits' fs fs' :
  (forall t, has_trait t traits = has_trait t traits') ->
  Forall2 (field_equiv ufield_attrs_equiv) fs fs' ->
  osim (ensure_no_attribute F traits fs) (ensure_no_attribute F traits' fs').
Proof.
  intros Ht H. unfold ensure_no_attribute. apply osim_bind; [|intros x; apply osim_refl].
  apply (mapM_osim (field_equiv ufield_attrs_equiv)); [|exact H].
  intros f f' Hf. exact (default_ufield_attr_spelling F traits traits' _ _ f f' Ht Hf).
Qed.

Lemma default_field_value_spelling F traits traits' f f' :
  (forall t, has_trait t traits = has_trait t traits') ->
  field_equiv (field_attrs_equiv F traits) f f' ->
  osim (default_field_value F traits f) (default_field_value F traits' f').
Proof.
  intros Ht Hf. unfold default_field_value.
  apply osim_bind; [exact (default_field_attr_spelling F traits traits' _ _ f f' Ht Hf)|].
  intros fa. unfold field_value_of. rewrite (fe_ty _ _ _ Hf). apply osim_refl.
Qed.

Lemma default_fields_body_spelling F traits traits' p fs fs' :
  (forall t, has_trait t traits = has_trait t traits') ->
  fields_equiv (field_attrs_equiv F traits) fs fs' ->
  osim (default_fields_body F traits p fs) (default_fields_body F traits' p fs').
Proof.
  intros Ht H. unfold default_fields_body. destruct H as [l l' Hl|l l' Hl|]; [| |apply osim_refl].
  - apply osim_bind; [|intros x; apply osim_refl].
    apply (mapM_osim (field_equiv (field_attrs_equiv F traits))); [|exact Hl].
    intros f f' Hf. apply osim_bind; [exact (default_field_value_spelling F traits traits' f f' Ht Hf)|].
    intros v. unfold field_name. rewrite (fe_name _ _ _ Hf). apply osim_refl.
  - apply osim_bind; [|intros x; apply osim_refl].
    apply (mapM_osim (field_equiv (field_attrs_equiv F traits))); [|exact Hl].
    intros f f' Hf. exact (default_field_value_spelling F traits traits' f f' Ht Hf).
Qed.

Lemma select_variant_spelling F traits traits' vs vs' :
  (forall t, has_trait t traits = has_trait t traits') ->
  Forall2 (variant_equiv F traits) vs vs' ->
  osimR (variant_equiv F traits) (select_variant F traits vs) (select_variant F traits' vs').
Proof.
  intros Ht H.
  assert (Hfold : forall l l', Forall2 (variant_equiv F traits) l l' ->
            osimR (variant_equiv F traits)
              (let* o := foldM (select_variant_step F traits) None l in
               match o with Some v => Ok v | None => Err E_default_no_variant end)
              (let* o := foldM (select_variant_step F traits') None l' in
               match o with Some v => Ok v | None => Err E_default_no_variant end)).
  { intros l l' Hl. eapply (osimR_bind (opt_R (variant_equiv F traits))).
    - apply (foldM_osimR (opt_R (variant_equiv F traits)) (variant_equiv F traits));
        [|exact Hl|exact Logic.I].
      intros s s' v v' Hs Hv. unfold select_variant_step.
      eapply (osimR_bind eq);
        [exact (default_variant_attr_spelling F traits traits' true _ _ Ht (ve_attrs _ _ _ _ Hv))|].
      intros ta ta' <-. destruct (dt_flag ta).
      + destruct s, s'; cbn [opt_R] in Hs; try contradiction; cbn [osimR opt_R]; [exact Logic.I|exact Hv].
      + eapply (osimR_bind eq).
        * apply ensure_no_attribute_spelling; [exact Ht|].
          exact (fields_equiv_list _ _ _ (ve_fields _ _ _ _ Hv)).
        * intros _ _ _. exact Hs.
    - intros o o' Ho. destruct o, o'; cbn [opt_R] in Ho; try contradiction; [exact Ho|exact Logic.I]. }
  destruct H as [|v v' l l' Hv Hl]; [exact (Hfold [] [] (Forall2_nil _))|].
  destruct Hl as [|v2 v2' l l' Hv2 Hl].
  - unfold select_variant. eapply (osimR_bind eq).
    + exact (default_variant_attr_spelling F traits traits' true _ _ Ht (ve_attrs _ _ _ _ Hv)).
    + intros _ _ _. exact Hv.
  - exact (Hfold (v :: v2 :: l) (v' :: v2' :: l') (Forall2_cons _ _ Hv (Forall2_cons _ _ Hv2 Hl))).
Qed.

Lemma select_field_spelling F traits traits' fs fs' :
  (forall t, has_trait t traits = has_trait t traits') ->
  Forall2 (field_equiv ufield_attrs_equiv) fs fs' ->
  osimR FR (select_field F traits fs) (select_field F traits' fs').
Proof.
  intros Ht H.
  assert (Hfold : forall l l', Forall2 (field_equiv ufield_attrs_equiv) l l' ->
            osimR FR
              (let* o := foldM (select_field_step F traits) None l in
               match o with Some x => Ok x | None => Err E_default_no_field end)
              (let* o := foldM (select_field_step F traits') None l' in
               match o with Some x => Ok x | None => Err E_default_no_field end)).
  { intros l l' Hl. eapply (osimR_bind (opt_R FR)).
    - apply (foldM_osimR (opt_R FR) (field_equiv ufield_attrs_equiv)); [|exact Hl|exact Logic.I].
      intros s s' f f' Hs Hf. unfold select_field_step.
      eapply (osimR_bind eq); [exact (default_ufield_attr_spelling F traits traits' _ _ f f' Ht Hf)|].
      intros fa fa' <-. destruct (df_flag fa || _); [|exact Hs].
      destruct s, s'; cbn [opt_R] in Hs; try contradiction; cbn [osimR opt_R]; [exact Logic.I|].
      split; [exact (field_equiv_fsame _ _ _ Hf)|reflexivity].
    - intros o o' Ho. destruct o, o'; cbn [opt_R] in Ho; try contradiction; [exact Ho|exact Logic.I]. }
  destruct H as [|f f' l l' Hf Hl]; [exact (Hfold [] [] (Forall2_nil _))|].
  destruct Hl as [|f2 f2' l l' Hf2 Hl].
  - unfold select_field. eapply (osimR_bind eq).
    + exact (default_ufield_attr_spelling F traits traits' _ _ f f' Ht Hf).
    + intros fa fa' <-. split; [exact (field_equiv_fsame _ _ _ Hf)|reflexivity].
  - exact (Hfold (f :: f2 :: l) (f' :: f2' :: l') (Forall2_cons _ _ Hf (Forall2_cons _ _ Hf2 Hl))).
Qed.

Lemma default_plan_spelling F traits traits' d d' m m' :
  (forall t, has_trait t traits = has_trait t traits') ->
  data_equiv F traits (d_data d) (d_data d') ->
  tmeta_equiv PType m m' -> get_ident (meta_path m) = Some "Default"%string ->
  osim (default_plan F traits d m) (default_plan F traits' d' m').
Proof.
  intros Ht Hd Hm Hp. unfold default_plan.
  apply osim_bind.
  { apply (default_build_dtattr_equiv PType true true true true m m'); [discriminate|exact Hm|exact Hp]. }
  intros ta. apply osim_bind; [|intros b; apply osim_refl].
  destruct Hd as [fs fs' Hfs|vs vs' Hvs|fs fs' Hfs].
  - destruct (dt_expr ta) as [e|].
    + apply osim_bind; [|intros x; apply osim_refl].
      apply ensure_no_attribute_spelling; [exact Ht|exact (fields_equiv_list _ _ _ Hfs)].
    + exact (default_fields_body_spelling F traits traits' RSelf fs fs' Ht Hfs).
  - destruct (dt_expr ta) as [e|].
    + apply osim_bind; [|intros x; apply osim_refl].
      apply (mapM_osim (variant_equiv F traits)); [|exact Hvs].
      intros v v' Hv. apply osim_bind.
      * exact (default_variant_attr_spelling F traits traits' false _ _ Ht (ve_attrs _ _ _ _ Hv)).
      * intros _. apply ensure_no_attribute_spelling; [exact Ht|].
        exact (fields_equiv_list _ _ _ (ve_fields _ _ _ _ Hv)).
    + eapply osimR_bind; [exact (select_variant_spelling F traits traits' vs vs' Ht Hvs)|].
      intros v v' Hv. rewrite <- (ve_name _ _ _ _ Hv).
      exact (default_fields_body_spelling F traits traits' _ _ _ Ht (ve_fields _ _ _ _ Hv)).
  - destruct (dt_expr ta) as [e|].
    + apply osim_bind; [|intros x; apply osim_refl].
      apply ensure_no_attribute_uspelling; [exact Ht|exact Hfs].
    + eapply osimR_bind; [exact (select_field_spelling F traits traits' fs fs' Ht Hfs)|].
      intros [f fa] [f' fa'] [[Hfn Hty] E]. cbn [fst snd] in *. subst fa'.
      unfold field_name, field_value_of. rewrite Hfn, Hty. apply osim_refl.
Qed.

Theorem expand_default_spelling F traits traits' d d' m m' :
  (forall t, has_trait t traits = has_trait t traits') ->
  d_name d = d_name d' -> d_generics d = d_generics d' ->
  data_equiv F traits (d_data d) (d_data d') ->
  tmeta_equiv PType m m' -> get_ident (meta_path m) = Some "Default"%string ->
  osim (expand_default F traits d m) (expand_default F traits' d' m').
Proof.
  intros Ht Hn Hg Hd Hm Hp. unfold expand_default.
  apply osim_bind; [exact (default_plan_spelling F traits traits' d d' m m' Ht Hd Hm Hp)|].
  intros p. unfold default_items, default_item, new_item. rewrite <- Hn, <- Hg. apply osim_refl.
Qed.
