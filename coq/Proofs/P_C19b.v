(** C19 / H1 -- the handlers PartialOrd, Ord and Debug. *)
From Educe.Proofs Require Export P_C19a P_C03e.

(** * PartialOrd / Ord *)
Lemma ord_result_hyg cfg sc partial c : expr_hyg cfg sc (ord_result partial c) = true.
Proof. destruct partial; reflexivity. Qed.

Lemma ord_pattern_hyg sc partial c : pat_hyg sc (ord_pattern partial c) = true.
Proof. destruct partial; reflexivity. Qed.

Lemma cmp_step_hyg cfg sc partial fa a b :
  expr_hyg cfg sc a = true -> expr_hyg cfg sc b = true ->
  expr_hyg cfg sc (cmp_step partial fa a b) = true.
Proof.
  intros Ha Hb. unfold cmp_step, cmp_callee, builtin_cmp.
  destruct partial, (oa_method fa); hsimpl; rewrite Ha, Hb; reflexivity.
Qed.

Lemma cmp_struct_body_hyg cfg sc partial p :
  forallb (expr_hyg cfg sc) (cmp_struct_body partial p) = true.
Proof.
  unfold cmp_struct_body. rewrite forallb_app, forallb_map. cbn [forallb].
  rewrite ord_result_hyg, andb_true_r. apply forallb_true. intros [[i f] fa].
  apply cmp_step_hyg; reflexivity.
Qed.

Lemma cmp_arm_hyg cfg sc partial vp :
  pat_hyg sc (fst (cmp_arm partial vp)) = true /\ expr_hyg cfg sc (snd (cmp_arm partial vp)) = true.
Proof.
  destruct vp as [n|n p|n p]; cbn [cmp_arm].
  - unfold cmp_arm_unit. cbn [fst snd]. split; [reflexivity|]. hsimpl.
    rewrite ord_result_hyg. reflexivity.
  - unfold cmp_arm_named. cbn [fst snd]. split.
    + hsimpl. rewrite forallb_map. apply forallb_true. intros [[i f] fa]. cbn [snd].
      destruct (oa_ignore fa); reflexivity.
    + hsimpl. rewrite !forallb_map.
      rewrite (forallb_true (fun x : ofield => _)) by
        (intros [[i f] fa]; cbn [snd]; destruct (oa_ignore fa); reflexivity).
      rewrite forallb_true; [reflexivity|]. intros [[i f] fa]. apply cmp_step_hyg; reflexivity.
  - unfold cmp_arm_unnamed. cbn [fst snd]. split.
    + hsimpl. rewrite forallb_map. apply forallb_true. intros [[i f] fa].
      destruct (oa_ignore fa); reflexivity.
    + hsimpl. rewrite !forallb_map.
      rewrite (forallb_true (fun x : ofield => _)) by
        (intros [[i f] fa]; destruct (oa_ignore fa); reflexivity).
      rewrite forallb_true; [reflexivity|]. intros [[i f] fa]. apply cmp_step_hyg; reflexivity.
Qed.

Lemma cmp_enum_body_hyg cfg sc partial ds vps :
  forallb (expr_hyg cfg sc) (cmp_enum_body partial ds vps) = true.
Proof.
  unfold cmp_enum_body. destruct (is_nil vps).
  - cbn [forallb]. rewrite ord_result_hyg. reflexivity.
  - cbn [forallb]. rewrite andb_true_r. hsimpl. rewrite !ord_result_hyg, !andb_true_r.
    destruct (forallb vplan_is_unit vps); [apply ord_result_hyg|].
    hsimpl. rewrite ord_result_hyg, !andb_true_r. rewrite forallb_map. apply forallb_true.
    intros vp.
    match goal with |- context [pat_hyg ?s _] =>
      destruct (cmp_arm_hyg cfg s partial vp) as [Hp He] end.
    rewrite Hp, He. reflexivity.
Qed.

Lemma body_of_hyg cfg partial F own traits d body :
  body_of partial F own traits d body -> forall sc, forallb (expr_hyg cfg sc) body = true.
Proof.
  unfold body_of. destruct (d_data d) as [fs|vs|fs]; intros H sc.
  - destruct H as [p [_ ->]]. apply cmp_struct_body_hyg.
  - destruct H as [ds [vps [_ [_ ->]]]]. apply cmp_enum_body_hyg.
  - destruct H.
Qed.

Lemma partial_ord_item_hyg cfg d g body :
  (forall sc, forallb (expr_hyg cfg sc) body = true) ->
  item_hyg cfg (partial_ord_item d g body) = true.
Proof.
  intros Hb. unfold partial_ord_item. hsimpl. rewrite trait_hyg_core by reflexivity.
  cbn [andb]. rewrite (body_hyg_any cfg body Hb). reflexivity.
Qed.

Lemma ord_item_hyg cfg d g body :
  (forall sc, forallb (expr_hyg cfg sc) body = true) ->
  item_hyg cfg (ord_item d g body) = true.
Proof.
  intros Hb. unfold ord_item. hsimpl. rewrite trait_hyg_core by reflexivity.
  cbn [andb]. rewrite (body_hyg_any cfg body Hb). reflexivity.
Qed.

Theorem partial_ord_hyg cfg F traits d m items :
  expand_partial_ord F traits d m = Ok items -> forallb (item_hyg cfg) items = true.
Proof.
  intros He. destruct (has_trait TOrd F && has_trait TOrd traits) eqn:Ec.
  - unfold expand_partial_ord in He. rewrite Ec in He. inv_bind He. inversion He. reflexivity.
  - destruct (expand_partial_ord_body F traits d m items Ec He) as [g [body [-> Hb]]].
    cbn [forallb]. rewrite partial_ord_item_hyg; [reflexivity|].
    apply (body_of_hyg cfg _ _ _ _ _ _ Hb).
Qed.

Theorem ord_hyg cfg F traits d m items :
  expand_ord F traits d m = Ok items -> forallb (item_hyg cfg) items = true.
Proof.
  intros He. destruct (expand_ord_body F traits d m items He) as [g [body [-> Hb]]].
  unfold ord_items. cbn [forallb].
  rewrite ord_item_hyg by apply (body_of_hyg cfg _ _ _ _ _ _ Hb). cbn [andb].
  destruct (has_trait TPartialOrd F && has_trait TPartialOrd traits); [|reflexivity].
  cbn [forallb]. rewrite partial_ord_item_hyg; [reflexivity|]. intros sc. reflexivity.
Qed.

(** * Debug *)
(** the scope a named-style builder needs: the debug_map helper declares
    `Educe__RawString` for the block it is written in *)
Definition raw_in_scope (has_name : bool) (sc : list string) : Prop :=
  has_name = false -> mem_str "Educe__RawString" sc = true.

Lemma dbg_arg_hyg cfg sc d ty m fe :
  expr_hyg cfg sc fe = true -> expr_hyg cfg sc (dbg_arg d ty m fe) = true.
Proof. intros H. unfold dbg_arg. hsimpl. exact H. Qed.

Lemma dbg_entry_hyg cfg sc has_name key value :
  raw_in_scope has_name sc -> expr_hyg cfg sc value = true ->
  expr_hyg cfg sc (dbg_entry has_name key value) = true.
Proof.
  intros Hs Hv. unfold dbg_entry, builder_stmt, stringify. destruct has_name.
  - hsimpl. rewrite Hv. reflexivity.
  - cbv beta delta [expr_hyg]. cbn [walk h1_node rpath_hyg forallb andb].
    fold expr_hyg. unfold mem_str in Hs. rewrite (Hs eq_refl). unfold macro_hyg.
    cbn [String.eqb Ascii.eqb Bool.eqb orb andb]. fold (expr_hyg cfg). rewrite Hv. reflexivity.
Qed.

Lemma dbg_named_field_hyg cfg sc d has_name key ty fa op :
  raw_in_scope has_name sc -> expr_hyg cfg sc op = true ->
  forallb (expr_hyg cfg sc) (dbg_named_field d has_name key ty fa op) = true.
Proof.
  intros Hs Ho. unfold dbg_named_field. destruct (df_method fa); cbn [forallb].
  - rewrite dbg_arg_hyg by exact Ho. rewrite dbg_entry_hyg; [reflexivity|exact Hs|reflexivity].
  - rewrite dbg_entry_hyg; [reflexivity|exact Hs|exact Ho].
Qed.

Lemma dbg_tuple_field_hyg cfg sc d ty fa op :
  expr_hyg cfg sc op = true ->
  forallb (expr_hyg cfg sc) (dbg_tuple_field d ty fa op) = true.
Proof.
  intros Ho. unfold dbg_tuple_field, builder_stmt. destruct (df_method fa); cbn [forallb].
  - rewrite dbg_arg_hyg by exact Ho. reflexivity.
  - hsimpl. rewrite Ho. reflexivity.
Qed.

Lemma named_builder_hyg cfg sc o :
  (forall a, o = Some a -> expr_hyg cfg sc a = true) ->
  expr_hyg cfg sc (named_builder o) = true.
Proof.
  intros H. unfold named_builder, let_builder. destruct o as [a|].
  - hsimpl. rewrite (H a eq_refl). reflexivity.
  - hsimpl. reflexivity.
Qed.

(** the statements of a named-style / tuple-style builder block, checked in the
    scope of the block itself *)
Lemma named_block_hyg cfg sc0 d (name_arg : option expr) has_name
      (l : list (nat * (field * Expand_Debug.dfattr))) (key : field -> nat -> Expand_Debug.dfattr -> string)
      (op : field -> nat -> expr) :
  has_name = is_some name_arg ->
  (forall sc a, name_arg = Some a -> expr_hyg cfg sc a = true) ->
  (forall sc f i, expr_hyg cfg sc (op f i) = true) ->
  let b := (named_builder name_arg ::
            flat_map (fun '(i, (f, fa)) =>
                        if df_ignore fa then []
                        else dbg_named_field d has_name (key f i fa) (f_ty f) fa (op f i)) l)
           ++ [builder_finish] in
  forallb (expr_hyg cfg (h1_enter_block sc0 b)) b = true.
Proof.
  intros Hn Ha Ho b.
  assert (Hs : raw_in_scope has_name (h1_enter_block sc0 b)).
  { intros E. subst b. rewrite E in Hn. destruct name_arg; [discriminate Hn|].
    unfold h1_enter_block. cbn [named_builder app flat_map helper_decls mem_str existsb].
    rewrite String.eqb_refl. reflexivity. }
  revert Hs. generalize (h1_enter_block sc0 b). intros sc Hs. subst b.
  rewrite forallb_app. cbn [forallb]. rewrite named_builder_hyg by (intros a E; apply (Ha sc a E)).
  rewrite forallb_flat_map. cbn [andb].
  rewrite forallb_true; [reflexivity|]. intros [i [f fa]].
  destruct (df_ignore fa); [reflexivity|]. apply dbg_named_field_hyg; [exact Hs|apply Ho].
Qed.

Lemma tuple_block_hyg cfg sc d (name_arg : expr) (l : list (nat * (field * Expand_Debug.dfattr)))
      (op : field -> nat -> expr) :
  expr_hyg cfg sc name_arg = true ->
  (forall f i, expr_hyg cfg sc (op f i) = true) ->
  forallb (expr_hyg cfg sc)
    ((let_builder "debug_tuple" [name_arg] ::
      flat_map (fun '(i, (f, fa)) =>
                  if df_ignore fa then [] else dbg_tuple_field d (f_ty f) fa (op f i)) l)
     ++ [builder_finish]) = true.
Proof.
  intros Hn Ho. rewrite forallb_app. cbn [forallb]. unfold let_builder at 1. hsimpl.
  rewrite Hn. cbn [andb]. rewrite forallb_flat_map.
  rewrite forallb_true; [reflexivity|]. intros [i [f fa]].
  destruct (df_ignore fa); [reflexivity|]. apply dbg_tuple_field_hyg. apply Ho.
Qed.

Lemma dbg_struct_body_hyg cfg d name nf l : body_hyg cfg (dbg_struct_body d name nf l) = true.
Proof.
  unfold dbg_struct_body, body_hyg, walk_body. destruct nf.
  - apply (named_block_hyg cfg [] d (option_map (fun n => stringify [I n]) name) (is_some name) l
             struct_key self_field).
    + destruct name; reflexivity.
    + intros sc a E. destruct name; [|discriminate E]. inversion E. reflexivity.
    + intros sc f i. reflexivity.
  - apply (tuple_block_hyg cfg _ d (stringify (opt_ident_toks name)) l self_field).
    + reflexivity.
    + intros f i. reflexivity.
Qed.

Lemma dbg_arm_block_hyg cfg sc d v : expr_hyg cfg sc (dbg_arm_block d v) = true.
Proof.
  unfold dbg_arm_block. cbv beta delta [expr_hyg]. cbn [walk h1_node andb]. fold expr_hyg.
  destruct (dv_named_field v).
  - apply (named_block_hyg cfg sc d (option_map EStr (dv_name_string v))
             (is_some (dv_name_string v)) (dv_list v) variant_key (fun f i => EVar (arm_var f i))).
    + destruct (dv_name_string v); reflexivity.
    + intros sc' a E. destruct (dv_name_string v); [|discriminate E]. inversion E. reflexivity.
    + intros sc' f i. reflexivity.
  - apply (tuple_block_hyg cfg _ d _ (dv_list v) (fun f i => EVar (arm_var f i))).
    + reflexivity.
    + intros f i. reflexivity.
Qed.

Lemma dbg_arm_hyg cfg sc d v :
  pat_hyg sc (fst (dbg_arm d v)) = true /\ expr_hyg cfg sc (snd (dbg_arm d v)) = true.
Proof.
  unfold dbg_arm. destruct (dv_fields v) as [nl|ul|]; cbn [fst snd].
  - split; [|apply dbg_arm_block_hyg].
    hsimpl. rewrite forallb_map. apply forallb_true. intros [i [f fa]]. cbn [snd].
    destruct (df_ignore fa); reflexivity.
  - split; [|apply dbg_arm_block_hyg].
    hsimpl. rewrite forallb_map. apply forallb_true. intros [i [f fa]].
    destruct (df_ignore fa); reflexivity.
  - split; [reflexivity|]. unfold opt_str_args. destruct (dv_name_string v); reflexivity.
Qed.

Lemma dbg_enum_body_hyg cfg sc d name vs : forallb (expr_hyg cfg sc) (dbg_enum_body d name vs) = true.
Proof.
  unfold dbg_enum_body. destruct (is_nil vs).
  - reflexivity.
  - hsimpl. rewrite forallb_map, andb_true_r. apply forallb_true. intros v.
    destruct (dbg_arm_hyg cfg sc d v) as [Hp He]. rewrite Hp, He. reflexivity.
Qed.

Lemma dbg_union_body_hyg cfg name : body_hyg cfg (dbg_union_body name) = true.
Proof.
  unfold dbg_union_body, body_hyg, walk_body, let_builder, builder_stmt, builder_finish, stringify.
  destruct name; hsimpl; reflexivity.
Qed.

Lemma dbg_item_hyg cfg d g anon body :
  body_hyg cfg body = true -> item_hyg cfg (dbg_item d g anon body) = true.
Proof.
  intros Hb. unfold dbg_item, debug_trait. hsimpl. rewrite trait_hyg_core by reflexivity.
  cbn [andb]. rewrite Hb. reflexivity.
Qed.

Theorem debug_hyg cfg F traits d m items :
  expand_debug F traits d m = Ok items -> forallb (item_hyg cfg) items = true.
Proof.
  unfold expand_debug. intros H. destruct (d_data d) as [fs|vs|fs].
  - inv_bind H. inv_bind H.
    destruct (negb (has_shown a0) && negb (is_some (tname_ident (dt_name a) (d_name d))));
      [discriminate H|].
    inversion H; subst items. cbn [forallb]. rewrite dbg_item_hyg; [reflexivity|].
    apply dbg_struct_body_hyg.
  - inv_bind H. inv_bind H.
    destruct (is_nil a0 && negb (is_some (tname_ident (dt_name a) (d_name d))));
      [discriminate H|].
    inversion H; subst items. cbn [forallb]. rewrite dbg_item_hyg; [reflexivity|].
    apply body_hyg_any. intros sc. apply dbg_enum_body_hyg.
  - inv_bind H. destruct (negb (dt_unsafe a)); [discriminate H|]. inv_bind H.
    inversion H; subst items. cbn [forallb]. rewrite dbg_item_hyg; [reflexivity|].
    apply dbg_union_body_hyg.
Qed.
