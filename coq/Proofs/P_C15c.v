(** C15 — the driver: the expansion of the input restricted to a partner-closed set of traits
    consists of exactly the items the original expansion produced for those traits. *)
From Educe.Proofs Require Export P_C15b.

(** * the documented couplings *)
Definition partner (t : trait) : option trait :=
  match t with
  | TCopy => Some TClone | TClone => Some TCopy
  | TEq => Some TPartialEq | TPartialEq => Some TEq
  | TOrd => Some TPartialOrd | TPartialOrd => Some TOrd
  | _ => None
  end.

(** [t] and its partner *)
Definition keep_for (t : trait) (t' : trait) : bool :=
  trait_eqb t' t || match partner t with Some p => trait_eqb t' p | None => false end.

Definition partner_closed (keep : trait -> bool) : Prop :=
  forall t p, keep t = true -> partner t = Some p -> keep p = true.

Lemma keep_for_closed t : partner_closed (keep_for t).
Proof. intros t1 p. destruct t, t1; cbn; intros H E; try discriminate; injection E as <-; reflexivity. Qed.

Lemma keep_for_self t : keep_for t t = true.
Proof. destruct t; reflexivity. Qed.

(** * the expansion, item lists tagged by the handler that produced them *)
Definition handler_part (F : features) (traits : list trait) (d : dinput) (tm : tmap)
           (th : trait * handler) : outcome (trait * list item) :=
  let (t, h) := th in
  if has_trait t F then
    match tmap_get t tm with
    | Some (m :: _) => let* its := h F traits d m in Ok (t, its)
    | _ => Ok (t, [])
    end
  else Ok (t, []).

Definition expand_parts (F : features) (d : dinput) : outcome (list (trait * list item)) :=
  let* tm := foldM (collect_attr F) [] (d_attrs d) in
  let traits := map fst tm in
  let* ps := mapM (handler_part F traits d tm) handlers in
  let* l := (match tmap_get TInto tm with
             | Some ms => if has_trait TInto F then expand_into F traits d ms else Ok []
             | None => Ok []
             end) in
  Ok (ps ++ [(TInto, l)]).

Definition parts_items (ps : list (trait * list item)) : list item := List.concat (map snd ps).

Lemma parts_items_cons t its ps : parts_items ((t, its) :: ps) = its ++ parts_items ps.
Proof. reflexivity. Qed.

Lemma run_handlers_parts F tr d tm : forall l acc,
  foldM (run_handler F tr d tm) acc l
  = let* ps := mapM (handler_part F tr d tm) l in Ok (acc ++ parts_items ps).
Proof.
  induction l as [|[t h] l IH]; intros acc; cbn [foldM mapM].
  - cbn [bind]. unfold parts_items. cbn. rewrite app_nil_r. reflexivity.
  - assert (Hskip : (let* s' := Ok acc in foldM (run_handler F tr d tm) s' l)
                    = (let* ps := (let* y := Ok (t, []) in
                                   let* ys := mapM (handler_part F tr d tm) l in Ok (y :: ys)) in
                       Ok (acc ++ parts_items ps))).
    { cbn [bind]. rewrite IH. destruct (mapM (handler_part F tr d tm) l); reflexivity. }
    unfold run_handler at 1, handler_part at 1.
    destruct (has_trait t F); [|exact Hskip].
    destruct (tmap_get t tm) as [[|m r]|]; [exact Hskip| |exact Hskip].
    destruct (h F tr d m) as [its| | |]; cbn [bind]; try reflexivity. rewrite IH.
    destruct (mapM (handler_part F tr d tm) l); cbn [bind]; try reflexivity.
    rewrite parts_items_cons, app_assoc. reflexivity.
Qed.

Theorem expand_parts_spec F d :
  expand F d = let* ps := expand_parts F d in
               if is_nil (parts_items ps) then Err E_not_set_up else Ok (parts_items ps).
Proof.
  unfold expand, expand_parts.
  destruct (foldM (collect_attr F) [] (d_attrs d)) as [tm| | |]; cbn [bind]; try reflexivity.
  rewrite run_handlers_parts.
  destruct (mapM (handler_part F (map fst tm) d tm) handlers) as [ps| | |]; cbn [bind]; try reflexivity.
  cbn [app].
  assert (E : forall l, parts_items (ps ++ [(TInto, l)]) = parts_items ps ++ l).
  { intros l. unfold parts_items. rewrite map_app, concat_app. cbn. rewrite app_nil_r. reflexivity. }
  destruct (tmap_get TInto tm) as [ms|]; [destruct (has_trait TInto F)|].
  - destruct (expand_into F (map fst tm) d ms); cbn [bind]; try reflexivity. rewrite E. reflexivity.
  - cbn [bind]. rewrite E, app_nil_r. reflexivity.
  - cbn [bind]. rewrite E, app_nil_r. reflexivity.
Qed.

(** * the type-level collection of the restricted input *)
Definition fk (keep : trait -> bool) (tm : tmap) : tmap := filter (fun kv => keep (fst kv)) tm.

Lemma fk_get keep t tm : tmap_get t (fk keep tm) = if keep t then tmap_get t tm else None.
Proof.
  induction tm as [|[k v] r IH]; cbn [fk filter tmap_get fst]; [destruct (keep t); reflexivity|].
  fold (fk keep r). destruct (keep k) eqn:Ek; cbn [tmap_get].
  - destruct (trait_eqb k t) eqn:E; [apply trait_eqb_eq in E; subst; rewrite Ek; reflexivity|exact IH].
  - destruct (trait_eqb k t) eqn:E; [apply trait_eqb_eq in E; subst; rewrite Ek in *; exact IH|exact IH].
Qed.

Lemma fk_push_absent keep t x tm : keep t = false -> tmap_push t x (fk keep tm) = fk keep tm.
Proof.
  intros Hk. induction tm as [|[k v] r IH]; [reflexivity|]. cbn [fk filter fst]. fold (fk keep r).
  destruct (keep k) eqn:Ek; [|exact IH]. cbn [tmap_push].
  destruct (trait_eqb k t) eqn:E; [apply trait_eqb_eq in E; subst; congruence|]. rewrite IH. reflexivity.
Qed.

Lemma fk_push keep t x tm : fk keep (tmap_push t x tm) = tmap_push t x (fk keep tm).
Proof.
  induction tm as [|[k v] r IH]; [reflexivity|]. cbn [tmap_push].
  destruct (trait_eqb k t) eqn:E.
  - cbn [fk filter fst]. fold (fk keep r). destruct (keep k) eqn:Ek.
    + cbn [tmap_push]. rewrite E. reflexivity.
    + apply trait_eqb_eq in E. subst k. rewrite (fk_push_absent keep t x r Ek). reflexivity.
  - cbn [fk filter fst]. fold (fk keep r). fold (fk keep (tmap_push t x r)). rewrite IH.
    destruct (keep k); [cbn [tmap_push]; rewrite E; reflexivity|reflexivity].
Qed.

Lemma fk_app keep tm t v :
  fk keep (tm ++ [(t, v)]) = if keep t then fk keep tm ++ [(t, v)] else fk keep tm.
Proof.
  unfold fk. rewrite filter_app. cbn [filter fst]. destruct (keep t); [reflexivity|apply app_nil_r].
Qed.

Lemma fk_has keep t tm :
  has_trait t (map fst (fk keep tm)) = keep t && has_trait t (map fst tm).
Proof.
  induction tm as [|[k v] r IH]; cbn [fk filter map fst]; [rewrite andb_false_r; reflexivity|].
  fold (fk keep r). unfold has_trait in *. destruct (keep k) eqn:Ek; cbn [map fst existsb].
  - rewrite IH. destruct (trait_eqb t k) eqn:E; cbn [orb].
    + apply trait_eqb_eq in E. subst. rewrite Ek. reflexivity.
    + reflexivity.
  - rewrite IH. destruct (trait_eqb t k) eqn:E; cbn [orb]; [|reflexivity].
    apply trait_eqb_eq in E. subst. rewrite Ek. reflexivity.
Qed.

Theorem collect_restrict F keep attrs tm :
  foldM (collect_attr F) [] attrs = Ok tm ->
  foldM (collect_attr F) [] (restrict_attrs keep attrs) = Ok (fk keep tm).
Proof.
  intros H. unfold collect_attr in *.
  apply (restrict_attr_fold_g (collect_meta F) (collect_meta F)
           (fun _ => Err E_educe_format) (fun _ => Err E_educe_format) (fk keep) keep)
    with (s := []); [| | |exact H].
  - intros s m s' Hk Hs. unfold collect_meta in *.
    destruct (trait_from_path F (meta_path m)) as [t|] eqn:Et; [|discriminate].
    rewrite (meta_kept_tfp F keep _ _ Et) in Hk. rewrite fk_get, Hk.
    destruct (tmap_get t s).
    + destruct (trait_eqb t TInto); [|discriminate]. injection Hs as <-. rewrite fk_push. reflexivity.
    + injection Hs as <-. rewrite fk_app, Hk. reflexivity.
  - intros s m s' Hk Hs. unfold collect_meta in Hs.
    destruct (trait_from_path F (meta_path m)) as [t|] eqn:Et; [|discriminate].
    rewrite (meta_kept_tfp F keep _ _ Et) in Hk.
    destruct (tmap_get t s).
    + destruct (trait_eqb t TInto); [|discriminate]. injection Hs as <-.
      rewrite fk_push. apply fk_push_absent. exact Hk.
    + injection Hs as <-. rewrite fk_app, Hk. reflexivity.
  - intros s s' Hs. discriminate.
Qed.

(** * every handler of the dispatch list, on the restricted input *)
Section Driver.
  Variables (F : features) (keep : trait -> bool) (tr tr' : list trait).
  Hypothesis Htr : forall t, keep t = true -> has_trait t tr' = has_trait t tr.
  Hypothesis Hclosed : partner_closed keep.

  Theorem handlers_restrict d :
    Forall (fun th => keep (fst th) = true -> forall m its,
              snd th F tr d m = Ok its -> snd th F tr' (restrict keep d) m = Ok its) handlers.
  Proof.
    unfold handlers, restrict.
    repeat (constructor; [cbn [fst snd]; intros Hk m its H|]); [..|constructor].
    - apply (expand_debug_r F keep tr tr' Htr Hk). exact H.
    - apply (expand_clone_r F keep tr tr' Htr Hk (Hclosed TClone TCopy Hk eq_refl)). exact H.
    - apply (expand_copy_r F keep tr tr' Htr _ _ _ Hk (Hclosed TCopy TClone Hk eq_refl)). exact H.
    - apply (expand_partial_eq_r F keep tr tr' Htr Hk (Hclosed TPartialEq TEq Hk eq_refl)). exact H.
    - apply (expand_eq_r F keep tr tr' Htr _ _ _ Hk (Hclosed TEq TPartialEq Hk eq_refl)). exact H.
    - apply (expand_partial_ord_r F keep tr tr' Htr _ _ _ Hk (Hclosed TPartialOrd TOrd Hk eq_refl)). exact H.
    - apply (expand_ord_r F keep tr tr' Htr _ _ _ Hk (Hclosed TOrd TPartialOrd Hk eq_refl)). exact H.
    - apply (expand_hash_r F keep tr tr' Htr Hk). exact H.
    - apply (expand_default_r F keep tr tr' Htr Hk). exact H.
    - apply (expand_deref_r F keep tr tr' Htr _ _ _ Hk). exact H.
    - apply (expand_deref_mut_r F keep tr tr' Htr _ _ _ Hk). exact H.
  Qed.
End Driver.

Definition keep_part (keep : trait -> bool) (p : trait * list item) : trait * list item :=
  (fst p, if keep (fst p) then snd p else []).

Theorem expand_parts_restrict F keep d ps :
  partner_closed keep ->
  expand_parts F d = Ok ps ->
  expand_parts F (restrict keep d) = Ok (map (keep_part keep) ps).
Proof.
  intros Hc H. unfold expand_parts in *. bo H. rename a into tm.
  change (d_attrs (restrict keep d)) with (restrict_attrs keep (d_attrs d)).
  rewrite (collect_restrict F keep _ _ Hb). cbn [bind].
  set (tr := map fst tm) in *. set (tr' := map fst (fk keep tm)).
  assert (Htr : forall t, keep t = true -> has_trait t tr' = has_trait t tr).
  { intros t Hk. unfold tr', tr. rewrite fk_has, Hk. reflexivity. }
  apply cg_bind_ok in H as [hp [Hhp H]]. apply cg_bind_ok in H as [il [Hil H]]. injection H as <-.
  assert (Hm : mapM (handler_part F tr' (restrict keep d) (fk keep tm)) handlers
               = Ok (map (keep_part keep) hp)).
  { pose proof (handlers_restrict F keep tr tr' Htr Hc d) as Hall.
    revert hp Hhp. induction Hall as [|[t h] l Hth Hl IH]; intros hp Hmp; cbn [mapM] in *.
    - injection Hmp as <-. reflexivity.
    - apply cg_bind_ok in Hmp as [a [Ha Hmp]]. apply cg_bind_ok in Hmp as [hp' [Hrest Hmp]].
      injection Hmp as <-. rewrite (IH _ Hrest). cbn [fst snd] in Hth.
      assert (Hp : handler_part F tr' (restrict keep d) (fk keep tm) (t, h) = Ok (keep_part keep a)).
      { unfold handler_part in *. rewrite fk_get. destruct (has_trait t F).
        - destruct (keep t) eqn:Ek.
          + destruct (tmap_get t tm) as [[|m r]|].
            * injection Ha as <-. unfold keep_part. cbn [fst snd]. rewrite Ek. reflexivity.
            * apply cg_bind_ok in Ha as [its [Hh Ha]]. injection Ha as <-.
              rewrite (Hth eq_refl _ _ Hh). unfold keep_part.
              cbn [bind fst snd]. rewrite Ek. reflexivity.
            * injection Ha as <-. unfold keep_part. cbn [fst snd]. rewrite Ek. reflexivity.
          + assert (E : fst a = t).
            { destruct (tmap_get t tm) as [[|m r]|];
                [injection Ha as <-; reflexivity| |injection Ha as <-; reflexivity].
              apply cg_bind_ok in Ha as [its [Hh Ha]]. injection Ha as <-. reflexivity. }
            unfold keep_part. rewrite E, Ek. reflexivity.
        - injection Ha as <-. unfold keep_part. cbn [fst snd]. destruct (keep t); reflexivity. }
      rewrite Hp. reflexivity. }
  rewrite Hm. cbn [bind]. rewrite fk_get. rewrite map_app. cbn [map].
  change (keep_part keep (TInto, il)) with (TInto, if keep TInto then il else []).
  destruct (keep TInto) eqn:Ek.
  - destruct (tmap_get TInto tm) as [ms|]; [destruct (has_trait TInto F)|].
    + unfold restrict. rewrite (expand_into_r F keep tr tr' Htr Ek _ _ _ Hil). reflexivity.
    + injection Hil as <-. reflexivity.
    + injection Hil as <-. reflexivity.
  - reflexivity.
Qed.

(** the restricted expansion: exactly the items of the kept traits, in the same order *)
Theorem expand_restrict F keep d items :
  partner_closed keep ->
  expand F d = Ok items ->
  exists ps, expand_parts F d = Ok ps /\ items = parts_items ps /\
    expand F (restrict keep d)
    = (if is_nil (parts_items (map (keep_part keep) ps)) then Err E_not_set_up
       else Ok (parts_items (map (keep_part keep) ps))).
Proof.
  intros Hc H. rewrite expand_parts_spec in H. bo H. exists a. split; [exact Hb|].
  split.
  - destruct (is_nil (parts_items a)); [discriminate|]. injection H as <-. reflexivity.
  - rewrite expand_parts_spec, (expand_parts_restrict F keep d a Hc Hb). reflexivity.
Qed.
