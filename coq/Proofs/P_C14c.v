(** C14, part c: the attribute builders.  Each `build_*` function (one trait's meta on a type,
    a variant or a field -> the analysed attribute) gives the same outcome on two spellings of
    the meta: the parameter list in any order / spelling / delimiter (rules (1)-(3), (5), (7)) and
    the `Trait = value` shorthands (rule (4)). *)
From Educe.Proofs Require Export P_C14b.

(** * the parsers of a parameter list *)
Definition unsafe_path : mpath := {| mp_lead := false; mp_segs := ["unsafe"] |}.

Lemma parse_unsafe_metas_other t r :
  is_ident "unsafe" t = false ->
  parse_unsafe_metas (t :: r) = (let* ms := parse_metas (t :: r) in Ok (false, ms)).
Proof.
  destruct t as [s| | | | |]; try reflexivity. cbn [is_ident]. intros H.
  unfold parse_unsafe_metas.
  destruct s as [|[[] [] [] [] [] [] [] []] s]; try reflexivity.
  destruct s as [|[[] [] [] [] [] [] [] []] s]; try reflexivity.
  destruct s as [|[[] [] [] [] [] [] [] []] s]; try reflexivity.
  destruct s as [|[[] [] [] [] [] [] [] []] s]; try reflexivity.
  destruct s as [|[[] [] [] [] [] [] [] []] s]; try reflexivity.
  destruct s as [|[[] [] [] [] [] [] [] []] s]; try reflexivity.
  destruct s; [discriminate H|reflexivity].
Qed.

Lemma is_ident_eq s t : is_ident s t = true -> t = TIdent s.
Proof.
  destruct t; cbn [is_ident]; try discriminate. intros H. apply String.eqb_eq in H. subst. reflexivity.
Qed.

Lemma parse_unsafe_metas_marker r u ms :
  parse_unsafe_metas (TIdent "unsafe" :: r) = Ok (u, ms) -> u = true.
Proof.
  destruct r as [|t r']; cbn [parse_unsafe_metas].
  - intros H. inversion H. reflexivity.
  - destruct t as [s|s| | | |]; try discriminate.
    destruct s as [|[[] [] [] [] [] [] [] []] s]; try discriminate.
    destruct s; [|discriminate]. intros H. apply bind_ok' in H. destruct H as [x [_ H]].
    inversion H. reflexivity.
Qed.

Lemma parse_meta_chunk_unsafe l c m :
  parse_meta_chunk l (TIdent "unsafe" :: c) = Ok m -> param_name m = Some "unsafe"%string.
Proof.
  unfold parse_meta_chunk.
  change (parse_mpath (TIdent "unsafe" :: c)) with (Some (unsafe_path, c)). cbv beta iota.
  destruct c as [|t c'].
  - intros H. inversion H. reflexivity.
  - destruct t as [s|s|s|k s|a b x|d inner]; try discriminate.
    + destruct s as [|[[] [] [] [] [] [] [] []] [|c0 s0]]; try discriminate.
      intros H. apply bind_ok' in H. destruct H as [x [_ H]]. inversion H. reflexivity.
    + destruct c'; [|discriminate]. intros H. inversion H. reflexivity.
Qed.

Lemma parse_chunks_unsafe_head tr c cs ms :
  parse_chunks tr ((TIdent "unsafe" :: c) :: cs) = Ok ms ->
  exists m0 r0, ms = m0 :: r0 /\ param_name m0 = Some "unsafe"%string.
Proof.
  destruct cs as [|c2 cs2]; cbn [parse_chunks is_nil].
  - rewrite andb_false_r. intros H. apply bind_ok' in H. destruct H as [m [Hm H]].
    inversion H. exists m, []. split; [reflexivity|]. exact (parse_meta_chunk_unsafe _ _ _ Hm).
  - intros H. apply bind_ok' in H. destruct H as [m [Hm H]].
    apply bind_ok' in H. destruct H as [r [_ H]]. inversion H.
    exists m, r. split; [reflexivity|]. exact (parse_meta_chunk_unsafe _ _ _ Hm).
Qed.

Lemma parse_metas_unsafe_head r ms :
  parse_metas (TIdent "unsafe" :: r) = Ok ms ->
  exists m0 r0, ms = m0 :: r0 /\ param_name m0 = Some "unsafe"%string.
Proof.
  unfold parse_metas. cbn [split_commas is_punct].
  destruct (split_commas r) as [|c cs]; cbv beta iota.
  - cbn [last is_nil]. apply parse_chunks_unsafe_head.
  - generalize (is_nil (last ((TIdent "unsafe" :: c) :: cs) [])). intros tr.
    apply parse_chunks_unsafe_head.
Qed.

(** what the plain parser makes of a list read with the `unsafe`-aware one *)
Lemma plist_parse_metas ts u ps :
  parse_unsafe_metas ts = Ok (u, ps) ->
  (u = false /\ parse_metas ts = Ok ps) \/
  (u = true /\ forall ms, parse_metas ts = Ok ms ->
                          exists m0 r0, ms = m0 :: r0 /\ param_name m0 = Some "unsafe"%string).
Proof.
  destruct ts as [|t r]; intros H.
  - left. inversion H. split; reflexivity.
  - destruct (is_ident "unsafe" t) eqn:E.
    + apply is_ident_eq in E. subst t. right. split; [exact (parse_unsafe_metas_marker r u ps H)|].
      intros ms. apply parse_metas_unsafe_head.
    + left. rewrite (parse_unsafe_metas_other t r E) in H. apply bind_ok' in H.
      destruct H as [ms [Hm H]]. inversion H. subst. split; [reflexivity|exact Hm].
Qed.

Lemma parse_metas_single_unsafe ts m :
  parse_metas ts = Ok [m] -> param_name m <> Some "unsafe"%string ->
  parse_unsafe_metas ts = Ok (false, [m]).
Proof.
  intros H Hn. destruct ts as [|t r]; [discriminate H|].
  destruct (is_ident "unsafe" t) eqn:E.
  - apply is_ident_eq in E. subst t. destruct (parse_metas_unsafe_head r [m] H) as [m0 [r0 [E1 E2]]].
    inversion E1. subst. contradiction.
  - rewrite (parse_unsafe_metas_other t r E), H. reflexivity.
Qed.

(** * one parameter list through an engine *)
Definition parse_params (eu : bool) (ts : toks) : outcome (bool * list meta) :=
  if eu then parse_unsafe_metas ts else let* ms := parse_metas ts in Ok (false, ms).

Section ListCase.
  Context {S T : Type} (h : S -> meta -> outcome (option S)).
  Hypothesis h_equiv : forall s m m', param_equiv m m' -> h s m = h s m'.
  Hypothesis h_comm : forall s m1 m2, osim (step2 h s m1 m2) (step2 h s m2 m1).
  Hypothesis h_unsafe : forall s m, param_name m = Some "unsafe"%string -> h s m = Ok None.

  Lemma run_params_unsafe_head s m0 r0 :
    param_name m0 = Some "unsafe"%string -> fails (run_params h s (m0 :: r0)).
  Proof.
    intros H. unfold run_params. cbn [foldM]. unfold run_param. rewrite (h_unsafe s m0 H).
    exact Logic.I.
  Qed.

  Lemma list_case eu s0 ts ts' (k : bool -> S -> outcome T) :
    plist_equiv ts ts' ->
    osim (let* (u, ms) := parse_params eu ts in let* s := run_params h s0 ms in k u s)
         (let* (u, ms) := parse_params eu ts' in let* s := run_params h s0 ms in k u s).
  Proof.
    intros [u [ps [ps' [H1 [H2 Hpe]]]]]. unfold parse_params. destruct eu.
    - rewrite H1, H2. cbn [bind]. apply osim_bind; [|intros a; apply osim_refl].
      apply run_params_equiv; assumption.
    - destruct (plist_parse_metas ts u ps H1) as [[Hu E]|[Hu E]];
        destruct (plist_parse_metas ts' u ps' H2) as [[Hu' E']|[Hu' E']]; try congruence.
      + rewrite E, E'. cbn [bind]. apply osim_bind; [|intros a; apply osim_refl].
        apply run_params_equiv; assumption.
      + apply osimR_fails.
        * destruct (parse_metas ts) as [ms| | |] eqn:Ep; cbn [bind]; try exact Logic.I.
          destruct (E ms eq_refl) as [m0 [r0 [-> Hm0]]].
          apply fails_bind. left. apply run_params_unsafe_head. exact Hm0.
        * destruct (parse_metas ts') as [ms| | |] eqn:Ep; cbn [bind]; try exact Logic.I.
          destruct (E' ms eq_refl) as [m0 [r0 [-> Hm0]]].
          apply fails_bind. left. apply run_params_unsafe_head. exact Hm0.
  Qed.

  Lemma list_case_plain s0 ts ts' (k : S -> outcome T) :
    plist_equiv ts ts' ->
    osim (let* ms := parse_metas ts in let* s := run_params h s0 ms in k s)
         (let* ms := parse_metas ts' in let* s := run_params h s0 ms in k s).
  Proof.
    intros H. pose proof (list_case false s0 ts ts' (fun _ => k) H) as L.
    unfold parse_params in L. rewrite !bind_assoc in L. exact L.
  Qed.
End ListCase.

(** every engine refuses a parameter called `unsafe` *)
Ltac unsafe_engine :=
  intros; unfold param_is;
  match goal with H : param_name _ = Some _ |- _ => rewrite H end; eval_mem; reflexivity.

Lemma bound_param_unsafe eb s m : param_name m = Some "unsafe"%string -> bound_param eb s m = Ok None.
Proof. unfold bound_param. unsafe_engine. Qed.
Lemma im_param_unsafe ei em s m : param_name m = Some "unsafe"%string -> im_param ei em s m = Ok None.
Proof. unfold im_param. unsafe_engine. Qed.
Lemma ord_param_unsafe ei em er s m :
  param_name m = Some "unsafe"%string -> ord_param ei em er s m = Ok None.
Proof. unfold ord_param. unsafe_engine. Qed.
Lemma debug_dt_param_unsafe b s m :
  param_name m = Some "unsafe"%string -> Expand_Debug.dt_param b s m = Ok None.
Proof. unfold Expand_Debug.dt_param. unsafe_engine. Qed.
Lemma debug_df_param_unsafe en ei em s m :
  param_name m = Some "unsafe"%string -> Expand_Debug.df_param en ei em s m = Ok None.
Proof. unfold Expand_Debug.df_param. unsafe_engine. Qed.
Lemma default_dt_param_unsafe en ee eb s m :
  param_name m = Some "unsafe"%string -> Expand_Default.dt_param en ee eb s m = Ok None.
Proof. unfold Expand_Default.dt_param. unsafe_engine. Qed.
Lemma default_df_param_unsafe ee ty s m :
  param_name m = Some "unsafe"%string -> Expand_Default.df_param ee ty s m = Ok None.
Proof. unfold Expand_Default.df_param. unsafe_engine. Qed.

(** * the builders *)
Lemma tmeta_equiv_path pos m m' : tmeta_equiv pos m m' -> meta_path m = meta_path m'.
Proof. induction 1; cbn [meta_path]; congruence. Qed.

(** a meta that has another spelling is not a bare word *)
Lemma tmeta_equiv_shape pos m m' :
  tmeta_equiv pos m m' ->
  m = m' \/ ((forall p, m <> MPath p) /\ (forall p, m' <> MPath p)).
Proof.
  induction 1; try (right; split; intros; discriminate); [left; reflexivity|].
  destruct IHtmeta_equiv as [->|[A B]]; [left; reflexivity|right; split; assumption].
Qed.

(** the guard of a builder lemma: the meta names one of the traits the builder serves *)
Ltac guard_contra :=
  match goal with
  | Hg : get_ident (meta_path _) = Some _ |- _ => cbn [meta_path] in Hg
  end;
  match goal with
  | Hg : get_ident ?p = Some ?a0, H : get_ident ?p = Some _ |- _ =>
      rewrite H in Hg; inversion Hg; subst; cbn in *; intuition discriminate
  end.

Ltac use_sym IH :=
  match goal with
  | H : tmeta_equiv _ ?m ?m' |- osim _ _ =>
      apply osim_sym; eapply IH; eauto; rewrite (tmeta_equiv_path _ _ _ H); eassumption
  end.

(** ** [build_tattr]: `Trait` / `Trait(unsafe, bound ..)` on types and variants *)
Definition tattr_traits : list string :=
  ["PartialEq"; "Eq"; "Hash"; "Clone"; "Copy"; "PartialOrd"; "Ord"].

Lemma build_tattr_equiv pos ef eu eb m m' :
  pos <> PField -> tmeta_equiv pos m m' ->
  forall a, get_ident (meta_path m) = Some a -> In a tattr_traits ->
  osim (build_tattr ef eu eb m) (build_tattr ef eu eb m').
Proof.
  intros Hpos H. induction H; intros a0 Hg Hin; unfold tattr_traits in *.
  - apply osim_refl.
  - use_sym IHtmeta_equiv.
  - cbn [build_tattr].
    exact (list_case (bound_param eb) (bound_param_equiv eb) (bound_param_comm eb)
             (bound_param_unsafe eb) eu (false, BAuto) ts ts'
             (fun u s => let '(_, b) := s in Ok {| ta_unsafe := u; ta_bound := b |}) H0).
  - guard_contra.
  - exact Logic.I.
  - guard_contra.
  - contradiction.
  - contradiction.
Qed.

(** ** [build_fattr]: `Trait = false` / `Trait(ignore, method ..)` on fields *)
Definition fattr_traits : list string := ["PartialEq"; "Eq"; "Hash"; "Clone"].

Lemma build_fattr_equiv pos ei em m m' :
  tmeta_equiv pos m m' ->
  forall a, get_ident (meta_path m) = Some a -> In a fattr_traits ->
  osim (build_fattr ei em m) (build_fattr ei em m').
Proof.
  intros H. induction H; intros a0 Hg Hin; unfold fattr_traits in *.
  - apply osim_refl.
  - use_sym IHtmeta_equiv.
  - cbn [build_fattr].
    exact (list_case_plain (im_param ei em) (im_param_equiv ei em) (im_param_comm ei em)
             (im_param_unsafe ei em) _ ts ts'
             (fun s => Ok {| fa_ignore := fs_ignore s; fa_method := fs_method s |}) H0).
  - guard_contra.
  - cbn [build_fattr meta_name_value_2_bool]. destruct ei; exact Logic.I.
  - guard_contra.
  - (* Trait = false / Trait(ignore) *)
    cbn [build_fattr]. rewrite H2. cbn [bind run_params foldM].
    unfold run_param, im_param, param_is. unfold named in H3. rewrite H3. eval_mem. cbv beta iota.
    destruct ei; cbn [negb bind]; [|exact Logic.I].
    rewrite (sp_bool_allow_path _ _ _ H4). reflexivity.
  - guard_contra.
Qed.

(** ** [build_ofattr]: `Trait = false` / `Trait(ignore, method .., rank ..)` on fields (PartialOrd, Ord) *)
Definition ofattr_traits : list string := ["PartialOrd"; "Ord"].

Lemma build_ofattr_equiv pos ei em er rank m m' :
  tmeta_equiv pos m m' ->
  forall a, get_ident (meta_path m) = Some a -> In a ofattr_traits ->
  osim (build_ofattr ei em er rank m) (build_ofattr ei em er rank m').
Proof.
  intros H. induction H; intros a0 Hg Hin; unfold ofattr_traits in *.
  - apply osim_refl.
  - use_sym IHtmeta_equiv.
  - cbn [build_ofattr].
    exact (list_case_plain (ord_param ei em er) (ord_param_equiv ei em er) (ord_param_comm ei em er)
             (ord_param_unsafe ei em er) _ ts ts'
             (fun s => Ok {| oa_ignore := os_ignore s; oa_method := os_method s; oa_rank := os_rank s |})
             H0).
  - guard_contra.
  - cbn [build_ofattr meta_name_value_2_bool]. destruct ei; exact Logic.I.
  - guard_contra.
  - cbn [build_ofattr]. rewrite H2. cbn [bind run_params foldM].
    unfold run_param, ord_param, param_is. unfold named in H3. rewrite H3. eval_mem. cbv beta iota.
    destruct ei; cbn [negb bind]; [|exact Logic.I].
    rewrite (sp_bool_allow_path _ _ _ H4). reflexivity.
  - guard_contra.
Qed.

(** ** Debug: `Debug` / `Debug = X` / `Debug(unsafe, name .., named_field .., bound ..)` on types and variants *)
Lemma debug_build_dtattr_equiv pos b m m' :
  pos <> PField -> tmeta_equiv pos m m' ->
  get_ident (meta_path m) = Some "Debug"%string ->
  osim (Expand_Debug.build_dtattr b m) (Expand_Debug.build_dtattr b m').
Proof.
  intros Hpos H. induction H; intros Hg.
  - apply osim_refl.
  - apply osim_sym, IHtmeta_equiv. rewrite (tmeta_equiv_path _ _ _ H). exact Hg.
  - cbn [Expand_Debug.build_dtattr].
    exact (list_case (Expand_Debug.dt_param b) (debug_dt_param_equiv b) (debug_dt_param_comm b)
             (debug_dt_param_unsafe b) (Expand_Debug.tb_unsafe b) _ ts ts'
             (fun u s => Ok {| Expand_Debug.dt_unsafe := u; Expand_Debug.dt_name := Expand_Debug.ts_name s;
                               Expand_Debug.dt_named_field := Expand_Debug.ts_named_field s;
                               Expand_Debug.dt_bound := Expand_Debug.ts_bound s |}) H0).
  - cbn [meta_path] in Hg. congruence.
  - cbn [Expand_Debug.build_dtattr meta_name_value_2_ident].
    destruct (negb (Expand_Debug.tb_name b)); exact Logic.I.
  - (* Debug = X / Debug(name = X) *)
    cbn [Expand_Debug.build_dtattr].
    assert (Hu : parse_params (Expand_Debug.tb_unsafe b) ts = Ok (false, [m])).
    { unfold parse_params. destruct (Expand_Debug.tb_unsafe b).
      - apply parse_metas_single_unsafe; [exact H2|]. unfold named in H4. rewrite H4.
        unfold name_names in H3. pe_names; discriminate.
      - rewrite H2. reflexivity. }
    unfold parse_params in Hu. rewrite Hu. cbn [bind run_params foldM].
    unfold run_param, Expand_Debug.dt_param, param_is. unfold named in H4. rewrite H4.
    assert (Hmem : mem_str a name_names = true) by (unfold name_names in *; pe_names; reflexivity).
    unfold name_names in Hmem. rewrite Hmem. cbv beta iota.
    destruct (Expand_Debug.tb_name b); cbn [negb]; [|exact Logic.I].
    change (meta_name_value_2_ident v) with (meta_2_ident (MNameValue p v)).
    rewrite (sp_ident_ident _ _ H0 H1), (sp_ident_iob _ _ H0 H5). reflexivity.
  - contradiction.
  - contradiction.
Qed.

(** ** Debug: `Debug = X` / `Debug = false` / `Debug(name .., ignore, method ..)` on fields *)
Lemma debug_build_dfattr_equiv pos en ei em m m' :
  tmeta_equiv pos m m' ->
  get_ident (meta_path m) = Some "Debug"%string ->
  osim (Expand_Debug.build_dfattr en ei em m) (Expand_Debug.build_dfattr en ei em m').
Proof.
  intros H. induction H; intros Hg.
  - apply osim_refl.
  - apply osim_sym, IHtmeta_equiv. rewrite (tmeta_equiv_path _ _ _ H). exact Hg.
  - cbn [Expand_Debug.build_dfattr].
    exact (list_case_plain (Expand_Debug.df_param en ei em) (debug_df_param_equiv en ei em)
             (debug_df_param_comm en ei em) (debug_df_param_unsafe en ei em) _ ts ts'
             (fun s => Ok (Expand_Debug.dfs_attr s)) H0).
  - cbn [meta_path] in Hg. congruence.
  - cbn [Expand_Debug.build_dfattr meta_name_value_2_ident meta_name_value_2_ident_and_bool
         meta_name_value_2_bool].
    destruct en, ei; exact Logic.I.
  - (* Debug = X / Debug(name = X) *)
    cbn [Expand_Debug.build_dfattr]. rewrite H2. cbn [bind run_params foldM].
    unfold run_param, Expand_Debug.df_param, param_is. unfold named in H4. rewrite H4.
    assert (Hmem : mem_str a name_names = true) by (unfold name_names in *; pe_names; reflexivity).
    unfold name_names in Hmem. rewrite Hmem. cbv beta iota.
    change (meta_name_value_2_ident v) with (meta_2_ident (MNameValue p v)).
    change (meta_name_value_2_ident_and_bool v) with (meta_2_ident_and_bool (MNameValue p v)).
    destruct en; cbn [negb].
    + rewrite (sp_ident_ident _ _ H0 H1), (sp_ident_iob _ _ H0 H1), (sp_ident_ident _ _ H0 H5).
      destruct ei; reflexivity.
    + destruct ei; [|exact Logic.I].
      inversion H1; subst; try exact Logic.I.
      match goal with Hs : str_of _ _ |- _ => destruct Hs end. exact Logic.I.
  - (* Debug = false / Debug(ignore) *)
    cbn [Expand_Debug.build_dfattr]. rewrite H2. cbn [bind run_params foldM].
    unfold run_param, Expand_Debug.df_param, param_is. unfold named in H3. rewrite H3.
    eval_mem. cbv beta iota.
    destruct en, ei; cbn [negb bind]; try exact Logic.I;
      rewrite (sp_bool_allow_path _ _ _ H4); reflexivity.
  - cbn [meta_path] in Hg. congruence.
Qed.

(** ** Default: `Default` / `Default(new, expression .., bound ..)` on types and variants *)
Lemma default_build_dtattr_equiv pos ef en ee eb m m' :
  pos <> PField -> tmeta_equiv pos m m' ->
  get_ident (meta_path m) = Some "Default"%string ->
  osim (Expand_Default.build_dtattr ef en ee eb m) (Expand_Default.build_dtattr ef en ee eb m').
Proof.
  intros Hpos H. induction H; intros Hg.
  - apply osim_refl.
  - apply osim_sym, IHtmeta_equiv. rewrite (tmeta_equiv_path _ _ _ H). exact Hg.
  - cbn [Expand_Default.build_dtattr].
    exact (list_case_plain (Expand_Default.dt_param en ee eb) (default_dt_param_equiv en ee eb)
             (default_dt_param_comm en ee eb) (default_dt_param_unsafe en ee eb) _ ts ts'
             (fun s => Ok {| Expand_Default.dt_flag := false;
                             Expand_Default.dt_new := Expand_Default.ds_new s;
                             Expand_Default.dt_expr := Expand_Default.ds_expr s;
                             Expand_Default.dt_bound := Expand_Default.ds_bound s |}) H0).
  - cbn [meta_path] in Hg. congruence.
  - exact Logic.I.
  - cbn [meta_path] in Hg. congruence.
  - contradiction.
  - contradiction.
Qed.

(** ** Default: `Default` / `Default = e` / `Default(expression = e)` on fields *)
Lemma default_build_dfattr_equiv pos ef ee ty m m' :
  tmeta_equiv pos m m' ->
  get_ident (meta_path m) = Some "Default"%string ->
  osim (Expand_Default.build_dfattr ef ee ty m) (Expand_Default.build_dfattr ef ee ty m').
Proof.
  intros H. induction H; intros Hg.
  - apply osim_refl.
  - apply osim_sym, IHtmeta_equiv. rewrite (tmeta_equiv_path _ _ _ H). exact Hg.
  - cbn [Expand_Default.build_dfattr].
    exact (list_case_plain (Expand_Default.df_param ee ty) (default_df_param_equiv ee ty)
             (default_df_param_comm ee ty) (default_df_param_unsafe ee ty) _ ts ts'
             (fun s => Ok {| Expand_Default.df_flag := false; Expand_Default.df_expr := fst s |}) H0).
  - cbn [meta_path] in Hg. congruence.
  - cbn [Expand_Default.build_dfattr]. destruct ee; [reflexivity|exact Logic.I].
  - cbn [meta_path] in Hg. congruence.
  - cbn [meta_path] in Hg. rewrite H0 in Hg. inversion Hg. subst.
    unfold bool_shorthand_traits in H1. cbn in H1. intuition discriminate.
  - (* Default = e / Default(expression = e) *)
    cbn [Expand_Default.build_dfattr]. rewrite H2. cbn [bind run_params foldM].
    unfold run_param, Expand_Default.df_param, param_is. unfold named in H4. rewrite H4.
    assert (Hmem : mem_str a expr_names = true) by (unfold expr_names in *; pe_names; reflexivity).
    unfold expr_names in Hmem. rewrite Hmem. cbv beta iota.
    destruct ee; cbn [negb]; [|exact Logic.I].
    destruct (sp_expr_expr _ _ H5) as [v' [E Hv']]. rewrite E. cbn [bind snd fst].
    rewrite (nv_of_adjust e v v' (Some ty) H1 Hv'). reflexivity.
Qed.

(** ** Deref / DerefMut, and the markers (Eq / Copy on a field): only the bare word is accepted *)
Lemma deref_build_equiv pos ef m m' :
  tmeta_equiv pos m m' -> osim (deref_build ef m) (deref_build ef m').
Proof.
  intros H. destruct (tmeta_equiv_shape pos m m' H) as [->|[A B]]; [apply osim_refl|].
  destruct m as [p|p v|p d ts]; [exfalso; exact (A p eq_refl)| |];
    (destruct m' as [p'|p' v'|p' d' ts']; [exfalso; exact (B p' eq_refl)| |]); exact Logic.I.
Qed.

(** ** Into: `Into(T, bound ..)` on types, `Into(T, method ..)` on fields *)
Lemma into_type_meta_equiv pos et acc m m' :
  tmeta_equiv pos m m' ->
  get_ident (meta_path m) = Some "Into"%string ->
  osim (into_type_meta et acc m) (into_type_meta et acc m').
Proof.
  intros H. induction H; intros Hg.
  - apply osim_refl.
  - apply osim_sym, IHtmeta_equiv. rewrite (tmeta_equiv_path _ _ _ H). exact Hg.
  - cbn [meta_path] in Hg. contradiction.
  - cbn [into_type_meta]. destruct (negb et); [exact Logic.I|].
    rewrite H0, H1. cbn [bind].
    apply osim_bind; [|intros x; apply osim_refl].
    apply run_params_equiv; [apply bound_param_equiv|apply bound_param_comm|exact H2].
  - exact Logic.I.
  - cbn [meta_path] in Hg. congruence.
  - cbn [meta_path] in Hg. rewrite H0 in Hg. inversion Hg. subst.
    unfold bool_shorthand_traits in H1. cbn in H1. intuition discriminate.
  - cbn [meta_path] in Hg. congruence.
Qed.

Lemma into_field_meta_equiv pos acc m m' :
  tmeta_equiv pos m m' ->
  get_ident (meta_path m) = Some "Into"%string ->
  osim (into_field_meta acc m) (into_field_meta acc m').
Proof.
  intros H. induction H; intros Hg.
  - apply osim_refl.
  - apply osim_sym, IHtmeta_equiv. rewrite (tmeta_equiv_path _ _ _ H). exact Hg.
  - cbn [meta_path] in Hg. contradiction.
  - cbn [into_field_meta]. rewrite H0, H1. cbn [bind].
    apply osim_bind; [|intros x; apply osim_refl].
    apply run_params_equiv; [apply im_param_equiv|apply im_param_comm|exact H2].
  - exact Logic.I.
  - cbn [meta_path] in Hg. congruence.
  - cbn [meta_path] in Hg. rewrite H0 in Hg. inversion Hg. subst.
    unfold bool_shorthand_traits in H1. cbn in H1. intuition discriminate.
  - cbn [meta_path] in Hg. congruence.
Qed.
