(** C03 — the rank of a field is its explicit `rank` parameter, or
    isize::MIN + declaration index. *)
From Educe.Proofs Require Export P_C03b.

(** [z] is written as a `rank` parameter inside the attribute entry [m]
    (`Ord(.., rank = z, ..)`, `rank(z)`, `rank = "z"`, negative spellings ...:
    whatever [meta_2_isize] accepts) *)
Definition explicit_rank (m : meta) (z : Z) : Prop :=
  exists p d ts ms mr, m = MList p d ts /\ parse_metas ts = Ok ms /\ In mr ms /\
                       param_is mr ["rank"] = true /\ meta_2_isize mr = Ok z.

Lemma ord_param_rank ei em er s m s' :
  ord_param ei em er s m = Ok (Some s') ->
  os_rank s' = os_rank s \/ (param_is m ["rank"] = true /\ meta_2_isize m = Ok (os_rank s')).
Proof.
  unfold ord_param. intros H.
  destruct (param_is m ["ignore"]).
  { destruct (negb ei); [discriminate H|]. apply bind_ok in H as [v [_ H]].
    destruct (os_ignore_set s); [discriminate H|]. inversion H. left. reflexivity. }
  destruct (param_is m ["method"]).
  { destruct (negb em); [discriminate H|]. apply bind_ok in H as [v [_ H]].
    destruct (os_method_set s); [discriminate H|]. inversion H. left. reflexivity. }
  destruct (param_is m ["rank"]); [|discriminate H].
  destruct (negb er); [discriminate H|]. apply bind_ok in H as [v [Hv H]].
  destruct (os_rank_set s); [discriminate H|]. inversion H. right. split; [reflexivity|exact Hv].
Qed.

Lemma run_params_rank ei em er ms : forall s s',
  run_params (ord_param ei em er) s ms = Ok s' ->
  os_rank s' = os_rank s \/
  exists mr, In mr ms /\ param_is mr ["rank"] = true /\ meta_2_isize mr = Ok (os_rank s').
Proof.
  unfold run_params. induction ms as [|m r IH]; intros s s' H.
  - cbn in H. inversion H. left. reflexivity.
  - cbn [foldM] in H. apply bind_ok in H as [s1 [H1 H]].
    unfold run_param in H1. apply bind_ok in H1 as [o [Ho H1]].
    destruct o as [s1'|]; [|discriminate H1]. inversion H1; subst s1'; clear H1.
    destruct (IH s1 s' H) as [E|[mr [Hin [Hp Hv]]]].
    + destruct (ord_param_rank ei em er s m s1 Ho) as [E1|[Hp Hv]].
      * left. congruence.
      * right. exists m. split; [left; reflexivity|]. split; [exact Hp|]. rewrite E. exact Hv.
    + right. exists mr. split; [right; exact Hin|]. split; assumption.
Qed.

Lemma build_ofattr_rank ei em er rank m fa :
  build_ofattr ei em er rank m = Ok fa -> oa_rank fa = rank \/ explicit_rank m (oa_rank fa).
Proof.
  unfold build_ofattr. intros H. destruct m as [p|p v|p d ts].
  - discriminate H.
  - destruct ei; [|discriminate H]. apply bind_ok in H as [b [_ H]]. inversion H. left. reflexivity.
  - apply bind_ok in H as [ms [Hms H]]. apply bind_ok in H as [s [Hs H]]. inversion H; subst fa; clear H.
    cbn [oa_rank]. destruct (run_params_rank ei em er ms _ s Hs) as [E|[mr [Hin [Hp Hv]]]].
    + left. exact E.
    + right. exists p, d, ts, ms, mr. repeat split; assumption.
Qed.

(** what [scan_attrs] returns was built from one entry of one `#[educe(..)]` attribute *)
Section ScanProvenance.
  Context {A : Type}.
  Variables (F : features) (own : trait -> bool) (build : meta -> outcome A) (traits : list trait).

  Definition built_from (attrs : list attr) (a : A) : Prop :=
    exists at_ d ts ms m, In at_ attrs /\ a_meta at_ = AMList d ts /\ parse_metas ts = Ok ms /\
                          In m ms /\ build m = Ok a.

  Lemma scan_metas_built ms : forall acc a,
    foldM (scan_meta F own build traits) acc ms = Ok (Some a) ->
    acc = Some a \/ exists m, In m ms /\ build m = Ok a.
  Proof.
    induction ms as [|m r IH]; intros acc a H.
    - cbn in H. inversion H. left. reflexivity.
    - cbn [foldM] in H. apply bind_ok in H as [acc1 [H1 H]].
      destruct (IH acc1 a H) as [E|[m' [Hin Hb]]].
      + subst acc1. unfold scan_meta in H1.
        destruct (trait_from_path F (meta_path m)) as [t|]; [|discriminate H1].
        destruct (negb (has_trait t traits)); [discriminate H1|].
        destruct (own t).
        * destruct acc; [discriminate H1|]. apply bind_ok in H1 as [v [Hv H1]].
          inversion H1; subst v. right. exists m. split; [left; reflexivity|exact Hv].
        * inversion H1. left. reflexivity.
      + right. exists m'. split; [right; exact Hin|exact Hb].
  Qed.

  Lemma scan_attrs_built_from attrs0 attrs : forall acc a,
    (forall x, In x attrs -> In x attrs0) ->
    foldM (scan_attr F own build traits) acc attrs = Ok (Some a) ->
    acc = Some a \/ built_from attrs0 a.
  Proof.
    induction attrs as [|at_ r IH]; intros acc a Hsub H.
    - cbn in H. inversion H. left. reflexivity.
    - cbn [foldM] in H. apply bind_ok in H as [acc1 [H1 H]].
      destruct (IH acc1 a (fun x Hx => Hsub x (or_intror Hx)) H) as [E|Hb]; [|right; exact Hb].
      subst acc1. unfold scan_attr in H1. destruct (is_educe at_); [|inversion H1; left; reflexivity].
      destruct (a_meta at_) as [|v|d ts] eqn:Em; try (inversion H1; left; reflexivity).
      apply bind_ok in H1 as [ms [Hms H1]].
      destruct (scan_metas_built ms acc a H1) as [E|[m [Hin Hb]]]; [left; exact E|].
      right. exists at_, d, ts, ms, m. repeat split; try assumption. apply Hsub. left. reflexivity.
  Qed.

  Lemma scan_attrs_built attrs a :
    scan_attrs F own build traits attrs = Ok (Some a) -> built_from attrs a.
  Proof.
    intros H. destruct (scan_attrs_built_from attrs attrs None a (fun x Hx => Hx) H) as [E|Hb];
      [discriminate E|exact Hb].
  Qed.
End ScanProvenance.

(** rank = explicit, or isize::MIN + declaration index *)
Theorem rank_explicit_or_default F own traits index attrs fa :
  ord_field_attr F own traits index attrs = Ok fa ->
  oa_rank fa = (isize_min + Z.of_nat index)%Z \/
  exists at_ d ts ms m, In at_ attrs /\ a_meta at_ = AMList d ts /\ parse_metas ts = Ok ms /\
                        In m ms /\ explicit_rank m (oa_rank fa).
Proof.
  unfold ord_field_attr. intros H. apply bind_ok in H as [o [Ho H]]. inversion H; subst fa; clear H.
  destruct o as [a|]; [|left; reflexivity].
  destruct (scan_attrs_built F own _ traits attrs a Ho) as [at_ [d [ts [ms [m [Hin [Hm [Hp [Hinm Hb]]]]]]]]].
  destruct (build_ofattr_rank _ _ _ _ _ _ Hb) as [E|E].
  - left. exact E.
  - right. exists at_, d, ts, ms, m. repeat split; assumption.
Qed.

(** ** the visiting order is strictly ascending in rank and a permutation of
    the non-ignored fields *)
Lemma sorted_by_orank (m : list (Z * ofield)) :
  StronglySorted key_lt m -> Forall (fun kt => fst kt = orank (snd kt)) m ->
  StronglySorted (fun a b => (orank a < orank b)%Z) (map snd m).
Proof.
  induction m as [|[k t] r IH]; intros Hs Hk; [constructor|].
  inversion Hs as [|? ? Hs' Hall]; subst. inversion Hk as [|? ? Hk1 Hkr]; subst.
  cbn [map snd]. constructor; [apply IH; assumption|].
  apply Forall_forall. intros b Hb. apply in_map_iff in Hb as [[k' t'] [<- Hin]].
  rewrite Forall_forall in Hall, Hkr. specialize (Hall _ Hin). specialize (Hkr _ Hin).
  unfold key_lt in Hall. cbn [fst snd] in *. lia.
Qed.

Theorem rank_order_sorted F own traits fs p :
  plan_fields F own traits fs = Ok p ->
  (* every field is kept, in declaration order, with the attribute read at its index *)
  map opos (fp_declared p) = indexed fs /\
  Forall (decl_ok F own traits) (fp_declared p) /\
  (* the visited fields: strictly ascending rank, a permutation of the non-ignored ones *)
  StronglySorted (fun a b => (orank a < orank b)%Z) (sorted_fields p) /\
  Permutation (sorted_fields p) (filter nonign (fp_declared p)) /\
  (* hence exactly the specification's visiting order *)
  map okey (sorted_fields p) = visit_order (map okey (fp_declared p)).
Proof.
  intros H. destruct (plan_fields_inv F own traits fs p H) as [Hi Hpos].
  split; [exact Hpos|]. split; [exact (pi_decl _ _ _ p Hi)|].
  split; [apply sorted_by_orank; [exact (pi_sorted _ _ _ p Hi)|exact (pi_keys _ _ _ p Hi)]|].
  split; [exact (pi_perm _ _ _ p Hi)|]. exact (sorted_fields_visit F own traits p Hi).
Qed.

(** the specification's visiting order itself: ascending, a permutation of the compared requests *)
Theorem visit_order_spec l :
  StronglySorted rank_le (visit_order l) /\ Permutation (visit_order l) (filter compared l).
Proof. split; [apply visit_order_sorted|apply visit_order_perm]. Qed.
