(** C04 — enum variants order by declared discriminant, never by memory layout. *)
From Educe.Proofs Require Export P_C03f.

(** ** [discriminant_values]: explicit literal, else predecessor + 1 (the
    real code's `saturating_add`), first 0 *)
Definition sat_succ (p : Z) : Z := if (p =? i128_max)%Z then i128_max else (p + 1)%Z.

Definition discr_rule (prev : option Z) (v : variant) (c : Z) : Prop :=
  match v_discr v with
  | Some ts => discr_value ts = Ok c
  | None => c = match prev with None => 0%Z | Some p => sat_succ p end
  end.

Inductive discrs_ok : option Z -> list variant -> list (string * Z) -> Prop :=
| DO_nil prev : discrs_ok prev [] []
| DO_cons prev v c vs ds :
    discr_rule prev v c -> discrs_ok (Some c) vs ds ->
    discrs_ok prev (v :: vs) ((v_name v, c) :: ds).

Definition counter_of (prev : option Z) : Z :=
  match prev with None => 0%Z | Some p => sat_succ p end.

Lemma discr_values_from_ok vs : forall prev ds,
  discr_values_from (counter_of prev) vs = Ok ds <-> discrs_ok prev vs ds.
Proof.
  induction vs as [|v vs IH]; intros prev ds; split; intros H.
  - cbn in H. inversion H. constructor.
  - inversion H. reflexivity.
  - cbn [discr_values_from] in H. apply bind_ok in H as [c [Hc H]].
    apply bind_ok in H as [rest [Hr H]]. inversion H; subst ds; clear H.
    constructor.
    + unfold discr_rule. destruct (v_discr v) as [ts|]; [exact Hc|].
      inversion Hc. reflexivity.
    + apply (IH (Some c)). exact Hr.
  - inversion H as [|? ? c ? ds' Hrule Hrest]; subst. cbn [discr_values_from].
    assert (Hc : match v_discr v with Some ts => discr_value ts | None => Ok (counter_of prev) end = Ok c).
    { unfold discr_rule in Hrule. destruct (v_discr v); [exact Hrule|]. rewrite Hrule. reflexivity. }
    rewrite Hc. cbn [bind].
    apply (IH (Some c)) in Hrest. cbn [counter_of] in Hrest. unfold sat_succ in Hrest.
    rewrite Hrest. reflexivity.
Qed.

Theorem discriminant_values_rule vs ds :
  discriminant_values vs = Ok ds <-> discrs_ok None vs ds.
Proof. exact (discr_values_from_ok vs None ds). Qed.

(** on enums rustc accepts (no implicit discriminant overflows), that is the
    Rust reference's rule: [spec_discrs] *)
Lemma discr_values_declared vs : forall counter prev ds,
  (forall v r, vs = v :: r -> v_discr v = None -> counter = (prev + 1)%Z) ->
  discr_values_from counter vs = Ok ds ->
  no_discr_overflow prev vs ds ->
  declared_discrs prev vs = Ok ds.
Proof.
  induction vs as [|v vs IH]; intros counter prev ds Hc H Hno.
  - cbn in H. inversion H. reflexivity.
  - cbn [discr_values_from] in H. apply bind_ok in H as [c [Hcv H]].
    apply bind_ok in H as [rest [Hr H]]. inversion H; subst ds; clear H.
    cbn [no_discr_overflow] in Hno. destruct Hno as [Hprev Hno].
    cbn [declared_discrs].
    assert (Hc' : match v_discr v with Some ts => discr_value ts | None => Ok (prev + 1)%Z end = Ok c).
    { destruct (v_discr v) eqn:Ed; [exact Hcv|]. rewrite <- (Hc v vs eq_refl Ed). exact Hcv. }
    rewrite Hc'. cbn [bind].
    rewrite (IH (if (c =? i128_max)%Z then i128_max else (c + 1)%Z) c rest);
      [reflexivity| |exact Hr|exact Hno].
    intros v' r' -> Ed'. cbn [no_discr_overflow] in Hno. destruct rest as [|[n' c'] rest'].
    + cbn [discr_values_from] in Hr. apply bind_ok in Hr as [x [_ Hr]].
      apply bind_ok in Hr as [y [_ Hr]]. discriminate Hr.
    + destruct Hno as [Hlt _]. specialize (Hlt Ed').
      destruct (c =? i128_max)%Z eqn:E; [apply Z.eqb_eq in E; lia|reflexivity].
Qed.

Theorem discriminant_values_declared vs ds :
  discriminant_values vs = Ok ds -> no_discr_overflow (-1)%Z vs ds -> spec_discrs vs = Ok ds.
Proof.
  intros H Hno. apply (discr_values_declared vs 0%Z (-1)%Z ds); [|exact H|exact Hno].
  intros. reflexivity.
Qed.

(** the discriminants in the request are [discriminant_values] *)
Lemma ord_cfg_discriminants F own traits d vs c n da la :
  d_data d = DEnum vs -> ord_cfg F own traits d = Ok c ->
  oc_get (Some n) c = Some (da, la) ->
  exists ds, discriminant_values vs = Ok ds /\ lookup n ds = Some da.
Proof.
  intros Hd Hc Hget. unfold ord_cfg in Hc. rewrite Hd in Hc.
  apply bind_ok in Hc as [ds [Hds Hc]]. apply bind_ok in Hc as [ls [_ Hc]].
  inversion Hc; subst c. exists ds. split; [exact Hds|].
  apply (oc_get_zip_lookup _ _ _ _ _ Hget).
Qed.

(** ** cross-variant and same-variant readings of the specification *)
Lemma spec_cmp_cross I c na nb xs ys da la db lb :
  oc_get (Some na) c = Some (da, la) -> oc_get (Some nb) c = Some (db, lb) -> na <> nb ->
  spec_cmp I c (VData (Some na) xs) (VData (Some nb) ys) = Some (Z.compare da db) /\
  spec_partial_cmp I c (VData (Some na) xs) (VData (Some nb) ys) = Some (Some (Z.compare da db)).
Proof.
  intros Ha Hb Hne. cbn [spec_cmp spec_partial_cmp same_variant]. rewrite Ha, Hb.
  destruct (String.eqb na nb) eqn:E; [apply String.eqb_eq in E; contradiction|].
  split; reflexivity.
Qed.

Section Corollaries.
  Variable I : interp.

  Theorem ord_cross_variant F traits d m items c na nb xs ys da la db lb :
    data_wf (d_data d) ->
    expand_ord F traits d m = Ok items ->
    ord_cfg F (own_ord F traits) traits d = Ok c ->
    omethods_typed false I c ->
    ovalue_ok c (VData (Some na) xs) = true -> ovalue_ok c (VData (Some nb) ys) = true ->
    oc_get (Some na) c = Some (da, la) -> oc_get (Some nb) c = Some (db, lb) -> na <> nb ->
    exists it rest, items = it :: rest /\
      run_cmp I it (VData (Some na) xs) (VData (Some nb) ys) = Some (Z.compare da db).
  Proof.
    intros Hwf He Hc Hm Ha Hb Hga Hgb Hne.
    destruct (ord_cmp_spec I F traits d m items c _ _ Hwf He Hc Hm Ha Hb) as [it [rest [-> Hrun]]].
    exists it, rest. split; [reflexivity|]. rewrite Hrun.
    apply (spec_cmp_cross I c na nb xs ys da la db lb Hga Hgb Hne).
  Qed.

  Theorem partial_ord_cross_variant F traits d m items c na nb xs ys da la db lb :
    has_trait TOrd F && has_trait TOrd traits = false ->
    data_wf (d_data d) ->
    expand_partial_ord F traits d m = Ok items ->
    ord_cfg F (trait_eqb TPartialOrd) traits d = Ok c ->
    omethods_typed true I c ->
    ovalue_ok c (VData (Some na) xs) = true -> ovalue_ok c (VData (Some nb) ys) = true ->
    oc_get (Some na) c = Some (da, la) -> oc_get (Some nb) c = Some (db, lb) -> na <> nb ->
    exists it rest, items = it :: rest /\
      run_partial_cmp I it (VData (Some na) xs) (VData (Some nb) ys) = Some (Some (Z.compare da db)).
  Proof.
    intros Hno Hwf He Hc Hm Ha Hb Hga Hgb Hne.
    destruct (partial_ord_cmp_spec I F traits d m items c _ _ Hno Hwf He Hc Hm Ha Hb)
      as [it [rest [-> Hrun]]].
    exists it, rest. split; [reflexivity|]. rewrite Hrun.
    apply (spec_cmp_cross I c na nb xs ys da la db lb Hga Hgb Hne).
  Qed.
End Corollaries.

(** ** no memory read: the emitted bodies are built from variables, paths,
    calls, shared borrows of fields, pattern matching, `return` and the
    discriminant-VALUE match only: no `unsafe`, no cast, no dereference, no
    spliced token expression, no macro, no assignment, no `&mut`.  Nothing in
    them can observe how the compiler lays the enum out. *)
Fixpoint no_mem (e : expr) : bool :=
  match e with
  | EVar _ | EPath _ | EUnit | EBool _ | EUsize _ | EStr _ => true
  | ECall f args | ECallT f args => no_mem f && forallb no_mem args
  | ERef e1 | ENot e1 | EField e1 _ | EReturn e1 | ESemi e1 | ELet _ _ e1 => no_mem e1
  | EIf c th el =>
      no_mem c && forallb no_mem th
      && match el with Some b => forallb no_mem b | None => true end
  | EIfLet _ sc th el =>
      no_mem sc && forallb no_mem th
      && match el with Some b => forallb no_mem b | None => true end
  | EMatch sc arms | EMatchC sc arms =>
      no_mem sc && forallb (fun pe => no_mem (snd pe)) arms
  | EBlock b => forallb no_mem b
  | EStruct _ fs _ => forallb (fun kv => no_mem (snd kv)) fs
  | EDiscrMatch _ eq gt lt => no_mem eq && no_mem gt && no_mem lt
  | EToks _ | EMethod _ _ _ | ERefMut _ | EDeref _ | EUnsafe _ | ECast _ _ | EAssign _ _
  | EMacro _ _ | EDebugMapBuilder | EDebugFieldArg _ _ _ _ _ _ | EQPath _ _ _ => false
  end.

Definition member_no_mem (mb : member) : bool :=
  match mb with MFn _ _ _ _ body => forallb no_mem body | MType _ _ => true end.
Definition item_no_mem (it : item) : bool := forallb member_no_mem (i_members it).

Lemma ord_result_no_mem partial c : no_mem (ord_result partial c) = true.
Proof. destruct partial; reflexivity. Qed.

Lemma cmp_step_no_mem partial fa a b :
  no_mem a = true -> no_mem b = true -> no_mem (cmp_step partial fa a b) = true.
Proof.
  intros Ha Hb. unfold cmp_step, cmp_callee.
  destruct partial, (oa_method fa); cbn; rewrite Ha, Hb; reflexivity.
Qed.

Lemma steps_no_mem {A} partial (f : A -> ofattr * expr * expr) (l : list A) :
  (forall t, no_mem (snd (fst (f t))) = true /\ no_mem (snd (f t)) = true) ->
  forallb no_mem (map (fun t => cmp_step partial (fst (fst (f t))) (snd (fst (f t))) (snd (f t))) l) = true.
Proof.
  intros H. induction l as [|t r IH]; [reflexivity|]. cbn [map forallb].
  destruct (H t) as [Ha Hb]. rewrite (cmp_step_no_mem partial _ _ _ Ha Hb). exact IH.
Qed.

Lemma cmp_struct_body_no_mem partial p : forallb no_mem (cmp_struct_body partial p) = true.
Proof.
  unfold cmp_struct_body. rewrite forallb_app. cbn [forallb]. rewrite ord_result_no_mem.
  rewrite andb_true_r.
  rewrite (map_ext _ (fun t : ofield =>
             let g := fun '(i, f, fa) => (fa, ERef (EField (EVar "self") (field_member f i)),
                                          ERef (EField (EVar "other") (field_member f i))) in
             cmp_step partial (fst (fst (g t))) (snd (fst (g t))) (snd (g t))))
    by (intros [[i f] fa]; reflexivity).
  apply (steps_no_mem partial). intros [[i f] fa]. split; reflexivity.
Qed.

Lemma cmp_arm_no_mem partial vp : no_mem (snd (cmp_arm partial vp)) = true.
Proof.
  destruct vp as [n|n p|n p]; cbn [cmp_arm].
  - unfold cmp_arm_unit. cbn. rewrite ord_result_no_mem. reflexivity.
  - unfold cmp_arm_named. cbn [snd no_mem forallb]. rewrite !andb_true_r. cbn [andb].
    rewrite (map_ext _ (fun t : ofield =>
               let g := fun '(i, f, fa) => (fa, EVar ("_s_" ^^ unraw (named_of f)),
                                            EVar ("_o_" ^^ unraw (named_of f))) in
               cmp_step partial (fst (fst (g t))) (snd (fst (g t))) (snd (g t))))
      by (intros [[i f] fa]; reflexivity).
    apply (steps_no_mem partial). intros [[i f] fa]. split; reflexivity.
  - unfold cmp_arm_unnamed. cbn [snd no_mem forallb]. rewrite !andb_true_r. cbn [andb].
    rewrite (map_ext _ (fun t : ofield =>
               let g := fun '(i, f, fa) => (fa, EVar ("_" ^^ dec i), EVar ("__" ^^ dec i)) in
               cmp_step partial (fst (fst (g t))) (snd (fst (g t))) (snd (g t))))
      by (intros [[i f] fa]; reflexivity).
    apply (steps_no_mem partial). intros [[i f] fa]. split; reflexivity.
Qed.

Lemma cmp_enum_body_no_mem partial ds vps : forallb no_mem (cmp_enum_body partial ds vps) = true.
Proof.
  unfold cmp_enum_body. destruct (is_nil vps).
  - cbn [forallb]. rewrite ord_result_no_mem. reflexivity.
  - cbn [forallb no_mem]. rewrite !ord_result_no_mem, !andb_true_r.
    destruct (forallb vplan_is_unit vps); [apply ord_result_no_mem|].
    cbn [no_mem forallb]. rewrite ord_result_no_mem, !andb_true_r. cbn [andb].
    induction vps as [|vp r IH]; [reflexivity|]. cbn [map forallb].
    rewrite cmp_arm_no_mem. exact IH.
Qed.

Lemma body_of_no_mem partial F own traits d body :
  body_of partial F own traits d body -> forallb no_mem body = true.
Proof.
  unfold body_of. destruct (d_data d) as [fs|vs|fs]; intros H.
  - destruct H as [p [_ ->]]. apply cmp_struct_body_no_mem.
  - destruct H as [ds [vps [_ [_ ->]]]]. apply cmp_enum_body_no_mem.
  - destruct H.
Qed.

Theorem ord_no_memory_read F traits d m items :
  expand_ord F traits d m = Ok items -> forallb item_no_mem items = true.
Proof.
  intros He. destruct (expand_ord_body F traits d m items He) as [g [body [-> Hb]]].
  pose proof (body_of_no_mem _ _ _ _ _ _ Hb) as Hn.
  unfold ord_items. destruct (has_trait TPartialOrd F && has_trait TPartialOrd traits);
    cbn [forallb item_no_mem ord_item partial_ord_item i_members member_no_mem];
    rewrite Hn; reflexivity.
Qed.

Theorem partial_ord_no_memory_read F traits d m items :
  expand_partial_ord F traits d m = Ok items -> forallb item_no_mem items = true.
Proof.
  intros He. destruct (has_trait TOrd F && has_trait TOrd traits) eqn:Ec.
  - unfold expand_partial_ord in He. rewrite Ec in He.
    apply bind_ok in He as [ta [_ He]]. inversion He. reflexivity.
  - destruct (expand_partial_ord_body F traits d m items Ec He) as [g [body [-> Hb]]].
    pose proof (body_of_no_mem _ _ _ _ _ _ Hb) as Hn.
    cbn [forallb item_no_mem partial_ord_item i_members member_no_mem]. rewrite Hn. reflexivity.
Qed.
