(** C14, part e: whole handlers.  Two spellings of the same request give the same impl items:
    PartialEq (+ the Eq companion) and Hash, for structs, enums and unions. *)
From Educe.Proofs Require Export P_C14d.

(** * generic congruences *)
Lemma mapM_osimR {A A' B B'} (P : A -> A' -> Prop) (R : B -> B' -> Prop)
      (f : A -> outcome B) (g : A' -> outcome B') l l' :
  (forall a b, P a b -> osimR R (f a) (g b)) ->
  Forall2 P l l' -> osimR (Forall2 R) (mapM f l) (mapM g l').
Proof.
  intros Hf. induction 1 as [|a b l l' Hab Hl IH]; cbn [mapM]; [constructor|].
  eapply osimR_bind; [exact (Hf a b Hab)|]. intros x y Hxy.
  eapply osimR_bind; [exact IH|]. intros xs ys Hxs. constructor; assumption.
Qed.

Lemma Forall2_eq {A} (l l' : list A) : Forall2 eq l l' -> l = l'.
Proof. induction 1; congruence. Qed.

Lemma mapM_osim {A A' B} (P : A -> A' -> Prop) (f : A -> outcome B) (g : A' -> outcome B) l l' :
  (forall a b, P a b -> osim (f a) (g b)) -> Forall2 P l l' -> osim (mapM f l) (mapM g l').
Proof.
  intros Hf H. eapply osimR_mono; [|exact (mapM_osimR P eq f g l l' Hf H)].
  intros a b. apply Forall2_eq.
Qed.

Lemma map_Forall2 {A B C} (R : A -> B -> Prop) (f : A -> C) (g : B -> C) l l' :
  Forall2 R l l' -> (forall a b, R a b -> f a = g b) -> map f l = map g l'.
Proof. intros H Hf. induction H; cbn [map]; [reflexivity|]. rewrite (Hf _ _ H), IHForall2. reflexivity. Qed.

Lemma flat_map_Forall2 {A B C} (R : A -> B -> Prop) (f : A -> list C) (g : B -> list C) l l' :
  Forall2 R l l' -> (forall a b, R a b -> f a = g b) -> flat_map f l = flat_map g l'.
Proof.
  intros H Hf. induction H; cbn [flat_map]; [reflexivity|]. rewrite (Hf _ _ H), IHForall2. reflexivity.
Qed.

Lemma Forall2_index_from {A B} (R : A -> B -> Prop) l l' :
  Forall2 R l l' -> forall i,
  Forall2 (fun x y => fst x = fst y /\ R (snd x) (snd y)) (index_from i l) (index_from i l').
Proof.
  induction 1; intros i; cbn [index_from]; constructor; [split; [reflexivity|assumption]|apply IHForall2].
Qed.

Lemma Forall2_length {A B} (R : A -> B -> Prop) l l' : Forall2 R l l' -> List.length l = List.length l'.
Proof. induction 1; cbn; congruence. Qed.

Lemma Forall2_is_nil {A B} (R : A -> B -> Prop) l l' : Forall2 R l l' -> is_nil l = is_nil l'.
Proof. destruct 1; reflexivity. Qed.

(** fields up to their attributes *)
Definition fsame (f f' : field) : Prop := f_name f = f_name f' /\ f_ty f = f_ty f'.

Lemma field_equiv_fsame AE f f' : field_equiv AE f f' -> fsame f f'.
Proof. intros [H1 H2 _]. split; assumption. Qed.

Lemma fields_equiv_list AE fs fs' :
  fields_equiv AE fs fs' -> Forall2 (field_equiv AE) (fields_list fs) (fields_list fs').
Proof. destruct 1; cbn [fields_list]; auto. Qed.

Lemma field_member_same f f' i : fsame f f' -> field_member f i = field_member f' i.
Proof. intros [H _]. unfold field_member. rewrite H. reflexivity. Qed.

(** [scan_attrs] and the membership view of [traits] *)
Lemma scan_attrs_ext {A} F own own' (build : meta -> outcome A) traits traits' attrs :
  (forall t, has_trait t traits = has_trait t traits') -> (forall t, own t = own' t) ->
  scan_attrs F own build traits attrs = scan_attrs F own' build traits' attrs.
Proof.
  intros Ht Ho. unfold scan_attrs. generalize (@None A).
  induction attrs as [|a r IH]; intros acc; cbn [foldM]; [reflexivity|].
  assert (E : scan_attr F own build traits acc a = scan_attr F own' build traits' acc a).
  { unfold scan_attr. destruct (is_educe a); [|reflexivity]. destruct (a_meta a); try reflexivity.
    destruct (parse_metas ts); cbn [bind]; try reflexivity.
    exact (scan_metas_ext F own own' build traits traits' acc a0 Ht Ho). }
  rewrite E. destruct (scan_attr F own' build traits' acc a); cbn [bind]; auto.
Qed.

(** * PartialEq *)
Lemma own_partial_eq_ext traits traits' :
  (forall t, has_trait t traits = has_trait t traits') ->
  forall t, own_partial_eq traits t = own_partial_eq traits' t.
Proof. intros H t. unfold own_partial_eq. rewrite H. reflexivity. Qed.

Lemma own_partial_eq_names traits t :
  own_partial_eq traits t = true -> t = TPartialEq \/ t = TEq.
Proof. unfold own_partial_eq. destruct t; cbn; rewrite ?andb_false_r; intros H; try discriminate; auto. Qed.

Lemma peq_fattr_respects F traits pos ei em :
  build_respects F (own_partial_eq traits) (build_fattr ei em) pos.
Proof.
  intros m m' H t Et Eo. apply (build_fattr_equiv pos ei em m m' H (trait_name t)).
  - exact (trait_from_path_name F _ t Et).
  - destruct (own_partial_eq_names traits t Eo) as [-> | ->]; cbn; auto.
Qed.

Lemma peq_tattr_respects F traits pos ef eu eb :
  pos <> PField -> build_respects F (own_partial_eq traits) (build_tattr ef eu eb) pos.
Proof.
  intros Hpos m m' H t Et Eo. apply (build_tattr_equiv pos ef eu eb m m' Hpos H (trait_name t)).
  - exact (trait_from_path_name F _ t Et).
  - destruct (own_partial_eq_names traits t Eo) as [-> | ->]; cbn; auto.
Qed.

(** a struct / variant field *)
Lemma peq_field_attr_spelling F traits traits' attrs attrs' :
  (forall t, has_trait t traits = has_trait t traits') ->
  field_attrs_equiv F traits attrs attrs' ->
  osim (peq_field_attr F traits true true attrs) (peq_field_attr F traits' true true attrs').
Proof.
  intros Ht H. unfold peq_field_attr.
  rewrite <- (scan_attrs_ext F (own_partial_eq traits) (own_partial_eq traits') _ traits traits' attrs'
                Ht (own_partial_eq_ext traits traits' Ht)).
  apply (scan_default_fequiv F (own_partial_eq traits) (build_fattr true true) traits fattr_default).
  - intros t1 t2 H1 H2.
    destruct (own_partial_eq_names traits t1 H1) as [-> | ->];
      destruct (own_partial_eq_names traits t2 H2) as [-> | ->]; cbn; auto.
  - intros p t _ _ _. reflexivity.
  - apply peq_fattr_respects.
  - exact H.
Qed.

(** a union field *)
Lemma peq_ufield_attr_spelling F traits traits' attrs attrs' :
  (forall t, has_trait t traits = has_trait t traits') ->
  ufield_attrs_equiv attrs attrs' ->
  osim (peq_field_attr F traits false false attrs) (peq_field_attr F traits' false false attrs').
Proof.
  intros Ht H. unfold peq_field_attr.
  rewrite <- (scan_attrs_ext F (own_partial_eq traits) (own_partial_eq traits') _ traits traits' attrs'
                Ht (own_partial_eq_ext traits traits' Ht)).
  apply osim_bind; [|intros o; apply osim_refl].
  apply (scan_attrs_equiv F _ _ traits PField); [apply peq_fattr_respects|exact H].
Qed.

(** a variant *)
Lemma peq_type_attr_spelling F traits traits' attrs attrs' :
  (forall t, has_trait t traits = has_trait t traits') ->
  variant_attrs_equiv attrs attrs' ->
  osim (peq_type_attr F traits attrs) (peq_type_attr F traits' attrs').
Proof.
  intros Ht H. unfold peq_type_attr.
  rewrite <- (scan_attrs_ext F (own_partial_eq traits) (own_partial_eq traits') _ traits traits' attrs'
                Ht (own_partial_eq_ext traits traits' Ht)).
  apply osim_bind; [|intros o; apply osim_refl].
  apply (scan_attrs_equiv F _ _ traits PVariant); [apply peq_tattr_respects; discriminate|exact H].
Qed.

(** analysed fields, up to the attributes the fields carry *)
Definition FR {X} (x x' : field * X) : Prop := fsame (fst x) (fst x') /\ snd x = snd x'.

Lemma field_attrs_spelling F traits traits' fs fs' :
  (forall t, has_trait t traits = has_trait t traits') ->
  Forall2 (field_equiv (field_attrs_equiv F traits)) fs fs' ->
  osimR (Forall2 FR) (field_attrs F traits fs) (field_attrs F traits' fs').
Proof.
  intros Ht H. unfold field_attrs. eapply mapM_osimR; [|exact H].
  intros f f' Hf. eapply osimR_bind.
  - exact (peq_field_attr_spelling F traits traits' _ _ Ht (fe_attrs _ _ _ Hf)).
  - intros a b ->. split; [exact (field_equiv_fsame _ _ _ Hf)|reflexivity].
Qed.

Lemma peq_types_same l l' : Forall2 FR l l' -> peq_types l = peq_types l'.
Proof.
  intros H. unfold peq_types. apply (flat_map_Forall2 FR); [exact H|].
  intros [f fa] [f' fa'] [[Hn Hty] E]. cbn [fst snd] in *. subst fa'. rewrite Hty. reflexivity.
Qed.

Lemma peq_struct_body_same l l' :
  Forall2 FR l l' ->
  peq_struct_body (map (fun '(i, (f, fa)) => (i, f, fa)) (indexed l)) =
  peq_struct_body (map (fun '(i, (f, fa)) => (i, f, fa)) (indexed l')).
Proof.
  intros H. unfold peq_struct_body, indexed. rewrite !flat_map_concat_map, !map_map. f_equal.
  apply (map_Forall2 (fun x y => fst x = fst y /\ FR (snd x) (snd y)));
    [apply Forall2_index_from; exact H|].
  intros [i [f fa]] [i' [f' fa']] [Hi [Hs E]]. cbn [fst snd] in *. subst i' fa'.
  rewrite (field_member_same f f' i Hs). reflexivity.
Qed.

Lemma peq_arm_named_same v l l' : Forall2 FR l l' -> peq_arm_named v l = peq_arm_named v l'.
Proof.
  intros H. unfold peq_arm_named.
  assert (E1 : forall pre,
             map (fun '(f, fa) => (match f_name f with Some n => n | None => ""%string end,
                                   Some (if fa_ignore fa then PWild
                                         else PBind (pre ^^ unraw (match f_name f with Some n => n | None => ""%string end))))) l
             = map (fun '(f, fa) => (match f_name f with Some n => n | None => ""%string end,
                                   Some (if fa_ignore fa then PWild
                                         else PBind (pre ^^ unraw (match f_name f with Some n => n | None => ""%string end))))) l').
  { intros pre. apply (map_Forall2 FR); [exact H|].
    intros [f fa] [f' fa'] [[Hn Hty] E]. cbn [fst snd] in *. subst fa'. rewrite Hn. reflexivity. }
  rewrite !E1. f_equal. f_equal. f_equal. f_equal.
  apply (flat_map_Forall2 FR); [exact H|].
  intros [f fa] [f' fa'] [[Hn Hty] E]. cbn [fst snd] in *. subst fa'. rewrite Hn. reflexivity.
Qed.

Lemma peq_arm_unnamed_same v l l' :
  Forall2 FR l l' -> peq_arm_unnamed v (indexed l) = peq_arm_unnamed v (indexed l').
Proof.
  intros H. unfold peq_arm_unnamed, indexed.
  pose proof (Forall2_index_from FR l l' H 0) as Hi.
  assert (E1 : forall pre,
             map (fun '(i, (f, fa)) => if fa_ignore fa then PWild else PBind (pre ^^ dec i)) (index_from 0 l)
             = map (fun '(i, (f, fa)) => if fa_ignore fa then PWild else PBind (pre ^^ dec i)) (index_from 0 l')).
  { intros pre. eapply map_Forall2; [exact Hi|].
    intros [i [f fa]] [i' [f' fa']] [Hii [Hs E]]. cbn [fst snd] in *. subst i' fa'. reflexivity. }
  rewrite !E1. f_equal. f_equal. f_equal. f_equal.
  eapply flat_map_Forall2; [exact Hi|].
  intros [i [f fa]] [i' [f' fa']] [Hii [Hs E]]. cbn [fst snd] in *. subst i' fa'. reflexivity.
Qed.

Lemma peq_variant_spelling F traits traits' v v' :
  (forall t, has_trait t traits = has_trait t traits') ->
  variant_equiv F traits v v' ->
  osim (peq_variant F traits v) (peq_variant F traits' v').
Proof.
  intros Ht [Hn _ Ha Hf]. unfold peq_variant.
  apply osim_bind; [exact (peq_type_attr_spelling F traits traits' _ _ Ht Ha)|]. intros _.
  rewrite <- Hn. destruct Hf as [l l' Hl|l l' Hl|].
  - eapply osimR_bind; [exact (field_attrs_spelling F traits traits' l l' Ht Hl)|].
    intros x y Hxy. cbn [osimR]. rewrite (peq_arm_named_same _ x y Hxy), (peq_types_same x y Hxy).
    reflexivity.
  - eapply osimR_bind; [exact (field_attrs_spelling F traits traits' l l' Ht Hl)|].
    intros x y Hxy. cbn [osimR]. rewrite (peq_arm_unnamed_same _ x y Hxy), (peq_types_same x y Hxy).
    reflexivity.
  - apply osim_refl.
Qed.

Lemma peq_items_same traits traits' F d d' g body :
  (forall t, has_trait t traits = has_trait t traits') -> d_name d = d_name d' ->
  peq_items traits F d g body = peq_items traits' F d' g body.
Proof. intros Ht Hn. unfold peq_items. rewrite Ht, Hn. reflexivity. Qed.

Lemma tmeta_type_tattr ef eu eb m m' a :
  tmeta_equiv PType m m' -> get_ident (meta_path m) = Some a -> In a tattr_traits ->
  osim (build_tattr ef eu eb m) (build_tattr ef eu eb m').
Proof. intros H Hg Hin. apply (build_tattr_equiv PType ef eu eb m m') with (a := a); [discriminate|exact H|exact Hg|exact Hin]. Qed.

Theorem expand_partial_eq_spelling F traits traits' d d' m m' :
  (forall t, has_trait t traits = has_trait t traits') ->
  d_name d = d_name d' -> d_generics d = d_generics d' ->
  data_equiv F traits (d_data d) (d_data d') ->
  tmeta_equiv PType m m' -> get_ident (meta_path m) = Some "PartialEq"%string ->
  osim (expand_partial_eq F traits d m) (expand_partial_eq F traits' d' m').
Proof.
  intros Ht Hn Hg Hd Hm Hp. unfold expand_partial_eq. rewrite <- Hg.
  assert (Hta : forall ef eu eb, osim (build_tattr ef eu eb m) (build_tattr ef eu eb m')).
  { intros. apply (tmeta_type_tattr ef eu eb m m' _ Hm Hp). cbn. auto 10. }
  destruct Hd as [fs fs' Hfs|vs vs' Hvs|fs fs' Hfs].
  - apply osim_bind; [apply Hta|]. intros ta.
    eapply osimR_bind; [exact (field_attrs_spelling F traits traits' _ _ Ht (fields_equiv_list _ _ _ Hfs))|].
    intros l l' Hl. cbn [osimR].
    rewrite (peq_types_same l l' Hl), (peq_struct_body_same l l' Hl).
    rewrite (peq_items_same traits traits' F d d' _ _ Ht Hn). reflexivity.
  - apply osim_bind; [apply Hta|]. intros ta.
    apply osim_bind.
    + apply (mapM_osim (variant_equiv F traits)); [|exact Hvs].
      intros v v' Hv. exact (peq_variant_spelling F traits traits' v v' Ht Hv).
    + intros arms. cbn [osim osimR]. rewrite (peq_items_same traits traits' F d d' _ _ Ht Hn). reflexivity.
  - apply osim_bind; [apply Hta|]. intros ta.
    destruct (negb (ta_unsafe ta)); [exact Logic.I|].
    apply osim_bind.
    + apply (mapM_osim (field_equiv ufield_attrs_equiv)); [|exact Hfs].
      intros f f' Hf. exact (peq_ufield_attr_spelling F traits traits' _ _ Ht (fe_attrs _ _ _ Hf)).
    + intros _. rewrite Ht, Hn. apply osim_refl.
Qed.

(** * scanners serving one trait, or any [own] — the general form used by the other handlers *)
Lemma trait_eqb_eq a b : trait_eqb a b = true -> b = a.
Proof. destruct a, b; cbn; intros H; try discriminate; reflexivity. Qed.

Lemma scan_default_spelling {A} F own own' (build : meta -> outcome A) traits traits' dflt attrs attrs' :
  (forall t, has_trait t traits = has_trait t traits') -> (forall t, own t = own' t) ->
  (forall t1 t2, own t1 = true -> own t2 = true -> In (trait_name t2) (group (trait_name t1))) ->
  (forall p t, trait_from_path F p = Some t -> In (trait_name t) bool_shorthand_traits -> own t = true ->
               build (MNameValue p (XLit (tok_bool true))) = Ok dflt) ->
  build_respects F own build PField ->
  field_attrs_equiv F traits attrs attrs' ->
  osim (scan_default F own build traits dflt attrs) (scan_default F own' build traits' dflt attrs').
Proof.
  intros Ht Ho Hg Hb Hr H. unfold scan_default at 2.
  rewrite <- (scan_attrs_ext F own own' build traits traits' attrs' Ht Ho).
  exact (scan_default_fequiv F own build traits dflt attrs attrs' Hg Hb Hr H).
Qed.

Lemma scan_attrs_spelling {A} F own own' (build : meta -> outcome A) traits traits' pos attrs attrs' :
  (forall t, has_trait t traits = has_trait t traits') -> (forall t, own t = own' t) ->
  build_respects F own build pos ->
  attrs_equiv (metas_equiv pos) false attrs attrs' ->
  osim (scan_attrs F own build traits attrs) (scan_attrs F own' build traits' attrs').
Proof.
  intros Ht Ho Hr H.
  rewrite <- (scan_attrs_ext F own own' build traits traits' attrs' Ht Ho).
  exact (scan_attrs_equiv F own build traits pos attrs attrs' Hr H).
Qed.

(** when the scanner's traits have no `= true` shorthand, or the builder refuses it anyway, the
    `= true` rule can only matter through validation: without it the scan result is the same option *)
Lemma one_trait_group T t1 t2 :
  trait_eqb T t1 = true -> trait_eqb T t2 = true -> In (trait_name t2) (group (trait_name t1)).
Proof.
  intros H1 H2. apply trait_eqb_eq in H1, H2. subst. destruct T; cbn; auto.
Qed.

(** * Hash *)
Lemma hash_fattr_respects F pos ei em : build_respects F (trait_eqb THash) (build_fattr ei em) pos.
Proof.
  intros m m' H t Et Eo. apply trait_eqb_eq in Eo. subst t.
  apply (build_fattr_equiv pos ei em m m' H "Hash"%string).
  - exact (trait_from_path_name F _ THash Et).
  - cbn. auto.
Qed.

Lemma hash_tattr_respects F pos ef eu eb :
  pos <> PField -> build_respects F (trait_eqb THash) (build_tattr ef eu eb) pos.
Proof.
  intros Hpos m m' H t Et Eo. apply trait_eqb_eq in Eo. subst t.
  apply (build_tattr_equiv pos ef eu eb m m' Hpos H "Hash"%string).
  - exact (trait_from_path_name F _ THash Et).
  - cbn. auto.
Qed.

Lemma hash_field_attr_spelling F traits traits' attrs attrs' :
  (forall t, has_trait t traits = has_trait t traits') ->
  field_attrs_equiv F traits attrs attrs' ->
  osim (hash_field_attr F traits true true attrs) (hash_field_attr F traits' true true attrs').
Proof.
  intros Ht H.
  apply (scan_default_spelling F (trait_eqb THash) (trait_eqb THash) (build_fattr true true)
           traits traits' fattr_default); auto.
  - apply one_trait_group.
  - apply hash_fattr_respects.
Qed.

Lemma hash_ufield_attr_spelling F traits traits' attrs attrs' :
  (forall t, has_trait t traits = has_trait t traits') ->
  ufield_attrs_equiv attrs attrs' ->
  osim (hash_field_attr F traits false false attrs) (hash_field_attr F traits' false false attrs').
Proof.
  intros Ht H. unfold hash_field_attr. apply osim_bind; [|intros o; apply osim_refl].
  apply (scan_attrs_spelling F _ _ _ traits traits' PField); auto. apply hash_fattr_respects.
Qed.

Lemma hash_type_attr_spelling F traits traits' attrs attrs' :
  (forall t, has_trait t traits = has_trait t traits') ->
  variant_attrs_equiv attrs attrs' ->
  osim (hash_type_attr F traits attrs) (hash_type_attr F traits' attrs').
Proof.
  intros Ht H. unfold hash_type_attr. apply osim_bind; [|intros o; apply osim_refl].
  apply (scan_attrs_spelling F _ _ _ traits traits' PVariant); auto.
  apply hash_tattr_respects. discriminate.
Qed.

Lemma hash_field_attrs_spelling F traits traits' fs fs' :
  (forall t, has_trait t traits = has_trait t traits') ->
  Forall2 (field_equiv (field_attrs_equiv F traits)) fs fs' ->
  osimR (Forall2 FR) (hash_field_attrs F traits fs) (hash_field_attrs F traits' fs').
Proof.
  intros Ht H. unfold hash_field_attrs. eapply mapM_osimR; [|exact H].
  intros f f' Hf. eapply osimR_bind.
  - exact (hash_field_attr_spelling F traits traits' _ _ Ht (fe_attrs _ _ _ Hf)).
  - intros a b ->. split; [exact (field_equiv_fsame _ _ _ Hf)|reflexivity].
Qed.

Lemma hash_types_same l l' : Forall2 FR l l' -> hash_types l = hash_types l'.
Proof.
  intros H. unfold hash_types. apply (flat_map_Forall2 FR); [exact H|].
  intros [f fa] [f' fa'] [[Hn Hty] E]. cbn [fst snd] in *. subst fa'. rewrite Hty. reflexivity.
Qed.

Lemma hash_struct_body_same l l' :
  Forall2 FR l l' -> hash_struct_body (indexed l) = hash_struct_body (indexed l').
Proof.
  intros H. unfold hash_struct_body, indexed.
  eapply flat_map_Forall2; [apply Forall2_index_from; exact H|].
  intros [i [f fa]] [i' [f' fa']] [Hi [Hs E]]. cbn [fst snd] in *. subst i' fa'.
  rewrite (field_member_same f f' i Hs). reflexivity.
Qed.

Lemma hash_arm_same vi v fs l l' : Forall2 FR l l' -> hash_arm vi v fs l = hash_arm vi v fs l'.
Proof.
  intros H. unfold hash_arm. destruct fs as [x|x|]; [| |reflexivity].
  - f_equal.
    + f_equal. apply (map_Forall2 FR); [exact H|].
      intros [f fa] [f' fa'] [[Hn Hty] E]. cbn [fst snd] in *. subst fa'. rewrite Hn. reflexivity.
    + f_equal. f_equal. apply (flat_map_Forall2 FR); [exact H|].
      intros [f fa] [f' fa'] [[Hn Hty] E]. cbn [fst snd] in *. subst fa'. rewrite Hn. reflexivity.
  - pose proof (Forall2_index_from FR l l' H 0) as Hi. unfold indexed. f_equal.
    + f_equal. eapply map_Forall2; [exact Hi|].
      intros [i [f fa]] [i' [f' fa']] [Hii [Hs E]]. cbn [fst snd] in *. subst i' fa'. reflexivity.
    + f_equal. f_equal. eapply flat_map_Forall2; [exact Hi|].
      intros [i [f fa]] [i' [f' fa']] [Hii [Hs E]]. cbn [fst snd] in *. subst i' fa'. reflexivity.
Qed.

Lemma fields_equiv_kind AE fs fs' (X : Type) (a b c : X) :
  fields_equiv AE fs fs' ->
  match fs with FNamed _ => a | FUnnamed _ => b | FUnit => c end =
  match fs' with FNamed _ => a | FUnnamed _ => b | FUnit => c end.
Proof. destruct 1; reflexivity. Qed.

Lemma hash_arm_kind AE vi v fs fs' l : fields_equiv AE fs fs' -> hash_arm vi v fs l = hash_arm vi v fs' l.
Proof. destruct 1; reflexivity. Qed.

Lemma hash_variant_spelling F traits traits' i v v' :
  (forall t, has_trait t traits = has_trait t traits') ->
  variant_equiv F traits v v' ->
  osim (hash_variant F traits (i, v)) (hash_variant F traits' (i, v')).
Proof.
  intros Ht [Hn _ Ha Hf]. unfold hash_variant.
  apply osim_bind; [exact (hash_type_attr_spelling F traits traits' _ _ Ht Ha)|]. intros _.
  eapply osimR_bind;
    [exact (hash_field_attrs_spelling F traits traits' _ _ Ht (fields_equiv_list _ _ _ Hf))|].
  intros l l' Hl. cbn [osimR].
  rewrite <- Hn, (hash_arm_kind _ i (v_name v) _ _ l Hf), (hash_arm_same _ _ _ l l' Hl),
          (hash_types_same l l' Hl). reflexivity.
Qed.

Lemma hash_item_same d d' g body :
  d_name d = d_name d' -> d_generics d = d_generics d' -> hash_item d g body = hash_item d' g body.
Proof. intros Hn Hg. unfold hash_item. rewrite Hn, Hg. reflexivity. Qed.

Theorem expand_hash_spelling F traits traits' d d' m m' :
  (forall t, has_trait t traits = has_trait t traits') ->
  d_name d = d_name d' -> d_generics d = d_generics d' ->
  data_equiv F traits (d_data d) (d_data d') ->
  tmeta_equiv PType m m' -> get_ident (meta_path m) = Some "Hash"%string ->
  osim (expand_hash F traits d m) (expand_hash F traits' d' m').
Proof.
  intros Ht Hn Hg Hd Hm Hp. unfold expand_hash.
  assert (Hta : forall ef eu eb, osim (build_tattr ef eu eb m) (build_tattr ef eu eb m')).
  { intros. apply (tmeta_type_tattr ef eu eb m m' _ Hm Hp). cbn. auto 10. }
  destruct Hd as [fs fs' Hfs|vs vs' Hvs|fs fs' Hfs].
  - apply osim_bind; [apply Hta|]. intros ta.
    eapply osimR_bind;
      [exact (hash_field_attrs_spelling F traits traits' _ _ Ht (fields_equiv_list _ _ _ Hfs))|].
    intros l l' Hl. cbn [osimR].
    rewrite (hash_types_same l l' Hl), (hash_struct_body_same l l' Hl), <- Hg.
    rewrite (hash_item_same d d' _ _ Hn Hg). reflexivity.
  - apply osim_bind; [apply Hta|]. intros ta.
    apply osim_bind.
    + apply (mapM_osim (fun x y => fst x = fst y /\ variant_equiv F traits (snd x) (snd y)));
        [|apply Forall2_index_from; exact Hvs].
      intros [i v] [i' v'] [Hi Hv]. cbn [fst snd] in *. subst i'.
      exact (hash_variant_spelling F traits traits' i v v' Ht Hv).
    + intros arms. cbn [osim osimR]. rewrite <- Hg, (hash_item_same d d' _ _ Hn Hg). reflexivity.
  - apply osim_bind; [apply Hta|]. intros ta.
    destruct (negb (ta_unsafe ta)); [exact Logic.I|].
    apply osim_bind.
    + apply (mapM_osim (field_equiv ufield_attrs_equiv)); [|exact Hfs].
      intros f f' Hf. exact (hash_ufield_attr_spelling F traits traits' _ _ Ht (fe_attrs _ _ _ Hf)).
    + intros _. rewrite <- Hg, (hash_item_same d d' _ _ Hn Hg). apply osim_refl.
Qed.
