(** C06 — part 2: enums (pattern bindings, one arm, induction over the variants). *)
From Educe.Proofs Require Export P_C06.

(** ** general list facts *)
Lemma NoDup_map_inj {A B} (h : A -> B) (l : list A) a b :
  NoDup (map h l) -> In a l -> In b l -> h a = h b -> a = b.
Proof.
  induction l as [|x l IH]; cbn [map]; intros Hnd Ha Hb Hab; [destruct Ha|].
  inversion Hnd as [|? ? Hnotin Hnd']; subst.
  destruct Ha as [->|Ha], Hb as [->|Hb]; try reflexivity.
  - exfalso. apply Hnotin. rewrite Hab. apply in_map. exact Hb.
  - exfalso. apply Hnotin. rewrite <- Hab. apply in_map. exact Ha.
  - apply IH; assumption.
Qed.

Lemma in_index_from {A} i (x : A) i0 l : In (i, x) (index_from i0 l) -> In x l.
Proof.
  revert i0. induction l as [|y l IH]; intros i0 H; [destruct H|].
  cbn [index_from] in H. destruct H as [H|H]; [inversion H; left; reflexivity|right; eapply IH; exact H].
Qed.

Lemma prefix_inj (pre a b : string) : pre ^^ a = pre ^^ b -> a = b.
Proof. induction pre as [|c pre IH]; cbn; intros H; [exact H|]. inversion H. auto. Qed.

(** ** the analysis of the fields: positions 0.. paired with the declared fields *)
Section Analysis.
  Variables (F : features) (traits : list trait).

  Lemma debug_field_attrs_inv en fs l :
    debug_field_attrs F traits en fs = Ok l ->
    exists l', l = indexed l' /\ map fst l' = fs.
  Proof.
    unfold debug_field_attrs. intros H. inv_bind_as H as l' Hl'. inversion H; subst l; clear H.
    exists l'. split; [reflexivity|].
    revert l' Hl'. induction fs as [|f r IH]; cbn [mapM]; intros l' H.
    - inversion H. reflexivity.
    - inv_bind_as H as y Hy. inv_bind_as Hy as fa Hfa. inversion Hy; subst y.
      inv_bind_as H as ys Hys. inversion H; subst l'. cbn [map fst]. f_equal. apply IH. exact Hys.
  Qed.
End Analysis.

(** ** bindings made by the arm's pattern: `_name` / `_i` for every shown field *)
Definition dbinds (l : list (nat * (field * dfattr))) : env :=
  flat_map (fun '(i, (f, fa)) =>
              if df_ignore fa then []
              else [(arm_var f i, VRef (sub self_place (field_member f i)))]) l.
Definition dpats_named (l : list (nat * (field * dfattr))) : list (string * option pat) :=
  map (fun '(i, (f, fa)) =>
         (Expand_Debug.fname f, Some (if df_ignore fa then PWild else PBind (arm_var f i)))) l.
Definition dpats_unnamed (l : list (nat * (field * dfattr))) : list pat :=
  map (fun '(i, (f, fa)) => if df_ignore fa then PWild else PBind (arm_var f i)) l.

Lemma dmatch_named st l :
  (forall i f fa, In (i, (f, fa)) l ->
     Expand_Debug.fname f = field_member f i /\ load st (sub self_place (field_member f i)) <> None) ->
  match_field_pats (match_pat st) st (VRef self_place) (dpats_named l) = Some (dbinds l).
Proof.
  induction l as [|[i [f fa]] r IH]; intros H; [reflexivity|].
  cbn [dpats_named map match_field_pats dbinds flat_map].
  fold (dpats_named r). fold (dbinds r).
  destruct (H i f fa (or_introl eq_refl)) as [Hn Hl]. rewrite Hn.
  unfold sub_scrut. destruct (load st (sub self_place (field_member f i))) eqn:E; [|congruence].
  rewrite IH by (intros j g ga Hin; apply (H j g ga); right; exact Hin).
  destruct (df_ignore fa); reflexivity.
Qed.

Lemma dmatch_unnamed st l : forall i0,
  map fst l = seq i0 (List.length l) ->
  (forall i f fa, In (i, (f, fa)) l ->
     dec i = field_member f i /\ load st (sub self_place (field_member f i)) <> None) ->
  match_tuple_pats (match_pat st) st (VRef self_place) i0 (dpats_unnamed l) = Some (dbinds l).
Proof.
  induction l as [|[i [f fa]] r IH]; intros i0 Hidx H; [reflexivity|].
  cbn in Hidx. inversion Hidx as [[Hi Hr]]. subst i0.
  cbn [dpats_unnamed map match_tuple_pats dbinds flat_map].
  fold (dpats_unnamed r). fold (dbinds r).
  destruct (H i f fa (or_introl eq_refl)) as [Hn Hl]. rewrite Hn.
  unfold sub_scrut. destruct (load st (sub self_place (field_member f i))) eqn:E; [|congruence].
  rewrite (IH (S i) Hr) by (intros j g ga Hin; apply (H j g ga); right; exact Hin).
  destruct (df_ignore fa); reflexivity.
Qed.

Lemma arm_var_underscore f i : exists u, arm_var f i = "_" ^^ u.
Proof. unfold arm_var. destruct (f_name f); eauto. Qed.

Lemma lookup_dbinds_none x l :
  (forall u, String.eqb x ("_" ^^ u) = false) -> lookup x (dbinds l) = None.
Proof.
  intros H. induction l as [|[i [f fa]] r IH]; [reflexivity|].
  cbn [dbinds flat_map]. fold (dbinds r). destruct (df_ignore fa); cbn [app lookup]; [exact IH|].
  destruct (arm_var_underscore f i) as [u ->]. rewrite H. exact IH.
Qed.

Lemma lookup_dbinds l i f fa :
  In (i, (f, fa)) l -> df_ignore fa = false ->
  (forall j g ga, In (j, (g, ga)) l -> arm_var g j = arm_var f i ->
                  field_member g j = field_member f i) ->
  lookup (arm_var f i) (dbinds l) = Some (VRef (sub self_place (field_member f i))).
Proof.
  induction l as [|[j [g ga]] r IH]; intros Hin Hig Hinj; [destruct Hin|].
  cbn [dbinds flat_map]. fold (dbinds r).
  assert (Hrest : In (i, (f, fa)) r ->
                  lookup (arm_var f i) (dbinds r) = Some (VRef (sub self_place (field_member f i)))).
  { intros Hr. apply IH; [exact Hr|exact Hig|]. intros j' g' ga' Hin'. apply (Hinj j' g' ga'). right. exact Hin'. }
  destruct (df_ignore ga) eqn:Ega.
  - cbn [app]. destruct Hin as [Heq|Hr]; [inversion Heq; subst; congruence|auto].
  - cbn [app lookup]. destruct (String.eqb (arm_var f i) (arm_var g j)) eqn:E.
    + apply String.eqb_eq in E. rewrite (Hinj j g ga (or_introl eq_refl) (eq_sym E)). reflexivity.
    + destruct Hin as [Heq|Hr]; [inversion Heq; subst; rewrite String.eqb_refl in E; discriminate|auto].
Qed.

Lemma arm_var_not (x : string) f i :
  (forall u, String.eqb ("_" ^^ u) x = false) -> String.eqb (arm_var f i) x = false.
Proof. intros H. destruct (arm_var_underscore f i) as [u ->]. apply H. Qed.

Section Arms.
  Variable I : interp.

  Definition enum_start (ns : option string) (nf : bool) : expr :=
    if nf then named_builder (option_map EStr ns)
    else let_builder "debug_tuple" [EStr (shown_name ns)].

  Definition arm_op (f : field) (i : nat) : expr := EVar (arm_var f i).

  Lemma arm_block_eq d dv :
    dbg_arm_block d dv =
    EBlock (enum_start (dv_name_string dv) (dv_named_field dv)
              :: loop_stmts d (kind_of (is_some (dv_name_string dv)) (dv_named_field dv)) arm_op
                   (dv_list dv) ++ [builder_finish]).
  Proof.
    unfold dbg_arm_block, enum_start, loop_stmts, kind_of, shown_name, arm_op. f_equal.
    destruct (dv_named_field dv); cbn [app]; f_equal; f_equal;
      apply flat_map_ext; intros [i [f fa]]; destruct (df_ignore fa); try reflexivity.
    rewrite dbg_named_field_eq, variant_key_eq. reflexivity.
  Qed.

  Lemma enum_start_eval ns nf en r s :
    lookup "f" en = Some formatter_val ->
    eval_block (eval I) en (enum_start ns nf :: r) s =
    eval_block (eval I) (("builder", builder_val (kind_of (is_some ns) nf)) :: en) r
               (log (EvBuilderNew (kind_of (is_some ns) nf) (shown_name ns)) s).
  Proof.
    intros Hf. unfold enum_start, kind_of. destruct nf.
    - destruct ns as [n|]; cbn [option_map named_builder is_some shown_name].
      + apply eval_let_builder; [left; split; reflexivity|exact Hf|reflexivity].
      + apply eval_map_builder. exact Hf.
    - apply eval_let_builder; [right; split; reflexivity|exact Hf|reflexivity].
  Qed.

  Definition arm_inv (k : builder_kind) (l : list (nat * (field * dfattr))) (en : env) : Prop :=
    lookup "builder" en = Some (builder_val k) /\
    forall i f fa, In (i, (f, fa)) l -> df_ignore fa = false ->
                   lookup (arm_var f i) en = Some (VRef (sub self_place (field_member f i))).

  Definition binds_inj (l : list (nat * (field * dfattr))) : Prop :=
    forall i f fa j g ga, In (i, (f, fa)) l -> In (j, (g, ga)) l -> arm_var g j = arm_var f i ->
                          field_member g j = field_member f i.

  (** the block of a Named / Unnamed arm, in the environment its pattern made *)
  Lemma arm_block_eval d dv va xs s sf :
    st_store s = [("self", VData va xs)] -> atoms xs ->
    binds_inj (dv_list dv) ->
    shown_fields (field_cfgs (dv_list dv)) xs = Some sf ->
    eval I (dbinds (dv_list dv) ++ fmt_env) (dbg_arm_block d dv) s =
    (RVal VUnit,
     logs (builder_program (ShFields (dv_name_string dv)
                                     (if dv_named_field dv then SStruct else STuple) sf)) s).
  Proof.
    intros Hs Hat Hinj Hsf. rewrite arm_block_eq. cbn [eval].
    set (k := kind_of (is_some (dv_name_string dv)) (dv_named_field dv)).
    rewrite enum_start_eval.
    2:{ rewrite lookup_app, lookup_dbinds_none by (intros u; reflexivity). reflexivity. }
    fold k.
    rewrite (loop_eval I d k arm_op (arm_inv k (dv_list dv)) (dv_list dv)) with (vn := va) (xs := xs) (fs := sf).
    - rewrite builder_program_fields. fold k. rewrite log_logs, logs_logs. reflexivity.
    - intros en [H _]. exact H.
    - intros en i f fa s0 [_ H] Hin Hig. unfold arm_op. cbn [eval]. rewrite (H i f fa Hin Hig). reflexivity.
    - intros en w [H1 H2]. split.
      + exact H1.
      + intros i f fa Hin Hig. cbn [lookup].
        rewrite arm_var_not by (intros u; reflexivity). apply (H2 i f fa); assumption.
    - exact Hat.
    - apply incl_refl.
    - split; [reflexivity|].
      intros i f fa Hin Hig. cbn [lookup]. rewrite arm_var_not by (intros u; reflexivity).
      rewrite lookup_app. rewrite (lookup_dbinds _ i f fa Hin Hig); [reflexivity|].
      intros j g ga Hin'. apply (Hinj i f fa j g ga Hin Hin').
    - exact Hs.
    - exact Hsf.
  Qed.
End Arms.

(** ** whole patterns *)
Lemma dpats_named_length l : List.length (dpats_named l) = List.length l.
Proof. apply map_length. Qed.
Lemma dpats_unnamed_length l : List.length (dpats_unnamed l) = List.length l.
Proof. apply map_length. Qed.

Lemma dmatch_struct_pat st vn w zs l :
  load st self_place = Some (VData (Some w) zs) ->
  List.length l = List.length zs ->
  (forall i f fa, In (i, (f, fa)) l ->
     Expand_Debug.fname f = field_member f i /\ load st (sub self_place (field_member f i)) <> None) ->
  match_pat st (PStruct (RSelfV vn) (dpats_named l) true false) (VRef self_place) =
  if String.eqb w vn then Some (dbinds l) else None.
Proof.
  intros Hl Hlen H. cbn [match_pat strip]. rewrite Hl.
  destruct (String.eqb w vn); [|reflexivity].
  rewrite dpats_named_length, Hlen, Nat.eqb_refl. cbn [orb andb]. apply dmatch_named. exact H.
Qed.

Lemma dmatch_tuple_pat st vn w zs l :
  load st self_place = Some (VData (Some w) zs) ->
  List.length l = List.length zs ->
  map fst l = seq 0 (List.length l) ->
  (forall i f fa, In (i, (f, fa)) l ->
     dec i = field_member f i /\ load st (sub self_place (field_member f i)) <> None) ->
  match_pat st (PTuple (RSelfV vn) (dpats_unnamed l) true false) (VRef self_place) =
  if String.eqb w vn then Some (dbinds l) else None.
Proof.
  intros Hl Hlen Hidx H. cbn [match_pat strip is_some_path]. rewrite Hl.
  destruct (String.eqb w vn); [|reflexivity].
  rewrite dpats_unnamed_length, Hlen, Nat.eqb_refl. cbn [andb]. apply dmatch_unnamed; assumption.
Qed.

Lemma dbg_arm_named d dv fl :
  dv_fields dv = FNamed fl ->
  dbg_arm d dv = (PStruct (RSelfV (dv_ident dv)) (dpats_named (dv_list dv)) true false, dbg_arm_block d dv).
Proof. unfold dbg_arm. intros ->. reflexivity. Qed.
Lemma dbg_arm_unnamed d dv fl :
  dv_fields dv = FUnnamed fl ->
  dbg_arm d dv = (PTuple (RSelfV (dv_ident dv)) (dpats_unnamed (dv_list dv)) true false, dbg_arm_block d dv).
Proof. unfold dbg_arm. intros ->. reflexivity. Qed.
Lemma dbg_arm_unit d dv :
  dv_fields dv = FUnit ->
  dbg_arm d dv = (PPath (RSelfV (dv_ident dv)),
                  EMethod (EVar "f") "write_str" (opt_str_args (dv_name_string dv))).
Proof. unfold dbg_arm. intros ->. reflexivity. Qed.

(** the pattern of another variant's arm fails *)
Lemma arm_pat_other d dv st w zs :
  load st self_place = Some (VData (Some w) zs) ->
  String.eqb w (dv_ident dv) = false ->
  match_pat st (fst (dbg_arm d dv)) (VRef self_place) = None.
Proof.
  intros Hl Hne. unfold dbg_arm. destruct (dv_fields dv); cbn [fst match_pat strip is_some_path];
    rewrite Hl, Hne; reflexivity.
Qed.

(** the shape of a value known to be in the variant [vc] *)
Definition vshape (c : debug_cfg) (vc : dvariant_cfg) (xs : list (string * value)) : option shape :=
  if vc_unit vc then option_map ShUnit (effective_name c vc)
  else match shown_fields (vc_fields vc) xs with
       | Some fs => Some (ShFields (effective_name c vc)
                                   (if vc_named_field vc then SStruct else STuple) fs)
       | None => None
       end.
Lemma debug_shape_vshape c vn xs :
  debug_shape c (VData vn xs) =
  match find (variant_is vn) (dc_variants c) with Some vc => vshape c vc xs | None => None end.
Proof. reflexivity. Qed.

Section EnumTop.
  Variable I : interp.
  Variables (F : features) (traits : list trait).

  Definition mk_vc (v : variant) (ta : dtattr) (l : list (nat * (field * dfattr))) : dvariant_cfg :=
    {| vc_variant := Some (v_name v); vc_ident := v_name v;
       vc_unit := is_unit_fields (v_fields v);
       vc_name := dt_name ta; vc_named_field := dt_named_field ta;
       vc_fields := field_cfgs l |}.
  Definition mk_dv (name : option string) (v : variant) (ta : dtattr)
             (l : list (nat * (field * dfattr))) : dvariant :=
    {| dv_ident := v_name v; dv_fields := v_fields v;
       dv_name_string := name_string name (tname_ident (dt_name ta) (v_name v));
       dv_named_field := dt_named_field ta; dv_list := l |}.

  Lemma debug_variant_inv name v dv vc :
    debug_variant F traits name v = Ok dv -> variant_cfg F traits v = Ok vc ->
    exists ta l,
      debug_field_attrs F traits (dt_named_field ta) (fields_list (v_fields v)) = Ok l /\
      vc = mk_vc v ta l /\ dv = mk_dv name v ta l /\
      (v_fields v = FUnit -> is_some (dv_name_string dv) = true).
  Proof.
    unfold debug_variant, variant_cfg, variant_tb, is_named_fields. intros Hdv Hvc.
    inv_bind_as Hdv as ta Hta. rewrite Hta in Hvc. cbn [bind] in Hvc.
    inv_bind_as Hvc as l Hl. inversion Hvc; subst vc; clear Hvc.
    exists ta, l. split; [exact Hl|]. split; [reflexivity|].
    destruct (v_fields v) as [fl|fl|] eqn:Efs.
    - rewrite Hl in Hdv. cbn [bind] in Hdv.
      destruct (negb (has_shown l) && _); [discriminate Hdv|]. inversion Hdv; subst dv.
      split; [unfold mk_dv; rewrite Efs; reflexivity|discriminate].
    - rewrite Hl in Hdv. cbn [bind] in Hdv.
      destruct (negb (has_shown l) && _); [discriminate Hdv|]. inversion Hdv; subst dv.
      split; [unfold mk_dv; rewrite Efs; reflexivity|discriminate].
    - cbn [fields_list] in Hl. cbn in Hl. inversion Hl; subst l.
      destruct (is_some (name_string name (tname_ident (dt_name ta) (v_name v)))) eqn:E;
        [|discriminate Hdv].
      inversion Hdv; subst dv. split; [unfold mk_dv; rewrite Efs; reflexivity|].
      intros _. exact E.
  Qed.

  Lemma name_string_effective c v ta l :
    name_string (dc_enum_name c) (tname_ident (dt_name ta) (v_name v)) = effective_name c (mk_vc v ta l).
  Proof.
    unfold name_string, effective_name, mk_vc, level_name, tname_ident. cbn [vc_name vc_ident].
    destruct (dc_enum_name c), (dt_name ta); reflexivity.
  Qed.

  (** facts about the fields of a well-formed variant *)
  Lemma named_facts fl l' :
    fields_wf (FNamed fl) -> map fst l' = fl ->
    (forall i f fa, In (i, (f, fa)) (indexed l') -> Expand_Debug.fname f = field_member f i) /\
    binds_inj (indexed l').
  Proof.
    intros [Hnames Hnd] Hfst.
    assert (Hin : forall i f (fa : dfattr), In (i, (f, fa)) (indexed l') -> In f fl).
    { intros i f fa H. apply in_index_from in H. rewrite <- Hfst.
      apply (in_map fst l' (f, fa)). exact H. }
    split.
    - intros i f fa H. pose proof (Hnames f (Hin i f fa H)) as Hn.
      unfold Expand_Debug.fname, field_member. destruct (f_name f); [reflexivity|congruence].
    - intros i f fa j g ga Hf Hg Heq.
      pose proof (Hin i f fa Hf) as Hf'. pose proof (Hin j g ga Hg) as Hg'.
      assert (g = f).
      { apply (NoDup_map_inj _ fl g f Hnd Hg' Hf').
        pose proof (Hnames f Hf') as Hn1. pose proof (Hnames g Hg') as Hn2.
        unfold arm_var in Heq. destruct (f_name f); [|congruence]. destruct (f_name g); [|congruence].
        apply (prefix_inj "_"). exact Heq. }
      subst g. pose proof (Hnames f Hf') as Hn. unfold field_member.
      destruct (f_name f); [reflexivity|congruence].
  Qed.

  Lemma unnamed_facts fl l' :
    fields_wf (FUnnamed fl) -> map fst l' = fl ->
    (forall i f fa, In (i, (f, fa)) (indexed l') -> dec i = field_member f i) /\
    binds_inj (indexed l').
  Proof.
    intros Hnone Hfst.
    assert (Hin : forall i f (fa : dfattr), In (i, (f, fa)) (indexed l') -> f_name f = None).
    { intros i f fa H. apply in_index_from in H. apply Hnone. rewrite <- Hfst.
      apply (in_map fst l' (f, fa)). exact H. }
    split.
    - intros i f fa H. unfold field_member. rewrite (Hin i f fa H). reflexivity.
    - intros i f fa j g ga Hf Hg Heq. unfold arm_var, field_member in *.
      rewrite (Hin i f fa Hf) in *. rewrite (Hin j g ga Hg) in *.
      apply (prefix_inj "_"). exact Heq.
  Qed.

  Lemma keys_facts l vn xs st :
    st = [("self", VData vn xs)] ->
    map fc_store (field_cfgs l) = map fst xs ->
    List.length l = List.length xs /\
    forall i f fa, In (i, (f, fa)) l -> load st (sub self_place (field_member f i)) <> None.
  Proof.
    intros Hst Hk. split.
    - rewrite <- (map_length fst xs), <- Hk. unfold field_cfgs. rewrite !map_length. reflexivity.
    - intros i f fa Hin. rewrite (load_self1 vn xs _ _ Hst). apply in_fst_lookup. rewrite <- Hk.
      unfold field_cfgs. rewrite map_map.
      apply (in_map (fun t => fc_store (let '(i, (f, fa)) := t in mk_fc i f fa)) l (i, (f, fa))) in Hin.
      exact Hin.
  Qed.

  Lemma arms_eval d c : forall vs dvs vcs,
    mapM (debug_variant F traits (dc_enum_name c)) vs = Ok dvs ->
    mapM (variant_cfg F traits) vs = Ok vcs ->
    (forall v, In v vs -> fields_wf (v_fields v)) ->
    forall va xs s vc,
    st_store s = [("self", VData (Some va) xs)] ->
    find (variant_is (Some va)) vcs = Some vc ->
    dbg_fields_ok (vc_fields vc) xs = true ->
    exists sh, vshape c vc xs = Some sh /\
      eval_arms (eval I) fmt_env (VRef self_place) (map (dbg_arm d) dvs) s =
      (RVal VUnit, logs (builder_program sh) s).
  Proof.
    induction vs as [|v vs IH]; intros dvs vcs Hdvs Hvcs Hwf va xs s vc Hs Hfind Hok.
    - cbn in Hvcs. inversion Hvcs; subst vcs. discriminate Hfind.
    - cbn [mapM] in Hdvs, Hvcs.
      inv_bind_as Hdvs as dv Hdv. inv_bind_as Hdvs as dvs' Hdvs'. inversion Hdvs; subst dvs; clear Hdvs.
      inv_bind_as Hvcs as vc0 Hvc0. inv_bind_as Hvcs as vcs' Hvcs'. inversion Hvcs; subst vcs; clear Hvcs.
      destruct (debug_variant_inv _ v dv vc0 Hdv Hvc0) as [ta [l [Hl [Evc [Edv Hunit]]]]].
      subst vc0 dv.
      assert (Hself : load (st_store s) self_place = Some (VData (Some va) xs)) by (rewrite Hs; reflexivity).
      cbn [map eval_arms]. cbn [find] in Hfind.
      change (variant_is (Some va) (mk_vc v ta l)) with (String.eqb va (v_name v)) in Hfind.
      set (dv := mk_dv (dc_enum_name c) v ta l) in *.
      set (vc0 := mk_vc v ta l) in *.
      destruct (String.eqb va (v_name v)) eqn:En.
      + (* the value's variant *)
        inversion Hfind; subst vc; clear Hfind.
        apply dbg_fields_ok_inv in Hok as [Hk Hat].
        change (vc_fields vc0) with (field_cfgs l) in Hk.
        destruct (keys_facts l (Some va) xs (st_store s) Hs Hk) as [Hlen Hloads].
        destruct (debug_field_attrs_inv F traits _ _ _ Hl) as [l' [El Hfst]].
        pose proof (Hwf v (or_introl eq_refl)) as Hfw.
        assert (Hns : dv_name_string dv = effective_name c vc0) by apply name_string_effective.
        unfold vshape.
        change (vc_unit vc0) with (is_unit_fields (v_fields v)).
        change (vc_fields vc0) with (field_cfgs l).
        change (vc_named_field vc0) with (dv_named_field dv).
        rewrite <- Hns.
        change (dv_list dv) with l in *.
        destruct (v_fields v) as [fl|fl|] eqn:Efs; cbn [fields_list] in Hfst; cbn [is_unit_fields].
        * (* named *)
          destruct (named_facts fl l' Hfw Hfst) as [Hfn Hinj]. rewrite <- El in Hfn, Hinj.
          destruct (shown_fields_of_keys _ _ Hk) as [sf Hsf]. rewrite Hsf.
          eexists. split; [reflexivity|].
          rewrite (dbg_arm_named d dv fl) by exact Efs. cbn [fst snd].
          change (dv_ident dv) with (v_name v). change (dv_list dv) with l.
          rewrite (dmatch_struct_pat (st_store s) (v_name v) va xs l Hself Hlen).
          2:{ intros i f fa Hin. split; [apply (Hfn i f fa Hin)|apply (Hloads i f fa Hin)]. }
          rewrite En.
          apply (arm_block_eval I d dv (Some va) xs s sf Hs Hat); assumption.
        * (* unnamed *)
          destruct (unnamed_facts fl l' Hfw Hfst) as [Hfn Hinj]. rewrite <- El in Hfn, Hinj.
          destruct (shown_fields_of_keys _ _ Hk) as [sf Hsf]. rewrite Hsf.
          eexists. split; [reflexivity|].
          rewrite (dbg_arm_unnamed d dv fl) by exact Efs. cbn [fst snd].
          change (dv_ident dv) with (v_name v). change (dv_list dv) with l.
          rewrite (dmatch_tuple_pat (st_store s) (v_name v) va xs l Hself Hlen).
          2:{ rewrite El. unfold indexed. rewrite index_from_fst, index_from_length. reflexivity. }
          2:{ intros i f fa Hin. split; [apply (Hfn i f fa Hin)|apply (Hloads i f fa Hin)]. }
          rewrite En.
          apply (arm_block_eval I d dv (Some va) xs s sf Hs Hat); assumption.
        * (* unit *)
          specialize (Hunit eq_refl).
          destruct (dv_name_string dv) as [n|] eqn:En2; [|discriminate Hunit].
          eexists. split; [reflexivity|].
          rewrite (dbg_arm_unit d dv) by exact Efs. cbn [fst snd].
          change (dv_ident dv) with (v_name v).
          cbn [match_pat strip]. rewrite Hself, En. cbn [app]. rewrite En2.
          reflexivity.
      + (* another variant *)
        rewrite (surjective_pairing (dbg_arm d dv)).
        rewrite (arm_pat_other d dv (st_store s) va xs Hself) by exact En.
        apply (IH dvs' vcs' Hdvs' Hvcs' (fun w Hw => Hwf w (or_intror Hw)) va xs s vc Hs Hfind Hok).
  Qed.
End EnumTop.

Section EnumTheorem.
  Variable I : interp.
  Variables (F : features) (traits : list trait).

  Lemma expand_debug_enum d m vs :
    d_data d = DEnum vs ->
    expand_debug F traits d m =
    (let* ta := build_dtattr enum_tb m in
     let name := tname_ident (dt_name ta) (d_name d) in
     let* dvs := mapM (debug_variant F traits name) vs in
     if is_nil dvs && negb (is_some name) then Err E_debug_unit_enum_name
     else
       let g := push_preds (d_generics d)
                  (bound_preds (dt_bound ta) (d_generics d) debug_trait
                     (flat_map (fun v => dbg_types (dv_list v)) dvs) []) in
       Ok [dbg_item d g false (dbg_enum_body d name dvs)]).
  Proof. intros H. unfold expand_debug. rewrite H. reflexivity. Qed.

  Lemma find_struct_in_enum vs vcs :
    mapM (variant_cfg F traits) vs = Ok vcs -> find (variant_is None) vcs = None.
  Proof.
    revert vcs. induction vs as [|v vs IH]; cbn [mapM]; intros vcs H.
    - inversion H. reflexivity.
    - inv_bind_as H as vc Hvc. inv_bind_as H as vcs' Hvcs'. inversion H; subst vcs.
      unfold variant_cfg in Hvc. inv_bind_as Hvc as ta Hta. inv_bind_as Hvc as l Hl.
      inversion Hvc; subst vc. cbn [find variant_is vc_variant]. apply IH. exact Hvcs'.
  Qed.

  Theorem enum_builder_program d m vs items c v :
    d_data d = DEnum vs ->
    (forall w, In w vs -> fields_wf (v_fields w)) ->
    expand_debug F traits d m = Ok items ->
    debug_cfg_of F traits d m = Ok c ->
    dbg_value_ok c v = true ->
    exists it rest sh, items = it :: rest /\ debug_shape c v = Some sh /\
                       run_fmt I it v = Some (builder_program sh).
  Proof.
    intros Hd Hwf He Hc Hv.
    rewrite (expand_debug_enum d m vs Hd) in He.
    inv_bind_as He as ta Hta. cbv zeta in He. inv_bind_as He as dvs Hdvs.
    destruct (is_nil dvs && negb (is_some (tname_ident (dt_name ta) (d_name d))));
      [discriminate He|]. inversion He; subst items; clear He.
    unfold debug_cfg_of in Hc. rewrite Hd, Hta in Hc. cbn [bind] in Hc.
    inv_bind_as Hc as vcs Hvcs. inversion Hc; subst c; clear Hc.
    set (name := tname_ident (dt_name ta) (d_name d)) in *.
    set (c := {| dc_enum_name := name; dc_variants := vcs |}) in *.
    destruct v as [| | | | | |vn xs| | | | |]; try discriminate Hv.
    cbn [dbg_value_ok] in Hv. change (dc_variants c) with vcs in Hv.
    destruct (find (variant_is vn) vcs) as [vc|] eqn:Ef; [|discriminate Hv].
    destruct vn as [va|]; [|rewrite (find_struct_in_enum vs vcs Hvcs) in Ef; discriminate Ef].
    destruct (arms_eval I F traits d c vs dvs vcs Hdvs Hvcs Hwf va xs
                (fmt_state (VData (Some va) xs)) vc eq_refl Ef Hv) as [sh [Hsh Hev]].
    assert (Hnn : is_nil dvs = false).
    { destruct dvs as [|dv0 dvs']; [|reflexivity].
      pose proof (mapM_ok_length _ _ _ Hdvs) as L1. pose proof (mapM_ok_length _ _ _ Hvcs) as L2.
      destruct vs; [|discriminate L1]. destruct vcs; [discriminate Ef|discriminate L2]. }
    eexists; eexists; exists sh. split; [reflexivity|]. split.
    - rewrite debug_shape_vshape. change (dc_variants c) with vcs. rewrite Ef. exact Hsh.
    - unfold run_fmt, find_fn, dbg_item.
      cbn [i_members find String.eqb Ascii.eqb Bool.eqb]. unfold run_body, dbg_enum_body.
      rewrite Hnn. cbn [eval_block eval is_nil fmt_env lookup String.eqb Ascii.eqb Bool.eqb].
      fold fmt_env. rewrite Hev. reflexivity.
  Qed.

  (** structs and enums together *)
  Theorem builder_program_correct d m items c v :
    data_wf (d_data d) ->
    expand_debug F traits d m = Ok items ->
    debug_cfg_of F traits d m = Ok c ->
    dbg_value_ok c v = true ->
    exists it rest sh, items = it :: rest /\ debug_shape c v = Some sh /\
                       run_fmt I it v = Some (builder_program sh).
  Proof.
    intros Hwf He Hc Hv. destruct (d_data d) as [fs|vs|fs] eqn:Hd.
    - exact (struct_builder_program I F traits d m fs items c v Hd He Hc Hv).
    - exact (enum_builder_program d m vs items c v Hd Hwf He Hc Hv).
    - unfold debug_cfg_of in Hc. rewrite Hd in Hc. discriminate Hc.
  Qed.
End EnumTheorem.
