(** C09 — top-level statements on the emitted items. *)
From Educe.Proofs Require Export P_C09.

Definition ref_facts (d : dinput) (c : dcfg) (x : value) (h : store) (fd : dfield) (r : value) : Prop :=
  (* after the deref coercions rustc inserts: the reference the property speaks of *)
  chase (("self", x) :: h) (coercions (is_struct d) (df_ty fd)) r = spec_deref (("self", x) :: h) c x /\
  (* a value field: exactly its place *)
  (is_ref_type (df_ty fd) = false -> r = VRef (field_place fd)) /\
  (* struct, reference field: the reference the field holds *)
  (is_struct d = true -> is_ref_type (df_ty fd) = true ->
   load (("self", x) :: h) (field_place fd) = Some r) /\
  (* enum: the place of the field (the binding of the pattern) *)
  (is_struct d = false -> r = VRef (field_place fd)).

Theorem deref_place (I : interp) F traits d m items c x h :
  data_wf (d_data d) ->
  expand_deref F traits d m = Ok items ->
  deref_cfg F TDeref traits d = Ok c ->
  dvalue_ok c x ->
  exists it fd r,
    items = [it] /\ designated_of c x = Some fd /\
    run_deref I it x h = Some (r, deref_state x h) /\
    ref_facts d c x h fd r.
Proof.
  intros Hwf He Hc Hx. unfold expand_deref in He. inv_bind He. inversion He; subst items. clear He.
  destruct (ref_method_place I F TDeref traits false d m a c x h Hwf Hb Hc Hx)
    as [fd [r [Hdes [Hrun Hfacts]]]].
  exists (match a with
          | DPStruct i f => deref_item d (deref_target f) (deref_struct_body i f)
          | DPEnum y r => deref_item d (deref_target (snd (snd y))) (deref_match (y :: r))
          end), fd, r.
  split; [destruct a; reflexivity|]. split; [exact Hdes|]. split; [|exact Hfacts].
  unfold run_deref, run_ref_method.
  destruct a as [i f|y ys]; cbn [method_body deref_item i_members find String.eqb Ascii.eqb Bool.eqb];
    cbn [plan_body ref_body] in Hrun; rewrite Hrun; reflexivity.
Qed.

Theorem deref_mut_place (I : interp) F traits d m items c x h :
  data_wf (d_data d) ->
  expand_deref_mut F traits d m = Ok items ->
  deref_cfg F TDerefMut traits d = Ok c ->
  dvalue_ok c x ->
  exists it fd r,
    items = [it] /\ designated_of c x = Some fd /\
    run_deref_mut I it x h = Some (r, deref_state x h) /\
    ref_facts d c x h fd r.
Proof.
  intros Hwf He Hc Hx. unfold expand_deref_mut in He. inv_bind He. inversion He; subst items. clear He.
  destruct (ref_method_place I F TDerefMut traits true d m a c x h Hwf Hb Hc Hx)
    as [fd [r [Hdes [Hrun Hfacts]]]].
  exists (match a with
          | DPStruct i f => deref_mut_item d (deref_mut_struct_body i f)
          | DPEnum y r => deref_mut_item d (deref_match (y :: r))
          end), fd, r.
  split; [destruct a; reflexivity|]. split; [exact Hdes|]. split; [|exact Hfacts].
  unfold run_deref_mut, run_ref_method.
  destruct a as [i f|y ys]; cbn [method_body deref_mut_item i_members find String.eqb Ascii.eqb Bool.eqb];
    cbn [plan_body ref_body] in Hrun; rewrite Hrun; reflexivity.
Qed.

(** the request is readable whenever the expansion succeeds: the hypothesis
    [deref_cfg .. = Ok c] of the theorems above excludes no input *)
Theorem deref_cfg_total F traits d m items :
  expand_deref F traits d m = Ok items -> exists c, deref_cfg F TDeref traits d = Ok c.
Proof. unfold expand_deref. intros H. inv_bind H. eapply deref_cfg_exists; exact Hb. Qed.
Theorem deref_mut_cfg_total F traits d m items :
  expand_deref_mut F traits d m = Ok items -> exists c, deref_cfg F TDerefMut traits d = Ok c.
Proof. unfold expand_deref_mut. intros H. inv_bind H. eapply deref_cfg_exists; exact Hb. Qed.

(** ** writes *)
Theorem write_frame st p v st' :
  store_set st p v = Some st' ->
  load st' p = Some v /\
  (forall q, disjoint p q -> load st' q = load st q) /\
  map fst st' = map fst st.
Proof.
  intros H. split; [eapply store_set_read; exact H|].
  split; [intros q Hq; eapply store_set_frame; eassumption|eapply store_set_roots; exact H].
Qed.

(** a write at a field of [x]: the variant, every other field and the rest of the heap stay *)
Theorem write_field vn xs h k v w :
  lookup k xs = Some w ->
  exists xs',
    store_set (("self", VData vn xs) :: h) (sub self_pl k) v = Some (("self", VData vn xs') :: h) /\
    lookup k xs' = Some v /\
    (forall k', k' <> k -> lookup k' xs' = lookup k' xs) /\
    map fst xs' = map fst xs.
Proof.
  intros Hw. exists (set_assoc k v xs). split.
  - unfold store_set. cbn [pl_root sub self_pl lookup String.eqb Ascii.eqb Bool.eqb pl_path app update_path].
    rewrite Hw. cbn [set_assoc String.eqb Ascii.eqb Bool.eqb]. reflexivity.
  - split; [eapply lookup_set_assoc_same; exact Hw|].
    split; [intros k' Hk; apply lookup_set_assoc_other; exact Hk|apply set_assoc_keys].
Qed.

(** `*x = v` through the educed DerefMut, the designated field being a value field *)
Theorem deref_mut_write (I : interp) F traits d m items c vn xs h v :
  data_wf (d_data d) ->
  expand_deref_mut F traits d m = Ok items ->
  deref_cfg F TDerefMut traits d = Ok c ->
  dvalue_ok c (VData vn xs) ->
  exists it fd xs',
    items = [it] /\ designated_of c (VData vn xs) = Some fd /\
    (is_ref_type (df_ty fd) = false ->
     run_deref_mut I it (VData vn xs) h = Some (VRef (field_place fd), deref_state (VData vn xs) h) /\
     store_set (("self", VData vn xs) :: h) (field_place fd) v = Some (("self", VData vn xs') :: h) /\
     lookup (df_key fd) xs' = Some v /\
     (forall k', k' <> df_key fd -> lookup k' xs' = lookup k' xs) /\
     map fst xs' = map fst xs).
Proof.
  intros Hwf He Hc Hx.
  destruct (deref_mut_place I F traits d m items c (VData vn xs) h Hwf He Hc Hx)
    as [it [fd [r [Hit [Hdes [Hrun [_ [Hval _]]]]]]]].
  assert (Hin : exists w, lookup (df_key fd) xs = Some w).
  { destruct Hx as [l [Hget Hmap]]. cbn [designated_of] in Hdes. rewrite Hget in Hdes.
    unfold designated in Hdes. destruct (spec_select TDeref l) as [g| | |] eqn:E; try discriminate Hdes.
    inversion Hdes; subst g. apply spec_select_in in E. apply lookup_in. rewrite <- Hmap.
    apply in_map. exact E. }
  destruct Hin as [w Hw]. destruct (write_field vn xs h (df_key fd) v w Hw) as [xs' [Hs [Hk [Ho Hm]]]].
  exists it, fd, xs'. split; [exact Hit|]. split; [exact Hdes|].
  intros Hnr. rewrite (Hval Hnr) in Hrun. split; [exact Hrun|]. split; [exact Hs|]. auto.
Qed.

(** ** `type Target` *)
Theorem target_type F traits d m items :
  expand_deref F traits d m = Ok items ->
  exists it c vn l fd body,
    items = [it] /\ deref_cfg F TDeref traits d = Ok c /\
    hd_error c = Some (vn, l) /\ designated l = Some fd /\
    i_members it = [MType "Target" (strip_refs (df_ty fd));
                    MFn inline_attr "deref" deref_sig ["self"] body] /\
    is_ref_type (strip_refs (df_ty fd)) = false.
Proof.
  intros He. destruct (deref_cfg_total _ _ _ _ _ He) as [c Hc].
  unfold expand_deref in He. inv_bind He. inversion He; subst items. clear He.
  pose proof Hc as Hc0.
  unfold deref_analyse in Hb. unfold deref_cfg in Hc.
  destruct (d_data d) as [fs|vs|us]; [| |discriminate Hb].
  - inv_bind Hb. inv_bind Hb. inversion Hb; subst a. clear Hb. destruct a1 as [i f]. cbn [fst snd].
    inv_bind Hc. inversion Hc; subst c. clear Hc.
    destruct (deref_select_designated _ _ _ _ _ _ Hb1) as [l' [b [Hl [Hsp Hn]]]].
    rewrite Hl in Hb. inversion Hb; subst a.
    eexists _, _, None, l', (mk_dfield i f b), _.
    split; [reflexivity|]. split; [exact Hc0|]. split; [reflexivity|].
    split; [unfold designated; rewrite Hsp; reflexivity|].
    split; [reflexivity|apply strip_refs_not_ref].
  - inv_bind Hb. inv_bind Hb. destruct a1 as [|pe plan]; [discriminate Hb|].
    inversion Hb; subst a. clear Hb.
    destruct vs as [|v vs]; [cbn in Hb1; discriminate Hb1|].
    cbn [mapM] in Hb1, Hc.
    apply bind_ok in Hb1. destruct Hb1 as [pe' [Hpe Hb1]].
    apply bind_ok in Hb1. destruct Hb1 as [plan' [Hplan Hb1]]. inversion Hb1; subst pe' plan'. clear Hb1.
    apply bind_ok in Hc. destruct Hc as [ce [Hce Hc]].
    apply bind_ok in Hc. destruct Hc as [c' [Hc' Hc]]. inversion Hc; subst c. clear Hc.
    apply bind_ok in Hce. destruct Hce as [l [Hl Hce]]. inversion Hce; subst ce. clear Hce.
    destruct (variant_rel1 _ _ _ _ _ _ Hpe Hl) as [_ [[b Hsp] _]].
    eexists _, _, (Some (v_name v)), l, (mk_dfield (fst (snd pe)) (snd (snd pe)) b), _.
    split; [reflexivity|]. split; [exact Hc0|]. split; [reflexivity|].
    split; [unfold designated; rewrite Hsp; reflexivity|].
    split; [reflexivity|apply strip_refs_not_ref].
Qed.
