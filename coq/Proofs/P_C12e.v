(** C11 / C12 — all handlers together, the four modes, and the whole [expand]. *)
From Educe.Proofs Require Export P_C12d.

(** ** every handler of the driver's table *)
Theorem handlers_ok t h :
  In (t, h) handlers ->
  forall F traits d m items, h F traits d m = Ok items -> handler_ok t F traits d m items.
Proof.
  intros Hin F traits d m items H. cbn [handlers In] in Hin.
  repeat (destruct Hin as [Hin|Hin]; [inversion Hin; subst t h; clear Hin|]); [..|destruct Hin].
  - apply debug_handler; exact H.
  - apply clone_handler; exact H.
  - apply copy_handler; exact H.
  - apply peq_handler; exact H.
  - apply eq_handler; exact H.
  - apply partial_ord_handler; exact H.
  - apply ord_handler; exact H.
  - apply hash_handler; exact H.
  - apply default_handler; exact H.
  - apply (deref_handler F traits d m items H).
  - apply (deref_mut_handler F traits d m items H).
Qed.

(** the master statement: mode, delegated types and header of every item *)
Theorem handlers_header t h :
  In (t, h) handlers ->
  forall F traits d m items, h F traits d m = Ok items ->
  exists b tys,
    type_mode t F traits d m = Ok b /\
    delegated_of t F traits d m = Ok tys /\
    Forall (header_ok d (spec_added (d_generics d) (req_of t F traits d b tys))) items.
Proof.
  intros Hin F traits d m items H.
  destruct (handlers_ok t h Hin F traits d m items H) as [b [tys [Hb [Hty Hall]]]].
  exists b, tys. split; [exact Hb|]. split; [exact Hty|].
  eapply Forall_impl; [|exact Hall]. intros it Hit. apply built_header. exact Hit.
Qed.

(** ** the four modes *)
Section Modes.
  Variables (t : trait) (h : handler) (Hin : In (t, h) handlers).
  Variables (F : features) (traits : list trait) (d : dinput) (m : meta) (items : list item).
  Hypothesis Hrun : h F traits d m = Ok items.
  Let user := g_where (d_generics d).

  Lemma mode_cases b :
    type_mode t F traits d m = Ok b ->
    exists tys, delegated_of t F traits d m = Ok tys /\
                Forall (built_by d (req_of t F traits d b tys)) items.
  Proof.
    intros Hb. destruct (handlers_ok t h Hin F traits d m items Hrun) as [b' [tys [Hb' [Hty Hall]]]].
    rewrite Hb in Hb'. inversion Hb'; subst b'. exists tys. split; assumption.
  Qed.

  Theorem disabled_adds_nothing :
    type_mode t F traits d m = Ok BDisabled ->
    Forall (fun it => i_generics it = d_generics d) items.
  Proof.
    intros Hb. destruct (mode_cases _ Hb) as [tys [_ Hall]].
    eapply Forall_impl; [|exact Hall]. intros it Hit.
    apply (mode_disabled d it _ _ _ Hit).
  Qed.

  Theorem custom_adds_verbatim ps :
    type_mode t F traits d m = Ok (BCustom ps) ->
    Forall (fun it => g_where (i_generics it) = user ++ ps) items.
  Proof.
    intros Hb. destruct (mode_cases _ Hb) as [tys [_ Hall]].
    eapply Forall_impl; [|exact Hall]. intros it Hit.
    apply (mode_custom d it _ _ _ ps Hit).
  Qed.

  Theorem all_bounds_type_params :
    type_mode t F traits d m = Ok BAll ->
    Forall (fun it => g_where (i_generics it)
                      = user ++ map (fun n => [I n; P ":"] ++ required_trait t F traits d)
                                    (type_params (g_params (d_generics d)))) items.
  Proof.
    intros Hb. destruct (mode_cases _ Hb) as [tys [_ Hall]].
    eapply Forall_impl; [|exact Hall]. intros it Hit.
    apply (mode_all d it _ _ _ Hit).
  Qed.

  Theorem auto_bounds_delegated :
    type_mode t F traits d m = Ok BAuto ->
    exists tys,
      delegated_of t F traits d m = Ok tys /\
      Forall (fun it => g_where (i_generics it)
                        = user ++ map (fun ty => ty ++ [P ":"] ++ required_trait t F traits d) tys
                               ++ map (fun s => [I "Self"; P ":"] ++ s) (supers_of t F traits)) items.
  Proof.
    intros Hb. destruct (mode_cases _ Hb) as [tys [Hty Hall]]. exists tys. split; [exact Hty|].
    eapply Forall_impl; [|exact Hall]. intros it Hit.
    apply (mode_auto d it _ _ _ Hit).
  Qed.
End Modes.

(** ** Into: the same four modes, per target *)
Section IntoModes.
  Variables (F : features) (traits : list trait) (d : dinput) (ms : list meta) (items : list item).
  Hypothesis Hrun : expand_into F traits d ms = Ok items.

  Theorem into_header :
    exists targets c,
      into_cfg F traits d ms = Ok (targets, c) /\
      into_build_type true ms = Ok targets /\
      Forall2 (fun t it => header_ok d (spec_added (d_generics d) (into_req c t)) it /\
                           i_trait it = Some (into_trait (fst t))) targets items.
  Proof.
    destruct (into_handler F traits d ms items Hrun) as [targets [c [Hc [Ht Hall]]]].
    exists targets, c. split; [exact Hc|]. split; [exact Ht|].
    eapply Forall2_impl; [|exact Hall]. intros t it [Hb Htr]. split; [|exact Htr].
    apply built_header. exact Hb.
  Qed.

  Theorem into_modes :
    exists targets c,
      into_cfg F traits d ms = Ok (targets, c) /\
      Forall2 (fun t it =>
                 let user := g_where (d_generics d) in
                 match snd t with
                 | BDisabled => i_generics it = d_generics d
                 | BCustom ps => g_where (i_generics it) = user ++ ps
                 | BAll => g_where (i_generics it)
                           = user ++ map (fun n => [I n; P ":"] ++ into_trait (fst t))
                                         (type_params (g_params (d_generics d)))
                 | BAuto => g_where (i_generics it)
                            = user ++ map (fun ty => ty ++ [P ":"] ++ into_trait (fst t))
                                          (into_delegated (fst t) c)
                 end) targets items.
  Proof.
    destruct (into_handler F traits d ms items Hrun) as [targets [c [Hc [_ Hall]]]].
    exists targets, c. split; [exact Hc|].
    eapply Forall2_impl; [|exact Hall]. intros [T b] it [Hb _]. unfold into_req in Hb.
    cbn [fst snd] in *. destruct b.
    - apply (mode_disabled d it _ _ _ Hb).
    - rewrite (mode_auto d it _ _ _ Hb). cbn [map]. rewrite app_nil_r. reflexivity.
    - apply (mode_custom d it _ _ _ _ Hb).
    - apply (mode_all d it _ _ _ Hb).
  Qed.
End IntoModes.

(** ** the whole macro: every item of [expand] keeps the type's parameters,
    names the type itself, and has the user's where-clause as a prefix *)
Lemma foldM_inv_in {A S} (f : S -> A -> outcome S) (Q : S -> Prop) l :
  (forall s x s', In x l -> Q s -> f s x = Ok s' -> Q s') ->
  forall s s', Q s -> foldM f s l = Ok s' -> Q s'.
Proof.
  induction l as [|x r IH]; intros Hstep s s' Hq H.
  - inversion H; subst. exact Hq.
  - cbn [foldM] in H. apply bind_ok in H as [s1 [H1 H]].
    apply (IH (fun a b c Hin => Hstep a b c (or_intror Hin)) s1 s'); [|exact H].
    apply (Hstep s x s1 (or_introl eq_refl) Hq H1).
Qed.

Lemma Forall2_Forall_r {A B} (R : A -> B -> Prop) (Q : B -> Prop) l1 l2 :
  (forall a b, R a b -> Q b) -> Forall2 R l1 l2 -> Forall Q l2.
Proof. intros H. induction 1; constructor; eauto. Qed.

Definition keeps_header (d : dinput) (it : item) : Prop := exists added, header_ok d added it.

Theorem expand_headers F d items :
  expand F d = Ok items -> Forall (keeps_header d) items.
Proof.
  unfold expand. intros H. apply bind_ok in H as [tm [_ H]].
  apply bind_ok in H as [its [Hits H]]. apply bind_ok in H as [its2 [Hinto H]].
  destruct (is_nil its2); [discriminate H|]. inversion H; subst items; clear H.
  assert (H1 : Forall (keeps_header d) its).
  { revert Hits. apply (foldM_inv_in _ (fun acc => Forall (keeps_header d) acc)); [|constructor].
    intros acc [t h] acc' Hin Hacc Hstep. unfold run_handler in Hstep.
    destruct (has_trait t F); [|inversion Hstep; subst; exact Hacc].
    destruct (tmap_get t tm) as [[|m ms]|]; try (inversion Hstep; subst; exact Hacc).
    apply bind_ok in Hstep as [new [Hnew Hstep]]. inversion Hstep; subst acc'.
    apply Forall_app. split; [exact Hacc|].
    destruct (handlers_header t h Hin F (map fst tm) d m new Hnew) as [b [tys [_ [_ Hall]]]].
    eapply Forall_impl; [|exact Hall]. intros it Hit. eexists; exact Hit. }
  destruct (tmap_get TInto tm) as [ms|]; [|inversion Hinto; subst; exact H1].
  destruct (has_trait TInto F); [|inversion Hinto; subst; exact H1].
  apply bind_ok in Hinto as [l [Hl Hinto]]. inversion Hinto; subst its2.
  apply Forall_app. split; [exact H1|].
  destruct (into_header F (map fst tm) d ms l Hl) as [targets [c [_ [_ Hall]]]].
  eapply Forall2_Forall_r; [|exact Hall]. intros t it [Hh _]. eexists; exact Hh.
Qed.

(** what [keeps_header] says, spelled out *)
Lemma keeps_header_spelled d it :
  keeps_header d it ->
  g_params (i_generics it) = g_params (d_generics d) /\
  impl_generics_toks (i_generics it) = impl_generics_toks (d_generics d) /\
  ty_generics_toks (i_generics it) = ty_generics_toks (d_generics d) /\
  i_self it = d_name d /\
  firstn (List.length (g_where (d_generics d))) (g_where (i_generics it)) = g_where (d_generics d).
Proof.
  intros [added [H1 H2 H3 H4 H5]]. split; [exact H1|].
  unfold impl_generics_toks, ty_generics_toks. rewrite H1, H2.
  split; [reflexivity|]. split; [reflexivity|]. split; [exact H3|].
  rewrite H4, firstn_app, Nat.sub_diag, firstn_all. cbn [firstn]. apply app_nil_r.
Qed.

(** ** where the items of [expand] come from: each is emitted by a handler of
    the table run on the FIRST meta collected for its trait, or by the Into
    handler run on all the `Into(..)` metas — with [traits] the traits named
    at type level, in order of first appearance *)
Definition item_origin (F : features) (d : dinput) (tm : tmap) (it : item) : Prop :=
  (exists t h m ms its, In (t, h) handlers /\ tmap_get t tm = Some (m :: ms) /\
                        h F (map fst tm) d m = Ok its /\ In it its) \/
  (exists ms its, tmap_get TInto tm = Some ms /\
                  expand_into F (map fst tm) d ms = Ok its /\ In it its).

Theorem expand_origin F d items :
  expand F d = Ok items ->
  exists tm, foldM (collect_attr F) [] (d_attrs d) = Ok tm /\ Forall (item_origin F d tm) items.
Proof.
  unfold expand. intros H. apply bind_ok in H as [tm [Htm H]]. exists tm. split; [exact Htm|].
  apply bind_ok in H as [its [Hits H]]. apply bind_ok in H as [its2 [Hinto H]].
  destruct (is_nil its2); [discriminate H|]. inversion H; subst items; clear H.
  assert (H1 : Forall (item_origin F d tm) its).
  { revert Hits. apply (foldM_inv_in _ (fun acc => Forall (item_origin F d tm) acc)); [|constructor].
    intros acc [t h] acc' Hin Hacc Hstep. unfold run_handler in Hstep.
    destruct (has_trait t F); [|inversion Hstep; subst; exact Hacc].
    destruct (tmap_get t tm) as [[|m ms]|] eqn:Eg; try (inversion Hstep; subst; exact Hacc).
    apply bind_ok in Hstep as [new [Hnew Hstep]]. inversion Hstep; subst acc'.
    apply Forall_app. split; [exact Hacc|]. apply Forall_forall. intros it Hit.
    left. exists t, h, m, ms, new. repeat split; assumption. }
  destruct (tmap_get TInto tm) as [ms|] eqn:Eg; [|inversion Hinto; subst; exact H1].
  destruct (has_trait TInto F); [|inversion Hinto; subst; exact H1].
  apply bind_ok in Hinto as [l [Hl Hinto]]. inversion Hinto; subst its2.
  apply Forall_app. split; [exact H1|]. apply Forall_forall. intros it Hit.
  right. exists ms, l. repeat split; assumption.
Qed.
