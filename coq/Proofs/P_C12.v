(** C12 — the scheme shared by every handler:
    `generics.clone(); make_where_clause(); push(..); split_for_impl()`
    i.e. [push_preds (d_generics d) (bound_preds ..)] printed by
    [impl_generics_toks] / [ty_generics_toks] / [where_toks]. *)
From Educe.Spec Require Export SpecBounds.
From Educe.Proofs Require Export EvalLemmas.

(** ** the parameters bound( * ) ranges over *)
Lemma type_param_names_spec g : type_param_names g = type_params (g_params g).
Proof.
  unfold type_param_names. induction (g_params g) as [|p r IH]; [reflexivity|].
  cbn [flat_map type_params]. rewrite IH. destruct p; reflexivity.
Qed.

(** a name is a type parameter of [ps] iff [ps] declares it as one: never a lifetime or const *)
Lemma type_params_in ps n :
  In n (type_params ps) <-> exists bs df, In (GType n bs df) ps.
Proof.
  induction ps as [|p r IH]; cbn [type_params].
  - split; [intros []|intros [bs [df []]]].
  - destruct p as [m bs|m bs df|m ty df]; cbn [In]; rewrite ?IH.
    + split; [intros [bs' [df' H]]; exists bs', df'; right; exact H|].
      intros [bs' [df' [H|H]]]; [discriminate H|exists bs', df'; exact H].
    + split.
      * intros [H|[bs' [df' H]]]; [subst m; exists bs, df; left; reflexivity|].
        exists bs', df'; right; exact H.
      * intros [bs' [df' [H|H]]]; [inversion H; left; reflexivity|right; exists bs', df'; exact H].
    + split; [intros [bs' [df' H]]; exists bs', df'; right; exact H|].
      intros [bs' [df' [H|H]]]; [discriminate H|exists bs', df'; exact H].
Qed.

(** ** [bound_preds] is the specification's [spec_added] *)
Lemma bound_preds_spec b g bt tys sup :
  bound_preds b g bt tys sup
  = spec_added g {| rq_mode := b; rq_trait := bt; rq_types := tys; rq_supers := sup |}.
Proof.
  destruct b; cbn [bound_preds spec_added rq_mode]; try reflexivity.
  - unfold auto_preds. cbn [rq_trait rq_types rq_supers]. rewrite map_app, !map_map. reflexivity.
  - unfold all_preds. cbn [rq_trait]. rewrite map_map, type_param_names_spec. reflexivity.
Qed.

(** ** [push_preds] *)
Lemma push_preds_params g a : g_params (push_preds g a) = g_params g.
Proof. unfold push_preds. destruct (is_nil a); reflexivity. Qed.
Lemma push_preds_trailing g a : g_trailing (push_preds g a) = g_trailing g.
Proof. unfold push_preds. destruct (is_nil a); reflexivity. Qed.
Lemma push_preds_where g a : g_where (push_preds g a) = g_where g ++ a.
Proof. unfold push_preds. destruct a; cbn [is_nil g_where]; [rewrite app_nil_r|]; reflexivity. Qed.
Lemma push_preds_where_trailing g a :
  g_where_trailing (push_preds g a) = if is_nil a then g_where_trailing g else false.
Proof. unfold push_preds. destruct (is_nil a); reflexivity. Qed.
Lemma push_preds_nil g : push_preds g [] = g.
Proof. reflexivity. Qed.

(** the user's predicates are a prefix, unchanged *)
Lemma push_preds_prefix g a : firstn (List.length (g_where g)) (g_where (push_preds g a)) = g_where g.
Proof.
  rewrite push_preds_where, firstn_app, Nat.sub_diag, firstn_all. cbn [firstn]. apply app_nil_r.
Qed.

(** ** what every handler does with an emitted item *)
Definition built_by (d : dinput) (r : breq) (it : item) : Prop :=
  i_generics it
  = push_preds (d_generics d)
      (bound_preds (rq_mode r) (d_generics d) (rq_trait r) (rq_types r) (rq_supers r))
  /\ i_self it = d_name d.

Lemma pushed_header d added it :
  i_generics it = push_preds (d_generics d) added -> i_self it = d_name d ->
  header_ok d added it.
Proof.
  intros Hg Hs. split; rewrite ?Hg.
  - apply push_preds_params.
  - apply push_preds_trailing.
  - exact Hs.
  - apply push_preds_where.
  - apply push_preds_where_trailing.
Qed.

Lemma built_header d r it : built_by d r it -> header_ok d (spec_added (d_generics d) r) it.
Proof.
  intros [Hg Hs]. apply pushed_header; [|exact Hs].
  rewrite Hg, bound_preds_spec. destruct r; reflexivity.
Qed.

(** the converse: the five components determine the generics record *)
Lemma header_generics d added it :
  header_ok d added it -> i_generics it = push_preds (d_generics d) added.
Proof.
  intros [H1 H2 _ H4 H5]. destruct (i_generics it) as [ps tr wh wt].
  cbn [g_params g_trailing g_where g_where_trailing] in *. subst ps tr wh wt.
  unfold push_preds. destruct added; cbn [is_nil].
  - rewrite app_nil_r. destruct (d_generics d); reflexivity.
  - reflexivity.
Qed.

(** an item carrying the type's own generics adds nothing *)
Lemma own_generics_header d it :
  i_generics it = d_generics d -> i_self it = d_name d -> header_ok d [] it.
Proof. intros Hg Hs. apply pushed_header; [rewrite Hg; reflexivity|exact Hs]. Qed.

(** ** the printed header *)
Lemma gparam_impl_toks_spec p : gparam_impl_toks p = param_decl p.
Proof. destruct p as [n bs|n bs df|n ty df]; cbn; try destruct bs; reflexivity. Qed.
Lemma gparam_ty_toks_spec p : gparam_ty_toks p = param_use p.
Proof. destruct p; reflexivity. Qed.

Lemma impl_generics_toks_spec g :
  impl_generics_toks g = angled (g_trailing g) (map param_decl (g_params g)).
Proof.
  unfold impl_generics_toks, angled.
  rewrite (map_ext _ _ gparam_impl_toks_spec). destruct (g_params g); reflexivity.
Qed.
Lemma ty_generics_toks_spec g :
  ty_generics_toks g = angled (g_trailing g) (map param_use (g_params g)).
Proof.
  unfold ty_generics_toks, angled.
  rewrite (map_ext _ _ gparam_ty_toks_spec). destruct (g_params g); reflexivity.
Qed.

(** defaults are never printed: the printed parameter list is that of the
    declaration with every default erased, and two declarations that differ
    only in defaults print alike; bounds are printed verbatim ([param_decl]) *)
Lemma param_decl_erase p : param_decl (erase_default p) = param_decl p.
Proof. destruct p; reflexivity. Qed.
Lemma param_use_erase p : param_use (erase_default p) = param_use p.
Proof. destruct p; reflexivity. Qed.

Lemma impl_generics_no_defaults g g' :
  map erase_default (g_params g) = map erase_default (g_params g') ->
  g_trailing g = g_trailing g' ->
  impl_generics_toks g = impl_generics_toks g' /\ ty_generics_toks g = ty_generics_toks g'.
Proof.
  intros Hp Ht. rewrite !impl_generics_toks_spec, !ty_generics_toks_spec, Ht.
  assert (H1 : map param_decl (g_params g) = map param_decl (g_params g')).
  { rewrite <- (map_ext _ _ param_decl_erase), <- (map_ext _ _ param_decl_erase (g_params g')).
    rewrite <- !(map_map erase_default param_decl), Hp. reflexivity. }
  assert (H2 : map param_use (g_params g) = map param_use (g_params g')).
  { rewrite <- (map_ext _ _ param_use_erase), <- (map_ext _ _ param_use_erase (g_params g')).
    rewrite <- !(map_map erase_default param_use), Hp. reflexivity. }
  rewrite H1, H2. split; reflexivity.
Qed.

(** the self type: the name applied to ALL parameters, in order, by name only *)
Lemma self_type_args g :
  g_params g <> [] ->
  ty_generics_toks g = [P "<"] ++ list_toks (g_trailing g) (map param_use (g_params g)) ++ [P ">"].
Proof. intros H. rewrite ty_generics_toks_spec. unfold angled. destruct (g_params g); [congruence|reflexivity]. Qed.

(** the item as printed *)
Theorem item_header d added it :
  header_ok d added it ->
  item_toks it
  = i_attrs it ++ spec_header d (i_trait it) added ++ [G Brace (flat_map member_toks (i_members it))].
Proof.
  intros [H1 H2 H3 H4 H5]. unfold item_toks, spec_header.
  rewrite impl_generics_toks_spec, ty_generics_toks_spec. unfold where_toks.
  rewrite H1, H2, H3, H4, H5.
  set (W := g_where (d_generics d) ++ added).
  set (tr := if is_nil added then g_where_trailing (d_generics d) else false).
  destruct W as [|w W]; cbn [is_nil];
    repeat (rewrite <- app_assoc || rewrite <- app_comm_cons); reflexivity.
Qed.

(** ** the four modes, on any item built by the scheme *)
Section Modes.
  Variables (d : dinput) (it : item) (bt : toks) (tys sup : list toks).
  Let user := g_where (d_generics d).

  Lemma mode_disabled :
    built_by d {| rq_mode := BDisabled; rq_trait := bt; rq_types := tys; rq_supers := sup |} it ->
    g_where (i_generics it) = user /\ i_generics it = d_generics d.
  Proof.
    intros [Hg _]. cbn [rq_mode bound_preds] in Hg. rewrite push_preds_nil in Hg.
    rewrite Hg. split; reflexivity.
  Qed.

  Lemma mode_custom ps :
    built_by d {| rq_mode := BCustom ps; rq_trait := bt; rq_types := tys; rq_supers := sup |} it ->
    g_where (i_generics it) = user ++ ps.
  Proof. intros [Hg _]. rewrite Hg. cbn [rq_mode bound_preds]. apply push_preds_where. Qed.

  Lemma mode_all :
    built_by d {| rq_mode := BAll; rq_trait := bt; rq_types := tys; rq_supers := sup |} it ->
    g_where (i_generics it)
    = user ++ map (fun n => [I n; P ":"] ++ bt) (type_params (g_params (d_generics d))).
  Proof.
    intros [Hg _]. rewrite Hg. cbn [rq_mode bound_preds rq_trait].
    rewrite push_preds_where, type_param_names_spec. reflexivity.
  Qed.

  Lemma mode_auto :
    built_by d {| rq_mode := BAuto; rq_trait := bt; rq_types := tys; rq_supers := sup |} it ->
    g_where (i_generics it)
    = user ++ map (fun ty => ty ++ [P ":"] ++ bt) tys ++ map (fun s => [I "Self"; P ":"] ++ s) sup.
  Proof.
    intros [Hg _]. rewrite Hg. cbn [rq_mode bound_preds rq_trait rq_types rq_supers].
    apply push_preds_where.
  Qed.
End Modes.
