(** C08 — Default builds exactly the designated value. *)
From Educe.Spec Require Export SpecDefault.
From Educe.Proofs Require Export StringLemmas EvalLemmas P_C02.

(** running an associated function without parameters (`default`, `new`) *)
Definition empty_state : state := {| st_store := []; st_trace := [] |}.
Definition run_fn0 (I : interp) (it : item) (name : string) : option value :=
  match find_fn name it with
  | Some body =>
      match run_body I [] body empty_state with
      | (RVal v, _) => Some v
      | _ => None
      end
  | None => None
  end.
Definition run_default (I : interp) (it : item) : option value := run_fn0 I it "default".
Definition run_new (I : interp) (it : item) : option value := run_fn0 I it "new".

(** ** the model's analysis is the raw analysis followed by auto_adjust_expr *)
Definition adj (ty : option toks) (v : nvexpr) : dvalue := auto_adjust_expr v ty.
Definition adjust_f (ty : toks) (r : dfraw) : dfattr :=
  {| df_flag := fst r; df_expr := option_map (adj (Some ty)) (snd r) |}.
Definition adjust_t (r : dtraw) : dtattr :=
  {| dt_flag := dr_flag r; dt_new := dr_new r; dt_expr := option_map (adj None) (dr_expr r);
     dt_bound := dr_bound r |}.

Lemma foldM_sim {X S S'} (f : S -> X -> outcome S) (f' : S' -> X -> outcome S') (h : S -> S') :
  (forall s x, f' (h s) x = let* s1 := f s x in Ok (h s1)) ->
  forall l s, foldM f' (h s) l = let* s1 := foldM f s l in Ok (h s1).
Proof.
  intros Hstep. induction l as [|x r IH]; intros s; [reflexivity|].
  cbn [foldM]. rewrite Hstep. destruct (f s x); cbn [bind]; [apply IH|reflexivity..].
Qed.

Section ScanMap.
  Context {A B : Type}.
  Variables (F : features) (own : trait -> bool) (build : meta -> outcome A) (g : A -> B)
            (traits : list trait).
  Let build' (m : meta) : outcome B := let* x := build m in Ok (g x).

  Lemma scan_meta_map acc m :
    scan_meta F own build' traits (option_map g acc) m
    = let* o := scan_meta F own build traits acc m in Ok (option_map g o).
  Proof.
    unfold scan_meta. destruct (trait_from_path F (meta_path m)); [|reflexivity].
    destruct (negb (has_trait t traits)); [reflexivity|].
    destruct (own t); [|reflexivity].
    destruct acc; [reflexivity|]. unfold build'. cbn [option_map].
    destruct (build m); reflexivity.
  Qed.

  Lemma scan_attr_map acc a :
    scan_attr F own build' traits (option_map g acc) a
    = let* o := scan_attr F own build traits acc a in Ok (option_map g o).
  Proof.
    unfold scan_attr. destruct (is_educe a); [|reflexivity].
    destruct (a_meta a); try reflexivity.
    destruct (parse_metas ts); cbn [bind]; try reflexivity.
    apply (foldM_sim (scan_meta F own build traits) (scan_meta F own build' traits) (option_map g)).
    intros s x. apply scan_meta_map.
  Qed.

  Lemma scan_attrs_map attrs :
    scan_attrs F own build' traits attrs
    = let* o := scan_attrs F own build traits attrs in Ok (option_map g o).
  Proof.
    unfold scan_attrs.
    apply (foldM_sim (scan_attr F own build traits) (scan_attr F own build' traits) (option_map g)
                     scan_attr_map attrs None).
  Qed.
End ScanMap.

Lemma scan_attrs_ext {A} F own (b1 b2 : meta -> outcome A) traits attrs :
  (forall m, b1 m = b2 m) -> scan_attrs F own b1 traits attrs = scan_attrs F own b2 traits attrs.
Proof.
  intros H. unfold scan_attrs. generalize (@None A). induction attrs as [|a r IH]; intros acc; [reflexivity|].
  cbn [foldM].
  assert (Hs : scan_attr F own b1 traits acc a = scan_attr F own b2 traits acc a).
  { unfold scan_attr. destruct (is_educe a); [|reflexivity]. destruct (a_meta a); try reflexivity.
    destruct (parse_metas ts); cbn [bind]; try reflexivity.
    generalize acc. induction a0 as [|m ms IHm]; intros acc0; [reflexivity|]. cbn [foldM].
    assert (Hm : scan_meta F own b1 traits acc0 m = scan_meta F own b2 traits acc0 m).
    { unfold scan_meta. rewrite H. reflexivity. }
    rewrite Hm. destruct (scan_meta F own b2 traits acc0 m); cbn [bind]; [apply IHm|reflexivity..]. }
  rewrite Hs. destruct (scan_attr F own b2 traits acc a); cbn [bind]; [apply IH|reflexivity..].
Qed.

(** *** field attribute *)
Lemma df_param_sim ee ty (s : option nvexpr * bool) m :
  run_param (df_param ee ty) (option_map (adj (Some ty)) (fst s), snd s) m
  = let* s1 := run_param (df_param_raw ee) s m in Ok (option_map (adj (Some ty)) (fst s1), snd s1).
Proof.
  unfold run_param, df_param, df_param_raw. destruct (param_is m ["expression"; "expr"]); [|reflexivity].
  destruct (negb ee); [reflexivity|]. destruct (meta_2_expr m); cbn [bind]; try reflexivity.
  destruct s as [o b]. cbn [fst snd]. destruct b; reflexivity.
Qed.

Lemma build_dfattr_raw ef ee ty m :
  build_dfattr ef ee ty m = let* r := build_dfraw ef ee m in Ok (adjust_f ty r).
Proof.
  destruct m as [p|p v|p dl ts]; cbn [build_dfattr build_dfraw].
  - destruct ef; reflexivity.
  - destruct ee; reflexivity.
  - destruct (parse_metas ts) as [ms| | |]; cbn [bind]; try reflexivity.
    unfold run_params.
    pose proof (foldM_sim (run_param (df_param_raw ee)) (run_param (df_param ee ty))
                  (fun s => (option_map (adj (Some ty)) (fst s), snd s))
                  (df_param_sim ee ty) ms (None, false)) as Hsim.
    cbn [fst snd option_map] in Hsim. rewrite Hsim.
    destruct (foldM (run_param (df_param_raw ee)) (None, false) ms); reflexivity.
Qed.

Lemma default_field_attr_raw F traits ef ee f :
  default_field_attr F traits ef ee f
  = let* r := default_field_raw F traits ef ee f in Ok (adjust_f (f_ty f) r).
Proof.
  unfold default_field_attr, default_field_raw.
  rewrite (scan_attrs_ext F (trait_eqb TDefault) (build_dfattr ef ee (f_ty f))
             (fun m => let* x := build_dfraw ef ee m in Ok (adjust_f (f_ty f) x)) traits (f_attrs f)
             (build_dfattr_raw ef ee (f_ty f))).
  rewrite (scan_attrs_map F (trait_eqb TDefault) (build_dfraw ef ee) (adjust_f (f_ty f)) traits).
  destruct (scan_attrs F (trait_eqb TDefault) (build_dfraw ef ee) traits (f_attrs f)) as [o| | |];
    cbn [bind]; try reflexivity.
  destruct o; reflexivity.
Qed.

(** *** type attribute *)
Definition adjust_s (s : dtstate_raw) : dtstate :=
  {| ds_new := rs_new s; ds_expr := option_map (adj None) (rs_expr s); ds_bound := rs_bound s;
     ds_new_set := rs_new_set s; ds_expr_set := rs_expr_set s; ds_bound_set := rs_bound_set s |}.

Lemma dt_param_sim en ee eb s m :
  run_param (dt_param en ee eb) (adjust_s s) m
  = let* s1 := run_param (dt_param_raw en ee eb) s m in Ok (adjust_s s1).
Proof.
  unfold run_param, dt_param, dt_param_raw.
  destruct (param_is m ["new"]).
  { destruct (negb en); [reflexivity|]. destruct (meta_2_bool_allow_path m); cbn [bind]; try reflexivity.
    cbn [adjust_s ds_new_set]. destruct (rs_new_set s); reflexivity. }
  destruct (param_is m ["expression"; "expr"]).
  { destruct (negb ee); [reflexivity|]. destruct (meta_2_expr m); cbn [bind]; try reflexivity.
    cbn [adjust_s ds_expr_set]. destruct (rs_expr_set s); reflexivity. }
  destruct (param_is m ["bound"]); [|reflexivity].
  destruct (negb eb); [reflexivity|]. destruct (bound_from_meta m); cbn [bind]; try reflexivity.
  cbn [adjust_s ds_bound_set]. destruct (rs_bound_set s); reflexivity.
Qed.

Lemma build_dtattr_raw ef en ee eb m :
  build_dtattr ef en ee eb m = let* r := build_dtraw ef en ee eb m in Ok (adjust_t r).
Proof.
  destruct m as [p|p v|p dl ts]; cbn [build_dtattr build_dtraw].
  - destruct ef; reflexivity.
  - reflexivity.
  - destruct (parse_metas ts) as [ms| | |]; cbn [bind]; try reflexivity.
    unfold run_params.
    pose proof (foldM_sim (run_param (dt_param_raw en ee eb)) (run_param (dt_param en ee eb)) adjust_s
                  (dt_param_sim en ee eb) ms
                  {| rs_new := false; rs_expr := None; rs_bound := BAuto;
                     rs_new_set := false; rs_expr_set := false; rs_bound_set := false |}) as Hsim.
    unfold adjust_s at 1 in Hsim. cbn [rs_new rs_expr rs_bound rs_new_set rs_expr_set rs_bound_set option_map] in Hsim.
    rewrite Hsim.
    destruct (foldM (run_param (dt_param_raw en ee eb)) _ ms); reflexivity.
Qed.

(** *** union field selection *)
Definition adjust_sel (x : field * dfraw) : field * dfattr := (fst x, adjust_f (f_ty (fst x)) (snd x)).

Lemma select_field_step_sim F traits acc f :
  select_field_step F traits (option_map adjust_sel acc) f
  = let* o := select_field_step_raw F traits acc f in Ok (option_map adjust_sel o).
Proof.
  unfold select_field_step, select_field_step_raw. rewrite default_field_attr_raw.
  destruct (default_field_raw F traits true true f) as [r| | |]; cbn [bind]; try reflexivity.
  assert (Hd : (df_flag (adjust_f (f_ty f) r)
                || match df_expr (adjust_f (f_ty f) r) with Some _ => true | None => false end)
               = is_designated r).
  { unfold is_designated, adjust_f. cbn [df_flag df_expr]. destruct (snd r); reflexivity. }
  rewrite Hd. destruct (is_designated r); [|reflexivity]. destruct acc; reflexivity.
Qed.

Lemma select_field_raw_eq F traits fs :
  select_field F traits fs = let* x := select_field_raw F traits fs in Ok (adjust_sel x).
Proof.
  assert (Hgen : (let* o := foldM (select_field_step F traits) None fs in
                  match o with Some x => Ok x | None => Err E_default_no_field end)
                 = let* x := (let* o := foldM (select_field_step_raw F traits) None fs in
                              match o with Some x => Ok x | None => Err E_default_no_field end) in
                   Ok (adjust_sel x)).
  { pose proof (foldM_sim (select_field_step_raw F traits) (select_field_step F traits)
                  (option_map adjust_sel) (select_field_step_sim F traits) fs None) as Hsim.
    cbn [option_map] in Hsim. rewrite Hsim.
    destruct (foldM (select_field_step_raw F traits) None fs) as [o| | |]; cbn [bind]; try reflexivity.
    destruct o; reflexivity. }
  destruct fs as [|f [|f2 r]]; [exact Hgen| |exact Hgen].
  cbn [select_field select_field_raw]. rewrite default_field_attr_raw.
  destruct (default_field_raw F traits true true f); reflexivity.
Qed.

Section Default.
  Variable I : interp.

  (** ** one initialiser *)
  Lemma eval_adjusted en e ty s :
    eval I en (dvalue_expr (auto_adjust_expr e ty)) s = (RVal (spec_expr I e ty), s).
  Proof. unfold auto_adjust_expr, spec_expr. destruct (needs_into e ty); reflexivity. Qed.

  Lemma eval_type_default en ty s :
    eval I en (dvalue_expr (DVDefault ty)) s = (RVal (i_default I ty), s).
  Proof. reflexivity. Qed.

  Lemma eval_field_value en f (r : dfraw) k s :
    eval I en (dvalue_expr (field_value_of f (adjust_f (f_ty f) r))) s
    = (RVal (snd (spec_field I (k, f_ty f, snd r))), s).
  Proof.
    unfold field_value_of, adjust_f. cbn [df_expr spec_field snd].
    destruct (snd r) as [e|]; cbn [option_map]; [apply eval_adjusted|apply eval_type_default].
  Qed.

  Lemma default_field_value_raw F traits f v :
    default_field_value F traits f = Ok v ->
    exists r, default_field_raw F traits false true f = Ok r /\
              v = field_value_of f (adjust_f (f_ty f) r).
  Proof.
    unfold default_field_value. rewrite default_field_attr_raw. intros H.
    destruct (default_field_raw F traits false true f) as [r| | |]; try discriminate H.
    cbn [bind] in H. inversion H. exists r. split; reflexivity.
  Qed.

  (** ** the field lists *)
  Lemma named_fields_eval F traits en : forall (l : list field) vs rs s,
    mapM (fun f => let* v := default_field_value F traits f in Ok (field_name f, v)) l = Ok vs ->
    mapM (fun f => let* r := default_field_raw F traits false true f in
                   Ok (field_name f, f_ty f, snd r)) l = Ok rs ->
    eval_fields (eval I) en (map (fun '(n, v) => (n, dvalue_expr v)) vs) s
    = (Some (map (spec_field I) rs), RVal VUnit, s).
  Proof.
    induction l as [|f l IH]; intros vs rs s Hv Hr; cbn [mapM] in Hv, Hr.
    - inversion Hv; inversion Hr; subst. reflexivity.
    - apply bind_ok in Hv as [nv [Hnv Hv]]. apply bind_ok in Hv as [vs' [Hvs' Hv]]. inversion Hv; subst vs; clear Hv.
      apply bind_ok in Hr as [nr [Hnr Hr]]. apply bind_ok in Hr as [rs' [Hrs' Hr]]. inversion Hr; subst rs; clear Hr.
      apply bind_ok in Hnv as [v [Hv Hnv]]. inversion Hnv; subst nv; clear Hnv.
      apply bind_ok in Hnr as [r [Hr Hnr]]. inversion Hnr; subst nr; clear Hnr.
      destruct (default_field_value_raw F traits f v Hv) as [r' [Hr' ->]].
      rewrite Hr in Hr'. inversion Hr'; subst r'; clear Hr'.
      cbn [map eval_fields]. rewrite (eval_field_value en f r (field_name f) s).
      rewrite (IH vs' rs' s Hvs' Hrs'). reflexivity.
  Qed.

  Lemma unnamed_fields_eval F traits en : forall (l : list field) i0 vs rs s,
    mapM (default_field_value F traits) l = Ok vs ->
    mapMi_from (fun i f => let* r := default_field_raw F traits false true f in
                           Ok (dec i, f_ty f, snd r)) i0 l = Ok rs ->
    eval_args (eval I) en (map dvalue_expr vs) s
    = (Some (map snd (map (spec_field I) rs)), RVal VUnit, s) /\
    map fst (map (spec_field I) rs) = map dec (seq i0 (List.length vs)).
  Proof.
    induction l as [|f l IH]; intros i0 vs rs s Hv Hr; cbn [mapM mapMi_from] in Hv, Hr.
    - inversion Hv; inversion Hr; subst. split; reflexivity.
    - apply bind_ok in Hv as [v [Hv Hv2]]. apply bind_ok in Hv2 as [vs' [Hvs' Hv2]]. inversion Hv2; subst vs; clear Hv2.
      apply bind_ok in Hr as [nr [Hnr Hr]]. apply bind_ok in Hr as [rs' [Hrs' Hr]]. inversion Hr; subst rs; clear Hr.
      apply bind_ok in Hnr as [r [Hr Hnr]]. inversion Hnr; subst nr; clear Hnr.
      destruct (default_field_value_raw F traits f v Hv) as [r' [Hr' ->]].
      rewrite Hr in Hr'. inversion Hr'; subst r'; clear Hr'.
      destruct (IH (S i0) vs' rs' s Hvs' Hrs') as [IHe IHk].
      cbn [map eval_args List.length seq]. rewrite (eval_field_value en f r (dec i0) s).
      rewrite IHe. split; [reflexivity|]. cbn [spec_field fst]. f_equal. exact IHk.
  Qed.

  Lemma tuple_fields_index vs :
    tuple_fields vs = map (fun '(i, v) => (dec i, v)) (index_from 0 vs).
  Proof.
    unfold tuple_fields. f_equal. generalize 0.
    induction vs as [|x r IH]; intros i; [reflexivity|]. cbn [index_from]. f_equal. apply IH.
  Qed.
  Lemma tuple_fields_keyed (vs : list (string * value)) :
    map fst vs = map dec (seq 0 (List.length vs)) -> tuple_fields (map snd vs) = vs.
  Proof.
    rewrite tuple_fields_index. generalize 0.
    induction vs as [|[k v] r IH]; intros i H; [reflexivity|].
    cbn [map fst snd List.length seq index_from] in *. inversion H as [[Hk Hr]].
    f_equal. apply IH. exact Hr.
  Qed.

  Definition path_variant (p : rpath) : option (option string) :=
    match p with RSelf => Some None | RSelfV v => Some (Some v) | _ => None end.

  (** default_struct.rs / default_enum.rs: the constructor expression *)
  Lemma fields_body_eval F traits en p vn fs b l s :
    path_variant p = Some vn ->
    default_fields_body F traits p fs = Ok b ->
    field_reqs F traits fs = Ok l ->
    eval I en (dbody_expr b) s = (RVal (VData vn (map (spec_field I) l)), s).
  Proof.
    intros Hp Hb Hl. destruct fs as [fl|fl|]; cbn [default_fields_body field_reqs] in Hb, Hl.
    - apply bind_ok in Hb as [vs [Hvs Hb]]. inversion Hb; subst b; clear Hb.
      cbn [dbody_expr eval]. rewrite (named_fields_eval F traits en fl vs l s Hvs Hl).
      destruct p; try discriminate Hp; inversion Hp; reflexivity.
    - apply bind_ok in Hb as [vs [Hvs Hb]]. inversion Hb; subst b; clear Hb.
      destruct (unnamed_fields_eval F traits en fl 0 vs l s Hvs Hl) as [He Hk].
      cbn [dbody_expr eval]. rewrite He.
      assert (Htf : tuple_fields (map snd (map (spec_field I) l)) = map (spec_field I) l).
      { apply tuple_fields_keyed. rewrite Hk. do 2 f_equal.
        rewrite <- (map_length fst (map (spec_field I) l)), Hk, !map_length, seq_length. reflexivity. }
      destruct p; try discriminate Hp; inversion Hp; cbn [apply_path]; rewrite Htf; reflexivity.
    - inversion Hb; subst b. inversion Hl; subst l. cbn [dbody_expr eval path_value map].
      destruct p; try discriminate Hp; inversion Hp; reflexivity.
  Qed.

  (** ** C08_default *)
  Lemma plan_eval F traits d m p c en s :
    default_plan F traits d m = Ok p ->
    default_cfg F traits d m = Ok c ->
    dp_new p = dc_new c /\
    eval I en (dbody_expr (dp_body p)) s = (RVal (spec_default I c), s).
  Proof.
    intros Hp Hc. unfold default_plan in Hp. unfold default_cfg in Hc.
    rewrite build_dtattr_raw in Hp.
    apply bind_ok in Hc as [tr [Htr Hc]]. rewrite Htr in Hp. cbn [bind] in Hp.
    apply bind_ok in Hp as [body [Hbody Hp]]. inversion Hp; subst p; clear Hp.
    apply bind_ok in Hc as [breq [Hbreq Hc]]. inversion Hc; subst c; clear Hc.
    cbn [dp_new dp_body dc_new adjust_t dt_new]. split; [reflexivity|].
    unfold spec_default. cbn [dc_body].
    cbn [adjust_t dt_expr] in Hbody.
    destruct (dr_expr tr) as [e|]; cbn [option_map] in Hbody.
    - inversion Hbreq; subst breq; clear Hbreq.
      assert (Hb : body = DBExpr (adj None e)).
      { destruct (d_data d); apply bind_ok in Hbody as [u [_ Hbody]]; inversion Hbody; reflexivity. }
      subst body. cbn [dbody_expr]. apply eval_adjusted.
    - destruct (d_data d) as [fs|vs|ufs].
      + apply bind_ok in Hbreq as [l [Hl Hbreq]]. inversion Hbreq; subst breq; clear Hbreq.
        apply (fields_body_eval F traits en RSelf None fs body l s eq_refl Hbody Hl).
      + apply bind_ok in Hbreq as [v [Hv Hbreq]]. apply bind_ok in Hbreq as [l [Hl Hbreq]].
        inversion Hbreq; subst breq; clear Hbreq.
        rewrite Hv in Hbody. cbn [bind] in Hbody.
        apply (fields_body_eval F traits en (RSelfV (v_name v)) (Some (v_name v)) (v_fields v) body l s
                 eq_refl Hbody Hl).
      + rewrite select_field_raw_eq in Hbody.
        apply bind_ok in Hbreq as [[f r] [Hsel Hbreq]]. inversion Hbreq; subst breq; clear Hbreq.
        rewrite Hsel in Hbody. cbn [bind adjust_sel fst snd] in Hbody. inversion Hbody; subst body; clear Hbody.
        cbn [dbody_expr map eval eval_fields].
        rewrite (eval_field_value en f r (field_name f) s). reflexivity.
  Qed.

  Theorem default_correct F traits d m items c :
    expand_default F traits d m = Ok items ->
    default_cfg F traits d m = Ok c ->
    exists it,
      items = it :: (if dc_new c then [new_item d (i_generics it)] else []) /\
      i_self it = d_name d /\ i_trait it = Some (rpath_toks default_trait) /\
      run_default I it = Some (spec_default I c).
  Proof.
    intros He Hc. unfold expand_default in He. apply bind_ok in He as [p [Hp He]].
    inversion He; subst items; clear He.
    destruct (plan_eval F traits d m p c [] empty_state Hp Hc) as [Hnew Hev].
    unfold default_items. rewrite Hnew.
    match goal with |- context [default_item d ?g (dp_body p)] => exists (default_item d g (dp_body p)) end.
    split; [reflexivity|]. split; [reflexivity|]. split; [reflexivity|].
    unfold run_default, run_fn0, default_item, find_fn.
    cbn [i_members find String.eqb Ascii.eqb Bool.eqb].
    unfold run_body.
    assert (Hnl : forall b, no_let (dbody_expr b) = true).
    { intros [v|q|q fs|q fs]; try reflexivity. destruct v; reflexivity. }
    rewrite (eval_block_cons I [] (dbody_expr (dp_body p)) [] empty_state (Hnl _)).
    rewrite Hev. reflexivity.
  Qed.

  (** ** C08_new_is_default *)
  Theorem new_correct d g :
    i_trait (new_item d g) = None /\ i_self (new_item d g) = d_name d /\
    i_generics (new_item d g) = g /\
    find_fn "new" (new_item d g) = Some [ECall (EQPath [TIdent "Self"] default_trait "default") []] /\
    run_new I (new_item d g) = Some (i_default I [TIdent "Self"]).
  Proof. repeat split. Qed.
End Default.

(** ** C08_selection *)
Section Selection.
  Variables (F : features) (traits : list trait).

  Fixpoint sel_fold {A} (e2 : err) (acc : option A) (l : list (A * bool)) : outcome (option A) :=
    match l with
    | [] => Ok acc
    | (v, b) :: r =>
        if b then match acc with
                  | Some _ => Err e2
                  | None => sel_fold e2 (Some v) r
                  end
        else sel_fold e2 acc r
    end.

  Lemma sel_fold_some {A} e2 (w : A) l :
    sel_fold e2 (Some w) l = match filter (fun vb => snd vb) l with [] => Ok (Some w) | _ => Err e2 end.
  Proof.
    induction l as [|[v b] r IH]; [reflexivity|]. cbn [sel_fold filter snd].
    destruct b; [reflexivity|exact IH].
  Qed.

  Lemma sel_fold_none {A} e2 (l : list (A * bool)) :
    sel_fold e2 None l = match filter (fun vb => snd vb) l with
                         | [] => Ok None
                         | [(v, _)] => Ok (Some v)
                         | _ => Err e2
                         end.
  Proof.
    induction l as [|[v b] r IH]; [reflexivity|]. cbn [sel_fold filter snd].
    destruct b; [|exact IH]. rewrite sel_fold_some.
    destruct (filter (fun vb => snd vb) r); reflexivity.
  Qed.

  (** what the analysis sees of one variant: its flag, and (when it matters)
      that its fields carry no Default attribute *)
  Definition variant_seen (n : nat) (v : variant) (b : bool) : Prop :=
    variant_flagged F traits v = Ok b /\
    (b = false -> n <> 1 -> ensure_no_attribute F traits (fields_list (v_fields v)) = Ok Datatypes.tt).

  Lemma select_step_seen n acc v b :
    n <> 1 -> variant_seen n v b ->
    select_variant_step F traits acc v
    = if b then match acc with Some _ => Err E_default_multi_variants | None => Ok (Some v) end
      else Ok acc.
  Proof.
    intros Hn [Hf He]. unfold select_variant_step. unfold variant_flagged in Hf.
    destruct (default_variant_attr F traits true (v_attrs v)) as [ta| | |]; try discriminate Hf.
    cbn [bind] in Hf |- *. inversion Hf; subst b. destruct (dt_flag ta); [reflexivity|].
    rewrite (He eq_refl Hn). reflexivity.
  Qed.

  Lemma select_fold_seen n : n <> 1 -> forall vs bs acc,
    Forall2 (variant_seen n) vs bs ->
    foldM (select_variant_step F traits) acc vs = sel_fold E_default_multi_variants acc (combine vs bs).
  Proof.
    intros Hn. induction vs as [|v r IH]; intros bs acc H; inversion H as [|? b ? bs' Hv Hr]; subst.
    - reflexivity.
    - cbn [foldM combine sel_fold]. rewrite (select_step_seen n acc v b Hn Hv).
      destruct b; [destruct acc; [reflexivity|]|]; cbn [bind]; apply IH; assumption.
  Qed.

  Theorem selection_correct vs bs :
    Forall2 (variant_seen (List.length vs)) vs bs ->
    select_variant F traits vs = spec_select (combine vs bs).
  Proof.
    intros H. destruct vs as [|v [|v2 r]].
    - inversion H; subst. reflexivity.
    - inversion H as [|? b ? bs' [Hf _] Hr]; subst. inversion Hr; subst.
      cbn [select_variant combine]. unfold spec_select, spec_select_with. unfold variant_flagged in Hf.
      destruct (default_variant_attr F traits true (v_attrs v)); try discriminate Hf. reflexivity.
    - assert (Hn : List.length (v :: v2 :: r) <> 1) by (cbn; lia).
      unfold select_variant.
      rewrite (select_fold_seen _ Hn (v :: v2 :: r) bs None H), sel_fold_none.
      inversion H as [|? b ? bs' _ Hr]; subst. inversion Hr as [|? b2 ? bs2 _ Hr2]; subst.
      cbn [combine]. unfold spec_select, spec_select_with.
      destruct (filter (fun vb => snd vb) ((v, b) :: (v2, b2) :: combine r bs2)) as [|[w wb] [|x y]];
        reflexivity.
  Qed.

  (** conversely: whenever a variant is selected, every variant was seen *)
  Lemma select_fold_ok n : n <> 1 -> forall vs acc o,
    foldM (select_variant_step F traits) acc vs = Ok o ->
    exists bs, Forall2 (variant_seen n) vs bs.
  Proof.
    intros Hn. induction vs as [|v r IH]; intros acc o H.
    - exists []. constructor.
    - cbn [foldM] in H. apply bind_ok in H as [acc' [Hstep H]].
      destruct (IH acc' o H) as [bs Hbs].
      unfold select_variant_step in Hstep. apply bind_ok in Hstep as [ta [Hta Hstep]].
      exists (dt_flag ta :: bs). constructor; [|exact Hbs]. split.
      + unfold variant_flagged. rewrite Hta. reflexivity.
      + intros Hf _. rewrite Hf in Hstep. apply bind_ok in Hstep as [u [Hu _]]. destruct u. exact Hu.
  Qed.

  Theorem selection_ok vs v :
    select_variant F traits vs = Ok v ->
    exists bs, Forall2 (variant_seen (List.length vs)) vs bs /\ spec_select (combine vs bs) = Ok v.
  Proof.
    intros H.
    assert (Hex : exists bs, Forall2 (variant_seen (List.length vs)) vs bs).
    { destruct vs as [|v1 [|v2 r]].
      - exists []. constructor.
      - cbn [select_variant] in H. apply bind_ok in H as [ta [Hta _]].
        exists [dt_flag ta]. constructor; [|constructor]. split.
        + unfold variant_flagged. rewrite Hta. reflexivity.
        + intros _ Hn. exfalso. apply Hn. reflexivity.
      - unfold select_variant in H. apply bind_ok in H as [o [Ho _]].
        assert (Hn : List.length (v1 :: v2 :: r) <> 1) by (cbn; lia).
        apply (select_fold_ok _ Hn _ None o Ho). }
    destruct Hex as [bs Hbs]. exists bs. split; [exact Hbs|].
    rewrite <- (selection_correct vs bs Hbs). exact H.
  Qed.

  (** [spec_select], by induction over the list: the only element, or the
      unique flagged one *)
  Lemma filter_single {A} (l : list (A * bool)) v b :
    filter (fun vb => snd vb) l = [(v, b)] ->
    exists pre post, l = pre ++ (v, true) :: post /\ b = true /\
                     forallb (fun vb => negb (snd vb)) pre = true /\
                     forallb (fun vb => negb (snd vb)) post = true.
  Proof.
    induction l as [|[w wb] r IH]; cbn [filter snd]; intros H; [discriminate H|].
    destruct wb.
    - inversion H as [[Hw Hb Hr]]. exists [], r. repeat split.
      clear - Hr. induction r as [|[x xb] r IH]; [reflexivity|]. cbn [filter snd] in Hr.
      destruct xb; [discriminate Hr|]. cbn. apply IH. exact Hr.
    - destruct (IH H) as [pre [post [-> [Hb [Hpre Hpost]]]]].
      exists ((w, false) :: pre), post. repeat split; assumption.
  Qed.

  Theorem spec_select_ok {A} e0 e2 (l : list (A * bool)) v :
    spec_select_with e0 e2 l = Ok v ->
    (exists b, l = [(v, b)]) \/
    (exists pre post, l = pre ++ (v, true) :: post /\
                      forallb (fun vb => negb (snd vb)) pre = true /\
                      forallb (fun vb => negb (snd vb)) post = true).
  Proof.
    intros H.
    assert (Hgen : match filter (fun vb => snd vb) l with
                   | [] => Err e0
                   | [(v, _)] => Ok v
                   | _ => Err e2
                   end = Ok v ->
                   exists pre post, l = pre ++ (v, true) :: post /\
                      forallb (fun vb => negb (snd vb)) pre = true /\
                      forallb (fun vb => negb (snd vb)) post = true).
    { intros Hf. destruct (filter (fun vb => snd vb) l) as [|[w wb] [|x y]] eqn:E; try discriminate Hf.
      inversion Hf; subst w. destruct (filter_single l v wb E) as [pre [post [Hl [_ [H1 H2]]]]].
      exists pre, post. repeat split; assumption. }
    destruct l as [|[w wb] [|x r]].
    - discriminate H.
    - left. inversion H. exists wb. reflexivity.
    - right. apply Hgen. exact H.
  Qed.

  Theorem spec_select_errors {A} e0 e2 (l : list (A * bool)) :
    List.length l <> 1 ->
    (filter (fun vb => snd vb) l = [] -> spec_select_with e0 e2 l = Err e0) /\
    (2 <= List.length (filter (fun vb => snd vb) l) -> spec_select_with e0 e2 l = Err e2).
  Proof.
    intros Hn. destruct l as [|[w wb] [|x r]]; [| exfalso; apply Hn; reflexivity |].
    - split; [reflexivity|]. cbn. lia.
    - unfold spec_select_with. split.
      + intros ->. reflexivity.
      + intros Hlen. destruct (filter (fun vb => snd vb) ((w, wb) :: x :: r)) as [|[a ab] [|y z]];
          cbn in Hlen; try lia. reflexivity.
  Qed.

  (** *** unions: the designated field *)
  Definition fields_seen (fs : list field) (rs : list dfraw) : Prop :=
    Forall2 (fun f r => default_field_raw F traits true true f = Ok r) fs rs.
  Definition marked (fs : list field) (rs : list dfraw) : list ((field * dfraw) * bool) :=
    map (fun fr => (fr, is_designated (snd fr))) (combine fs rs).

  Lemma select_field_fold_seen : forall fs rs acc,
    fields_seen fs rs ->
    foldM (select_field_step_raw F traits) acc fs = sel_fold E_default_multi_fields acc (marked fs rs).
  Proof.
    induction fs as [|f r IH]; intros rs acc H; inversion H as [|? x ? rs' Hf Hr]; subst.
    - reflexivity.
    - unfold marked. cbn [foldM combine map sel_fold snd]. fold (marked r rs').
      unfold select_field_step_raw at 1. rewrite Hf. cbn [bind].
      destruct (is_designated x); [destruct acc; [reflexivity|]|]; cbn [bind]; apply IH; assumption.
  Qed.

  Theorem field_selection_correct fs rs :
    fields_seen fs rs -> select_field_raw F traits fs = spec_select_field (marked fs rs).
  Proof.
    intros H. destruct fs as [|f [|f2 r]].
    - inversion H; subst. reflexivity.
    - inversion H as [|? x ? rs' Hf Hr]; subst. inversion Hr; subst.
      cbn [select_field_raw]. rewrite Hf. reflexivity.
    - unfold select_field_raw. rewrite (select_field_fold_seen (f :: f2 :: r) rs None H), sel_fold_none.
      inversion H as [|? x ? rs' _ Hr]; subst. inversion Hr as [|? x2 ? rs2 _ Hr2]; subst.
      unfold marked. cbn [combine map]. unfold spec_select_field, spec_select_with.
      match goal with |- context [filter ?p ?l] => destruct (filter p l) as [|[w wb] [|y z]] end;
        reflexivity.
  Qed.
End Selection.

(** ** whenever the handler succeeds, the request is readable *)
Section Total.
  Variables (F : features) (traits : list trait).

  Lemma named_reqs_total : forall (l : list field) vs,
    mapM (fun f => let* v := default_field_value F traits f in Ok (field_name f, v)) l = Ok vs ->
    exists rs, mapM (fun f => let* r := default_field_raw F traits false true f in
                              Ok (field_name f, f_ty f, snd r)) l = Ok rs.
  Proof.
    induction l as [|f l IH]; intros vs H; cbn [mapM] in *; [eexists; reflexivity|].
    apply bind_ok in H as [nv [Hnv H]]. apply bind_ok in H as [vs' [Hvs' _]].
    apply bind_ok in Hnv as [v [Hv _]].
    destruct (default_field_value_raw F traits f v Hv) as [r [Hr _]].
    destruct (IH vs' Hvs') as [rs Hrs]. rewrite Hr, Hrs. eexists; reflexivity.
  Qed.

  Lemma unnamed_reqs_total : forall (l : list field) i0 vs,
    mapM (default_field_value F traits) l = Ok vs ->
    exists rs, mapMi_from (fun i f => let* r := default_field_raw F traits false true f in
                                      Ok (dec i, f_ty f, snd r)) i0 l = Ok rs.
  Proof.
    induction l as [|f l IH]; intros i0 vs H; cbn [mapM mapMi_from] in *; [eexists; reflexivity|].
    apply bind_ok in H as [v [Hv H]]. apply bind_ok in H as [vs' [Hvs' _]].
    destruct (default_field_value_raw F traits f v Hv) as [r [Hr _]].
    destruct (IH (S i0) vs' Hvs') as [rs Hrs]. rewrite Hr, Hrs. eexists; reflexivity.
  Qed.

  Lemma field_reqs_total p fs b :
    default_fields_body F traits p fs = Ok b -> exists l, field_reqs F traits fs = Ok l.
  Proof.
    destruct fs as [fl|fl|]; cbn [default_fields_body field_reqs]; intros H.
    - apply bind_ok in H as [vs [Hvs _]]. exact (named_reqs_total fl vs Hvs).
    - apply bind_ok in H as [vs [Hvs _]]. exact (unnamed_reqs_total fl 0 vs Hvs).
    - eexists; reflexivity.
  Qed.

  Theorem default_cfg_total d m items :
    expand_default F traits d m = Ok items -> exists c, default_cfg F traits d m = Ok c.
  Proof.
    intros He. unfold expand_default in He. apply bind_ok in He as [p [Hp _]].
    unfold default_plan in Hp. rewrite build_dtattr_raw in Hp.
    apply bind_ok in Hp as [ta [Hta Hp]]. apply bind_ok in Hta as [tr [Htr Hta]].
    inversion Hta; subst ta; clear Hta.
    apply bind_ok in Hp as [body [Hbody _]].
    unfold default_cfg. rewrite Htr. cbn [bind].
    cbn [adjust_t dt_expr] in Hbody.
    destruct (dr_expr tr) as [e|]; cbn [option_map] in Hbody; [eexists; reflexivity|].
    destruct (d_data d) as [fs|vs|ufs].
    - destruct (field_reqs_total _ _ _ Hbody) as [l Hl]. rewrite Hl. eexists; reflexivity.
    - apply bind_ok in Hbody as [v [Hv Hbody]]. rewrite Hv. cbn [bind].
      destruct (field_reqs_total _ _ _ Hbody) as [l Hl]. rewrite Hl. eexists; reflexivity.
    - rewrite select_field_raw_eq in Hbody. apply bind_ok in Hbody as [x [Hx _]].
      apply bind_ok in Hx as [[f r] [Hsel _]]. rewrite Hsel. eexists; reflexivity.
  Qed.
End Total.
