(** C01 / acceptance, continued -- FIELD-LEVEL `ignore` and `method(f)`:
    `#[educe(T)]` (T one of PartialEq, Hash, PartialOrd, Ord, Debug) on a type some of whose fields
    carry `#[educe(T(ignore))]` (the others carry nothing) is accepted under the very side
    conditions of the bare flag ([flag_accepted], P_C01f) -- in particular when EVERY field is
    ignored. *)
From Educe.Proofs Require Export P_C01g.

(** the documented field-level forms: `ignore`, and `method(f)` with a plain identifier [f] *)
Inductive fform := FIgnore | FMethod (p : string).

(** [path_seg_ok p]: [p] is not a keyword (or is one of `self`, `Self`, `super`, `crate`) -- what
    [syn::Path::parse] asks of a segment; `method(fn)`, `method(true)`, `method(_)` are refused *)
Definition fform_ok (fm : fform) : Prop :=
  match fm with FIgnore => True | FMethod p => path_seg_ok p = true end.

Definition fform_toks (fm : fform) : toks :=
  match fm with FIgnore => [I "ignore"] | FMethod p => [I "method"; G Paren [I p]] end.

(** the attribute `#[educe(T(ignore))]` / `#[educe(T(method(f)))]` and the meta it parses to *)
Definition educe_field (t : trait) (fm : fform) : attr :=
  {| a_path := ["educe"]; a_meta := AMList Paren [I (trait_name t); G Paren (fform_toks fm)] |}.

Definition educe_ignore (t : trait) : attr :=
  {| a_path := ["educe"]; a_meta := AMList Paren [I (trait_name t); G Paren [I "ignore"]] |}.
Definition educe_method (t : trait) (p : string) : attr :=
  {| a_path := ["educe"];
     a_meta := AMList Paren [I (trait_name t); G Paren [I "method"; G Paren [I p]]] |}.

Lemma educe_field_ignore t : educe_field t FIgnore = educe_ignore t.
Proof. reflexivity. Qed.
Lemma educe_field_method t p : educe_field t (FMethod p) = educe_method t p.
Proof. reflexivity. Qed.

Definition flag_path (t : trait) : mpath := {| mp_lead := false; mp_segs := [trait_name t] |}.

(** each field: no attribute, or exactly one of the forms for the trait [t] *)
Definition fa_attrs (t : trait) (l : list attr) : Prop :=
  l = [] \/ exists fm, fform_ok fm /\ l = [educe_field t fm].
Definition fa_fields (t : trait) (l : list field) : Prop :=
  forall f, In f l -> fa_attrs t (f_attrs f).
Definition fa_variants (t : trait) (vs : list variant) : Prop :=
  forall v, In v vs -> v_attrs v = [] /\ fa_fields t (fields_list (v_fields v)).
Definition fa_data (t : trait) (d : data) : Prop :=
  match d with
  | DStruct fs => fa_fields t (fields_list fs)
  | DEnum vs => fa_variants t vs
  | DUnion fs => fa_fields t fs
  end.

(** .. the special case "no attribute or `#[educe(T(ignore))]`" *)
Definition ign_attrs (t : trait) (l : list attr) : Prop := l = [] \/ l = [educe_ignore t].
Definition ign_fields (t : trait) (l : list field) : Prop :=
  forall f, In f l -> ign_attrs t (f_attrs f).
Definition ign_variants (t : trait) (vs : list variant) : Prop :=
  forall v, In v vs -> v_attrs v = [] /\ ign_fields t (fields_list (v_fields v)).
Definition ign_data (t : trait) (d : data) : Prop :=
  match d with
  | DStruct fs => ign_fields t (fields_list fs)
  | DEnum vs => ign_variants t vs
  | DUnion fs => ign_fields t fs
  end.

Lemma ign_fa_fields t l : ign_fields t l -> fa_fields t l.
Proof.
  intros H f Hf. destruct (H f Hf) as [E|E]; [left; exact E|].
  right. exists FIgnore. split; [exact Logic.I|exact E].
Qed.

Lemma ign_fa_data t d : ign_data t d -> fa_data t d.
Proof.
  destruct d as [fs|vs|fs]; cbn [fa_data ign_data]; intros H.
  - apply ign_fa_fields. exact H.
  - intros v Hv. destruct (H v Hv) as [Ha Hfs]. split; [exact Ha|]. apply ign_fa_fields. exact Hfs.
  - apply ign_fa_fields. exact H.
Qed.

Lemma plain_ign_data t d : plain_data d -> ign_data t d.
Proof.
  destruct d as [fs|vs|fs]; cbn [plain_data ign_data]; intros H.
  - intros f Hf. left. apply H. exact Hf.
  - intros v Hv. destruct (H v Hv) as [Ha Hfs]. split; [exact Ha|].
    intros f Hf. left. apply Hfs. exact Hf.
  - intros f Hf. left. apply H. exact Hf.
Qed.

(** the traits whose field attribute knows `ignore` and `method` *)
Definition ignorable (t : trait) : Prop :=
  match t with TPartialEq | THash | TPartialOrd | TOrd | TDebug => True | _ => False end.

(** the parameter list is kept as tokens at this stage *)
Lemma parse_list_meta t g :
  parse_metas [I (trait_name t); G Paren g] = Ok [MList (flag_path t) Paren g].
Proof. destruct t; vm_compute; reflexivity. Qed.

(** the scanner of any handler on such an attribute *)
Lemma scan_field {A} F own (build : meta -> outcome A) traits t fm :
  has_trait t F = true -> has_trait t traits = true ->
  scan_attrs F own build traits [educe_field t fm] =
    if own t then (let* v := build (MList (flag_path t) Paren (fform_toks fm)) in Ok (Some v))
    else Ok None.
Proof.
  intros HF Ht. unfold scan_attrs. cbn [foldM]. unfold scan_attr.
  cbn [is_educe educe_field a_path a_meta String.eqb Ascii.eqb Bool.eqb].
  rewrite parse_list_meta. cbn [bind foldM]. unfold scan_meta. cbn [meta_path]. unfold flag_path.
  rewrite (trait_from_flag F t HF). rewrite Ht. cbn [negb].
  destruct (own t); [|reflexivity]. destruct (build _); reflexivity.
Qed.

Lemma parse_method_param p :
  parse_metas [I "method"; G Paren [I p]]
  = Ok [MList {| mp_lead := false; mp_segs := ["method"] |} Paren [I p]].
Proof. vm_compute. reflexivity. Qed.

Lemma method_path pth p :
  path_seg_ok p = true -> meta_2_path (MList pth Paren [I p]) = Ok [I p].
Proof.
  intros H. unfold I. cbn [meta_2_path]. unfold parse_path_ty. cbn [has_angle existsb is_punct orb].
  unfold parse_path_all. cbn [has_angle existsb is_punct orb path_segs]. rewrite H. reflexivity.
Qed.

Lemma build_fattr_form pth fm :
  fform_ok fm -> exists fa, build_fattr true true (MList pth Paren (fform_toks fm)) = Ok fa.
Proof.
  destruct fm as [|p]; cbn [fform_ok fform_toks]; intros Hok.
  - eexists. vm_compute. reflexivity.
  - cbn [build_fattr]. rewrite parse_method_param. cbn [bind run_params foldM].
    unfold run_param, im_param.
    set (m := MList {| mp_lead := false; mp_segs := ["method"] |} Paren [I p]).
    replace (param_is m ["ignore"]) with false by reflexivity.
    replace (param_is m ["method"]) with true by reflexivity.
    cbn [negb]. unfold m. rewrite (method_path _ p Hok). cbn [bind fs_method_set]. ok.
Qed.

Lemma build_ofattr_form r pth fm :
  fform_ok fm ->
  exists fa, build_ofattr true true true r (MList pth Paren (fform_toks fm)) = Ok fa /\ oa_rank fa = r.
Proof.
  destruct fm as [|p]; cbn [fform_ok fform_toks]; intros Hok.
  - eexists. split; [vm_compute; reflexivity|reflexivity].
  - cbn [build_ofattr]. rewrite parse_method_param. cbn [bind run_params foldM].
    unfold run_param, ord_param.
    set (m := MList {| mp_lead := false; mp_segs := ["method"] |} Paren [I p]).
    replace (param_is m ["ignore"]) with false by reflexivity.
    replace (param_is m ["method"]) with true by reflexivity.
    cbn [negb]. unfold m. rewrite (method_path _ p Hok). cbn [bind os_method_set].
    eexists. split; reflexivity.
Qed.

Lemma build_dfattr_form b pth fm :
  fform_ok fm ->
  exists fa, Expand_Debug.build_dfattr b true true (MList pth Paren (fform_toks fm)) = Ok fa.
Proof.
  destruct fm as [|p]; cbn [fform_ok fform_toks]; intros Hok.
  - eexists. destruct b; vm_compute; reflexivity.
  - cbn [Expand_Debug.build_dfattr]. rewrite parse_method_param. cbn [bind run_params foldM].
    unfold run_param, Expand_Debug.df_param.
    set (m := MList {| mp_lead := false; mp_segs := ["method"] |} Paren [I p]).
    replace (param_is m ["name"; "rename"]) with false by reflexivity.
    replace (param_is m ["ignore"]) with false by reflexivity.
    replace (param_is m ["method"]) with true by reflexivity.
    cbn [negb]. unfold m. rewrite (method_path _ p Hok). cbn [bind fs_method_set]. ok.
Qed.

(** * PartialEq *)
Section Ignore.
  Variables (F : features) (traits : list trait).

  Lemma field_attrs_ign fs :
    has_trait TPartialEq F = true -> has_trait TPartialEq traits = true ->
    fa_fields TPartialEq fs -> exists l, field_attrs F traits fs = Ok l.
  Proof.
    intros HF Ht Hp. unfold field_attrs. apply mapM_all_ex. intros f Hf.
    unfold peq_field_attr. destruct (Hp f Hf) as [E|[fm [Hok E]]]; rewrite E; [ok|].
    rewrite (scan_field F _ _ traits TPartialEq fm HF Ht).
    cbn [own_partial_eq trait_eqb orb]. destruct (build_fattr_form (flag_path TPartialEq) fm Hok) as [fa Hfa].
    rewrite Hfa. ok.
  Qed.

  Lemma accept_partial_eq_ign d p :
    has_trait TPartialEq F = true -> has_trait TPartialEq traits = true ->
    fa_data TPartialEq (d_data d) -> (forall fs, d_data d <> DUnion fs) ->
    exists items, expand_partial_eq F traits d (MPath p) = Ok items.
  Proof.
    intros HF Ht Hp Hu. unfold expand_partial_eq. destruct (d_data d) as [fs|vs|fs].
    - cbn [build_tattr bind]. destruct (field_attrs_ign _ HF Ht Hp) as [l Hl]. rewrite Hl. ok.
    - cbn [build_tattr bind].
      destruct (mapM_all_ex (peq_variant F traits) vs) as [r Hr]; [|rewrite Hr; ok].
      intros v Hv. destruct (Hp v Hv) as [Ha Hfs]. unfold peq_variant. rewrite Ha.
      cbn [peq_type_attr scan_attrs foldM bind].
      destruct (v_fields v) as [l|l|]; cbn [fields_list] in Hfs; [| |ok];
        destruct (field_attrs_ign _ HF Ht Hfs) as [l' Hl]; rewrite Hl; ok.
    - exfalso. apply (Hu fs). reflexivity.
  Qed.

  (** * Hash *)
  Lemma hash_field_attrs_ign fs :
    has_trait THash F = true -> has_trait THash traits = true ->
    fa_fields THash fs -> exists l, hash_field_attrs F traits fs = Ok l.
  Proof.
    intros HF Ht Hp. unfold hash_field_attrs. apply mapM_all_ex. intros f Hf.
    unfold hash_field_attr. destruct (Hp f Hf) as [E|[fm [Hok E]]]; rewrite E; [ok|].
    rewrite (scan_field F _ _ traits THash fm HF Ht).
    cbn [trait_eqb]. destruct (build_fattr_form (flag_path THash) fm Hok) as [fa Hfa].
    rewrite Hfa. ok.
  Qed.

  Lemma accept_hash_ign d p :
    has_trait THash F = true -> has_trait THash traits = true ->
    fa_data THash (d_data d) -> (forall fs, d_data d <> DUnion fs) ->
    exists items, expand_hash F traits d (MPath p) = Ok items.
  Proof.
    intros HF Ht Hp Hu. unfold expand_hash. destruct (d_data d) as [fs|vs|fs].
    - cbn [build_tattr bind]. destruct (hash_field_attrs_ign _ HF Ht Hp) as [l Hl]. rewrite Hl. ok.
    - cbn [build_tattr bind].
      destruct (mapM_all_ex (hash_variant F traits) (indexed vs)) as [r Hr]; [|rewrite Hr; ok].
      intros [vi v] Hv. apply in_indexed in Hv. destruct (Hp v Hv) as [Ha Hfs]. unfold hash_variant.
      rewrite Ha. cbn [hash_type_attr scan_attrs foldM bind].
      destruct (hash_field_attrs_ign _ HF Ht Hfs) as [l Hl]. rewrite Hl. ok.
    - exfalso. apply (Hu fs). reflexivity.
  Qed.

  (** * PartialOrd / Ord: an ignored field takes no rank *)
  Section Plan.
    Variables (own : trait -> bool) (t : trait).
    Hypothesis (HF : has_trait t F = true) (Ht : has_trait t traits = true) (Hown : own t = true).

    Lemma plan_fields_from_ign : forall l k p,
      fa_fields t l -> ranks_below k p ->
      exists p', foldM (plan_field F own traits) p (index_from k l) = Ok p'.
    Proof.
      induction l as [|f l IH]; intros k p Hp Hr; cbn [index_from foldM]; [ok|].
      assert (Hrest : fa_fields t l) by (intros g Hg; apply Hp; right; exact Hg).
      assert (Hfa : exists fa, ord_field_attr F own traits k (f_attrs f) = Ok fa /\
                               oa_rank fa = default_rank k).
      { unfold ord_field_attr. destruct (Hp f (or_introl eq_refl)) as [E|[fm [Hok E]]]; rewrite E.
        - eexists. split; reflexivity.
        - rewrite (scan_field F own _ traits t fm HF Ht). rewrite Hown.
          destruct (build_ofattr_form (default_rank k) (flag_path t) fm Hok) as [fa [Hfa Hrk]].
          rewrite Hfa. exists fa. split; [reflexivity|exact Hrk]. }
      destruct Hfa as [fa [Hfa Hrk]].
      unfold plan_field at 1. rewrite Hfa. cbn [bind]. destruct (oa_ignore fa).
      - (* an ignored field takes no rank *)
        apply IH; [exact Hrest|]. unfold ranks_below. cbn [fp_sorted].
        eapply Forall_impl; [|exact Hr]. intros kt [j [Hj Hk]]. exists j. split; [lia|exact Hk].
      - rewrite Hrk. rewrite rank_mem_false.
        + apply IH; [exact Hrest|].
          unfold ranks_below. cbn [fp_sorted]. apply rank_insert_Forall.
          * exists k. split; [lia|reflexivity].
          * eapply Forall_impl; [|exact Hr]. intros kt [j [Hj Hk]]. exists j. split; [lia|exact Hk].
        + eapply Forall_impl; [|exact Hr]. intros kt [j [Hj Hk]]. rewrite Hk. unfold default_rank. lia.
    Qed.

    Lemma plan_fields_ign fs : fa_fields t fs -> exists p, plan_fields F own traits fs = Ok p.
    Proof.
      intros Hp. unfold plan_fields, indexed. apply plan_fields_from_ign; [exact Hp|constructor].
    Qed.

    Lemma plan_variants_ign vs :
      fa_variants t vs -> exists vps, mapM (plan_variant F own traits) vs = Ok vps.
    Proof.
      intros Hp. apply mapM_all_ex. intros v Hv. destruct (Hp v Hv) as [Ha Hfs]. unfold plan_variant.
      rewrite Ha. cbn [ord_variant_attr scan_attrs foldM bind].
      destruct (v_fields v) as [l|l|]; cbn [fields_list] in Hfs; [| |ok];
        destruct (plan_fields_ign l Hfs) as [p Hpl]; rewrite Hpl; ok.
    Qed.
  End Plan.

  Lemma accept_partial_ord_ign d p :
    has_trait TPartialOrd F = true -> has_trait TPartialOrd traits = true ->
    fa_data TPartialOrd (d_data d) ->
    match d_data d with
    | DStruct _ => True
    | DEnum vs => exists ds, discriminant_values vs = Ok ds
    | DUnion _ => False
    end ->
    exists items, expand_partial_ord F traits d (MPath p) = Ok items.
  Proof.
    intros HF Ht Hp Hs. unfold expand_partial_ord.
    destruct (has_trait TOrd F && has_trait TOrd traits); [ok|].
    destruct (d_data d) as [fs|vs|fs]; [| |destruct Hs]; cbn [build_tattr bind].
    - destruct (plan_fields_ign (trait_eqb TPartialOrd) TPartialOrd HF Ht eq_refl _ Hp) as [pl Hpl].
      rewrite Hpl. ok.
    - destruct Hs as [ds Hds]. rewrite Hds. cbn [bind].
      destruct (plan_variants_ign (trait_eqb TPartialOrd) TPartialOrd HF Ht eq_refl vs Hp) as [vps Hv].
      rewrite Hv. ok.
  Qed.

  Lemma accept_ord_ign d p :
    has_trait TOrd F = true -> has_trait TOrd traits = true ->
    fa_data TOrd (d_data d) ->
    match d_data d with
    | DStruct _ => True
    | DEnum vs => exists ds, discriminant_values vs = Ok ds
    | DUnion _ => False
    end ->
    exists items, expand_ord F traits d (MPath p) = Ok items.
  Proof.
    intros HF Ht Hp Hs. unfold expand_ord.
    destruct (d_data d) as [fs|vs|fs]; [| |destruct Hs]; cbn [build_tattr bind].
    - destruct (plan_fields_ign (own_ord F traits) TOrd HF Ht eq_refl _ Hp) as [pl Hpl].
      rewrite Hpl. ok.
    - destruct Hs as [ds Hds]. rewrite Hds. cbn [bind].
      destruct (plan_variants_ign (own_ord F traits) TOrd HF Ht eq_refl vs Hp) as [vps Hv].
      rewrite Hv. ok.
  Qed.

  (** * Debug: the name is shown (the type's, or the variant's), so a type / a variant all of
      whose fields are ignored is still accepted *)
  Lemma debug_field_attrs_ign b fs :
    has_trait TDebug F = true -> has_trait TDebug traits = true ->
    fa_fields TDebug fs -> exists l, debug_field_attrs F traits b fs = Ok l.
  Proof.
    intros HF Ht Hp. unfold debug_field_attrs.
    match goal with |- context [mapM ?g fs] => destruct (mapM_all_ex g fs) as [r Hr] end;
      [|rewrite Hr; ok].
    intros f Hf. unfold debug_field_attr. destruct (Hp f Hf) as [E|[fm [Hok E]]]; rewrite E; [ok|].
    rewrite (scan_field F _ _ traits TDebug fm HF Ht).
    cbn [trait_eqb]. destruct (build_dfattr_form b (flag_path TDebug) fm Hok) as [fa Hfa].
    rewrite Hfa. ok.
  Qed.

  Lemma accept_debug_ign d p :
    has_trait TDebug F = true -> has_trait TDebug traits = true ->
    fa_data TDebug (d_data d) ->
    match d_data d with DStruct _ => True | DEnum vs => vs <> [] | DUnion _ => False end ->
    exists items, expand_debug F traits d (MPath p) = Ok items.
  Proof.
    intros HF Ht Hp Hs. unfold expand_debug. destruct (d_data d) as [fs|vs|fs]; [| |destruct Hs].
    - cbn [Expand_Debug.build_dtattr tb_flag bind Expand_Debug.dtattr_default Expand_Debug.dt_name
           tb_name0 tname_ident Expand_Debug.dt_named_field tb_named_field0].
      destruct (debug_field_attrs_ign (negb match fs with FUnnamed _ => true | _ => false end)
                  _ HF Ht Hp) as [l Hl].
      rewrite Hl. cbn [bind is_some negb andb]. rewrite andb_false_r. ok.
    - cbn [Expand_Debug.build_dtattr tb_flag bind Expand_Debug.dtattr_default Expand_Debug.dt_name
           tb_name0 tname_ident].
      destruct (mapM_all_ex (debug_variant F traits None) vs) as [r Hr].
      + intros v Hv. destruct (Hp v Hv) as [Ha Hfs]. unfold debug_variant. rewrite Ha.
        cbn [debug_variant_attr scan_attrs foldM bind Expand_Debug.dtattr_default Expand_Debug.dt_name
             tb_name0 tname_ident name_string is_some Expand_Debug.dt_named_field tb_named_field0].
        destruct (v_fields v) as [l|l|]; cbn [fields_list] in Hfs; [| |ok];
          match goal with |- context [debug_field_attrs F traits ?b ?x] =>
            destruct (debug_field_attrs_ign b x HF Ht Hfs) as [l' Hl] end;
          rewrite Hl; cbn [bind]; rewrite andb_false_r; ok.
      + rewrite Hr. cbn [bind]. pose proof (mapM_ok_length _ _ _ Hr) as Hlen.
        destruct r as [|x r]; [destruct vs; [contradiction|discriminate Hlen]|]. ok.
  Qed.

  Lemma handler_accepts_ign d t h p :
    In (t, h) handlers -> ignorable t ->
    has_trait t F = true -> has_trait t traits = true ->
    fa_data t (d_data d) -> flag_accepted t (d_data d) ->
    exists items, h F traits d (MPath p) = Ok items.
  Proof.
    intros Hin Hi HF Ht Hp Hs. unfold handlers in Hin. cbn [In] in Hin.
    repeat (destruct Hin as [Hin|Hin]; [inversion Hin; subst t h; clear Hin|]); [..|destruct Hin];
      cbn [flag_accepted ignorable] in Hs, Hi; try contradiction.
    - apply accept_debug_ign; assumption.
    - apply accept_partial_eq_ign; try assumption. intros fs E. rewrite E in Hs. exact Hs.
    - apply accept_partial_ord_ign; assumption.
    - apply accept_ord_ign; assumption.
    - apply accept_hash_ign; try assumption. intros fs E. rewrite E in Hs. exact Hs.
  Qed.
End Ignore.

(** * the whole macro: acceptance of `#[educe(T1, .., Tn)]` reduced to the acceptance of its flags
    by their handlers (the proof of [expand_accepts_flags] with that hypothesis left open) *)
Theorem expand_flags_by_handlers F d ts :
  ts <> [] -> NoDup ts -> ~ In TInto ts ->
  (forall t, In t ts -> has_trait t F = true) ->
  d_attrs d = [educe_flags ts] ->
  (forall t h, In (t, h) handlers -> In t ts -> exists its, h F ts d (flag_meta t) = Ok its) ->
  exists items, expand F d = Ok items.
Proof.
  intros Hne Hnd Hni HF Ha Hcalls0.
  assert (Htm : foldM (collect_attr F) [] (d_attrs d) = Ok (flag_tmap ts)).
  { rewrite Ha. cbn [foldM]. unfold collect_attr at 1.
    cbn [is_educe educe_flags a_path a_meta String.eqb Ascii.eqb Bool.eqb].
    rewrite (parse_metas_flags ts Hne). cbn [bind].
    rewrite (collect_flags F ts [] Hnd HF); [reflexivity|]. intros t _ []. }
  assert (Hfst : map fst (flag_tmap ts) = ts).
  { unfold flag_tmap. rewrite map_map. cbn [fst]. apply map_id. }
  assert (Hcalls : forall t h, In (t, h) handlers -> has_trait t ts = true ->
                               exists its, h F ts d (flag_meta t) = Ok its).
  { intros t h Hin Ht. apply has_trait_in in Ht. apply (Hcalls0 t h Hin Ht). }
  unfold expand. rewrite Htm. cbn [bind]. rewrite Hfst.
  rewrite (fold_handlers_flags F ts d handlers [] Hcalls). cbn [bind app].
  rewrite tmap_get_flags.
  replace (has_trait TInto ts) with false
    by (destruct (has_trait TInto ts) eqn:E; [apply has_trait_in in E; contradiction|reflexivity]).
  cbn [bind].
  assert (Hnonempty : List.concat (map (items_of F ts d) handlers) <> []).
  { assert (Hone : forall t h its, In t ts -> In (t, h) handlers ->
              h F ts d (flag_meta t) = Ok its -> its <> [] ->
              List.concat (map (items_of F ts d) handlers) <> []).
    { intros t h its Ht Hin Hits Hn. apply (concat_in_nonempty _ its); [|exact Hn].
      apply in_map_iff. exists (t, h). split; [|exact Hin]. unfold items_of. cbn [fst snd].
      rewrite (HF t Ht), (proj2 (has_trait_in t ts) Ht), Hits. reflexivity. }
    assert (Hprim : forall t, In t ts -> t <> TCopy -> t <> TEq -> t <> TPartialOrd ->
              List.concat (map (items_of F ts d) handlers) <> []).
    { intros t Ht Hc He Hpo. destruct (handler_of t) as [h Hin]; [intros ->; contradiction|].
      destruct (Hcalls t h Hin (proj2 (has_trait_in t ts) Ht)) as [its Hits].
      destruct (handler_nonempty_any F _ d t h _ its Hin Hits) as [Hn|[[E _]|[[E _]|[E _]]]];
        [|contradiction|contradiction|contradiction].
      apply (Hone t h its Ht Hin Hits Hn). }
    destruct ts as [|t0 r]; [congruence|].
    assert (Ht0 : In t0 (t0 :: r)) by (left; reflexivity).
    destruct (handler_of t0) as [h0 Hin0]; [intros ->; contradiction|].
    destruct (Hcalls t0 h0 Hin0 (proj2 (has_trait_in _ _) Ht0)) as [its0 Hits0].
    destruct (handler_nonempty_any F _ d t0 h0 _ its0 Hin0 Hits0) as [Hn|[[-> Hc]|[[-> Hc]|[-> Hc]]]].
    - apply (Hone t0 h0 its0 Ht0 Hin0 Hits0 Hn).
    - apply andb_prop in Hc as [_ Hc]. apply has_trait_in in Hc.
      apply (Hprim TClone Hc); discriminate.
    - apply andb_prop in Hc as [_ Hc]. apply has_trait_in in Hc.
      apply (Hprim TPartialEq Hc); discriminate.
    - apply andb_prop in Hc as [_ Hc]. apply has_trait_in in Hc.
      apply (Hprim TOrd Hc); discriminate. }
  destruct (List.concat (map (items_of F ts d) handlers)) as [|it its]; [contradiction|].
  eexists. reflexivity.
Qed.

(** `#[educe(T)]` with `#[educe(T(ignore))]` / `#[educe(T(method(f)))]` on some (possibly all) fields *)
Theorem expand_accepts_flag_fattr F d t :
  ignorable t -> has_trait t F = true ->
  d_attrs d = [educe_flag (trait_name t)] ->
  fa_data t (d_data d) -> flag_accepted t (d_data d) ->
  exists items, expand F d = Ok items.
Proof.
  intros Hi HF Ha Hp Hs.
  apply (expand_flags_by_handlers F d [t]).
  - discriminate.
  - repeat constructor. intros [].
  - intros [E|[]]. subst t. exact Hi.
  - intros t' [<-|[]]. exact HF.
  - rewrite Ha. reflexivity.
  - intros t' h Hin [<-|[]].
    apply (handler_accepts_ign F [t] d t h _ Hin Hi HF); [|exact Hp|exact Hs].
    cbn [has_trait existsb]. rewrite trait_eqb_refl. reflexivity.
Qed.

Theorem expand_accepts_flag_ignore F d t :
  ignorable t -> has_trait t F = true ->
  d_attrs d = [educe_flag (trait_name t)] ->
  ign_data t (d_data d) -> flag_accepted t (d_data d) ->
  exists items, expand F d = Ok items.
Proof.
  intros Hi HF Ha Hp Hs. apply (expand_accepts_flag_fattr F d t Hi HF Ha); [|exact Hs].
  apply ign_fa_data. exact Hp.
Qed.
