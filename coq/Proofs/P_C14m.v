(** C14, part m: from tokens to metas.  The three token shapes of a parameter — `a`, `a(..)`,
    `a = v` — parse to the three meta shapes with the one-segment path `a`; the value after `=` is
    classified as the [sp_*] relations of Spec/Spelling.v expect; and rule (6) at the level of
    tokens: a list `A.., B..` parses to the metas of `A..` followed by those of `B..`, a trailing
    comma changes nothing (up to how a negative literal is classified). *)
From Educe.Proofs Require Export P_C14l.

Definition mp (s : string) : mpath := {| mp_lead := false; mp_segs := [s] |}.

(** a parameter / trait name: an identifier that may be a path segment, or `unsafe` *)
Definition name_ok (a : string) : Prop := mod_seg_ok a = true \/ a = "unsafe"%string.

Lemma parse_mpath_not_unsafe a rest :
  a <> "unsafe"%string ->
  parse_mpath (TIdent a :: rest) =
  match path_segs mod_seg_ok (TIdent a :: rest) with
  | Some (l, r) => Some ({| mp_lead := false; mp_segs := l |}, r)
  | None => None
  end.
Proof.
  intros H. unfold parse_mpath.
  destruct a as [|[[] [] [] [] [] [] [] []] a]; try reflexivity.
  destruct a as [|[[] [] [] [] [] [] [] []] a]; try reflexivity.
  destruct a as [|[[] [] [] [] [] [] [] []] a]; try reflexivity.
  destruct a as [|[[] [] [] [] [] [] [] []] a]; try reflexivity.
  destruct a as [|[[] [] [] [] [] [] [] []] a]; try reflexivity.
  destruct a as [|[[] [] [] [] [] [] [] []] a]; try reflexivity.
  destruct a; [congruence|reflexivity].
Qed.

Lemma parse_mpath_word a : name_ok a -> parse_mpath [TIdent a] = Some (mp a, []).
Proof.
  intros [H|H].
  - destruct (string_dec a "unsafe") as [->|Hn]; [reflexivity|].
    rewrite (parse_mpath_not_unsafe a [] Hn). cbn [path_segs]. rewrite H. reflexivity.
  - subst. reflexivity.
Qed.

Lemma parse_mpath_group a d ts : name_ok a -> parse_mpath [TIdent a; TGroup d ts] = Some (mp a, [TGroup d ts]).
Proof.
  intros [H|H].
  - destruct (string_dec a "unsafe") as [->|Hn]; [reflexivity|].
    rewrite (parse_mpath_not_unsafe a _ Hn). cbn [path_segs]. rewrite H. reflexivity.
  - subst. reflexivity.
Qed.

Lemma parse_mpath_eq a v : name_ok a -> parse_mpath (TIdent a :: TPunct "=" :: v) = Some (mp a, TPunct "=" :: v).
Proof.
  intros [H|H].
  - destruct (string_dec a "unsafe") as [->|Hn]; [reflexivity|].
    rewrite (parse_mpath_not_unsafe a _ Hn). cbn [path_segs]. rewrite H. reflexivity.
  - subst. reflexivity.
Qed.

(** ** the three shapes *)
Theorem chunk_word last a : name_ok a -> parse_meta_chunk last [TIdent a] = Ok (MPath (mp a)).
Proof. intros H. unfold parse_meta_chunk. rewrite (parse_mpath_word a H). reflexivity. Qed.

Theorem chunk_list last a d ts :
  name_ok a -> parse_meta_chunk last [TIdent a; TGroup d ts] = Ok (MList (mp a) d ts).
Proof. intros H. unfold parse_meta_chunk. rewrite (parse_mpath_group a d ts H). reflexivity. Qed.

Theorem chunk_nv last a v :
  name_ok a ->
  parse_meta_chunk last (TIdent a :: TPunct "=" :: v) =
  (let* x := classify_value last v in Ok (MNameValue (mp a) x)).
Proof. intros H. unfold parse_meta_chunk. rewrite (parse_mpath_eq a v H). reflexivity. Qed.

(** ** the value after `=` *)
Lemma classify_lit last t : is_lit_tok t = true -> classify_value last [t] = Ok (XLit t).
Proof. intros H. unfold classify_value. rewrite H. destruct t; try reflexivity; discriminate H. Qed.

Lemma mod_seg_ok_not_lit s : mod_seg_ok s = true -> is_lit_tok (TIdent s) = false.
Proof.
  intros H. cbn [is_lit_tok is_bool_tok].
  destruct (String.eqb s "true") eqn:E1; [apply String.eqb_eq in E1; subst s; discriminate H|].
  destruct (String.eqb s "false") eqn:E2; [apply String.eqb_eq in E2; subst s; discriminate H|].
  reflexivity.
Qed.

Lemma classify_ident last s :
  mod_seg_ok s = true -> classify_value last [TIdent s] = Ok (XPath [TIdent s]).
Proof.
  intros H. unfold classify_value. rewrite (mod_seg_ok_not_lit s H).
  unfold parse_path_all. cbn [has_angle existsb is_punct orb path_segs]. unfold path_seg_ok.
  rewrite H. reflexivity.
Qed.

Lemma classify_neg last t :
  is_num_lit t = true ->
  classify_value last [TPunct "-"; t] = Ok (if last then XNegLit t else XUnaryNeg t).
Proof. intros H. cbn [classify_value]. rewrite H. reflexivity. Qed.

(** ** the documented token spellings are members of the [sp_*] relations *)
Definition parses_to (last : bool) (ts : toks) (P : meta -> Prop) : Prop :=
  exists m, parse_meta_chunk last ts = Ok m /\ P m.

Definition sstr (text value : string) (ts : toks) : tt := TStr text value (Some ts).

Theorem tokens_bool last a b d :
  name_ok a ->
  parses_to last [TIdent a; TPunct "="; tok_bool b] (fun m => named a m /\ sp_bool false b m) /\
  parses_to last [TIdent a; TGroup d [tok_bool b]] (fun m => named a m /\ sp_bool false b m) /\
  parses_to last [TIdent a] (fun m => named a m /\ sp_bool true true m).
Proof.
  intros H. repeat split.
  - eexists. rewrite (chunk_nv last a _ H), classify_lit; [|destruct b; reflexivity].
    split; [reflexivity|]. split; [reflexivity|apply SB_nv].
  - eexists. rewrite (chunk_list last a d _ H). split; [reflexivity|]. split; [reflexivity|apply SB_list].
  - eexists. rewrite (chunk_word last a H). split; [reflexivity|]. split; [reflexivity|].
    apply SB_word; reflexivity.
Qed.

Theorem tokens_ident last a X d text value :
  name_ok a -> ident_ok X = true -> value <> ""%string ->
  let P := fun m => named a m /\ sp_ident X m in
  parses_to last [TIdent a; TPunct "="; TIdent X] P /\
  parses_to last [TIdent a; TGroup d [TIdent X]] P /\
  parses_to last [TIdent a; TPunct "="; sstr text value [TIdent X]] P /\
  parses_to last [TIdent a; TGroup d [sstr text value [TIdent X]]] P.
Proof.
  intros H HX Hv P.
  assert (Hm : mod_seg_ok X = true).
  { unfold mod_seg_ok. unfold ident_ok in HX. rewrite HX. reflexivity. }
  repeat split.
  - eexists. rewrite (chunk_nv last a _ H), (classify_ident last X Hm).
    split; [reflexivity|]. split; [reflexivity|apply SI_nv].
  - eexists. rewrite (chunk_list last a d _ H). split; [reflexivity|]. split; [reflexivity|apply SI_list].
  - eexists. rewrite (chunk_nv last a _ H), classify_lit; [|reflexivity].
    split; [reflexivity|]. split; [reflexivity|]. apply SI_nv_str. apply StrOf. intros E. contradiction.
  - eexists. rewrite (chunk_list last a d _ H). split; [reflexivity|]. split; [reflexivity|].
    apply SI_list_str. apply StrOf. intros E. contradiction.
Qed.

Theorem tokens_int last a v sfx txt d text value :
  name_ok a -> parse_isize_str value = Ok v ->
  let lit := TLit (LKInt v sfx) txt in
  let P := fun m => named a m /\ sp_int v m in
  parses_to last [TIdent a; TPunct "="; lit] P /\
  parses_to last [TIdent a; TGroup d [lit]] P /\
  parses_to last [TIdent a; TPunct "="; TStr text value None] P /\
  parses_to last [TIdent a; TGroup d [TStr text value None]] P /\
  parses_to last [TIdent a; TPunct "="; TPunct "-"; lit] (fun m => named a m /\ sp_int (- v)%Z m) /\
  parses_to last [TIdent a; TGroup d [TPunct "-"; lit]] (fun m => named a m /\ sp_int (- v)%Z m).
Proof.
  intros H Hv lit P. repeat split.
  - eexists. rewrite (chunk_nv last a _ H), classify_lit; [|reflexivity].
    split; [reflexivity|]. split; [reflexivity|apply SZ_nv; reflexivity].
  - eexists. rewrite (chunk_list last a d _ H). split; [reflexivity|]. split; [reflexivity|].
    apply SZ_list; reflexivity.
  - eexists. rewrite (chunk_nv last a _ H), classify_lit; [|reflexivity].
    split; [reflexivity|]. split; [reflexivity|apply SZ_nv_str; exact Hv].
  - eexists. rewrite (chunk_list last a d _ H). split; [reflexivity|]. split; [reflexivity|].
    apply SZ_list_str; exact Hv.
  - eexists. rewrite (chunk_nv last a _ H), classify_neg; [|reflexivity].
    split; [reflexivity|]. split; [reflexivity|]. destruct last; [apply SZ_nv_neg|apply SZ_nv_uneg]; reflexivity.
  - eexists. rewrite (chunk_list last a d _ H). split; [reflexivity|]. split; [reflexivity|].
    apply SZ_list_neg; reflexivity.
Qed.

Theorem tokens_preds last a ts d text value :
  name_ok a -> preds_head_ok ts = true -> (value = ""%string -> ts = []) ->
  let P := fun m => named a m /\ sp_bound (BRPreds ts) m in
  parses_to last [TIdent a; TGroup d ts] P /\
  parses_to last [TIdent a; TPunct "="; sstr text value ts] P /\
  parses_to last [TIdent a; TGroup d [sstr text value ts]] P.
Proof.
  intros H Hh Hv P. repeat split.
  - eexists. rewrite (chunk_list last a d _ H). split; [reflexivity|]. split; [reflexivity|].
    apply SBD_preds. exact Hh.
  - eexists. rewrite (chunk_nv last a _ H), classify_lit; [|reflexivity].
    split; [reflexivity|]. split; [reflexivity|]. apply SBD_nv_str. apply StrOf. exact Hv.
  - eexists. rewrite (chunk_list last a d _ H). split; [reflexivity|]. split; [reflexivity|].
    apply SBD_list_str. apply StrOf. exact Hv.
Qed.

(** * rule (6) on tokens *)
Lemma split_commas_nonempty ts : split_commas ts <> [].
Proof.
  destruct ts as [|t r]; cbn [split_commas]; [discriminate|].
  destruct (is_punct "," t); [discriminate|]. destruct (split_commas r); discriminate.
Qed.

Lemma split_commas_app a b : split_commas (a ++ TPunct "," :: b) = split_commas a ++ split_commas b.
Proof.
  induction a as [|t r IH]; cbn [app split_commas].
  - reflexivity.
  - destruct (is_punct "," t).
    + rewrite IH. reflexivity.
    + rewrite IH. pose proof (split_commas_nonempty r) as Hne.
      destruct (split_commas r) as [|c cs]; [contradiction|]. reflexivity.
Qed.

(** the parser of a list, restated: every chunk but the last is parsed as "followed by a comma" *)
Lemma parse_chunks_app tr ca cb :
  cb <> [] ->
  parse_chunks tr (ca ++ cb) =
  (let* ma := mapM (parse_meta_chunk false) ca in
   let* mb := parse_chunks tr cb in Ok (ma ++ mb)).
Proof.
  intros Hb. induction ca as [|c r IH]; cbn [app mapM bind].
  - destruct (parse_chunks tr cb); reflexivity.
  - destruct (r ++ cb) as [|c2 r2] eqn:E.
    + apply app_eq_nil in E. destruct E as [_ E]. contradiction.
    + change (parse_chunks tr (c :: c2 :: r2))
        with (let* m := parse_meta_chunk false c in
              let* ms := parse_chunks tr (c2 :: r2) in Ok (m :: ms)).
      rewrite IH.
      destruct (parse_meta_chunk false c); cbn [bind]; try reflexivity.
      destruct (mapM (parse_meta_chunk false) r); cbn [bind]; try reflexivity.
      destruct (parse_chunks tr cb); reflexivity.
Qed.

Lemma parse_metas_chunks ts :
  parse_metas ts = parse_chunks (is_nil (last (split_commas ts) [])) (split_commas ts).
Proof.
  unfold parse_metas. destruct (split_commas ts) as [|c [|c2 r]] eqn:E; try reflexivity;
    destruct c; reflexivity.
Qed.

(** a negative literal is [XNegLit] at the end of the list and [XUnaryNeg] before a comma *)
Definition neg_rel (x y : nvexpr) : Prop := x = y \/ exists t, x = XNegLit t /\ y = XUnaryNeg t.

Lemma classify_last v : osimR neg_rel (classify_value true v) (classify_value false v).
Proof.
  assert (Hrefl : forall x : outcome nvexpr, osimR neg_rel x x).
  { intros [x| | |]; cbn; auto. left. reflexivity. }
  assert (Hang : forall c1 c2 w, osimR neg_rel (angle_expr c1 w) (angle_expr c2 w)).
  { intros c1 c2 w. unfold angle_expr. destruct (path_start_ok w); [|exact Logic.I].
    destruct (qpath_expr w) as [y| | |]; try (destruct c1, c2; exact Logic.I).
    destruct (snd y) as [|lt [|a [|c r]]]; try exact Logic.I.
    - left. reflexivity.
    - repeat match goal with |- context [if ?b then _ else _] => destruct b end; exact Logic.I. }
  assert (Htail : forall w, osimR neg_rel
            (if has_angle w then classify_angle true w else
             match parse_path_all w with Ok p => Ok (XPath p) | _ => let* _ := expr_all w in Ok (XOther w) end)
            (if has_angle w then classify_angle false w else
             match parse_path_all w with Ok p => Ok (XPath p) | _ => let* _ := expr_all w in Ok (XOther w) end)).
  { intros w. destruct (has_angle w); [apply Hang|apply Hrefl]. }
  unfold classify_value. destruct v as [|t1 [|t2 [|t3 r]]]; try apply Hrefl.
  - destruct t1 as [s|s|s|k s|a b c|d l]; try apply Htail.
    destruct s as [|[[] [] [] [] [] [] [] []] [|c s]]; try apply Htail.
    destruct (is_num_lit t2); [|apply Hrefl]. right. exists t2. split; reflexivity.
  - destruct t1 as [s|s|s|k s|a b c|d l]; try apply Htail.
    destruct s as [|[[] [] [] [] [] [] [] []] [|c s]]; apply Htail.
Qed.

Definition chunk_rel (pos : position) (m m' : meta) : Prop := tmeta_equiv pos m m'.

Lemma parse_meta_chunk_last pos c :
  osimR (tmeta_equiv pos) (parse_meta_chunk true c) (parse_meta_chunk false c).
Proof.
  assert (Hrefl : forall x : outcome meta, osimR (tmeta_equiv pos) x x).
  { intros [x| | |]; cbn; auto. apply TE_refl. }
  unfold parse_meta_chunk. destruct (parse_mpath c) as [[p rest]|]; [|exact Logic.I].
  destruct rest as [|t r]; [apply Hrefl|].
  destruct t as [s|s|s|k s|a b x|d l]; try apply Hrefl.
  destruct s as [|[[] [] [] [] [] [] [] []] [|c0 s0]]; try apply Hrefl.
  eapply osimR_bind; [exact (classify_last r)|].
  intros x y [->|[t [-> ->]]]; cbn [osimR]; [apply TE_refl|apply TE_neg].
Qed.

(** one list `A.., B..` against the two lists `A..` and `B..` *)
Theorem parse_metas_concat pos ta tb ma mb :
  parse_metas ta = Ok ma -> parse_metas tb = Ok mb ->
  is_nil (last (split_commas ta) []) = false ->
  exists m, parse_metas (ta ++ TPunct "," :: tb) = Ok m /\ Forall2 (tmeta_equiv pos) m (ma ++ mb).
Proof.
  intros Ha Hb Hnt. rewrite parse_metas_chunks in Ha, Hb. rewrite parse_metas_chunks, split_commas_app.
  rewrite Hnt in Ha.
  assert (Hlast : last (split_commas ta ++ split_commas tb) [] = last (split_commas tb) []).
  { pose proof (split_commas_nonempty tb) as Hne. revert Hne. generalize (split_commas tb) as cb.
    generalize (split_commas ta) as ca. induction ca as [|c r IH]; intros cb Hne; cbn [app]; [reflexivity|].
    cbn [last]. destruct (r ++ cb) eqn:E; [apply app_eq_nil in E; destruct E; contradiction|].
    rewrite <- E. apply IH. exact Hne. }
  rewrite Hlast, (parse_chunks_app _ _ _ (split_commas_nonempty tb)), Hb.
  (* the chunks of ta: all but the last are parsed alike; the last one with the other flag *)
  destruct (exists_last (split_commas_nonempty ta)) as [ca [cl Eca]]. rewrite Eca in Ha |- *.
  assert (Hne1 : [cl] <> []) by discriminate.
  rewrite (parse_chunks_app false ca [cl] Hne1) in Ha.
  apply bind_ok' in Ha. destruct Ha as [m1 [Hm1 Ha]]. apply bind_ok' in Ha. destruct Ha as [m2 [Hm2 Ha]].
  inversion Ha. subst ma. cbn [parse_chunks andb negb] in Hm2.
  apply bind_ok' in Hm2. destruct Hm2 as [ml [Hml Hm2]]. inversion Hm2. subst m2.
  pose proof (parse_meta_chunk_last pos cl) as Hl. rewrite Hml in Hl.
  destruct (parse_meta_chunk false cl) as [ml'| | |] eqn:Eml; cbn [osimR] in Hl; try contradiction.
  assert (Hmap : mapM (parse_meta_chunk false) (ca ++ [cl]) = Ok (m1 ++ [ml'])).
  { clear - Hm1 Eml. revert m1 Hm1. induction ca as [|c r IH]; intros m1 Hm1; cbn [app mapM] in *.
    - inversion Hm1. rewrite Eml. reflexivity.
    - apply bind_ok' in Hm1. destruct Hm1 as [x [Hx Hm1]]. apply bind_ok' in Hm1.
      destruct Hm1 as [xs [Hxs Hm1]]. inversion Hm1. subst. rewrite Hx, (IH xs Hxs). reflexivity. }
  rewrite Hmap. cbn [bind]. eexists. split; [reflexivity|].
  rewrite <- !app_assoc. apply Forall2_app; [apply Forall2_refl_In; intros; apply TE_refl|].
  cbn [app]. constructor; [apply TE_sym; exact Hl|]. apply Forall2_refl_In. intros; apply TE_refl.
Qed.

(** a trailing comma *)
Corollary parse_metas_trailing_comma pos ta ma :
  parse_metas ta = Ok ma -> is_nil (last (split_commas ta) []) = false ->
  exists m, parse_metas (ta ++ [TPunct ","]) = Ok m /\ Forall2 (tmeta_equiv pos) m ma.
Proof.
  intros Ha Hnt. destruct (parse_metas_concat pos ta [] ma [] Ha eq_refl Hnt) as [m [E H]].
  exists m. split; [exact E|]. rewrite app_nil_r in H. exact H.
Qed.

(** hence: one `#[educe(A.., B..)]` against `#[educe(A..)] #[educe(B..)]` *)
Theorem one_list_or_two_attributes pos d1 d2 d3 ta tb ma mb :
  parse_metas ta = Ok ma -> parse_metas tb = Ok mb ->
  is_nil (last (split_commas ta) []) = false ->
  attrs_equiv (metas_equiv pos) false
    [{| a_path := ["educe"%string]; a_meta := AMList d1 (ta ++ TPunct "," :: tb) |}]
    [{| a_path := ["educe"%string]; a_meta := AMList d2 ta |};
     {| a_path := ["educe"%string]; a_meta := AMList d3 tb |}].
Proof.
  intros Ha Hb Hnt. destruct (parse_metas_concat pos ta tb ma mb Ha Hb Hnt) as [m [E H]].
  exists m, (ma ++ mb). split.
  - cbn [attrs_metas]. unfold attr_metas. cbn [is_educe a_path a_meta String.eqb Ascii.eqb Bool.eqb].
    rewrite E. cbn [bind]. rewrite app_nil_r. reflexivity.
  - split.
    + cbn [attrs_metas]. unfold attr_metas. cbn [is_educe a_path a_meta String.eqb Ascii.eqb Bool.eqb].
      rewrite Ha, Hb. cbn [bind]. rewrite app_nil_r. reflexivity.
    + exists m. split; [apply rperm_refl|exact H].
Qed.

(** * paths and expressions after `=` *)
Lemma parse_path_all_ok ts p : parse_path_all ts = Ok p -> p = ts.
Proof.
  unfold parse_path_all. destruct (has_angle ts); [discriminate|].
  destruct (path_segs path_seg_ok _) as [[l [|t r]]|]; try discriminate. intros H. inversion H. reflexivity.
Qed.

Lemma parse_path_all_no_angle ts p : parse_path_all ts = Ok p -> has_angle ts = false.
Proof. unfold parse_path_all. destruct (has_angle ts); [discriminate|reflexivity]. Qed.

(** the general branch of [classify_value] *)
Definition classify_tail (last : bool) (v : toks) : outcome nvexpr :=
  if has_angle v then classify_angle last v else
  match parse_path_all v with
  | Ok p => Ok (XPath p)
  | _ => let* _ := expr_all v in Ok (XOther v)
  end.

Lemma classify_tail_nv_of last v x :
  (forall t, v <> [t]) -> classify_tail last v = Ok x -> nv_of v x.
Proof.
  intros Hs. unfold classify_tail. destruct (has_angle v).
  { unfold classify_angle. intros H. apply angle_expr_ok in H. destruct H as [-> _]. apply NV_other.
    intros t Ht. exfalso. exact (Hs t Ht). }
  destruct (parse_path_all v) as [p| | |] eqn:Ep.
  - pose proof (parse_path_all_ok v p Ep) as Epv. subst p. intros H. inversion H. apply NV_path. exact Ep.
  - intros H. apply bind_ok' in H. destruct H as [u [_ H]]. inversion H. apply NV_other.
    intros t Ht. exfalso. exact (Hs t Ht).
  - intros H. apply bind_ok' in H. destruct H as [u [_ H]]. inversion H. apply NV_other.
    intros t Ht. exfalso. exact (Hs t Ht).
  - intros H. apply bind_ok' in H. destruct H as [u [_ H]]. inversion H. apply NV_other.
    intros t Ht. exfalso. exact (Hs t Ht).
Qed.

Lemma classify_tail_path last v : parse_path_all v = Ok v -> classify_tail last v = Ok (XPath v).
Proof.
  intros H. unfold classify_tail. rewrite (parse_path_all_no_angle v v H), H. reflexivity.
Qed.

Definition classify_single (t1 : tt) : outcome nvexpr :=
  if is_lit_tok t1 then Ok (XLit t1)
  else match parse_path_all [t1] with
       | Ok p => Ok (XPath p)
       | _ => match t1 with
              | TIdent _ => Err E_syn
              | _ => let* _ := expr_all [t1] in Ok (XOther [t1])
              end
       end.

Lemma classify_single_nv_of t1 v : classify_single t1 = Ok v -> nv_of [t1] v.
Proof.
  unfold classify_single. destruct (is_lit_tok t1) eqn:El.
  - intros H. inversion H. apply NV_lit. exact El.
  - assert (Ho : forall x, (let* _ := expr_all [t1] in Ok (XOther [t1])) = Ok x -> nv_of [t1] x).
    { intros x H. apply bind_ok' in H. destruct H as [u [_ H]]. inversion H. apply NV_other.
      intros t Ht. inversion Ht. subst. exact El. }
    destruct (parse_path_all [t1]) as [p| | |] eqn:Ep.
    + pose proof (parse_path_all_ok _ p Ep) as Epv. subst p. intros H. inversion H. apply NV_path. exact Ep.
    + destruct t1; try discriminate; apply Ho.
    + destruct t1; try discriminate; apply Ho.
    + destruct t1; try discriminate; apply Ho.
Qed.

(** whatever syn makes of the tokens after `=`, it is one of the classifications of [nv_of] *)
Theorem classify_nv_of last e v : classify_value last e = Ok v -> nv_of e v.
Proof.
  unfold classify_value. destruct e as [|t1 [|t2 [|t3 r]]].
  - discriminate.
  - pose proof (classify_single_nv_of t1 v) as Hs. unfold classify_single in Hs.
    destruct t1 as [s|s|s|k s|a b c|d l]; try exact Hs.
    destruct s as [|[[] [] [] [] [] [] [] []] [|c s]]; exact Hs.
  - assert (Ht : forall x, classify_tail last [t1; t2] = Ok x -> nv_of [t1; t2] x).
    { intros x. apply classify_tail_nv_of. discriminate. }
    destruct t1 as [s|s|s|k s|a b c|d l]; try exact (Ht v).
    destruct s as [|[[] [] [] [] [] [] [] []] [|c s]]; try exact (Ht v).
    destruct (is_num_lit t2) eqn:En.
    + intros H. inversion H. destruct last; [apply NV_neg|apply NV_uneg]; exact En.
    + intros H. apply bind_ok' in H. destruct H as [u [_ H]]. inversion H. apply NV_other. discriminate.
  - assert (Ht : classify_tail last (t1 :: t2 :: t3 :: r) = Ok v -> nv_of (t1 :: t2 :: t3 :: r) v).
    { apply classify_tail_nv_of. discriminate. }
    destruct t1 as [s|s|s|k s|a b c|d l]; try exact Ht.
    destruct s as [|[[] [] [] [] [] [] [] []] [|c s]]; exact Ht.
Qed.

Lemma path_single_punct s p : parse_path_all [TPunct s] <> Ok p.
Proof.
  unfold parse_path_all. destruct (has_angle [TPunct s]); [discriminate|].
  destruct s as [|[[] [] [] [] [] [] [] []] s]; try discriminate.
  destruct s as [|[[] [] [] [] [] [] [] []] s]; try discriminate.
  destruct s; discriminate.
Qed.

(** a path after `=` is classified as a path *)
Theorem classify_path last ts : parse_path_all ts = Ok ts -> classify_value last ts = Ok (XPath ts).
Proof.
  intros H. unfold classify_value. destruct ts as [|t1 [|t2 [|t3 r]]].
  - discriminate H.
  - pose proof (path_not_lit t1 H) as Hl.
    destruct t1 as [s|s|s|k s|a b c|d l]; try discriminate H;
      [|exfalso; exact (path_single_punct _ _ H)].
    rewrite Hl, H. reflexivity.
  - pose proof (classify_tail_path last _ H) as Ht.
    destruct t1 as [s|s|s|k s|a b c|d l]; try exact Ht.
    destruct (string_dec s "-") as [->|Hn]; [exfalso; exact (path_not_neg _ _ H)|].
    destruct s as [|[[] [] [] [] [] [] [] []] [|c s]]; try exact Ht. congruence.
  - pose proof (classify_tail_path last _ H) as Ht.
    destruct t1 as [s|s|s|k s|a b c|d l]; try exact Ht.
    destruct s as [|[[] [] [] [] [] [] [] []] [|c s]]; exact Ht.
Qed.

Theorem tokens_path last a ts d text value :
  name_ok a -> parse_path_all ts = Ok ts -> value <> ""%string ->
  let P := fun m => named a m /\ sp_path ts m in
  parses_to last (TIdent a :: TPunct "=" :: ts) P /\
  parses_to last [TIdent a; TGroup d ts] P /\
  parses_to last [TIdent a; TPunct "="; sstr text value ts] P /\
  parses_to last [TIdent a; TGroup d [sstr text value ts]] P.
Proof.
  intros H Hp Hv P. repeat split.
  - eexists. rewrite (chunk_nv last a _ H), (classify_path last ts Hp).
    split; [reflexivity|]. split; [reflexivity|apply SP_nv].
  - eexists. rewrite (chunk_list last a d _ H). split; [reflexivity|]. split; [reflexivity|apply SP_list].
  - eexists. rewrite (chunk_nv last a _ H), classify_lit; [|reflexivity].
    split; [reflexivity|]. split; [reflexivity|]. apply SP_nv_str. apply StrOf. intros E. contradiction.
  - eexists. rewrite (chunk_list last a d _ H). split; [reflexivity|]. split; [reflexivity|].
    apply SP_list_str. apply StrOf. intros E. contradiction.
Qed.

Theorem tokens_expr last a e d :
  name_ok a ->
  (forall v, classify_value last e = Ok v ->
     parses_to last (TIdent a :: TPunct "=" :: e) (fun m => named a m /\ sp_expr e m)) /\
  (forall v, args_expr e = Ok v ->
     parses_to last [TIdent a; TGroup d e] (fun m => named a m /\ sp_expr e m)).
Proof.
  intros H. split; intros v Hv.
  - eexists. rewrite (chunk_nv last a _ H), Hv. split; [reflexivity|]. split; [reflexivity|].
    apply SE_nv. exact (classify_nv_of last e v Hv).
  - eexists. rewrite (chunk_list last a d _ H). split; [reflexivity|]. split; [reflexivity|].
    exact (SE_list e _ d v Hv).
Qed.
