(** C01 / J7 -- calls have the arity of their `core` signatures: all twelve handlers. *)
From Educe.Spec Require Export WellFormed.
From Educe.Proofs Require Export P_C19c.

Ltac asimpl :=
  cbv beta delta [member_arity item_arity];
  cbn [expr_arity walk j7_node call_arity_ok method_arity_ok core_fn_arity core_fn_arities
       strs_eqb forallb andb orb fst snd List.length Nat.eqb String.eqb Ascii.eqb Bool.eqb
       map app i_members];
  fold expr_arity.

Lemma body_arity_any b :
  (forall k, forallb (expr_arity k) b = true) ->
  walk_body j7_node (fun _ _ => true) j7_enter_block (fun c _ => c) None b = true.
Proof. intros H. unfold walk_body. apply H. Qed.

Lemma flat_size_of : flat_eqb size_of_self size_of_self = true.
Proof. apply flat_eqb_refl. Qed.

(** an impl with one method whose statements pass under every builder context *)
Lemma one_fn_item_arity attrs g tr self_ fattrs name sig params body :
  (forall k, forallb (expr_arity k) body = true) ->
  item_arity {| i_attrs := attrs; i_generics := g; i_trait := tr; i_self := self_;
                i_members := [MFn fattrs name sig params body] |} = true.
Proof. intros H. asimpl. rewrite body_arity_any by exact H. reflexivity. Qed.

Lemma marker_item_arity attrs g tr self_ :
  item_arity {| i_attrs := attrs; i_generics := g; i_trait := tr; i_self := self_;
                i_members := [] |} = true.
Proof. reflexivity. Qed.

(** * PartialEq *)
Lemma peq_check_arity k fa a b :
  expr_arity k a = true -> expr_arity k b = true -> expr_arity k (peq_check fa a b) = true.
Proof.
  intros Ha Hb. unfold peq_check, ne_path. destruct (fa_method fa); asimpl; rewrite Ha, Hb; reflexivity.
Qed.

Lemma peq_arm_arity k (pe : pat * expr) :
  (exists v l, pe = peq_arm_named v l) \/ (exists v l, pe = peq_arm_unnamed v l)
  \/ (exists v, pe = peq_arm_unit v) -> expr_arity k (snd pe) = true.
Proof.
  intros [[v [l ->]]|[[v [l ->]]|[v ->]]].
  - unfold peq_arm_named, else_false. cbn [snd]. asimpl. rewrite forallb_flat_map, ?andb_true_r.
    apply forallb_true. intros [f fa]. destruct (fa_ignore fa); [reflexivity|]. cbn [forallb].
    rewrite peq_check_arity; reflexivity.
  - unfold peq_arm_unnamed, else_false. cbn [snd]. asimpl. rewrite forallb_flat_map, ?andb_true_r.
    apply forallb_true. intros [i [f fa]]. destruct (fa_ignore fa); [reflexivity|]. cbn [forallb].
    rewrite peq_check_arity; reflexivity.
  - reflexivity.
Qed.

Theorem partial_eq_arity F traits d m items :
  expand_partial_eq F traits d m = Ok items -> forallb item_arity items = true.
Proof.
  unfold expand_partial_eq. intros H.
  assert (Hitems : forall g body, (forall k, forallb (expr_arity k) body = true) ->
                     forallb item_arity (peq_items traits F d g body) = true).
  { intros g body Hb. unfold peq_items. cbn [forallb]. rewrite one_fn_item_arity.
    - destruct (has_trait TEq F && has_trait TEq traits); reflexivity.
    - intros k. rewrite forallb_app, Hb. reflexivity. }
  destruct (d_data d) as [fs|vs|fs].
  - inv_bind H. inv_bind H. inversion H; subst items. apply Hitems. intros k.
    unfold peq_struct_body. rewrite forallb_flat_map. apply forallb_true. intros [[i f] fa].
    destruct (fa_ignore fa); [reflexivity|]. cbn [forallb]. rewrite peq_check_arity; reflexivity.
  - inv_bind H. inv_bind H. inversion H; subst items. apply Hitems. intros k.
    destruct (is_nil a0); [reflexivity|]. cbn [forallb]. rewrite andb_true_r. asimpl.
    rewrite forallb_map. apply mapM_ok_Forall2 in Hb0. clear - Hb0.
    induction Hb0 as [|v r vs arms Hv _ IH]; [reflexivity|]. cbn [forallb].
    rewrite (peq_arm_arity k (fst r) (peq_variant_arm _ _ _ _ Hv)). exact IH.
  - inv_bind H. destruct (negb (ta_unsafe a)); [discriminate H|]. inv_bind H.
    inversion H; subst items. cbn [forallb]. rewrite one_fn_item_arity.
    + destruct (has_trait TEq F && has_trait TEq traits); reflexivity.
    + intros k. unfold peq_union_body. asimpl. vm_compute. reflexivity.
Qed.

(** * Eq, Copy *)
Theorem eq_arity F traits d m items :
  expand_eq F traits d m = Ok items -> forallb item_arity items = true.
Proof.
  unfold expand_eq. intros H. inv_bind H.
  destruct (has_trait TPartialEq F && has_trait TPartialEq traits).
  - inversion H. reflexivity.
  - inv_bind H. inversion H. reflexivity.
Qed.

Theorem copy_arity F traits d m items :
  expand_copy F traits d m = Ok items -> forallb item_arity items = true.
Proof.
  unfold expand_copy. intros H. inv_bind H.
  destruct (has_trait TClone F && has_trait TClone traits).
  - inversion H. reflexivity.
  - inv_bind H. inversion H. reflexivity.
Qed.

(** * Hash *)
Lemma hash_stmt_arity k fa op : expr_arity k op = true -> expr_arity k (hash_stmt fa op) = true.
Proof.
  intros Ho. unfold hash_stmt, hash_callee. destruct (fa_method fa); asimpl; rewrite Ho; reflexivity.
Qed.

Lemma hash_arm_arity k vi v fs l : expr_arity k (snd (hash_arm vi v fs l)) = true.
Proof.
  unfold hash_arm. destruct fs as [nl|ul|]; cbn [snd].
  - asimpl. rewrite forallb_flat_map. apply forallb_true. intros [f fa].
    destruct (fa_ignore fa); [reflexivity|]. cbn [forallb]. rewrite hash_stmt_arity; reflexivity.
  - asimpl. rewrite forallb_flat_map. apply forallb_true. intros [i [f fa]].
    destruct (fa_ignore fa); [reflexivity|]. cbn [forallb]. rewrite hash_stmt_arity; reflexivity.
  - reflexivity.
Qed.

Theorem hash_arity F traits d m items :
  expand_hash F traits d m = Ok items -> forallb item_arity items = true.
Proof.
  unfold expand_hash. intros H. destruct (d_data d) as [fs|vs|fs].
  - inv_bind H. inv_bind H. inversion H; subst items. cbn [forallb]. unfold hash_item.
    rewrite one_fn_item_arity; [reflexivity|]. intros k. unfold hash_struct_body.
    rewrite forallb_flat_map. apply forallb_true. intros [i [f fa]].
    destruct (fa_ignore fa); [reflexivity|]. cbn [forallb]. rewrite hash_stmt_arity; reflexivity.
  - inv_bind H. inv_bind H. inversion H; subst items. cbn [forallb]. unfold hash_item.
    rewrite one_fn_item_arity; [reflexivity|]. intros k.
    destruct (is_nil a0); [reflexivity|]. cbn [forallb]. rewrite andb_true_r. asimpl.
    rewrite forallb_map. apply mapM_ok_Forall2 in Hb0. clear - Hb0.
    induction Hb0 as [|[vi v] r ivs arms Hv _ IH]; [reflexivity|]. cbn [forallb].
    unfold hash_variant in Hv. inv_bind Hv. inv_bind Hv. inversion Hv; subst r. cbn [fst].
    rewrite hash_arm_arity. exact IH.
  - inv_bind H. destruct (negb (ta_unsafe a)); [discriminate H|]. inv_bind H.
    inversion H; subst items. cbn [forallb]. unfold hash_item.
    rewrite one_fn_item_arity; [reflexivity|]. intros k. unfold hash_union_body. asimpl.
    vm_compute. reflexivity.
Qed.

(** * Clone *)
Lemma clone_call_arity k m src : expr_arity k src = true -> expr_arity k (clone_call m src) = true.
Proof. intros Hs. unfold clone_call, clone_fn. destruct m; asimpl; rewrite Hs; reflexivity. Qed.

Lemma clone_from_stmt_arity k m dp dr src :
  expr_arity k dp = true -> expr_arity k dr = true -> expr_arity k src = true ->
  expr_arity k (clone_from_stmt m dp dr src) = true.
Proof.
  intros H1 H2 H3. unfold clone_from_stmt, clone_from_fn. destruct m; asimpl;
    rewrite ?H1, ?H2, ?H3; reflexivity.
Qed.

Lemma clone_struct_body_arity k fs l : forallb (expr_arity k) (clone_struct_body fs l) = true.
Proof.
  unfold clone_struct_body. destruct fs as [nl|ul|]; [| |reflexivity]; asimpl;
    rewrite forallb_map, andb_true_r; apply forallb_true; intros [i [f m]]; cbn [snd];
    unfold cs_clone_field; apply clone_call_arity; reflexivity.
Qed.

Lemma clone_from_struct_body_arity k fs l :
  forallb (expr_arity k) (clone_from_struct_body fs l) = true.
Proof.
  unfold clone_from_struct_body. destruct fs as [nl|ul|]; [| |reflexivity];
    (destruct (is_nil l); [reflexivity|]); rewrite forallb_map; apply forallb_true;
    intros [i [f m]]; unfold cs_clone_from_field; apply clone_from_stmt_arity; reflexivity.
Qed.

Lemma clone_arm_arity k v : expr_arity k (snd (clone_arm v)) = true.
Proof.
  unfold clone_arm. destruct (cv_fields v) as [nl|ul|]; cbn [snd].
  - asimpl. rewrite forallb_map. apply forallb_true. intros [f m]. cbn [snd].
    apply clone_call_arity. reflexivity.
  - asimpl. rewrite forallb_map. apply forallb_true. intros [i [f m]].
    apply clone_call_arity. reflexivity.
  - reflexivity.
Qed.

Lemma clone_from_arm_arity k v : expr_arity k (snd (clone_from_arm v)) = true.
Proof.
  unfold clone_from_arm, else_clone_source, clone_fn.
  destruct (cv_fields v) as [nl|ul|]; cbn [snd].
  - asimpl. rewrite forallb_map, ?andb_true_r. apply forallb_true. intros [f m].
    apply clone_from_stmt_arity; reflexivity.
  - asimpl. rewrite forallb_map, ?andb_true_r. apply forallb_true. intros [i [f m]].
    apply clone_from_stmt_arity; reflexivity.
  - reflexivity.
Qed.

Lemma clone_items_arity ce d g body from_body :
  (forall k, forallb (expr_arity k) body = true) ->
  (forall k, forallb (expr_arity k) from_body = true) ->
  forallb item_arity (clone_items ce d g body from_body) = true.
Proof.
  intros Hb Hf. unfold clone_items. cbn [forallb]. rewrite andb_true_iff. split.
  - asimpl. rewrite (body_arity_any body Hb). cbn [andb].
    destruct (is_nil from_body); [reflexivity|]. asimpl.
    rewrite (body_arity_any from_body Hf). reflexivity.
  - destruct ce; reflexivity.
Qed.

Theorem clone_arity F traits d m items :
  expand_clone F traits d m = Ok items -> forallb item_arity items = true.
Proof.
  unfold expand_clone. intros H. inv_bind H. destruct (d_data d) as [fs|vs|fs].
  - inv_bind H. inversion H; subst items.
    destruct (has_trait TCopy F && has_trait TCopy traits).
    + apply clone_items_arity; intros k; reflexivity.
    + apply clone_items_arity; intros k;
        [apply clone_struct_body_arity|apply clone_from_struct_body_arity].
  - inv_bind H. inversion H; subst items.
    destruct (negb (has_custom_method a0) && (has_trait TCopy F && has_trait TCopy traits)).
    + apply clone_items_arity; intros k; reflexivity.
    + apply clone_items_arity; intros k.
      * unfold clone_enum_body. destruct (is_nil a0); [reflexivity|]. asimpl.
        rewrite forallb_map, andb_true_r. apply forallb_true. intros v. apply clone_arm_arity.
      * unfold clone_from_enum_body. destruct (is_nil a0); [reflexivity|]. asimpl.
        rewrite forallb_map, andb_true_r. apply forallb_true. intros v. apply clone_from_arm_arity.
  - inv_bind H. inversion H; subst items. apply clone_items_arity; intros k; reflexivity.
Qed.

(** * PartialOrd / Ord *)
Lemma ord_result_arity k partial c : expr_arity k (ord_result partial c) = true.
Proof. destruct partial; reflexivity. Qed.

Lemma cmp_step_arity k partial fa a b :
  expr_arity k a = true -> expr_arity k b = true -> expr_arity k (cmp_step partial fa a b) = true.
Proof.
  intros Ha Hb. unfold cmp_step, cmp_callee, builtin_cmp.
  destruct partial, (oa_method fa); asimpl; rewrite Ha, Hb; reflexivity.
Qed.

Lemma cmp_arm_arity k partial vp : expr_arity k (snd (cmp_arm partial vp)) = true.
Proof.
  destruct vp as [n|n p|n p]; cbn [cmp_arm].
  - unfold cmp_arm_unit. cbn [snd]. asimpl. rewrite ord_result_arity. reflexivity.
  - unfold cmp_arm_named. cbn [snd]. asimpl. rewrite forallb_map, ?andb_true_r.
    apply forallb_true. intros [[i f] fa]. apply cmp_step_arity; reflexivity.
  - unfold cmp_arm_unnamed. cbn [snd]. asimpl. rewrite forallb_map, ?andb_true_r.
    apply forallb_true. intros [[i f] fa]. apply cmp_step_arity; reflexivity.
Qed.

Lemma body_of_arity partial F own traits d body :
  body_of partial F own traits d body -> forall k, forallb (expr_arity k) body = true.
Proof.
  unfold body_of. destruct (d_data d) as [fs|vs|fs]; intros H k.
  - destruct H as [p [_ ->]]. unfold cmp_struct_body. rewrite forallb_app, forallb_map.
    cbn [forallb]. rewrite ord_result_arity, andb_true_r. apply forallb_true.
    intros [[i f] fa]. apply cmp_step_arity; reflexivity.
  - destruct H as [ds [vps [_ [_ ->]]]]. unfold cmp_enum_body. destruct (is_nil vps).
    + cbn [forallb]. rewrite ord_result_arity. reflexivity.
    + cbn [forallb]. rewrite andb_true_r. asimpl. rewrite !ord_result_arity, !andb_true_r.
      destruct (forallb vplan_is_unit vps); [apply ord_result_arity|].
      asimpl. rewrite ord_result_arity, !andb_true_r. rewrite forallb_map. apply forallb_true.
      intros vp. apply cmp_arm_arity.
  - destruct H.
Qed.

Theorem partial_ord_arity F traits d m items :
  expand_partial_ord F traits d m = Ok items -> forallb item_arity items = true.
Proof.
  intros He. destruct (has_trait TOrd F && has_trait TOrd traits) eqn:Ec.
  - unfold expand_partial_ord in He. rewrite Ec in He. inv_bind He. inversion He. reflexivity.
  - destruct (expand_partial_ord_body F traits d m items Ec He) as [g [body [-> Hb]]].
    cbn [forallb]. unfold partial_ord_item.
    rewrite one_fn_item_arity; [reflexivity|apply (body_of_arity _ _ _ _ _ _ Hb)].
Qed.

Theorem ord_arity F traits d m items :
  expand_ord F traits d m = Ok items -> forallb item_arity items = true.
Proof.
  intros He. destruct (expand_ord_body F traits d m items He) as [g [body [-> Hb]]].
  unfold ord_items. cbn [forallb]. unfold ord_item at 1.
  rewrite one_fn_item_arity by apply (body_of_arity _ _ _ _ _ _ Hb). cbn [andb].
  destruct (has_trait TPartialOrd F && has_trait TPartialOrd traits); reflexivity.
Qed.
