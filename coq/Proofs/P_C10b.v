(** C10 — from the analysis to the request; top-level statements. *)
From Educe.Proofs Require Export P_C10.

Lemma mapM_id_map {A B} (g : A -> outcome B) ts : forall plan,
  mapM (fun r => r) (map g ts) = Ok plan -> Forall2 (fun t p => g t = Ok p) ts plan.
Proof.
  induction ts as [|t ts IH]; intros plan H; cbn [map mapM] in H.
  - inversion H; constructor.
  - apply bind_ok in H. destruct H as [p [Hp H]].
    apply bind_ok in H. destruct H as [ps [Hps H]]. inversion H; subst.
    constructor; [exact Hp|apply IH; exact Hps].
Qed.

Lemma Forall2_map_r {A B C} (R : A -> C -> Prop) (g : B -> C) l1 l2 :
  Forall2 (fun a b => R a (g b)) l1 l2 -> Forall2 R l1 (map g l2).
Proof. induction 1; cbn; constructor; auto. Qed.

Lemma Forall2_impl {A B} (R R' : A -> B -> Prop) l1 l2 :
  (forall a b, R a b -> R' a b) -> Forall2 R l1 l2 -> Forall2 R' l1 l2.
Proof. intros H. induction 1; constructor; auto. Qed.

(** ** the targets: in the order written, pairwise different *)
Definition written (m : meta) (t : toks * bound) : Prop :=
  exists p dl ts ty rest, m = MList p dl ts /\ parse_type_with_metas ts = Ok (ty, rest) /\
                          fst t = hash_type ty.

Fixpoint ty_distinct {A} (l : list (toks * A)) : Prop :=
  match l with
  | [] => True
  | (k, _) :: r => ty_mem k r = false /\ ty_distinct r
  end.

Lemma flat_eqb_sym a b : flat_eqb a b = flat_eqb b a.
Proof.
  unfold flat_eqb. destruct (list_eq_dec string_dec (flat a) (flat b)) as [E|E];
    destruct (list_eq_dec string_dec (flat b) (flat a)) as [E'|E']; congruence.
Qed.

Lemma ty_mem_app {A} k (a b : list (toks * A)) : ty_mem k (a ++ b) = ty_mem k a || ty_mem k b.
Proof.
  unfold ty_mem. induction a as [|[k' v] a IH]; cbn [app ty_lookup]; [reflexivity|].
  destruct (flat_eqb k' k); [reflexivity|exact IH].
Qed.

Lemma distinct_snoc {A} (acc : list (toks * A)) h b :
  ty_distinct acc -> ty_mem h acc = false -> ty_distinct (acc ++ [(h, b)]).
Proof.
  induction acc as [|[k v] acc IH]; intros Hd Hm; cbn [app ty_distinct].
  - split; [reflexivity|exact Logic.I].
  - destruct Hd as [Hk Hd]. unfold ty_mem in Hm. cbn [ty_lookup] in Hm.
    destruct (flat_eqb k h) eqn:E; [discriminate Hm|]. fold (ty_mem h acc) in Hm.
    split; [|apply IH; assumption].
    rewrite ty_mem_app, Hk. unfold ty_mem. cbn [ty_lookup]. rewrite flat_eqb_sym, E. reflexivity.
Qed.

Lemma build_type_order ms : forall acc r,
  foldM (into_type_meta true) acc ms = Ok r ->
  exists new, r = acc ++ new /\ Forall2 written ms new /\ (ty_distinct acc -> ty_distinct r).
Proof.
  induction ms as [|m ms IH]; intros acc r H; cbn [foldM] in H.
  - inversion H; subst. exists []. rewrite app_nil_r. split; [reflexivity|]. split; [constructor|auto].
  - apply bind_ok in H. destruct H as [acc' [Hm H]].
    destruct (IH _ _ H) as [new [Hr [Hw Hd]]].
    unfold into_type_meta in Hm. destruct m as [p|p nv|p dl ts]; try discriminate Hm.
    cbn [negb] in Hm.
    apply bind_ok in Hm. destruct Hm as [[ty rest] [Hparse Hm]].
    apply bind_ok in Hm. destruct Hm as [[u b] [Hrun Hm]].
    destruct (ty_mem (hash_type ty) acc) eqn:E; [discriminate Hm|]. inversion Hm; subst acc'. clear Hm.
    exists ((hash_type ty, b) :: new). split; [rewrite Hr, <- app_assoc; reflexivity|].
    split.
    + constructor; [|exact Hw]. exists p, dl, ts, ty, rest. auto.
    + intros Hacc. apply Hd. apply distinct_snoc; assumption.
Qed.

(** ** one impl *)
Section Target.
  Variable I : interp.
  Variable conv : toks -> value -> value.
  Variable st : store.
  Variable d : dinput.

  Definition target_ok (c : icfg) (t : toks * bound) (it : item) : Prop :=
    impl_of d (fst t) it /\
    forall x, ivalue_ok c x -> run_into I conv (fst t) it x st = spec_into I conv st c (fst t) x.

  Lemma conv_result_spec T c vn xs l fd v body :
    vget vn c = Some l -> spec_into_select T l = Ok fd -> lookup (if_key fd) xs = Some v ->
    run_body (with_into I (conv T)) (into_env (VData vn xs)) body (into_state st) =
      conv_result I conv T (into_method T fd) (if_ty fd) v (into_state st) ->
    match run_body (with_into I (conv T)) (into_env (VData vn xs)) body (into_state st) with
    | (RVal r, s) => Some (r, st_trace s)
    | _ => None
    end = spec_into I conv st c T (VData vn xs).
  Proof.
    intros Hget Hsel Hv Hrun. rewrite Hrun.
    rewrite (spec_into_conv_result I conv T c vn xs l fd v st Hget Hsel Hv). reflexivity.
  Qed.

  Lemma struct_target_correct (fls : fields) fl t p :
    fields_wf fls -> map fst fl = fields_list fls ->
    into_struct_target fl t = Ok p ->
    target_ok [(None, ifs fl)] t (into_emit1 d p).
  Proof.
    intros Hwf Hfl Hp. unfold into_struct_target in Hp.
    apply bind_ok in Hp. destruct Hp as [[[i f] m] [Hsel Hp]]. inversion Hp; subst p. clear Hp.
    destruct t as [T b]. cbn [fst] in *.
    pose proof (into_select_spec T fl) as Hs. rewrite Hsel in Hs.
    destruct Hs as [fa [Hn [Hsp Hm]]].
    split.
    - unfold into_emit1, into_struct_item, into_item, impl_of. cbn [i_trait i_self i_members].
      split; [reflexivity|]. split; [reflexivity|]. eexists; reflexivity.
    - intros x Hx. destruct x as [| | | | | |vn xs| | | | |]; try contradiction Hx.
      destruct Hx as [l [Hget Hmap]].
      assert (Hvn : vn = None /\ l = ifs fl).
      { destruct vn; cbn in Hget; [discriminate Hget|inversion Hget; auto]. }
      destruct Hvn as [Hvn Hl]. subst vn l.
      assert (Hkeys : arm_keys_ok_k i f (map if_key (ifs fl))).
      { unfold ifs. rewrite ifs_keys, Hfl. apply arm_keys_gen; [exact Hwf|].
        rewrite <- Hfl. rewrite (map_nth_error fst _ _ Hn). reflexivity. }
      destruct (arm_keys_value_gen _ _ _ _ Hkeys Hmap) as [[v Hv] _].
      unfold run_into, into_emit1, into_struct_item, into_item, method_body.
      cbn [i_members find String.eqb Ascii.eqb Bool.eqb].
      apply (conv_result_spec T _ None xs (ifs fl) (mk_ifield i f fa) v).
      + reflexivity.
      + exact Hsp.
      + exact Hv.
      + rewrite Hm. apply run_struct_into. exact Hv.
  Qed.

  Lemma enum_target_correct c plan t :
    plan <> [] ->
    Forall2 (iplan_rel (fst t)) c plan ->
    target_ok c t (into_emit1 d (t, IPEnum plan)).
  Proof.
    intros Hne Hrel. destruct t as [T b]. cbn [fst] in *. split.
    - unfold into_emit1, into_enum_item, into_item, impl_of. cbn [i_trait i_self i_members].
      split; [reflexivity|]. split; [reflexivity|]. eexists; reflexivity.
    - intros x Hx. destruct x as [| | | | | |vn xs| | | | |]; try contradiction Hx.
      destruct Hx as [l [Hget Hmap]].
      destruct vn as [vn|]; [|rewrite (ivget_none_enum T _ _ Hrel) in Hget; discriminate Hget].
      destruct (run_enum_into I conv T vn xs st c plan l Hrel Hget Hmap) as [fd [v [Hsel [Hv Hrun]]]].
      unfold run_into, into_emit1, into_enum_item, into_item, method_body.
      cbn [i_members find String.eqb Ascii.eqb Bool.eqb].
      apply (conv_result_spec T c (Some vn) xs l fd v); assumption.
  Qed.
End Target.

(** ** the whole expansion *)
Section Top.
  Variable F : features.
  Variable traits : list trait.

  (** enum: the request's variants and the analysed variants *)
  Definition vrel (targets : into_targets) (ce : option string * list ifield)
             (vfl : variant * list (field * into_fattr)) : Prop :=
    ce = (Some (v_name (fst vfl)), ifs (snd vfl)) /\
    map fst (snd vfl) = fields_list (v_fields (fst vfl)).

  Lemma variants_vrel targets vs : forall vl,
    mapM (fun v => let* _ := into_variant_attr F traits (v_attrs v) in
                   let* fl := mapM (into_field_attr F traits targets) (fields_list (v_fields v)) in
                   Ok (v, fl)) vs = Ok vl ->
    exists c,
      mapM (fun v => let* l := into_ifields F traits targets (fields_list (v_fields v)) in
                     Ok (Some (v_name v), l)) vs = Ok c /\
      Forall2 (vrel targets) c vl /\ map fst vl = vs.
  Proof.
    induction vs as [|v vs IH]; intros vl H; cbn [mapM] in H |- *.
    - inversion H; subst. exists []. split; [reflexivity|]. split; [constructor|reflexivity].
    - apply bind_ok in H. destruct H as [vfl [Hv H]].
      apply bind_ok in H. destruct H as [vl' [Hvl H]]. inversion H; subst vl. clear H.
      destruct (IH _ Hvl) as [c [Hc [Hrel Hfst]]].
      apply bind_ok in Hv. destruct Hv as [u [_ Hv]].
      apply bind_ok in Hv. destruct Hv as [fl [Hfl Hv]]. inversion Hv; subst vfl. clear Hv.
      destruct (ifields_of_attrs F traits targets _ 0 _ Hfl) as [Hif Hfst1].
      change (into_ifields F traits targets (fields_list (v_fields v)) = Ok (ifs fl)) in Hif.
      rewrite Hif. cbn [bind]. rewrite Hc. cbn [bind].
      eexists. split; [reflexivity|]. split.
      + constructor; [|exact Hrel]. split; [reflexivity|exact Hfst1].
      + cbn [map fst]. rewrite Hfst. reflexivity.
  Qed.

  Lemma plan_iplan_rel T targets : forall c vl plan,
    (forall v, In v (map fst vl) -> fields_wf (v_fields v)) ->
    Forall2 (vrel targets) c vl ->
    mapM (into_variant_choice T) vl = Ok plan ->
    Forall2 (iplan_rel T) c plan.
  Proof.
    intros c vl plan Hwf Hrel. revert plan.
    induction Hrel as [|ce [v fl] c vl [Hce Hfst] _ IH]; intros plan H; cbn [mapM] in H.
    - inversion H; constructor.
    - apply bind_ok in H. destruct H as [pe [Hpe H]].
      apply bind_ok in H. destruct H as [plan' [Hplan H]]. inversion H; subst plan. clear H.
      constructor; [|apply IH; [intros u Hu; apply Hwf; right; exact Hu|exact Hplan]].
      cbn [fst snd] in *. subst ce.
      unfold into_variant_choice in Hpe. cbn [fst snd] in Hpe.
      assert (Hsel : exists ch, into_select T fl = Ok ch /\ pe = (v_name v, ch)).
      { destruct (v_fields v); [| |discriminate Hpe];
          apply bind_ok in Hpe; destruct Hpe as [ch [Hch Hpe]]; inversion Hpe; eauto. }
      destruct Hsel as [[[i f] m] [Hsel Hpe']]. subst pe.
      pose proof (into_select_spec T fl) as Hs. rewrite Hsel in Hs.
      destruct Hs as [fa [Hn [Hsp Hm]]].
      split; [reflexivity|]. cbn [fst snd]. split; [exists fa; split; assumption|].
      unfold ifs. rewrite ifs_keys, Hfst. apply arm_keys_gen.
      + apply Hwf. left; reflexivity.
      + rewrite <- Hfst. rewrite (map_nth_error fst _ _ Hn). reflexivity.
  Qed.

  (** the request is readable whenever the expansion succeeds *)
  Theorem into_cfg_total d ms items :
    expand_into F traits d ms = Ok items -> exists tc, into_cfg F traits d ms = Ok tc.
  Proof.
    unfold expand_into, into_analyse, into_results, into_cfg. intros H.
    apply bind_ok in H. destruct H as [plan [H _]].
    apply bind_ok in H. destruct H as [rs [H _]].
    destruct (d_data d) as [fs|vs|us]; [| |discriminate H].
    - apply bind_ok in H. destruct H as [targets [Ht H]].
      apply bind_ok in H. destruct H as [fl [Hfl _]].
      rewrite Ht. cbn [bind].
      destruct (ifields_of_attrs F traits targets _ 0 _ Hfl) as [Hif _].
      change (into_ifields F traits targets (fields_list fs) = Ok (ifs fl)) in Hif.
      rewrite Hif. cbn [bind]. eauto.
    - apply bind_ok in H. destruct H as [targets [Ht H]].
      apply bind_ok in H. destruct H as [vl [Hvl _]].
      rewrite Ht. cbn [bind].
      destruct (variants_vrel targets vs vl Hvl) as [c [Hc _]]. rewrite Hc. cbn [bind]. eauto.
  Qed.

  (** one `impl Into<T>` per requested target, in order, each computing the spec *)
  Theorem into_correct (I : interp) conv st d ms items targets c :
    data_wf (d_data d) ->
    expand_into F traits d ms = Ok items ->
    into_cfg F traits d ms = Ok (targets, c) ->
    into_build_type true ms = Ok targets /\
    Forall2 (target_ok I conv st d c) targets items.
  Proof.
    intros Hwf He Hc. unfold expand_into in He.
    apply bind_ok in He. destruct He as [plan [Hplan He]]. inversion He; subst items. clear He.
    unfold into_analyse in Hplan. apply bind_ok in Hplan. destruct Hplan as [rs [Hrs Hplan]].
    unfold into_results in Hrs. unfold into_cfg in Hc.
    destruct (d_data d) as [fs|vs|us]; [| |discriminate Hrs].
    - apply bind_ok in Hrs. destruct Hrs as [targets' [Ht Hrs]].
      apply bind_ok in Hrs. destruct Hrs as [fl [Hfl Hrs]]. inversion Hrs; subst rs. clear Hrs.
      rewrite Ht in Hc. cbn [bind] in Hc.
      destruct (ifields_of_attrs F traits targets' _ 0 _ Hfl) as [Hif Hfst].
      change (into_ifields F traits targets' (fields_list fs) = Ok (ifs fl)) in Hif.
      rewrite Hif in Hc. cbn [bind] in Hc.
      inversion Hc; subst targets c. clear Hc.
      split; [exact Ht|].
      apply mapM_id_map in Hplan. unfold into_emit. apply Forall2_map_r.
      eapply Forall2_impl; [|exact Hplan]. intros t p Hp.
      eapply struct_target_correct; eauto.
    - apply bind_ok in Hrs. destruct Hrs as [targets' [Ht Hrs]].
      apply bind_ok in Hrs. destruct Hrs as [vl [Hvl Hrs]]. inversion Hrs; subst rs. clear Hrs.
      rewrite Ht in Hc. cbn [bind] in Hc.
      destruct (variants_vrel targets' vs vl Hvl) as [c' [Hc' [Hrel Hfst]]].
      rewrite Hc' in Hc. cbn [bind] in Hc. inversion Hc; subst targets c. clear Hc.
      split; [exact Ht|].
      apply mapM_id_map in Hplan. unfold into_emit. apply Forall2_map_r.
      eapply Forall2_impl; [|exact Hplan]. intros t p Hp. cbn beta in Hp.
      unfold into_enum_target in Hp. apply bind_ok in Hp. destruct Hp as [pl [Hpl Hp]].
      destruct (is_nil pl) eqn:En; [discriminate Hp|]. inversion Hp; subst p. clear Hp.
      apply enum_target_correct.
      + destruct pl; [discriminate En|discriminate].
      + eapply plan_iplan_rel; [|exact Hrel|exact Hpl]. rewrite Hfst. exact Hwf.
  Qed.

  (** the impl set: exactly one impl per requested target, in the order the
      targets are written, pairwise different targets, and nothing else *)
  Theorem impl_set d ms items :
    expand_into F traits d ms = Ok items ->
    exists targets,
      into_build_type true ms = Ok targets /\
      Forall2 written ms targets /\ ty_distinct targets /\
      Forall2 (fun t it => impl_of d (fst t) it) targets items.
  Proof.
    intros He. pose proof He as He0. unfold expand_into in He.
    apply bind_ok in He. destruct He as [plan [Hplan He]]. inversion He; subst items. clear He.
    unfold into_analyse in Hplan. apply bind_ok in Hplan. destruct Hplan as [rs [Hrs Hplan]].
    assert (Himpl : forall t p, (exists fl, into_struct_target fl t = Ok p) \/
                                (exists vl, into_enum_target vl t = Ok p) ->
                                impl_of d (fst t) (into_emit1 d p)).
    { intros [T b] p [[fl H]|[vl H]].
      - unfold into_struct_target in H. apply bind_ok in H. destruct H as [[[i f] m] [_ H]].
        inversion H; subst p. cbn [fst].
        unfold into_emit1, into_struct_item, into_item, impl_of. cbn [i_trait i_self i_members].
        split; [reflexivity|]. split; [reflexivity|]. eexists; reflexivity.
      - unfold into_enum_target in H. apply bind_ok in H. destruct H as [pl [_ H]].
        destruct (is_nil pl); [discriminate H|]. inversion H; subst p. cbn [fst].
        unfold into_emit1, into_enum_item, into_item, impl_of. cbn [i_trait i_self i_members].
        split; [reflexivity|]. split; [reflexivity|]. eexists; reflexivity. }
    unfold into_results in Hrs.
    assert (Hgen : exists targets g,
               into_build_type true ms = Ok targets /\ rs = map g targets /\
               forall t p, g t = Ok p -> impl_of d (fst t) (into_emit1 d p)).
    { destruct (d_data d) as [fs|vs|us]; [| |discriminate Hrs].
      - apply bind_ok in Hrs. destruct Hrs as [targets [Ht Hrs]].
        apply bind_ok in Hrs. destruct Hrs as [fl [_ Hrs]]. inversion Hrs; subst rs.
        exists targets, (into_struct_target fl). split; [exact Ht|]. split; [reflexivity|].
        intros t p Hp. apply Himpl. left; eauto.
      - apply bind_ok in Hrs. destruct Hrs as [targets [Ht Hrs]].
        apply bind_ok in Hrs. destruct Hrs as [vl [_ Hrs]]. inversion Hrs; subst rs.
        exists targets, (into_enum_target vl). split; [exact Ht|]. split; [reflexivity|].
        intros t p Hp. apply Himpl. right; eauto. }
    destruct Hgen as [targets [g [Ht [Hrs' Hg]]]]. subst rs.
    exists targets. split; [exact Ht|].
    unfold into_build_type in Ht. destruct (build_type_order _ _ _ Ht) as [new [Hr [Hw Hd]]].
    cbn [app] in Hr. subst new.
    split; [exact Hw|]. split; [apply Hd; exact Logic.I|].
    apply mapM_id_map in Hplan. unfold into_emit. apply Forall2_map_r.
    eapply Forall2_impl; [|exact Hplan]. intros t p Hp. apply Hg. exact Hp.
  Qed.

  (** a successful expansion never leaves a field-level target unrequested *)
  Theorem marks_requested d ms items targets c :
    expand_into F traits d ms = Ok items ->
    into_cfg F traits d ms = Ok (targets, c) ->
    forall vn l f k m, In (vn, l) c -> In f l -> In (k, m) (if_marks f) -> ty_mem k targets = true.
  Proof.
    intros _ Hc vn l f k m Hvl Hf Hk. unfold into_cfg in Hc.
    destruct (d_data d) as [fs|vs|us]; [| |discriminate Hc].
    - apply bind_ok in Hc. destruct Hc as [targets' [Ht Hc]].
      apply bind_ok in Hc. destruct Hc as [l' [Hl Hc]]. inversion Hc; subst targets c. clear Hc.
      destruct Hvl as [Hvl|[]]. inversion Hvl; subst vn l'.
      eapply ifields_marks; eassumption.
    - apply bind_ok in Hc. destruct Hc as [targets' [Ht Hc]].
      apply bind_ok in Hc. destruct Hc as [c' [Hc' Hc]]. inversion Hc; subst targets c. clear Hc.
      revert c' Hc' Hvl. induction vs as [|v vs IH]; intros c' Hc' Hvl; cbn [mapM] in Hc'.
      + inversion Hc'; subst c'. destruct Hvl.
      + apply bind_ok in Hc'. destruct Hc' as [ce [Hce Hc']].
        apply bind_ok in Hc'. destruct Hc' as [c'' [Hc'' Hc']]. inversion Hc'; subst c'. clear Hc'.
        destruct Hvl as [Hvl|Hvl]; [|eapply IH; eassumption].
        subst ce. apply bind_ok in Hce. destruct Hce as [l' [Hl Hce]]. inversion Hce; subst l'.
        eapply ifields_marks; eassumption.
  Qed.

  (** a unit variant is refused (for any target), and so is an enum without variants *)
  Lemma variant_choice_unit T v fl :
    v_fields v = FUnit -> into_variant_choice T (v, fl) = Err E_no_unit_variant.
  Proof. intros H. unfold into_variant_choice. cbn [fst]. rewrite H. reflexivity. Qed.

  Lemma enum_target_empty t : into_enum_target [] t = Err E_into_no_field.
  Proof. reflexivity. Qed.
End Top.
