(** C13 — from a successful [expand] to every element: which handler answers for which trait,
    and the classes about trait NAMES (R1, R10, R9, R10', R1'). *)
From Educe.Proofs Require Export P_C13b.

Definition all_ok F traits own (acc : spot -> meta -> Prop) (d : dinput) : Prop :=
  Forall (fun x => item_ok F traits own (acc (fst x)) (snd x)) (visited d).
Definition all_uniq F own (d : dinput) : Prop :=
  Forall (fun x => item_uniq F own (snd x)) (visited d).

Lemma all_visited_split F traits own acc d :
  all_visited F traits own acc d -> all_ok F traits own acc d /\ all_uniq F own d.
Proof.
  intros H. split; (eapply Forall_impl2; [exact H|]); intros x [H1 H2]; assumption.
Qed.

Lemma all_ok_mono F traits own (acc acc' : spot -> meta -> Prop) d :
  (forall pl m, acc pl m -> acc' pl m) -> all_ok F traits own acc d -> all_ok F traits own acc' d.
Proof.
  intros Hi H. eapply Forall_impl2; [exact H|]. intros x [Hv Ho]. split; [exact Hv|].
  intros m Hin Hm. apply Hi. exact (Ho m Hin Hm).
Qed.

(** the builder predicate of each trait's items below the type level *)
Definition acc_of (t : trait) : spot -> meta -> Prop :=
  match t with
  | TDebug => acc_debug
  | TClone => acc_clone
  | TCopy => acc_marker
  | TPartialEq | THash => acc_peq
  | TEq => fun pl m => acc_peq pl m \/ acc_marker pl m
  | TPartialOrd | TOrd => acc_ord
  | TDefault => acc_default
  | TDeref | TDerefMut => acc_deref
  | TInto => acc_into
  end.

Lemma educed_type_meta F t d : educed F t d = true -> exists m, type_meta F t d = Some m.
Proof.
  unfold educed, type_traits. fold (traits_of F (type_metas d)). rewrite has_trait_traits_of.
  unfold type_meta. destruct (metas_of F t (type_metas d)) as [|m r]; [discriminate|]. intros _. exists m. reflexivity.
Qed.

Lemma educed_feature F t d : educed F t d = true -> has_trait t F = true.
Proof.
  intros H. destruct (educed_type_meta _ _ _ H) as [m Hm]. unfold type_meta in Hm.
  destruct (metas_of F t (type_metas d)) as [|m' r] eqn:E; [discriminate Hm|].
  apply (meta_trait_feature F m'). apply (metas_of_In F t (type_metas d)). rewrite E. left. reflexivity.
Qed.

Lemma contains_educed F traits d t :
  traits_agree F traits d -> has_trait t F && has_trait t traits = educed F t d.
Proof.
  intros Ha. rewrite (Ha t). destruct (educed F t d) eqn:E; [|apply andb_false_r].
  rewrite (educed_feature _ _ _ E). reflexivity.
Qed.

(** what [expand_ok_inv] gives, as a record of facts about one successful run *)
Definition run_facts F (traits : list trait) (d : dinput) : Prop :=
  traits_agree F traits d /\
  (forall t h m, In (t, h) handlers -> type_meta F t d = Some m -> exists l, h F traits d m = Ok l) /\
  (metas_of F TInto (type_metas d) <> [] ->
   exists l, expand_into F traits d (metas_of F TInto (type_metas d)) = Ok l).

Lemma expand_run_facts F d its :
  expand F d = Ok its -> exists traits, run_facts F traits d.
Proof.
  intros H. destruct (expand_ok_inv _ _ _ H) as [traits [H1 [_ [_ [H2 [H3 _]]]]]].
  exists traits. split; [exact H1|]. split; assumption.
Qed.

Ltac in_handlers := cbn; tauto.

(** the handler that answers for the items of trait [t] *)
Theorem responsible F traits d t :
  run_facts F traits d -> educed F t d = true ->
  (t = TCopy -> educed F TClone d = false) ->
  exists own, own t = true /\ all_ok F traits own (acc_of t) d /\ (t <> TInto -> all_uniq F own d).
Proof.
  intros [Hag [Hh Hi]] He Hgap.
  assert (Hrun : forall h, In (t, h) handlers -> exists m l, h F traits d m = Ok l).
  { intros h Hin. destruct (educed_type_meta _ _ _ He) as [m Hm]. destruct (Hh t h m Hin Hm) as [l Hl]. eauto. }
  assert (Hrun' : forall t' h, In (t', h) handlers -> educed F t' d = true -> exists m l, h F traits d m = Ok l).
  { intros t' h Hin He'. destruct (educed_type_meta _ _ _ He') as [m Hm]. destruct (Hh t' h m Hin Hm) as [l Hl]. eauto. }
  destruct t.
  - destruct (Hrun Expand_Debug.expand_debug ltac:(in_handlers)) as [m [l Hl]].
    apply debug_visits, all_visited_split in Hl. destruct Hl as [H1 H2].
    exists (trait_eqb TDebug). split; [reflexivity|]. split; [exact H1|intros _; exact H2].
  - destruct (Hrun expand_clone ltac:(in_handlers)) as [m [l Hl]].
    apply clone_visits, all_visited_split in Hl. destruct Hl as [H1 H2].
    exists (trait_eqb TClone). split; [reflexivity|]. split; [exact H1|intros _; exact H2].
  - destruct (Hrun expand_copy ltac:(in_handlers)) as [m [l Hl]].
    apply copy_visits, all_visited_split in Hl; [|rewrite (contains_educed _ _ _ _ Hag); exact (Hgap eq_refl)].
    destruct Hl as [H1 H2].
    exists (trait_eqb TCopy). split; [reflexivity|]. split; [exact H1|intros _; exact H2].
  - destruct (Hrun expand_partial_eq ltac:(in_handlers)) as [m [l Hl]].
    apply peq_visits, all_visited_split in Hl. destruct Hl as [H1 H2].
    exists (own_partial_eq traits). split; [reflexivity|]. split; [exact H1|intros _; exact H2].
  - destruct (educed F TPartialEq d) eqn:Ep.
    + destruct (Hrun' TPartialEq expand_partial_eq ltac:(in_handlers) Ep) as [m [l Hl]].
      apply peq_visits, all_visited_split in Hl. destruct Hl as [H1 H2].
      exists (own_partial_eq traits). split; [unfold own_partial_eq; rewrite (Hag TEq), He; reflexivity|].
      split; [|intros _; exact H2]. eapply all_ok_mono; [|exact H1]. intros pl m0 Hm0. left. exact Hm0.
    + destruct (Hrun expand_eq ltac:(in_handlers)) as [m [l Hl]].
      apply eq_visits, all_visited_split in Hl; [|rewrite (contains_educed _ _ _ _ Hag); exact Ep].
      destruct Hl as [H1 H2].
      exists (trait_eqb TEq). split; [reflexivity|]. split; [|intros _; exact H2].
      eapply all_ok_mono; [|exact H1]. intros pl m0 Hm0. right. exact Hm0.
  - destruct (educed F TOrd d) eqn:Eo.
    + destruct (Hrun' TOrd expand_ord ltac:(in_handlers) Eo) as [m [l Hl]].
      apply ord_visits, all_visited_split in Hl. destruct Hl as [H1 H2].
      exists (own_ord F traits). split; [|split; [exact H1|intros _; exact H2]].
      unfold own_ord. rewrite (contains_educed _ _ _ _ Hag), He. reflexivity.
    + destruct (Hrun expand_partial_ord ltac:(in_handlers)) as [m [l Hl]].
      apply partial_ord_visits, all_visited_split in Hl; [|rewrite (contains_educed _ _ _ _ Hag); exact Eo].
      destruct Hl as [H1 H2].
      exists (trait_eqb TPartialOrd). split; [reflexivity|]. split; [exact H1|intros _; exact H2].
  - destruct (Hrun expand_ord ltac:(in_handlers)) as [m [l Hl]].
    apply ord_visits, all_visited_split in Hl. destruct Hl as [H1 H2].
    exists (own_ord F traits). split; [reflexivity|]. split; [exact H1|intros _; exact H2].
  - destruct (Hrun expand_hash ltac:(in_handlers)) as [m [l Hl]].
    apply hash_visits, all_visited_split in Hl. destruct Hl as [H1 H2].
    exists (trait_eqb THash). split; [reflexivity|]. split; [exact H1|intros _; exact H2].
  - destruct (Hrun Expand_Default.expand_default ltac:(in_handlers)) as [m [l Hl]].
    apply default_visits, all_visited_split in Hl. destruct Hl as [H1 H2].
    exists (trait_eqb TDefault). split; [reflexivity|]. split; [exact H1|intros _; exact H2].
  - destruct (Hrun expand_deref ltac:(in_handlers)) as [m [l Hl]].
    apply deref_visits, all_visited_split in Hl. destruct Hl as [H1 H2].
    exists (trait_eqb TDeref). split; [reflexivity|]. split; [exact H1|intros _; exact H2].
  - destruct (Hrun expand_deref_mut ltac:(in_handlers)) as [m [l Hl]].
    apply deref_mut_visits, all_visited_split in Hl. destruct Hl as [H1 H2].
    exists (trait_eqb TDerefMut). split; [reflexivity|]. split; [exact H1|intros _; exact H2].
  - assert (Hne : metas_of F TInto (type_metas d) <> []).
    { destruct (educed_type_meta _ _ _ He) as [m Hm]. unfold type_meta in Hm.
      destruct (metas_of F TInto (type_metas d)); [discriminate Hm|discriminate]. }
    destruct (Hi Hne) as [l Hl]. apply into_visits in Hl.
    exists (trait_eqb TInto). split; [reflexivity|]. split; [exact Hl|intros E; congruence].
Qed.

(** some handler validated every item of every element *)
Theorem all_validated F d its :
  expand F d = Ok its ->
  exists traits, run_facts F traits d /\
    Forall (fun x => validated F traits (educe_metas (snd x))) (visited d).
Proof.
  intros H. destruct (expand_ok_inv _ _ _ H) as [traits [H1 [_ [_ [H2 [H3 H4]]]]]].
  assert (Hrf : run_facts F traits d) by (split; [exact H1|split; assumption]).
  exists traits. split; [exact Hrf|].
  destruct (type_traits F d) as [|t0 r] eqn:Ett; [congruence|].
  assert (He0 : educed F t0 d = true).
  { unfold educed. rewrite Ett. cbn. rewrite trait_eqb_refl. reflexivity. }
  assert (Hsome : exists t, educed F t d = true /\ (t = TCopy -> educed F TClone d = false)).
  { destruct (educed F TClone d) eqn:Ec.
    - exists TClone. split; [exact Ec|discriminate].
    - exists t0. split; [exact He0|reflexivity]. }
  destruct Hsome as [t [He Hg]].
  destruct (responsible _ _ _ _ Hrf He Hg) as [own [_ [Hok _]]].
  eapply Forall_impl2; [exact Hok|]. intros x [Hv _]. exact Hv.
Qed.

Lemma in_item_metas d pl m :
  In (pl, m) (item_metas d) <-> exists attrs, In (pl, attrs) (visited d) /\ In m (educe_metas attrs).
Proof.
  unfold item_metas. rewrite in_flat_map. split.
  - intros [[pl' attrs] [Hv Hm]]. cbn [fst snd] in Hm. apply in_map_iff in Hm.
    destruct Hm as [m' [E Hm']]. inversion E; subst. eauto.
  - intros [attrs [Hv Hm]]. exists (pl, attrs). split; [exact Hv|]. cbn [fst snd].
    apply in_map_iff. eauto.
Qed.

(** every item below the type level names an enabled trait that is educed on the type *)
Theorem items_validated F d its :
  expand F d = Ok its ->
  forall x, In x (item_metas d) ->
    exists t, meta_trait F (snd x) = Some t /\ educed F t d = true.
Proof.
  intros H [pl m] Hin. destruct (all_validated _ _ _ H) as [traits [[Hag _] Hall]].
  apply in_item_metas in Hin. destruct Hin as [attrs [Hv Hm]].
  rewrite Forall_forall in Hall. specialize (Hall _ Hv). cbn [snd] in Hall.
  unfold validated in Hall. rewrite Forall_forall in Hall. destruct (Hall _ Hm) as [t [Ht Htr]].
  exists t. split; [exact Ht|]. rewrite <- (Hag t). exact Htr.
Qed.

Lemma known_gap_false F d pl m :
  known_gap F d = false -> In (pl, m) (item_metas d) -> meta_trait F m = Some TCopy ->
  educed F TCopy d = true -> educed F TClone d = false.
Proof.
  intros Hg Hin Hm Hc. unfold known_gap in Hg. rewrite Hc, andb_true_r in Hg.
  destruct (educed F TClone d); [|reflexivity]. cbn [andb] in Hg.
  assert (Hx : existsb (fun x => names F TCopy (snd x)) (item_metas d) = true).
  { apply existsb_exists. exists (pl, m). split; [exact Hin|]. cbn [snd]. unfold names. rewrite Hm. reflexivity. }
  congruence.
Qed.

(** ... and, outside the known gap, was built by the builder of its trait at its place *)
Theorem items_accepted F d its :
  expand F d = Ok its -> known_gap F d = false ->
  forall x, In x (item_metas d) ->
    exists t, meta_trait F (snd x) = Some t /\ educed F t d = true /\ acc_of t (fst x) (snd x).
Proof.
  intros H Hgap [pl m] Hin. destruct (items_validated _ _ _ H _ Hin) as [t [Ht He]]. cbn [fst snd] in *.
  exists t. split; [exact Ht|]. split; [exact He|].
  destruct (expand_run_facts _ _ _ H) as [traits Hrf].
  assert (Hg : t = TCopy -> educed F TClone d = false).
  { intros ->. exact (known_gap_false _ _ _ _ Hgap Hin Ht He). }
  destruct (responsible _ _ _ _ Hrf He Hg) as [own [Hown [Hok _]]].
  apply in_item_metas in Hin. destruct Hin as [attrs [Hv Hm]].
  unfold all_ok in Hok. rewrite Forall_forall in Hok. destruct (Hok _ Hv) as [_ Ho]. cbn [fst snd] in Ho.
  apply (Ho m Hm). unfold own_meta. rewrite Ht. exact Hown.
Qed.

(** * the classes about trait names *)

Theorem R1_trait_twice F d its : expand F d = Ok its -> invalid_trait_twice F d = false.
Proof. intros H. destruct (expand_ok_inv _ _ _ H) as [traits [_ [_ [H3 _]]]]. exact H3. Qed.

Lemma existsb_false {A} (p : A -> bool) l : (forall x, In x l -> p x = false) -> existsb p l = false.
Proof.
  intros H. destruct (existsb p l) eqn:E; [|reflexivity]. apply existsb_exists in E.
  destruct E as [x [Hi Hp]]. rewrite (H x Hi) in Hp. discriminate Hp.
Qed.

Theorem R10_unknown_trait F d its : expand F d = Ok its -> invalid_unknown_trait F d = false.
Proof.
  intros H. destruct (expand_ok_inv _ _ _ H) as [traits [_ [H2 _]]].
  apply existsb_false. exact H2.
Qed.

Theorem R9_trait_not_educed F d its : expand F d = Ok its -> invalid_trait_not_educed F d = false.
Proof.
  intros H. apply existsb_false. intros x Hin. destruct (items_validated _ _ _ H x Hin) as [t [Ht He]].
  rewrite Ht, He. reflexivity.
Qed.

Theorem R10'_attr_unknown_trait F d its : expand F d = Ok its -> invalid_attr_unknown_trait F d = false.
Proof.
  intros H. apply existsb_false. intros x Hin. destruct (items_validated _ _ _ H x Hin) as [t [Ht He]].
  unfold unknown_trait. rewrite Ht. reflexivity.
Qed.

(** R1' : a trait twice on one element *)
Lemma dup_trait_true l : dup_trait l = true -> exists t, t <> TInto /\ 2 <= count (trait_eqb t) l.
Proof.
  induction l as [|x r IH]; [discriminate|]. cbn [dup_trait]. intros H. apply orb_true_iff in H.
  destruct H as [H|H].
  - apply andb_true_iff in H. destruct H as [Hn Hh]. exists x. split.
    + intros ->. discriminate Hn.
    + unfold count. cbn [filter]. rewrite trait_eqb_refl. cbn [List.length].
      apply has_trait_In in Hh. apply in_split in Hh. destruct Hh as [l1 [l2 ->]].
      rewrite filter_app. cbn [filter]. rewrite trait_eqb_refl, app_length. cbn [List.length]. lia.
  - destruct (IH H) as [t [Hn Hc]]. exists t. split; [exact Hn|]. unfold count in *. cbn [filter].
    destruct (trait_eqb t x); cbn [List.length]; lia.
Qed.

Lemma count_traits_of F t ms :
  count (trait_eqb t) (traits_of F ms) = List.length (metas_of F t ms).
Proof.
  unfold count. induction ms as [|m r IH]; [reflexivity|].
  cbn [traits_of flat_map metas_of filter]. fold (traits_of F r). fold (metas_of F t r).
  unfold names. destruct (meta_trait F m) as [t'|]; cbn [app]; [|exact IH].
  cbn [filter]. rewrite (trait_eqb_sym t t'). destruct (trait_eqb t' t); cbn [List.length]; rewrite IH; reflexivity.
Qed.

Lemma filter_length_le {A} (p q : A -> bool) l :
  (forall x, p x = true -> q x = true) -> List.length (filter p l) <= List.length (filter q l).
Proof.
  intros H. induction l as [|x r IH]; [reflexivity|]. cbn [filter].
  destruct (p x) eqn:Ep.
  - rewrite (H x Ep). cbn [List.length]. lia.
  - destruct (q x); cbn [List.length]; lia.
Qed.

Theorem R1'_attr_trait_twice F d its :
  expand F d = Ok its -> known_gap F d = false -> invalid_attr_trait_twice F d = false.
Proof.
  intros H Hgap. apply existsb_false. intros [pl attrs] Hv. cbn [snd].
  fold (traits_of F (educe_metas attrs)).
  destruct (dup_trait (traits_of F (educe_metas attrs))) eqn:E; [|reflexivity]. exfalso.
  apply dup_trait_true in E. destruct E as [t [Hni Hc]]. rewrite count_traits_of in Hc.
  destruct (metas_of F t (educe_metas attrs)) as [|m r] eqn:Em; [cbn in Hc; lia|].
  assert (Hm : In m (educe_metas attrs) /\ meta_trait F m = Some t).
  { apply (metas_of_In F t). rewrite Em. left. reflexivity. }
  destruct Hm as [Hm Ht].
  assert (Hin : In (pl, m) (item_metas d)) by (apply in_item_metas; eauto).
  destruct (items_validated _ _ _ H _ Hin) as [t' [Ht' He]]. cbn [snd] in Ht'.
  rewrite Ht in Ht'. inversion Ht'; subst t'.
  destruct (expand_run_facts _ _ _ H) as [traits Hrf].
  assert (Hg : t = TCopy -> educed F TClone d = false).
  { intros ->. exact (known_gap_false _ _ _ _ Hgap Hin Ht He). }
  destruct (responsible _ _ _ _ Hrf He Hg) as [own [Hown [_ Hu]]].
  specialize (Hu Hni). unfold all_uniq in Hu. rewrite Forall_forall in Hu. specialize (Hu _ Hv). cbn [snd] in Hu.
  unfold item_uniq in Hu.
  assert (Hle : List.length (metas_of F t (educe_metas attrs))
                <= List.length (filter (own_meta F own) (educe_metas attrs))).
  { apply filter_length_le. intros x Hx. unfold names in Hx. unfold own_meta.
    destruct (meta_trait F x) as [tx|]; [|discriminate Hx]. apply trait_eqb_eq in Hx. subst tx. exact Hown. }
  rewrite Em in Hle. cbn [List.length] in *. lia.
Qed.
