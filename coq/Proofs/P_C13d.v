(** C13 — R2: a parameter given twice.  The shared engine [run_params], every parameter
    handler of the model, every builder, then [expand]. *)
From Educe.Proofs Require Export P_C13c.

(** * the engine *)
Section Engine.
  Context {S : Type}.
  Variable h : S -> meta -> outcome (option S).
  Variable seen : S -> string -> bool.
  Hypothesis Hstep : forall s m s', h s m = Ok (Some s') ->
    exists k, param_key m = Some k /\ seen s k = false /\
              forall k', seen s' k' = seen s k' || String.eqb k' k.

  Lemma run_params_nodup ms : forall s s',
    run_params h s ms = Ok s' ->
    (forall m k, In m ms -> param_key m = Some k -> seen s k = false) /\ dup_param ms = false.
  Proof.
    induction ms as [|m r IH]; intros s s' H.
    - split; [intros m k []|reflexivity].
    - unfold run_params in H. cbn [foldM] in H. inv_bind H. fold (run_params h a r) in H.
      unfold run_param in Hb. inv_bind Hb. destruct a0 as [s1|]; [|discriminate Hb].
      inversion Hb; subst a. destruct (Hstep _ _ _ Hb0) as [k [Hk [Hs Hs1]]].
      destruct (IH _ _ H) as [Hr Hd]. split.
      + intros m' k' [<-|Hin] Hk'.
        * rewrite Hk in Hk'. inversion Hk'; subst. exact Hs.
        * specialize (Hr m' k' Hin Hk'). rewrite Hs1 in Hr. apply orb_false_iff in Hr. tauto.
      + cbn [dup_param]. rewrite Hk, Hd, orb_false_r. apply existsb_false. intros m' Hin.
        unfold key_is. destruct (param_key m') as [k'|] eqn:Hk'; [|reflexivity].
        specialize (Hr m' k' Hin Hk'). rewrite Hs1 in Hr. apply orb_false_iff in Hr. tauto.
  Qed.
End Engine.

(** the canonical key of a parameter the handlers recognise *)
Lemma param_is_key m names k :
  param_is m names = true -> (forall s, mem_str s names = true -> canon s = k) -> param_key m = Some k.
Proof.
  unfold param_is, param_key. destruct (param_name m) as [s|]; [|discriminate].
  intros H Hc. cbn [option_map]. rewrite (Hc s H). reflexivity.
Qed.

Ltac canon_names :=
  let s := fresh "s" in let H := fresh "H" in
  intros s H; cbn [mem_str existsb] in H;
  repeat (apply orb_true_iff in H; destruct H as [H|H]);
  try discriminate H; apply String.eqb_eq in H; subst s; reflexivity.

Ltac gen_projs :=
  repeat match goal with
         | |- context [?f ?s] =>
             is_var s; lazymatch type of s with bool => fail | _ => idtac end;
             match type of (f s) with bool =>
               let e := fresh "e" in set (e := f s); clearbody e end
         end.
Ltac all_bools := repeat match goal with b : bool |- _ => destruct b end; reflexivity.
Ltac seen_false := cbn; gen_projs; all_bools.
Ltac seen_eq :=
  intros;
  repeat match goal with
         | |- context [String.eqb ?a ?b] =>
             let e := fresh "e" in set (e := String.eqb a b); clearbody e
         end;
  cbn; gen_projs; all_bools.

(** ** `bound` *)
Definition seen_bound (s : bool * bound) (k : string) : bool := fst s && String.eqb k "bound".

Lemma bound_param_step eb s m s' :
  bound_param eb s m = Ok (Some s') ->
  exists k, param_key m = Some k /\ seen_bound s k = false /\
            forall k', seen_bound s' k' = seen_bound s k' || String.eqb k' k.
Proof.
  unfold bound_param. destruct (param_is m ["bound"]) eqn:Hp; [|discriminate].
  destruct (negb eb); [discriminate|]. intros H. inv_bind H.
  destruct (fst s) eqn:Hf; [discriminate H|]. inversion H; subst s'.
  exists "bound". split; [apply (param_is_key _ _ _ Hp); canon_names|].
  unfold seen_bound. rewrite Hf. split; [reflexivity|]. intros k'. cbn. reflexivity.
Qed.

(** ** `ignore` / `method` *)
Definition seen_im (s : fstate) (k : string) : bool :=
  (fs_ignore_set s && String.eqb k "ignore") || (fs_method_set s && String.eqb k "method").

Lemma im_param_step ei em s m s' :
  im_param ei em s m = Ok (Some s') ->
  exists k, param_key m = Some k /\ seen_im s k = false /\
            forall k', seen_im s' k' = seen_im s k' || String.eqb k' k.
Proof.
  unfold im_param. destruct (param_is m ["ignore"]) eqn:Hp.
  - destruct (negb ei); [discriminate|]. intros H. inv_bind H.
    destruct (fs_ignore_set s) eqn:Hf; [discriminate H|]. inversion H; subst s'.
    exists "ignore". split; [apply (param_is_key _ _ _ Hp); canon_names|].
    unfold seen_im. rewrite Hf. split; [seen_false|seen_eq].
  - destruct (param_is m ["method"]) eqn:Hq; [|discriminate].
    destruct (negb em); [discriminate|]. intros H. inv_bind H.
    destruct (fs_method_set s) eqn:Hf; [discriminate H|]. inversion H; subst s'.
    exists "method". split; [apply (param_is_key _ _ _ Hq); canon_names|].
    unfold seen_im. rewrite Hf. split; [seen_false|seen_eq].
Qed.

(** ** `ignore` / `method` / `rank` *)
Definition seen_ord (s : ostate) (k : string) : bool :=
  (os_ignore_set s && String.eqb k "ignore") || (os_method_set s && String.eqb k "method")
  || (os_rank_set s && String.eqb k "rank").

Lemma ord_param_step ei em er s m s' :
  ord_param ei em er s m = Ok (Some s') ->
  exists k, param_key m = Some k /\ seen_ord s k = false /\
            forall k', seen_ord s' k' = seen_ord s k' || String.eqb k' k.
Proof.
  unfold ord_param. destruct (param_is m ["ignore"]) eqn:Hp.
  - destruct (negb ei); [discriminate|]. intros H. inv_bind H.
    destruct (os_ignore_set s) eqn:Hf; [discriminate H|]. inversion H; subst s'.
    exists "ignore". split; [apply (param_is_key _ _ _ Hp); canon_names|].
    unfold seen_ord. rewrite Hf. split; [seen_false|seen_eq].
  - destruct (param_is m ["method"]) eqn:Hq.
    + destruct (negb em); [discriminate|]. intros H. inv_bind H.
      destruct (os_method_set s) eqn:Hf; [discriminate H|]. inversion H; subst s'.
      exists "method". split; [apply (param_is_key _ _ _ Hq); canon_names|].
      unfold seen_ord. rewrite Hf. split; [seen_false|seen_eq].
    + destruct (param_is m ["rank"]) eqn:Hr; [|discriminate].
      destruct (negb er); [discriminate|]. intros H. inv_bind H.
      destruct (os_rank_set s) eqn:Hf; [discriminate H|]. inversion H; subst s'.
      exists "rank". split; [apply (param_is_key _ _ _ Hr); canon_names|].
      unfold seen_ord. rewrite Hf. split; [seen_false|seen_eq].
Qed.

(** ** Debug, type level: `name`|`rename` / `named_field` / `bound` *)
Definition seen_dt (s : Expand_Debug.dtstate) (k : string) : bool :=
  (Expand_Debug.ts_name_set s && String.eqb k "name")
  || (Expand_Debug.ts_nf_set s && String.eqb k "named_field")
  || (Expand_Debug.ts_bound_set s && String.eqb k "bound").

Lemma debug_dt_param_step b s m s' :
  Expand_Debug.dt_param b s m = Ok (Some s') ->
  exists k, param_key m = Some k /\ seen_dt s k = false /\
            forall k', seen_dt s' k' = seen_dt s k' || String.eqb k' k.
Proof.
  unfold Expand_Debug.dt_param. destruct (param_is m ["name"; "rename"]) eqn:Hp.
  - destruct (negb (Expand_Debug.tb_name b)); [discriminate|]. intros H. inv_bind H.
    destruct (Expand_Debug.ts_name_set s) eqn:Hf; [discriminate H|]. inversion H; subst s'.
    exists "name". split; [apply (param_is_key _ _ _ Hp); canon_names|].
    unfold seen_dt. rewrite Hf. split; [seen_false|seen_eq].
  - destruct (param_is m ["named_field"]) eqn:Hq.
    + destruct (negb (Expand_Debug.tb_named_field b)); [discriminate|]. intros H. inv_bind H.
      destruct (Expand_Debug.ts_nf_set s) eqn:Hf; [discriminate H|]. inversion H; subst s'.
      exists "named_field". split; [apply (param_is_key _ _ _ Hq); canon_names|].
      unfold seen_dt. rewrite Hf. split; [seen_false|seen_eq].
    + destruct (param_is m ["bound"]) eqn:Hr; [|discriminate].
      destruct (negb (Expand_Debug.tb_bound b)); [discriminate|]. intros H. inv_bind H.
      destruct (Expand_Debug.ts_bound_set s) eqn:Hf; [discriminate H|]. inversion H; subst s'.
      exists "bound". split; [apply (param_is_key _ _ _ Hr); canon_names|].
      unfold seen_dt. rewrite Hf. split; [seen_false|seen_eq].
Qed.

(** ** Debug, field level: `name`|`rename` / `ignore` / `method` *)
Definition seen_df (s : Expand_Debug.dfstate) (k : string) : bool :=
  (Expand_Debug.dfs_name_set s && String.eqb k "name")
  || (Expand_Debug.dfs_ignore_set s && String.eqb k "ignore")
  || (Expand_Debug.dfs_method_set s && String.eqb k "method").

Lemma debug_df_param_step a b c s m s' :
  Expand_Debug.df_param a b c s m = Ok (Some s') ->
  exists k, param_key m = Some k /\ seen_df s k = false /\
            forall k', seen_df s' k' = seen_df s k' || String.eqb k' k.
Proof.
  unfold Expand_Debug.df_param. destruct (param_is m ["name"; "rename"]) eqn:Hp.
  - destruct (negb a); [discriminate|]. intros H. inv_bind H.
    destruct (Expand_Debug.dfs_name_set s) eqn:Hf; [discriminate H|]. inversion H; subst s'.
    exists "name". split; [apply (param_is_key _ _ _ Hp); canon_names|].
    unfold seen_df. rewrite Hf. split; [seen_false|seen_eq].
  - destruct (param_is m ["ignore"]) eqn:Hq.
    + destruct (negb b); [discriminate|]. intros H. inv_bind H.
      destruct (Expand_Debug.dfs_ignore_set s) eqn:Hf; [discriminate H|]. inversion H; subst s'.
      exists "ignore". split; [apply (param_is_key _ _ _ Hq); canon_names|].
      unfold seen_df. rewrite Hf. split; [seen_false|seen_eq].
    + destruct (param_is m ["method"]) eqn:Hr; [|discriminate].
      destruct (negb c); [discriminate|]. intros H. inv_bind H.
      destruct (Expand_Debug.dfs_method_set s) eqn:Hf; [discriminate H|]. inversion H; subst s'.
      exists "method". split; [apply (param_is_key _ _ _ Hr); canon_names|].
      unfold seen_df. rewrite Hf. split; [seen_false|seen_eq].
Qed.

(** ** Default, type level: `new` / `expression`|`expr` / `bound` *)
Definition seen_ddt (s : Expand_Default.dtstate) (k : string) : bool :=
  (Expand_Default.ds_new_set s && String.eqb k "new")
  || (Expand_Default.ds_expr_set s && String.eqb k "expression")
  || (Expand_Default.ds_bound_set s && String.eqb k "bound").

Lemma default_dt_param_step a b c s m s' :
  Expand_Default.dt_param a b c s m = Ok (Some s') ->
  exists k, param_key m = Some k /\ seen_ddt s k = false /\
            forall k', seen_ddt s' k' = seen_ddt s k' || String.eqb k' k.
Proof.
  unfold Expand_Default.dt_param. destruct (param_is m ["new"]) eqn:Hp.
  - destruct (negb a); [discriminate|]. intros H. inv_bind H.
    destruct (Expand_Default.ds_new_set s) eqn:Hf; [discriminate H|]. inversion H; subst s'.
    exists "new". split; [apply (param_is_key _ _ _ Hp); canon_names|].
    unfold seen_ddt. rewrite Hf. split; [seen_false|seen_eq].
  - destruct (param_is m ["expression"; "expr"]) eqn:Hq.
    + destruct (negb b); [discriminate|]. intros H. inv_bind H.
      destruct (Expand_Default.ds_expr_set s) eqn:Hf; [discriminate H|]. inversion H; subst s'.
      exists "expression". split; [apply (param_is_key _ _ _ Hq); canon_names|].
      unfold seen_ddt. rewrite Hf. split; [seen_false|seen_eq].
    + destruct (param_is m ["bound"]) eqn:Hr; [|discriminate].
      destruct (negb c); [discriminate|]. intros H. inv_bind H.
      destruct (Expand_Default.ds_bound_set s) eqn:Hf; [discriminate H|]. inversion H; subst s'.
      exists "bound". split; [apply (param_is_key _ _ _ Hr); canon_names|].
      unfold seen_ddt. rewrite Hf. split; [seen_false|seen_eq].
Qed.

(** ** Default, field level: `expression`|`expr` *)
Definition seen_ddf (s : option Expand_Default.dvalue * bool) (k : string) : bool :=
  snd s && String.eqb k "expression".

Lemma default_df_param_step ee ty s m s' :
  Expand_Default.df_param ee ty s m = Ok (Some s') ->
  exists k, param_key m = Some k /\ seen_ddf s k = false /\
            forall k', seen_ddf s' k' = seen_ddf s k' || String.eqb k' k.
Proof.
  unfold Expand_Default.df_param. destruct (param_is m ["expression"; "expr"]) eqn:Hp; [|discriminate].
  destruct (negb ee); [discriminate|]. intros H. inv_bind H.
  destruct (snd s) eqn:Hf; [discriminate H|]. inversion H; subst s'.
  exists "expression". split; [apply (param_is_key _ _ _ Hp); canon_names|].
  unfold seen_ddf. rewrite Hf. split; [reflexivity|]. intros k'. reflexivity.
Qed.

(** * the builders *)

Definition nodup_params (l : layout) (m : meta) : Prop := dup_param (params l m) = false.

Lemma build_tattr_nodup ef eu eb m x :
  build_tattr ef eu eb m = Ok x -> nodup_params (if eu then LUnsafe else LPlain) m.
Proof.
  unfold build_tattr, nodup_params. destruct m as [p|p v|p dl ts]; [reflexivity| |].
  - destruct eu; reflexivity.
  - intros H. inv_bind H. destruct a as [u ms]. inv_bind H.
    apply (run_params_nodup _ _ (bound_param_step eb)) in Hb0. destruct Hb0 as [_ Hd].
    destruct eu; cbn [params].
    + rewrite Hb. exact Hd.
    + apply bind_ok in Hb. destruct Hb as [ms' [Hp Hq]]. inversion Hq; subst. rewrite Hp. exact Hd.
Qed.

Lemma build_fattr_nodup ei em m x : build_fattr ei em m = Ok x -> nodup_params LPlain m.
Proof.
  unfold build_fattr, nodup_params. destruct m as [p|p v|p dl ts]; [reflexivity|reflexivity|].
  intros H. inv_bind H. inv_bind H.
  apply (run_params_nodup _ _ (im_param_step ei em)) in Hb0. destruct Hb0 as [_ Hd].
  cbn [params]. rewrite Hb. exact Hd.
Qed.

Lemma build_ofattr_nodup ei em er r m x : build_ofattr ei em er r m = Ok x -> nodup_params LPlain m.
Proof.
  unfold build_ofattr, nodup_params. destruct m as [p|p v|p dl ts]; [reflexivity|reflexivity|].
  intros H. inv_bind H. inv_bind H.
  apply (run_params_nodup _ _ (ord_param_step ei em er)) in Hb0. destruct Hb0 as [_ Hd].
  cbn [params]. rewrite Hb. exact Hd.
Qed.

Lemma debug_build_dtattr_nodup b m x :
  Expand_Debug.build_dtattr b m = Ok x ->
  nodup_params (if Expand_Debug.tb_unsafe b then LUnsafe else LPlain) m.
Proof.
  unfold Expand_Debug.build_dtattr, nodup_params. destruct m as [p|p v|p dl ts]; [reflexivity| |].
  - destruct (Expand_Debug.tb_unsafe b); reflexivity.
  - intros H. inv_bind H. destruct a as [u ms]. inv_bind H.
    apply (run_params_nodup _ _ (debug_dt_param_step b)) in Hb0. destruct Hb0 as [_ Hd].
    destruct (Expand_Debug.tb_unsafe b); cbn [params].
    + rewrite Hb. exact Hd.
    + apply bind_ok in Hb. destruct Hb as [ms' [Hp Hq]]. inversion Hq; subst. rewrite Hp. exact Hd.
Qed.

Lemma debug_build_dfattr_nodup a b c m x : Expand_Debug.build_dfattr a b c m = Ok x -> nodup_params LPlain m.
Proof.
  unfold Expand_Debug.build_dfattr, nodup_params. destruct m as [p|p v|p dl ts]; [reflexivity|reflexivity|].
  intros H. inv_bind H. inv_bind H.
  apply (run_params_nodup _ _ (debug_df_param_step a b c)) in Hb0. destruct Hb0 as [_ Hd].
  cbn [params]. rewrite Hb. exact Hd.
Qed.

Lemma default_build_dtattr_nodup a b c e m x :
  Expand_Default.build_dtattr a b c e m = Ok x -> nodup_params LPlain m.
Proof.
  unfold Expand_Default.build_dtattr, nodup_params. destruct m as [p|p v|p dl ts]; [reflexivity|reflexivity|].
  intros H. inv_bind H. inv_bind H.
  apply (run_params_nodup _ _ (default_dt_param_step b c e)) in Hb0. destruct Hb0 as [_ Hd].
  cbn [params]. rewrite Hb. exact Hd.
Qed.

Lemma default_build_dfattr_nodup a b ty m x :
  Expand_Default.build_dfattr a b ty m = Ok x -> nodup_params LPlain m.
Proof.
  unfold Expand_Default.build_dfattr, nodup_params. destruct m as [p|p v|p dl ts]; [reflexivity|reflexivity|].
  intros H. inv_bind H. inv_bind H.
  apply (run_params_nodup _ _ (default_df_param_step b ty)) in Hb0. destruct Hb0 as [_ Hd].
  cbn [params]. rewrite Hb. exact Hd.
Qed.

Lemma deref_build_path ef m x : deref_build ef m = Ok x -> is_path m = true.
Proof. destruct m; [reflexivity|discriminate|discriminate]. Qed.

Lemma into_type_meta_nodup et acc m acc' : into_type_meta et acc m = Ok acc' -> nodup_params LType m.
Proof.
  unfold into_type_meta, nodup_params. destruct m as [p|p v|p dl ts]; [reflexivity|reflexivity|].
  destruct (negb et); [discriminate|]. intros H. inv_bind H. destruct a as [ty ms]. inv_bind H.
  destruct a as [u b].
  apply (run_params_nodup _ _ (bound_param_step true)) in Hb0. destruct Hb0 as [_ Hd].
  cbn [params]. rewrite Hb. exact Hd.
Qed.

Lemma into_field_meta_nodup acc m acc' : into_field_meta acc m = Ok acc' -> nodup_params LType m.
Proof.
  unfold into_field_meta, nodup_params. destruct m as [p|p v|p dl ts]; [reflexivity|reflexivity|].
  intros H. inv_bind H. destruct a as [ty ms]. inv_bind H.
  apply (run_params_nodup _ _ (im_param_step false true)) in Hb0. destruct Hb0 as [_ Hd].
  cbn [params]. rewrite Hb. exact Hd.
Qed.

(** * below the type level *)
Lemma acc_of_nodup t pl m : acc_of t pl m -> nodup_params (item_layout t) m.
Proof.
  destruct t; cbn [acc_of item_layout]; intros H.
  - destruct pl; cbn in H.
    + destruct H as [named [x Hx]]. exact (debug_build_dtattr_nodup _ _ _ Hx).
    + destruct H as [en [x Hx]]. exact (debug_build_dfattr_nodup _ _ _ _ _ Hx).
    + destruct H as [x Hx]. exact (debug_build_dfattr_nodup _ _ _ _ _ Hx).
  - destruct pl; cbn in H.
    + destruct H as [x Hx]. exact (build_tattr_nodup _ _ _ _ _ Hx).
    + destruct H as [em [x Hx]]. exact (build_fattr_nodup _ _ _ _ Hx).
    + destruct H as [x Hx]. exact (build_fattr_nodup _ _ _ _ Hx).
  - destruct pl; cbn in H; [|destruct H|destruct H].
    destruct H as [x Hx]. exact (build_tattr_nodup _ _ _ _ _ Hx).
  - destruct pl; cbn in H; destruct H as [x Hx];
      [exact (build_tattr_nodup _ _ _ _ _ Hx)|exact (build_fattr_nodup _ _ _ _ Hx)..].
  - destruct H as [H|H]; destruct pl; cbn in H; try destruct H as [x Hx]; try destruct H;
      [exact (build_tattr_nodup _ _ _ _ _ Hx)|exact (build_fattr_nodup _ _ _ _ Hx)
       |exact (build_fattr_nodup _ _ _ _ Hx)|exact (build_tattr_nodup _ _ _ _ _ Hx)].
  - destruct pl; cbn in H; [| |destruct H].
    + destruct H as [x Hx]. exact (build_tattr_nodup _ _ _ _ _ Hx).
    + destruct H as [r [x Hx]]. exact (build_ofattr_nodup _ _ _ _ _ _ Hx).
  - destruct pl; cbn in H; [| |destruct H].
    + destruct H as [x Hx]. exact (build_tattr_nodup _ _ _ _ _ Hx).
    + destruct H as [r [x Hx]]. exact (build_ofattr_nodup _ _ _ _ _ _ Hx).
  - destruct pl; cbn in H; destruct H as [x Hx];
      [exact (build_tattr_nodup _ _ _ _ _ Hx)|exact (build_fattr_nodup _ _ _ _ Hx)..].
  - destruct pl; cbn in H.
    + destruct H as [ef [x Hx]]. exact (default_build_dtattr_nodup _ _ _ _ _ _ Hx).
    + destruct H as [ef [ee [ty [x Hx]]]]. exact (default_build_dfattr_nodup _ _ _ _ _ Hx).
    + destruct H as [ef [ee [ty [x Hx]]]]. exact (default_build_dfattr_nodup _ _ _ _ _ Hx).
  - assert (Hp : is_path m = true) by (destruct pl; cbn in H; destruct H as [x Hx]; exact (deref_build_path _ _ _ Hx)).
    destruct m; [reflexivity|discriminate Hp..].
  - assert (Hp : is_path m = true) by (destruct pl; cbn in H; destruct H as [x Hx]; exact (deref_build_path _ _ _ Hx)).
    destruct m; [reflexivity|discriminate Hp..].
  - destruct pl; cbn in H; [destruct H| |]; destruct H as [a [a' Ha]]; exact (into_field_meta_nodup _ _ _ Ha).
Qed.

Theorem R2_item_param_twice F d its :
  expand F d = Ok its -> known_gap F d = false -> invalid_item_param_twice F d = false.
Proof.
  intros H Hgap. apply existsb_false. intros x Hin.
  destruct (items_accepted _ _ _ H Hgap x Hin) as [t [Ht [_ Ha]]].
  unfold item_params. rewrite Ht. exact (acc_of_nodup _ _ _ Ha).
Qed.

(** * the type level: what each handler builds its own item with *)

Lemma dup_trait_false_count l t :
  dup_trait l = false -> t <> TInto -> count (trait_eqb t) l <= 1.
Proof.
  intros H Hn. destruct (Nat.le_gt_cases (count (trait_eqb t) l) 1) as [Hle|Hgt]; [exact Hle|]. exfalso.
  induction l as [|x r IH]; [cbn in Hgt; lia|].
  cbn [dup_trait] in H. apply orb_false_iff in H. destruct H as [H1 H2].
  unfold count in *. cbn [filter] in Hgt. destruct (trait_eqb t x) eqn:E.
  - apply trait_eqb_eq in E. subst x. cbn [List.length] in Hgt.
    assert (Hx : has_trait t r = true).
    { destruct (filter (trait_eqb t) r) as [|y r'] eqn:Ef; [cbn in Hgt; lia|].
      assert (Hy : In y (filter (trait_eqb t) r)) by (rewrite Ef; left; reflexivity).
      apply filter_In in Hy. destruct Hy as [Hy1 Hy2]. apply trait_eqb_eq in Hy2. subst y.
      apply has_trait_In. exact Hy1. }
    rewrite Hx, andb_true_r in H1. apply negb_false_iff, trait_eqb_eq in H1. congruence.
  - exact (IH H2 Hgt).
Qed.

(** every handler starts by building its own type-level item *)
Lemma handler_builds_nodup F traits d t h m l :
  In (t, h) handlers -> h F traits d m = Ok l -> nodup_params (type_layout d t) m.
Proof.
  intros Hin H. cbn in Hin.
  repeat (destruct Hin as [E|Hin]; [inversion E; subst t h; clear E|]); [..|destruct Hin];
    unfold type_layout, is_union; cbn [unsafe_trait andb].
  - unfold Expand_Debug.expand_debug in H. destruct (d_data d); inv_bind H;
      apply debug_build_dtattr_nodup in Hb; exact Hb.
  - unfold expand_clone in H. inv_bind H. apply build_tattr_nodup in Hb.
    rewrite andb_false_r. exact Hb.
  - unfold expand_copy in H. inv_bind H. apply build_tattr_nodup in Hb.
    rewrite andb_false_r. exact Hb.
  - unfold expand_partial_eq in H. destruct (d_data d); inv_bind H;
      apply build_tattr_nodup in Hb; exact Hb.
  - unfold expand_eq in H. inv_bind H. apply build_tattr_nodup in Hb.
    rewrite andb_false_r. exact Hb.
  - unfold expand_partial_ord in H. rewrite andb_false_r.
    destruct (has_trait TOrd F && has_trait TOrd traits).
    + inv_bind H. apply build_tattr_nodup in Hb. exact Hb.
    + destruct (d_data d); [| |discriminate H]; inv_bind H; apply build_tattr_nodup in Hb; exact Hb.
  - unfold expand_ord in H. rewrite andb_false_r.
    destruct (d_data d); [| |discriminate H]; inv_bind H; apply build_tattr_nodup in Hb; exact Hb.
  - unfold expand_hash in H. destruct (d_data d); inv_bind H;
      apply build_tattr_nodup in Hb; exact Hb.
  - unfold Expand_Default.expand_default in H. inv_bind H. unfold Expand_Default.default_plan in Hb.
    inv_bind Hb. apply default_build_dtattr_nodup in Hb0. rewrite andb_false_r. exact Hb0.
  - unfold expand_deref in H. inv_bind H. unfold deref_analyse in Hb. rewrite andb_false_r.
    destruct (d_data d); [| |discriminate Hb]; inv_bind Hb; apply deref_build_path in Hb0;
      destruct m; try discriminate Hb0; reflexivity.
  - unfold expand_deref_mut in H. inv_bind H. unfold deref_analyse in Hb. rewrite andb_false_r.
    destruct (d_data d); [| |discriminate Hb]; inv_bind Hb; apply deref_build_path in Hb0;
      destruct m; try discriminate Hb0; reflexivity.
Qed.

Lemma into_build_type_nodup et ms targets :
  into_build_type et ms = Ok targets -> forall m, In m ms -> nodup_params LType m.
Proof.
  intros H m Hin. unfold into_build_type in H.
  destruct (foldM_In_step _ _ _ _ _ H Hin) as [s1 [s2 Hs]]. exact (into_type_meta_nodup _ _ _ _ Hs).
Qed.

Lemma expand_into_build F traits d ms l :
  expand_into F traits d ms = Ok l -> exists targets, into_build_type true ms = Ok targets.
Proof.
  intros H. unfold expand_into in H. inv_bind H. unfold into_analyse in Hb. inv_bind Hb.
  unfold into_results in Hb0. destruct (d_data d); [| |discriminate Hb0]; inv_bind Hb0; eauto.
Qed.

Theorem R2_type_param_twice F d its :
  expand F d = Ok its -> invalid_type_param_twice F d = false.
Proof.
  intros H. apply existsb_false. intros m Hin.
  destruct (expand_ok_inv _ _ _ H) as [traits [Hag [Hk [Hd [Hh [Hi _]]]]]].
  unfold type_params. pose proof (Hk m Hin) as Hu. unfold unknown_trait in Hu.
  destruct (meta_trait F m) as [t|] eqn:Ht; [|discriminate Hu].
  assert (Hmo : In m (metas_of F t (type_metas d))).
  { unfold metas_of. apply filter_In. split; [exact Hin|]. unfold names. rewrite Ht. apply trait_eqb_refl. }
  destruct (trait_eqb t TInto) eqn:Ei.
  - apply trait_eqb_eq in Ei. subst t.
    assert (Hne : metas_of F TInto (type_metas d) <> []) by (intros E; rewrite E in Hmo; destruct Hmo).
    destruct (Hi Hne) as [l Hl]. destruct (expand_into_build _ _ _ _ _ Hl) as [targets Ht'].
    exact (into_build_type_nodup _ _ _ Ht' m Hmo).
  - assert (Hni : t <> TInto) by (intros ->; discriminate Ei).
    pose proof (dup_trait_false_count _ t Hd Hni) as Hc. unfold type_traits in Hc.
    fold (traits_of F (type_metas d)) in Hc. rewrite count_traits_of in Hc.
    assert (Htm : type_meta F t d = Some m).
    { unfold type_meta. destruct (metas_of F t (type_metas d)) as [|m1 [|m2 r]]; [destruct Hmo| |cbn in Hc; lia].
      destruct Hmo as [<-|[]]. reflexivity. }
    assert (Hex : exists h, In (t, h) handlers).
    { destruct t; try congruence; eexists; cbn; tauto. }
    destruct Hex as [h Hh']. destruct (Hh t h m Hh' Htm) as [l Hl].
    exact (handler_builds_nodup _ _ _ _ _ _ _ Hh' Hl).
Qed.

Theorem R2_param_twice F d its :
  expand F d = Ok its -> known_gap F d = false -> invalid_param_twice F d = false.
Proof.
  intros H Hg. unfold invalid_param_twice.
  rewrite (R2_type_param_twice _ _ _ H), (R2_item_param_twice _ _ _ H Hg). reflexivity.
Qed.
