(** C01 / acceptance, continued -- `Debug(name ..)` at type level and `Default(new ..)`:
    `#[educe(Debug(name = false))]`, `Debug(name(false))`, `Debug(name = Ident)`,
    `Debug(name = "Ident")`, `Debug(name(Ident))` on a struct / an enum without field or variant
    attributes; `#[educe(Default(new))]`, `Default(new = true)`, `Default(new(true))`. *)
From Educe.Proofs Require Export P_C01i.

(** * the spellings of the type-level `name` *)
Inductive nform :=
| NEqFalse                               (* name = false *)
| NParenFalse                            (* name(false) *)
| NEqIdent (s : string)                  (* name = Ident *)
| NEqStr (raw s : string)                (* name = "Ident": [raw] the literal as written *)
| NParenIdent (s : string).              (* name(Ident) *)

Definition nform_toks (n : nform) : toks :=
  match n with
  | NEqFalse => [I "name"; P "="; I "false"]
  | NParenFalse => [I "name"; G Paren [I "false"]]
  | NEqIdent s => [I "name"; P "="; I s]
  | NEqStr raw s => [I "name"; P "="; TStr raw s (Some [I s])]
  | NParenIdent s => [I "name"; G Paren [I s]]
  end.

(** `name = Ident` is read as an expression (a path segment: not a keyword, or `self` `Self`
    `super` `crate`), the two others by [Ident::parse] (not a keyword) *)
Definition nform_ok (n : nform) : Prop :=
  match n with
  | NEqFalse | NParenFalse => True
  | NEqIdent s => path_seg_ok s = true
  | NEqStr _ s | NParenIdent s => ident_ok s = true
  end.

Definition nform_name (n : nform) : Expand_Debug.tname :=
  match n with
  | NEqFalse | NParenFalse => TNDisable
  | NEqIdent s | NEqStr _ s | NParenIdent s => TNCustom s
  end.

Definition name_path : mpath := {| mp_lead := false; mp_segs := ["name"] |}.

Definition nform_meta (n : nform) : meta :=
  match n with
  | NEqFalse => MNameValue name_path (XLit (TIdent "false"))
  | NParenFalse => MList name_path Paren [TIdent "false"]
  | NEqIdent s => MNameValue name_path (XPath [TIdent s])
  | NEqStr raw s => MNameValue name_path (XLit (TStr raw s (Some [TIdent s])))
  | NParenIdent s => MList name_path Paren [TIdent s]
  end.

Lemma seg_ok_not_bool s : path_seg_ok s = true -> is_bool_tok (TIdent s) = None.
Proof.
  intros H. cbn [is_bool_tok]. destruct (String.eqb s "true") eqn:E1.
  - apply String.eqb_eq in E1. subst s. vm_compute in H. discriminate H.
  - destruct (String.eqb s "false") eqn:E2; [|reflexivity].
    apply String.eqb_eq in E2. subst s. vm_compute in H. discriminate H.
Qed.

Lemma ident_ok_seg_ok s : ident_ok s = true -> path_seg_ok s = true.
Proof. unfold ident_ok, path_seg_ok, mod_seg_ok. intros ->. reflexivity. Qed.

Lemma classify_ident last s :
  path_seg_ok s = true -> classify_value last [TIdent s] = Ok (XPath [TIdent s]).
Proof.
  intros H. unfold classify_value. unfold is_lit_tok. rewrite (seg_ok_not_bool s H).
  unfold parse_path_all. cbn [has_angle existsb is_punct orb path_segs]. rewrite H. reflexivity.
Qed.

Lemma parse_name_eq v :
  parse_meta_chunk true (I "name" :: P "=" :: v)
  = let* x := classify_value true v in Ok (MNameValue name_path x).
Proof. reflexivity. Qed.

Lemma parse_nform n : nform_ok n -> parse_metas (nform_toks n) = Ok [nform_meta n].
Proof.
  destruct n as [| |s|raw s|s]; cbn [nform_ok nform_toks nform_meta]; intros Hok;
    try (vm_compute; reflexivity).
  - change (parse_metas [I "name"; P "="; I s])
      with (let* m := parse_meta_chunk true (I "name" :: P "=" :: [I s]) in Ok [m]).
    rewrite parse_name_eq. unfold I at 1. rewrite (classify_ident true s Hok). reflexivity.
Qed.

Lemma nform_value n :
  nform_ok n -> exists v, meta_2_ident_and_bool (nform_meta n) = Ok v /\ tname_of_iob v = nform_name n.
Proof.
  destruct n as [| |s|raw s|s]; cbn [nform_ok nform_meta nform_name]; intros Hok.
  - eexists. split; reflexivity.
  - eexists. split; reflexivity.
  - eexists. split; reflexivity.
  - exists (IOBIdent s). split; [|reflexivity].
    cbn [meta_2_ident_and_bool meta_name_value_2_ident_and_bool]. unfold str_ident_or_bool, str_parse_ident.
    cbn [relex_of bind args_ident]. rewrite Hok. reflexivity.
  - exists (IOBIdent s). split; [|reflexivity].
    cbn [meta_2_ident_and_bool args_ident_or_bool].
    rewrite (seg_ok_not_bool s (ident_ok_seg_ok s Hok)). cbn [args_ident]. rewrite Hok. reflexivity.
Qed.

(** what the type attribute builder makes of `Debug(<name form>)` *)
Lemma nform_build pth b n :
  tb_unsafe b = false -> tb_name b = true -> nform_ok n ->
  Expand_Debug.build_dtattr b (MList pth Paren (nform_toks n))
  = Ok {| Expand_Debug.dt_unsafe := false; Expand_Debug.dt_name := nform_name n;
          Expand_Debug.dt_named_field := tb_named_field0 b; Expand_Debug.dt_bound := BAuto |}.
Proof.
  intros Hu Hn Hok. cbn [Expand_Debug.build_dtattr]. rewrite Hu. rewrite (parse_nform n Hok).
  cbn [bind run_params foldM]. unfold run_param, Expand_Debug.dt_param.
  replace (param_is (nform_meta n) ["name"; "rename"]) with true by (destruct n; reflexivity).
  rewrite Hn. cbn [negb]. destruct (nform_value n Hok) as [v [Hv Hname]]. rewrite Hv.
  cbn [bind ts_name_set ts_name ts_named_field ts_bound]. rewrite Hname. reflexivity.
Qed.

(** * Debug on a struct / an enum, for any type attribute the meta builds *)
Lemma has_shown_plain (l : list field) :
  l <> [] -> has_shown (indexed (map (fun f => (f, Expand_Debug.dfattr_default)) l)) = true.
Proof. destruct l as [|f l]; [congruence|]. intros _. reflexivity. Qed.

Lemma accept_debug_struct F traits d m fs ta :
  d_data d = DStruct fs -> plain_fields (fields_list fs) ->
  Expand_Debug.build_dtattr
    {| tb_flag := true; tb_unsafe := false; tb_name := true; tb_named_field := true;
       tb_bound := true; tb_name0 := TNDefault;
       tb_named_field0 := negb match fs with FUnnamed _ => true | _ => false end |} m = Ok ta ->
  (Expand_Debug.dt_name ta = TNDisable -> fields_list fs <> []) ->
  exists items, expand_debug F traits d m = Ok items.
Proof.
  intros Hd Hp Hb Hn. unfold expand_debug. rewrite Hd. rewrite Hb. cbn [bind].
  rewrite (debug_field_attrs_plain F traits _ _ Hp). cbn [bind].
  destruct (Expand_Debug.dt_name ta) as [| |s] eqn:En; cbn [tname_ident is_some negb].
  - rewrite (has_shown_plain _ (Hn eq_refl)). ok.
  - rewrite andb_false_r. ok.
  - rewrite andb_false_r. ok.
Qed.

Lemma name_string_some name x : is_some (name_string name (Some x)) = true.
Proof. destruct name; reflexivity. Qed.

Lemma debug_variants_plain F traits name vs :
  plain_variants vs -> exists dvs, mapM (debug_variant F traits name) vs = Ok dvs.
Proof.
  intros Hp. apply mapM_all_ex. intros v Hv. destruct (Hp v Hv) as [Ha Hfs].
  unfold debug_variant. rewrite Ha.
  cbn [debug_variant_attr scan_attrs foldM bind Expand_Debug.dtattr_default Expand_Debug.dt_name
       tb_name0 tname_ident Expand_Debug.dt_named_field tb_named_field0].
  rewrite name_string_some.
  destruct (v_fields v) as [l|l|]; cbn [fields_list] in Hfs; [| |ok];
    rewrite (debug_field_attrs_plain F traits _ _ Hfs); cbn [bind negb]; rewrite andb_false_r; ok.
Qed.

Lemma accept_debug_enum F traits d m vs ta :
  d_data d = DEnum vs -> plain_variants vs ->
  Expand_Debug.build_dtattr
    {| tb_flag := true; tb_unsafe := false; tb_name := true; tb_named_field := false;
       tb_bound := true; tb_name0 := TNDisable; tb_named_field0 := false |} m = Ok ta ->
  (Expand_Debug.dt_name ta = TNDisable -> vs <> []) ->
  exists items, expand_debug F traits d m = Ok items.
Proof.
  intros Hd Hp Hb Hn. unfold expand_debug. rewrite Hd. rewrite Hb. cbn [bind].
  destruct (debug_variants_plain F traits (tname_ident (Expand_Debug.dt_name ta) (d_name d)) vs Hp)
    as [dvs Hdvs].
  rewrite Hdvs. cbn [bind]. pose proof (mapM_ok_length _ _ _ Hdvs) as Hlen.
  destruct (Expand_Debug.dt_name ta) as [| |s] eqn:En; cbn [tname_ident is_some negb].
  - destruct dvs as [|x r]; [destruct vs; [exfalso; apply (Hn eq_refl); reflexivity|discriminate Hlen]|]. ok.
  - rewrite andb_false_r. ok.
  - rewrite andb_false_r. ok.
Qed.

(** when the name is disabled something else must be shown: a struct needs a field, an enum a
    variant (its variants keep their names) *)
Definition name_accepted (n : nform) (dt : data) : Prop :=
  match dt with
  | DStruct fs => nform_name n = TNDisable -> fields_list fs <> []
  | DEnum vs => nform_name n = TNDisable -> vs <> []
  | DUnion _ => False
  end.

Theorem expand_accepts_debug_name F d n :
  has_trait TDebug F = true ->
  d_attrs d = [educe_list TDebug (nform_toks n)] ->
  plain_data (d_data d) -> nform_ok n -> name_accepted n (d_data d) ->
  exists items, expand F d = Ok items.
Proof.
  intros HF Ha Hp Hok Hs.
  apply (expand_single_list F d TDebug (nform_toks n) HF); [discriminate|exact Ha|].
  intros h Hin. unfold handlers in Hin. cbn [In] in Hin.
  repeat (destruct Hin as [Hin|Hin]; [inversion Hin; try subst h; clear Hin|]); [|destruct Hin].
  unfold list_meta. destruct (d_data d) as [fs|vs|fs] eqn:Hd; cbn [name_accepted plain_data] in Hs, Hp.
  - eapply (accept_debug_struct F [TDebug] d _ fs _ Hd Hp).
    + apply nform_build; [reflexivity|reflexivity|exact Hok].
    + exact Hs.
  - eapply (accept_debug_enum F [TDebug] d _ vs _ Hd Hp).
    + apply nform_build; [reflexivity|reflexivity|exact Hok].
    + exact Hs.
  - destruct Hs.
Qed.

(** * `Default(new)`: the three spellings (and `new = false`, `new(false)`, which switch it off) *)
Inductive wform := WFlag | WEq (b : bool) | WParen (b : bool).
Definition bool_tok (b : bool) : tt := I (if b then "true" else "false").
Definition wform_toks (w : wform) : toks :=
  match w with
  | WFlag => [I "new"]
  | WEq b => [I "new"; P "="; bool_tok b]
  | WParen b => [I "new"; G Paren [bool_tok b]]
  end.

Lemma wform_default_no_expr pth w : default_no_expr (MList pth Paren (wform_toks w)).
Proof. destruct w as [|[]|[]]; (eexists; split; [vm_compute; reflexivity|reflexivity]). Qed.

Theorem expand_accepts_default_new F d w :
  has_trait TDefault F = true ->
  d_attrs d = [educe_list TDefault (wform_toks w)] ->
  plain_data (d_data d) -> flag_accepted TDefault (d_data d) ->
  exists items, expand F d = Ok items.
Proof.
  intros HF Ha Hp Hs.
  apply (expand_single_list F d TDefault (wform_toks w) HF); [discriminate|exact Ha|].
  intros h Hin. unfold handlers in Hin. cbn [In] in Hin.
  repeat (destruct Hin as [Hin|Hin]; [inversion Hin; try subst h; clear Hin|]); [|destruct Hin].
  destruct (accept_default F [TDefault] d (flag_path TDefault) Hp Hs) as [its Hits].
  apply (transfer_default F _ d _ _ its (wform_default_no_expr _ w) Hits).
Qed.
