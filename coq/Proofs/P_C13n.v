(** C13 — R12 (continued): `bound` on a companion trait (Eq / Copy / PartialOrd) whose primary
    (PartialEq / Clone / Ord) is educed on the same type. *)
From Educe.Proofs Require Export P_C13m.

(** the type-level builder with `bound` switched off accepts `Trait` and `Trait()` only *)
Lemma tattr_bound_off_no_params ef m x :
  build_tattr ef false false m = Ok x -> params LPlain m = [].
Proof.
  intros H. unfold build_tattr in H. destruct m as [p|p v|p dl ts]; [reflexivity|reflexivity|].
  inv_bind H. destruct a as [u ms]. inv_bind H. apply bind_ok in Hb. destruct Hb as [ms' [Hp Hq]].
  inversion Hq; subst. apply run_params_nil in Hb0.
  - subst ms. cbn [params]. rewrite Hp. reflexivity.
  - intros s m s' Hs. unfold bound_param in Hs. destruct (param_is m ["bound"]); discriminate Hs.
Qed.

(** [type_meta_built] keeping the fact that the handler saw the educed traits *)
Lemma type_meta_built_agree F d its m t :
  expand F d = Ok its -> In m (type_metas d) -> meta_trait F m = Some t -> t <> TInto ->
  exists traits h l, traits_agree F traits d /\ In (t, h) handlers /\ h F traits d m = Ok l.
Proof.
  intros H Hin Ht Hni.
  destruct (expand_ok_inv _ _ _ H) as [traits [Hag [Hk [Hd [Hh [Hi _]]]]]].
  assert (Hmo : In m (metas_of F t (type_metas d))).
  { unfold metas_of. apply filter_In. split; [exact Hin|]. unfold names. rewrite Ht. apply trait_eqb_refl. }
  pose proof (dup_trait_false_count _ t Hd Hni) as Hc. unfold type_traits in Hc.
  fold (traits_of F (type_metas d)) in Hc. rewrite count_traits_of in Hc.
  assert (Htm : type_meta F t d = Some m).
  { unfold type_meta. destruct (metas_of F t (type_metas d)) as [|m1 [|m2 r]]; [destruct Hmo| |cbn in Hc; lia].
    destruct Hmo as [<-|[]]. reflexivity. }
  assert (Hex : exists h, In (t, h) handlers).
  { destruct t; try congruence; eexists; cbn; tauto. }
  destruct Hex as [h Hh']. destruct (Hh t h m Hh' Htm) as [l Hl]. exists traits, h, l. auto.
Qed.

(** the companion's handler, run next to its educed primary, accepted no parameter at all *)
Lemma companion_handler_no_params F traits d t p h m l :
  traits_agree F traits d -> primary_of t = Some p -> educed F p d = true ->
  In (t, h) handlers -> h F traits d m = Ok l -> params LPlain m = [].
Proof.
  intros Hag Hp He Hin H. cbn in Hin.
  repeat (destruct Hin as [E|Hin]; [inversion E; subst t h; clear E; try discriminate Hp|]); [..|destruct Hin];
    cbn [primary_of] in Hp; inversion Hp; subst p; clear Hp.
  - (* Copy next to Clone *)
    unfold expand_copy in H. rewrite (contains_educed _ _ _ TClone Hag), He in H. cbn [negb] in H.
    inv_bind H. exact (tattr_bound_off_no_params _ _ _ Hb).
  - (* Eq next to PartialEq *)
    unfold expand_eq in H. rewrite (contains_educed _ _ _ TPartialEq Hag), He in H. cbn [negb] in H.
    inv_bind H. exact (tattr_bound_off_no_params _ _ _ Hb).
  - (* PartialOrd next to Ord *)
    unfold expand_partial_ord in H. rewrite (contains_educed _ _ _ TOrd Hag), He in H.
    inv_bind H. exact (tattr_bound_off_no_params _ _ _ Hb).
Qed.

Theorem R12_companion_bound F d its :
  expand F d = Ok its -> invalid_companion_bound F d = false.
Proof.
  intros H. apply existsb_false. intros m Hin.
  destruct (meta_trait F m) as [t|] eqn:Ht; [|reflexivity].
  destruct (primary_of t) as [p|] eqn:Hp; [|reflexivity].
  destruct (educed F p d) eqn:He; [|reflexivity]. cbn [andb].
  assert (Hni : t <> TInto) by (intros ->; discriminate Hp).
  destruct (type_meta_built_agree _ _ _ _ _ H Hin Ht Hni) as [traits [h [l [Hag [Hh Hl]]]]].
  rewrite (companion_handler_no_params _ _ _ _ _ _ _ _ Hag Hp He Hh Hl). reflexivity.
Qed.

(** * a `Default` attribute below the type level beside a type-level `expression` *)

(** the parameter the classifier calls `expression` is the one the engine reads as such *)
Lemma key_expression_param_is m :
  key_is "expression" m = true ->
  param_is m ["new"] = false /\ param_is m ["expression"; "expr"] = true.
Proof.
  unfold key_is, param_key, param_is. destruct (param_name m) as [s|]; [|discriminate]. cbn [option_map].
  unfold canon. destruct (String.eqb s "rename"); [discriminate|].
  destruct (String.eqb s "expr") eqn:E2.
  - apply String.eqb_eq in E2. subst s. intros _. split; reflexivity.
  - intros H. apply String.eqb_eq in H. subst s. split; reflexivity.
Qed.

(** an `expression` parameter, once read, stays; and one in the list is read *)
Lemma dt_expr_set b e ms : forall s s',
  run_params (Expand_Default.dt_param b true e) s ms = Ok s' ->
  (Expand_Default.ds_expr s <> None \/ existsb (key_is "expression") ms = true) ->
  Expand_Default.ds_expr s' <> None.
Proof.
  induction ms as [|m r IH]; intros s s' H Hor.
  - inversion H; subst. destruct Hor as [Hs|Hx]; [exact Hs|discriminate Hx].
  - unfold run_params in H. cbn [foldM] in H. inv_bind H.
    fold (run_params (Expand_Default.dt_param b true e) a r) in H.
    unfold run_param in Hb. inv_bind Hb. destruct a0 as [s1|]; [|discriminate Hb]. inversion Hb; subst a.
    apply (IH _ _ H). cbn [existsb] in Hor.
    destruct (key_is "expression" m) eqn:Hk.
    + left. destruct (key_expression_param_is _ Hk) as [Hn Hx]. unfold Expand_Default.dt_param in Hb0.
      rewrite Hn, Hx in Hb0. cbn [negb] in Hb0. inv_bind Hb0.
      destruct (Expand_Default.ds_expr_set s); [discriminate Hb0|]. inversion Hb0; subst s1.
      cbn [Expand_Default.ds_expr]. discriminate.
    + cbn [orb] in Hor. destruct Hor as [Hs|Hr]; [left|right; exact Hr].
      unfold Expand_Default.dt_param in Hb0. destruct (param_is m ["new"]).
      { destruct (negb b); [discriminate Hb0|]. inv_bind Hb0.
        destruct (Expand_Default.ds_new_set s); [discriminate Hb0|]. inversion Hb0; subst s1. exact Hs. }
      destruct (param_is m ["expression"; "expr"]).
      { cbn [negb] in Hb0. inv_bind Hb0.
        destruct (Expand_Default.ds_expr_set s); [discriminate Hb0|]. inversion Hb0; subst s1.
        cbn [Expand_Default.ds_expr]. discriminate. }
      destruct (param_is m ["bound"]); [|discriminate Hb0].
      destruct (negb e); [discriminate Hb0|]. inv_bind Hb0.
      destruct (Expand_Default.ds_bound_set s); [discriminate Hb0|]. inversion Hb0; subst s1. exact Hs.
Qed.

(** converse of [default_no_expression]: a written `expression` is the one the analysis finds *)
Lemma default_expression_found a b e m ta :
  Expand_Default.build_dtattr a b true e m = Ok ta ->
  existsb (key_is "expression") (params LPlain m) = true ->
  Expand_Default.dt_expr ta <> None.
Proof.
  unfold Expand_Default.build_dtattr. destruct m as [p|p v|p dl ts].
  - intros _ Hx. discriminate Hx.
  - intros _ Hx. discriminate Hx.
  - intros H Hx. inv_bind H. inv_bind H. inversion H; subst ta. cbn [Expand_Default.dt_expr].
    cbn [params] in Hx. rewrite Hb in Hx. exact (dt_expr_set _ _ _ _ _ Hb0 (or_intror Hx)).
Qed.

(** with everything switched off, the two builders accept `Default()` only *)
Lemma default_dfattr_off_empty ty m x :
  Expand_Default.build_dfattr false false ty m = Ok x -> empty_list m = true.
Proof.
  intros H. unfold Expand_Default.build_dfattr in H. destruct m as [p|p v|p dl ts]; try discriminate H.
  inv_bind H. inv_bind H. apply run_params_nil in Hb0.
  - subst a. cbn [empty_list]. rewrite Hb. reflexivity.
  - intros s m s' Hs. unfold Expand_Default.df_param in Hs.
    destruct (param_is m ["expression"; "expr"]); discriminate Hs.
Qed.

Lemma default_dtattr_off_empty m x :
  Expand_Default.build_dtattr false false false false m = Ok x -> empty_list m = true.
Proof.
  intros H. unfold Expand_Default.build_dtattr in H. destruct m as [p|p v|p dl ts]; try discriminate H.
  inv_bind H. inv_bind H. apply run_params_nil in Hb0.
  - subst a. cbn [empty_list]. rewrite Hb. reflexivity.
  - intros s m s' Hs. unfold Expand_Default.dt_param in Hs.
    destruct (param_is m ["new"]); [discriminate Hs|].
    destruct (param_is m ["expression"; "expr"]); [discriminate Hs|].
    destruct (param_is m ["bound"]); discriminate Hs.
Qed.

(** no `Default` item other than `Default()` among these attributes *)
Definition default_silent F (attrs : list attr) : Prop :=
  forall m, In m (educe_metas attrs) -> names F TDefault m && negb (empty_list m) = false.

Lemma scanned_default_silent {A} F (build : meta -> outcome A) traits attrs o :
  (forall m x, build m = Ok x -> empty_list m = true) ->
  scan_attrs F (trait_eqb TDefault) build traits attrs = Ok o -> default_silent F attrs.
Proof.
  intros Hbuild H m Hin. apply scanned_single in H.
  destruct (names F TDefault m) eqn:Hn; [|reflexivity]. cbn [andb].
  assert (Hmo : In m (metas_of F TDefault (educe_metas attrs))).
  { unfold metas_of. apply filter_In. split; assumption. }
  destruct (metas_of F TDefault (educe_metas attrs)) as [|m1 [|m2 r]]; [destruct Hmo| |destruct H].
  destruct Hmo as [<-|[]]. destruct H as [v [Hv _]]. rewrite (Hbuild _ _ Hv). reflexivity.
Qed.

Lemma ensure_no_attribute_silent F traits fs u f :
  Expand_Default.ensure_no_attribute F traits fs = Ok u -> In f fs -> default_silent F (f_attrs f).
Proof.
  intros H Hin. unfold Expand_Default.ensure_no_attribute in H. inv_bind H.
  destruct (mapM_In_ok _ _ _ _ Hb Hin) as [y Hy]. unfold Expand_Default.default_field_attr in Hy. inv_bind Hy.
  exact (scanned_default_silent _ _ _ _ _ (default_dfattr_off_empty (f_ty f)) Hb0).
Qed.

(** the Default handler, given a type-level expression, let nothing but `Default()` through *)
Lemma default_beside_expression_handler F traits d m l :
  Expand_Default.expand_default F traits d m = Ok l ->
  existsb (key_is "expression") (params LPlain m) = true ->
  forall y, In y (visited d) -> default_silent F (snd y).
Proof.
  intros H Hx y Hy. unfold Expand_Default.expand_default in H. inv_bind H. clear H.
  unfold Expand_Default.default_plan in Hb. inv_bind Hb. inv_bind Hb. clear Hb.
  pose proof (default_expression_found _ _ _ _ _ Hb0 Hx) as Hsome.
  destruct (Expand_Default.dt_expr a0) as [e|]; [clear Hsome|congruence].
  unfold visited in Hy. destruct (d_data d) as [fs|vs|fs].
  - inv_bind Hb1. apply in_map_iff in Hy. destruct Hy as [f [<- Hf]]. cbn [snd].
    exact (ensure_no_attribute_silent _ _ _ _ _ Hb Hf).
  - inv_bind Hb1. apply in_flat_map in Hy. destruct Hy as [v [Hv Hy]].
    destruct (mapM_In_ok _ _ _ _ Hb Hv) as [u Hu]. inv_bind Hu.
    destruct Hy as [<-|Hy].
    + cbn [snd]. unfold Expand_Default.default_variant_attr in Hb2. inv_bind Hb2.
      exact (scanned_default_silent _ _ _ _ _ default_dtattr_off_empty Hb3).
    + apply in_map_iff in Hy. destruct Hy as [f [<- Hf]]. cbn [snd].
      exact (ensure_no_attribute_silent _ _ _ _ _ Hu Hf).
  - inv_bind Hb1. apply in_map_iff in Hy. destruct Hy as [f [<- Hf]]. cbn [snd].
    exact (ensure_no_attribute_silent _ _ _ _ _ Hb Hf).
Qed.

Theorem R12_default_beside_type_expression F d its :
  expand F d = Ok its -> invalid_default_beside_type_expression F d = false.
Proof.
  intros H. unfold invalid_default_beside_type_expression.
  destruct (default_has_expression F d) eqn:Hx; [|reflexivity]. cbn [andb].
  unfold default_has_expression in Hx. destruct (type_meta F TDefault d) as [m|] eqn:Hm; [|discriminate Hx].
  destruct (expand_run_facts _ _ _ H) as [traits [_ [Hh _]]].
  destruct (Hh TDefault Expand_Default.expand_default m ltac:(in_handlers) Hm) as [l Hl].
  apply existsb_false. intros x Hin. unfold item_metas in Hin. apply in_flat_map in Hin.
  destruct Hin as [y [Hy Hin]]. apply in_map_iff in Hin. destruct Hin as [m' [<- Hm']]. cbn [snd].
  exact (default_beside_expression_handler _ _ _ _ _ Hl Hx y Hy m' Hm').
Qed.
