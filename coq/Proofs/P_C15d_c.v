(** C15 reverse direction, group c : Clone *)
From Educe.Proofs Require Export P_C15d.

Section HandlersE_c.
  Variables (F : features) (keep : trait -> bool) (tr tr' : list trait).
  Hypothesis Htr : forall t, keep t = true -> has_trait t tr' = has_trait t tr.
  Notation rho := (restrict_attrs keep).
  Notation rf := (map_field (restrict_attrs keep)).
  Notation rv := (map_variant (restrict_attrs keep)).
  Notation rd := (map_dinput (restrict_attrs keep)).

  Section CloneE.
    Hypothesis Hk : keep TClone = true.
    Hypothesis Hk2 : keep TCopy = true.

    Lemma clone_field_attr_e em attrs : vattrs F tr attrs ->
      clone_field_attr F tr' em (rho attrs) = clone_field_attr F tr em attrs.
    Proof.
      intros Hv. unfold clone_field_attr. rewrite (scan_e F keep tr tr' Htr) by assumption. reflexivity.
    Qed.

    Lemma clone_variant_attr_e attrs : vattrs F tr attrs ->
      clone_variant_attr F tr' (rho attrs) = clone_variant_attr F tr attrs.
    Proof.
      intros Hv. unfold clone_variant_attr. rewrite (scan_e F keep tr tr' Htr) by assumption. reflexivity.
    Qed.

    Lemma clone_field_attrs_e em fs : Forall (vfield F tr) fs ->
      clone_field_attrs F tr' em (map rf fs) = omap (map (on_fst rf)) (clone_field_attrs F tr em fs).
    Proof.
      intros Hv. unfold clone_field_attrs.
      apply (mapM_e (vfield F tr)); [|exact Hv].
      intros f Hf. cbn [map_field f_attrs]. rewrite (clone_field_attr_e em _ Hf).
      destruct (clone_field_attr F tr em (f_attrs f)); reflexivity.
    Qed.

    Lemma clone_variant_e v : vvariant F tr v ->
      clone_variant F tr' (rv v) = omap (rcv keep) (clone_variant F tr v).
    Proof.
      intros [Hva Hvf]. unfold clone_variant. cbn [map_variant v_attrs v_fields v_name].
      rewrite (clone_variant_attr_e _ Hva).
      destruct (clone_variant_attr F tr (v_attrs v)); cbn [omap bind]; try reflexivity.
      rewrite fields_list_map, (clone_field_attrs_e _ _ Hvf).
      destruct (clone_field_attrs F tr true (fields_list (v_fields v))); reflexivity.
    Qed.

    Theorem expand_clone_e d m : vinput F tr d ->
      expand_clone F tr' (rd d) m = expand_clone F tr d m.
    Proof.
      intros [Hva Hvd]. unfold expand_clone. rewrite (coupling_e F keep tr tr' Htr TCopy Hk2).
      destruct (build_tattr true false true m) as [ta| | |]; cbn [bind]; try reflexivity.
      cbn [map_dinput d_data].
      destruct (d_data d) as [fs|vs|fs]; cbn [map_data vdata] in *.
      - rewrite fields_list_map, (clone_field_attrs_e _ _ Hvd).
        destruct (clone_field_attrs F tr (negb (has_trait TCopy F && has_trait TCopy tr)) (fields_list fs));
          cbn [omap bind]; try reflexivity.
        rewrite clone_types_r, clone_struct_body_r, clone_from_struct_body_r. reflexivity.
      - rewrite (mapM_e (vvariant F tr) (clone_variant F tr) (clone_variant F tr') rv (rcv keep) vs
                   clone_variant_e Hvd).
        destruct (mapM (clone_variant F tr) vs); cbn [omap bind]; try reflexivity.
        rewrite has_custom_method_r, clone_variant_types_r, clone_enum_body_r, clone_from_enum_body_r.
        reflexivity.
      - rewrite (clone_field_attrs_e _ _ Hvd).
        destruct (clone_field_attrs F tr false fs); cbn [omap bind]; try reflexivity.
        rewrite map_map. reflexivity.
    Qed.
  End CloneE.
End HandlersE_c.
