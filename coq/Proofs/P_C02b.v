(** C02 — top-level theorems: the emitted `eq` computes [spec_eq]. *)
From Educe.Proofs Require Export P_C02.

Definition methods_typed_cfg (I : interp) (c : vcfg) : Prop :=
  forall vn l, In (vn, l) c -> methods_typed I l.

Section Top.
  Variable I : interp.

  (** ** relating the emitter's view of the fields with the spec's keyed view *)
  Definition reshape (t : nat * (field * fattr)) : nat * field * fattr :=
    let '(i, (f, fa)) := t in (i, f, fa).
  Definition key_of (t : nat * (field * fattr)) : string * fattr :=
    let '(i, (f, fa)) := t in (field_key i f, fa).

  Lemma keyed_eq l : keyed l = map key_of (indexed l).
  Proof. unfold keyed. apply map_ext. intros [i [f fa]]. reflexivity. Qed.

  Lemma triple_ok_spec xs ys (il : list (nat * (field * fattr))) :
    forallb (triple_ok I xs ys) (map reshape il) = spec_fields_eq I (map key_of il) xs ys.
  Proof.
    induction il as [|[i [f fa]] r IH]; [reflexivity|].
    cbn [map forallb reshape key_of spec_fields_eq triple_ok]. unfold spec_fields_eq in IH.
    rewrite IH. reflexivity.
  Qed.

  Lemma lookup_some_of_keys {A} k (xs : list (string * A)) :
    In k (map fst xs) -> exists x, lookup k xs = Some x.
  Proof.
    intros H. pose proof (in_fst_lookup k xs H) as Hn.
    destruct (lookup k xs) as [x|]; [eauto|congruence].
  Qed.

  Lemma triple_wf_all xs ys (il : list (nat * (field * fattr))) :
    map fst (map key_of il) = map fst xs ->
    map fst (map key_of il) = map fst ys ->
    methods_typed I (map key_of il) ->
    Forall (triple_wf I xs ys) (map reshape il).
  Proof.
    intros Hx Hy Hm.
    assert (Hall : forall t, In t il -> triple_wf I xs ys (reshape t)).
    { intros [i [f fa]] Hin. cbn [reshape triple_wf].
      assert (Hk : In (field_key i f) (map fst (map key_of il))).
      { rewrite map_map. apply (in_map (fun t => fst (key_of t)) il (i, (f, fa))). exact Hin. }
      change (field_member f i) with (field_key i f).
      destruct (lookup_some_of_keys (field_key i f) xs) as [x Hxx]; [rewrite <- Hx; exact Hk|].
      destruct (lookup_some_of_keys (field_key i f) ys) as [y Hyy]; [rewrite <- Hy; exact Hk|].
      exists x, y. repeat split; try assumption.
      intros m Em. apply (Hm (field_key i f) fa m x y); [|exact Em].
      apply (in_map key_of il (i, (f, fa))). exact Hin. }
    clear Hx Hy Hm. induction il as [|t r IH]; [constructor|].
    cbn [map]. constructor; [apply Hall; left; reflexivity|].
    apply IH. intros u Hu. apply Hall. right. exact Hu.
  Qed.

  Lemma shape_ok_keys l xs : shape_ok l xs = true -> map fst l = map fst xs.
  Proof.
    unfold shape_ok. intros H. apply andb_true_iff in H as [H _].
    destruct (list_eq_dec string_dec (map fst l) (map fst xs)); [assumption|discriminate].
  Qed.

  (** ** structs *)
  Theorem struct_eq_fieldwise F traits d m fs items c a b :
    d_data d = DStruct fs ->
    expand_partial_eq F traits d m = Ok items ->
    peq_cfg F traits d = Ok c ->
    methods_typed_cfg I c ->
    value_ok c a = true -> value_ok c b = true ->
    exists it rest, items = it :: rest /\ run_eq I it a b = spec_eq I c a b.
  Proof.
    intros Hd He Hc Hm Ha Hb.
    unfold expand_partial_eq in He. rewrite Hd in He.
    inv_bind He. inv_bind He. inversion He; subst items; clear He.
    unfold peq_cfg in Hc. rewrite Hd in Hc. rewrite Hb1 in Hc. cbn [bind] in Hc.
    inversion Hc; subst c; clear Hc.
    rename a1 into l.
    destruct a as [| | | | | |va xs| | | | |]; try discriminate Ha.
    destruct b as [| | | | | |vb ys| | | | |]; try discriminate Hb.
    destruct va as [va|]; [cbn in Ha; discriminate Ha|].
    destruct vb as [vb|]; [cbn in Hb; discriminate Hb|].
    cbn [value_ok vcfg_get] in Ha, Hb.
    apply shape_ok_keys in Ha. apply shape_ok_keys in Hb.
    unfold peq_items. eexists; eexists; split; [reflexivity|].
    unfold run_eq, find_fn. cbn [i_members find String.eqb Ascii.eqb Bool.eqb].
    cbn [spec_eq vcfg_get].
    rewrite keyed_eq in *.
    assert (Hmt : methods_typed I (map key_of (indexed l))).
    { apply (Hm None). left. reflexivity. }
    destruct (struct_checks I (map reshape (indexed l)) xs ys (eq_state (VData None xs) (VData None ys)))
      as [s' [_ Hev]]; [reflexivity|apply triple_wf_all; assumption|].
    assert (Hbody : map (fun '(i, (f, fa)) => (i, f, fa)) (indexed l) = map reshape (indexed l))
      by (apply map_ext; intros [i [f fa]]; reflexivity).
    rewrite Hbody. unfold run_body. rewrite Hev.
    rewrite triple_ok_spec.
    destruct (spec_fields_eq I (map key_of (indexed l)) xs ys); reflexivity.
  Qed.
End Top.

(** ** enums *)
Section Enum.
  Variable I : interp.
  Variables (F : features) (traits : list trait).

  Definition cfg_entry (v : variant) : outcome (option string * list (string * fattr)) :=
    let* l := field_attrs F traits (fields_list (v_fields v)) in Ok (Some (v_name v), keyed l).

  Lemma field_attrs_fst fs l : field_attrs F traits fs = Ok l -> map fst l = fs.
  Proof.
    unfold field_attrs. revert l. induction fs as [|f r IH]; cbn [mapM]; intros l H.
    - inversion H. reflexivity.
    - inv_bind H. inv_bind Hb. inversion Hb; subst a. inv_bind H. inversion H; subst l.
      cbn. f_equal. apply IH. assumption.
  Qed.

  (** keys of named / unnamed field lists *)
  Lemma key_named i f : f_name f <> None -> field_key i f = fname f.
  Proof. unfold field_key, fname. destruct (f_name f); [reflexivity|congruence]. Qed.
  Lemma key_unnamed i f : f_name f = None -> field_key i f = dec i.
  Proof. unfold field_key. intros ->. reflexivity. Qed.

  Lemma keyed_named_from i0 (l : list (field * fattr)) :
    (forall f fa, In (f, fa) l -> f_name f <> None) ->
    map key_of (index_from i0 l) = map (fun t => (fname (fst t), snd t)) l.
  Proof.
    revert i0. induction l as [|[f fa] r IH]; intros i0 H; [reflexivity|].
    cbn [index_from map key_of fst snd]. rewrite key_named by (eapply H; left; reflexivity).
    f_equal. apply IH. intros g ga Hin. eapply H. right. exact Hin.
  Qed.
  Lemma keyed_unnamed_from i0 (l : list (field * fattr)) :
    (forall f fa, In (f, fa) l -> f_name f = None) ->
    map key_of (index_from i0 l) = map (fun t => (dec (fst t), snd (snd t))) (index_from i0 l).
  Proof.
    revert i0. induction l as [|[f fa] r IH]; intros i0 H; [reflexivity|].
    cbn [index_from map key_of fst snd]. rewrite key_unnamed by (eapply H; left; reflexivity).
    f_equal. apply IH. intros g ga Hin. eapply H. right. exact Hin.
  Qed.

  Lemma index_from_fst {A} i0 (l : list A) : map fst (index_from i0 l) = seq i0 (List.length l).
  Proof. revert i0. induction l as [|x r IH]; intros i0; cbn; [reflexivity|]. f_equal. apply IH. Qed.
  Lemma index_from_length {A} i0 (l : list A) : List.length (index_from i0 l) = List.length l.
  Proof. revert i0. induction l as [|x r IH]; intros i0; cbn; [reflexivity|]. f_equal. apply IH. Qed.

  Lemma spec_fields_named xs ys (l : list (field * fattr)) :
    forallb (fun t => pair_ok I xs ys (fname (fst t)) (snd t)) l =
    spec_fields_eq I (map (fun t => (fname (fst t), snd t)) l) xs ys.
  Proof.
    induction l as [|[f fa] r IH]; [reflexivity|].
    cbn [forallb map fst snd spec_fields_eq]. unfold spec_fields_eq in IH. rewrite IH. reflexivity.
  Qed.
  Lemma spec_fields_unnamed xs ys (l : list (nat * (field * fattr))) :
    forallb (fun t => pair_ok I xs ys (dec (fst t)) (snd (snd t))) l =
    spec_fields_eq I (map (fun t => (dec (fst t), snd (snd t))) l) xs ys.
  Proof.
    induction l as [|[i [f fa]] r IH]; [reflexivity|].
    cbn [forallb map fst snd spec_fields_eq]. unfold spec_fields_eq in IH. rewrite IH. reflexivity.
  Qed.

  Lemma pair_wf_all {A} xs ys (l : list A) (key : A -> string) (att : A -> fattr) :
    map key l = map fst xs -> map key l = map fst ys ->
    methods_typed I (map (fun t => (key t, att t)) l) ->
    Forall (fun t => pair_wf I xs ys (key t) (att t)) l.
  Proof.
    intros Hx Hy Hm.
    assert (Hall : forall t, In t l -> pair_wf I xs ys (key t) (att t)).
    { intros t Hin. unfold pair_wf.
      assert (Hk : In (key t) (map key l)) by (apply in_map; exact Hin).
      destruct (lookup_some_of_keys (key t) xs) as [x Hxx]; [rewrite <- Hx; exact Hk|].
      destruct (lookup_some_of_keys (key t) ys) as [y Hyy]; [rewrite <- Hy; exact Hk|].
      exists x, y. repeat split; try assumption.
      intros m Em. apply (Hm (key t) (att t) m x y); [|exact Em].
      apply (in_map (fun t => (key t, att t)) l t). exact Hin. }
    clear Hx Hy Hm. induction l as [|t r IH]; [constructor|].
    constructor; [apply Hall; left; reflexivity|]. apply IH. intros u Hu. apply Hall. right. exact Hu.
  Qed.

  Lemma other_not_s u : String.eqb "other" ("_s_" ^^ u) = false.
  Proof. reflexivity. Qed.
  Lemma other_not_us u : String.eqb "other" ("_" ^^ u) = false.
  Proof. reflexivity. Qed.

  (** what a whole arm computes, once `self` has matched its pattern *)
  Definition arm_result (same : bool) (ok : bool) : res :=
    if same && ok then RVal VUnit else RRet (VBool false).

  Lemma arm_named_eval n (l : list (field * fattr)) va xs vb ys s :
    st_store s = [("self", VData (Some va) xs); ("other", VData (Some vb) ys)] ->
    NoDup (map (fun t => unraw (fname (fst t))) l) ->
    map (fun t => fname (fst t)) l = map fst xs ->
    (String.eqb vb n = true -> map (fun t => fname (fst t)) l = map fst ys) ->
    methods_typed I (map (fun t => (fname (fst t), snd t)) l) ->
    exists s', same_store s s' /\
      eval I (binds_named "_s_" self_place l ++ eq_env) (snd (peq_arm_named n l)) s =
      (arm_result (String.eqb vb n)
         (spec_fields_eq I (map (fun t => (fname (fst t), snd t)) l) xs ys), s').
  Proof.
    intros Hs Hnd Hx Hy Hm. rewrite peq_arm_named_eq. cbn [snd].
    cbn [eval eval_block]. rewrite lookup_app.
    rewrite lookup_binds_named_none by apply other_not_s. cbn [eq_env lookup String.eqb Ascii.eqb Bool.eqb].
    destruct (String.eqb vb n) eqn:En.
    - specialize (Hy eq_refl).
      rewrite (match_struct_pat (st_store s) other_place "_o_" n vb ys l).
      + rewrite En.
        destruct (arm_checks_named I l (Some va) (Some vb) xs ys Hnd l (incl_refl l) s Hs) as [s1 [Hs1 Hev]].
        { apply (pair_wf_all xs ys l (fun t => fname (fst t)) snd); assumption. }
        fold (env_named l). unfold checks_named in Hev. unfold checks_named.
        rewrite Hev. rewrite spec_fields_named.
        exists s1. split; [exact Hs1|]. unfold arm_result. cbn [andb].
        destruct (spec_fields_eq I _ xs ys); reflexivity.
      + rewrite Hs. reflexivity.
      + rewrite <- (map_length (fun t => fname (fst t)) l), Hy, map_length. reflexivity.
      + intros f fa Hin. rewrite (load_other (Some va) (Some vb) xs ys _ s Hs).
        apply in_fst_lookup. rewrite <- Hy.
        apply (in_map (fun t => fname (fst t)) l (f, fa)). exact Hin.
    - assert (Hm0 : match_pat (st_store s) (PStruct (RSelfV n) (pats_named "_o_" l) true false)
                      (VRef other_place) = None).
      { cbn [match_pat strip]. rewrite Hs. cbn [load lookup String.eqb Ascii.eqb Bool.eqb pl_root pl_path other_place project_path].
        rewrite En. reflexivity. }
      rewrite Hm0. exists s. split; [reflexivity|]. reflexivity.
  Qed.

  Lemma arm_unnamed_eval n (l : list (field * fattr)) va xs vb ys s :
    st_store s = [("self", VData (Some va) xs); ("other", VData (Some vb) ys)] ->
    map (fun t => dec (fst t)) (indexed l) = map fst xs ->
    (String.eqb vb n = true -> map (fun t => dec (fst t)) (indexed l) = map fst ys) ->
    methods_typed I (map (fun t => (dec (fst t), snd (snd t))) (indexed l)) ->
    exists s', same_store s s' /\
      eval I (binds_unnamed "_" self_place (indexed l) ++ eq_env) (snd (peq_arm_unnamed n (indexed l))) s =
      (arm_result (String.eqb vb n)
         (spec_fields_eq I (map (fun t => (dec (fst t), snd (snd t))) (indexed l)) xs ys), s').
  Proof.
    intros Hs Hx Hy Hm. rewrite peq_arm_unnamed_eq. cbn [snd].
    cbn [eval eval_block]. rewrite lookup_app.
    rewrite lookup_binds_unnamed_none by apply other_not_us. cbn [eq_env lookup String.eqb Ascii.eqb Bool.eqb].
    destruct (String.eqb vb n) eqn:En.
    - specialize (Hy eq_refl).
      rewrite (match_tuple_pat (st_store s) other_place "__" n vb ys (indexed l)).
      + rewrite En.
        destruct (arm_checks_unnamed I (indexed l) (Some va) (Some vb) xs ys (indexed l) (incl_refl _) s Hs)
          as [s1 [Hs1 Hev]].
        { apply (pair_wf_all xs ys (indexed l) (fun t => dec (fst t)) (fun t => snd (snd t))); assumption. }
        fold (env_unnamed (indexed l)). unfold checks_unnamed in Hev. unfold checks_unnamed.
        rewrite Hev. rewrite spec_fields_unnamed.
        exists s1. split; [exact Hs1|]. unfold arm_result. cbn [andb].
        destruct (spec_fields_eq I _ xs ys); reflexivity.
      + rewrite Hs. reflexivity.
      + rewrite <- (map_length (fun t => dec (fst t)) (indexed l)), Hy, map_length. reflexivity.
      + unfold indexed. rewrite index_from_fst, index_from_length. reflexivity.
      + intros i f fa Hin. rewrite (load_other (Some va) (Some vb) xs ys _ s Hs).
        apply in_fst_lookup. rewrite <- Hy.
        apply (in_map (fun t => dec (fst t)) (indexed l) (i, (f, fa))). exact Hin.
    - assert (Hm0 : match_pat (st_store s) (PTuple (RSelfV n) (pats_unnamed "__" (indexed l)) true false)
                      (VRef other_place) = None).
      { cbn [match_pat strip is_some_path]. rewrite Hs. cbn [load lookup String.eqb Ascii.eqb Bool.eqb pl_root pl_path other_place project_path].
        rewrite En. reflexivity. }
      rewrite Hm0. exists s. split; [reflexivity|]. reflexivity.
  Qed.

  Lemma arm_unit_eval n va xs vb ys s :
    st_store s = [("self", VData (Some va) xs); ("other", VData (Some vb) ys)] ->
    eval I eq_env (snd (peq_arm_unit n)) s = (arm_result (String.eqb vb n) true, s).
  Proof.
    intros Hs. unfold peq_arm_unit. cbn [snd eval eval_block eq_env lookup String.eqb Ascii.eqb Bool.eqb].
    cbn [match_pat strip]. rewrite Hs.
    cbn [load lookup String.eqb Ascii.eqb Bool.eqb pl_root pl_path other_place project_path].
    unfold arm_result. destruct (String.eqb vb n); reflexivity.
  Qed.
End Enum.

Tactic Notation "inv_bind_as" hyp(H) "as" ident(a) ident(H1) :=
  apply bind_ok in H; destruct H as [a [H1 H]].

Section EnumTop.
  Variable I : interp.
  Variables (F : features) (traits : list trait).

  (** the pattern of `self`'s arm fails on a value of another variant *)
  Lemma arm_pat_other_variant arm v tys st va xs :
    peq_variant F traits v = Ok (arm, tys) ->
    load st self_place = Some (VData (Some va) xs) ->
    String.eqb va (v_name v) = false ->
    match_pat st (fst arm) (VRef self_place) = None.
  Proof.
    intros Hv Hl Hne. unfold peq_variant in Hv. inv_bind Hv.
    destruct (v_fields v) as [fs|fs|].
    - inv_bind Hv. inversion Hv; subst arm tys. rewrite peq_arm_named_eq. cbn [fst match_pat strip].
      rewrite Hl, Hne. reflexivity.
    - inv_bind Hv. inversion Hv; subst arm tys. rewrite peq_arm_unnamed_eq. cbn [fst match_pat strip is_some_path].
      rewrite Hl, Hne. reflexivity.
    - inversion Hv; subst arm tys. cbn [peq_arm_unit fst match_pat strip]. rewrite Hl, Hne. reflexivity.
  Qed.

  Definition a_shape (c : vcfg) (va : string) (xs : list (string * value)) : Prop :=
    exists l, vcfg_get (Some va) c = Some l /\ map fst l = map fst xs.
  Definition b_shape (c : vcfg) (va vb : string) (ys : list (string * value)) : Prop :=
    String.eqb va vb = true -> forall l, vcfg_get (Some va) c = Some l -> map fst l = map fst ys.

  Lemma eqb_sym_str a b : String.eqb a b = String.eqb b a.
  Proof. apply String.eqb_sym. Qed.

  Lemma arms_eval : forall vs arms c,
    mapM (peq_variant F traits) vs = Ok arms ->
    mapM (cfg_entry F traits) vs = Ok c ->
    (forall v, In v vs -> fields_wf (v_fields v)) ->
    methods_typed_cfg I c ->
    forall va xs vb ys s,
    st_store s = [("self", VData (Some va) xs); ("other", VData (Some vb) ys)] ->
    a_shape c va xs -> b_shape c va vb ys ->
    exists s', same_store s s' /\
      eval_arms (eval I) eq_env (VRef self_place) (map fst arms) s =
      (arm_result (String.eqb va vb)
         (match vcfg_get (Some va) c with Some l => spec_fields_eq I l xs ys | None => false end), s').
  Proof.
    induction vs as [|v vs IH]; intros arms c Harms Hc Hwf Hm va xs vb ys s Hs Ha Hb.
    - cbn in Hc. inversion Hc; subst c. destruct Ha as [l [Hl _]]. discriminate Hl.
    - cbn [mapM] in Harms, Hc.
      inv_bind_as Harms as armt Hv. destruct armt as [arm tys].
      inv_bind_as Harms as arms' Harms'. inversion Harms; subst arms; clear Harms.
      inv_bind_as Hc as ent He. destruct ent as [en el].
      inv_bind_as Hc as c' Hc'. inversion Hc; subst c; clear Hc.
      rename arms' into arms. rename c' into c.
      cbn [map fst eval_arms].
      assert (Hself : load (st_store s) self_place = Some (VData (Some va) xs)) by (rewrite Hs; reflexivity).
      unfold cfg_entry in He. inv_bind_as He as l Hb1. inversion He; subst en el; clear He.
      cbn [vcfg_get].
      destruct (String.eqb va (v_name v)) eqn:En.
      + (* this is self's variant *)
        destruct Ha as [l0 [Hl0 Hxs]]. cbn [vcfg_get] in Hl0. rewrite En in Hl0.
        inversion Hl0; subst l0; clear Hl0.
        assert (Hys : String.eqb vb (v_name v) = true -> map fst (keyed l) = map fst ys).
        { intros Evb. apply Hb.
          - apply String.eqb_eq in En. apply String.eqb_eq in Evb. subst. apply String.eqb_refl.
          - cbn [vcfg_get]. rewrite En. reflexivity. }
        assert (Hmt : methods_typed I (keyed l)) by (apply (Hm (Some (v_name v))); left; reflexivity).
        assert (Hsame : String.eqb va vb = String.eqb vb (v_name v)).
        { apply String.eqb_eq in En. subst va. apply String.eqb_sym. }
        rewrite Hsame.
        pose proof (Hwf v (or_introl eq_refl)) as Hfw.
        pose proof (field_attrs_fst F traits _ _ Hb1) as Hfst.
        unfold peq_variant in Hv. inv_bind_as Hv as tav Htav.
        destruct (v_fields v) as [fs|fs|] eqn:Efs; cbn [fields_list] in Hb1, Hfst.
        * (* named *)
          rewrite Hb1 in Hv. cbn [bind] in Hv. inversion Hv; subst arm tys; clear Hv.
          cbn [fields_wf] in Hfw. destruct Hfw as [Hnames Hnd].
          assert (Hnamed : forall f fa, In (f, fa) l -> f_name f <> None).
          { intros f fa Hin. apply Hnames. rewrite <- Hfst. apply (in_map fst l (f, fa)). exact Hin. }
          assert (Hk : keyed l = map (fun t => (fname (fst t), snd t)) l).
          { rewrite keyed_eq. unfold indexed. apply keyed_named_from. exact Hnamed. }
          rewrite Hk in *.
          assert (Hkeys : map fst (map (fun t : field * fattr => (fname (fst t), snd t)) l)
                          = map (fun t => fname (fst t)) l) by (rewrite map_map; reflexivity).
          rewrite Hkeys in *.
          rewrite peq_arm_named_eq. cbn [fst snd].
          rewrite (match_struct_pat (st_store s) self_place "_s_" (v_name v) va xs l).
          -- rewrite En.
             destruct (arm_named_eval I (v_name v) l va xs vb ys s Hs) as [s1 [Hs1 Hev]]; try assumption.
             { assert (Hmap : map (fun t => unraw (fname (fst t))) l
                              = map (fun f => unraw match f_name f with Some n => n | None => "" end) fs).
               { rewrite <- Hfst. rewrite map_map. reflexivity. }
               rewrite Hmap. exact Hnd. }
             exists s1. split; [exact Hs1|]. exact Hev.
          -- exact Hself.
          -- rewrite <- (map_length (fun t => fname (fst t)) l), Hxs, map_length. reflexivity.
          -- intros f fa Hin. rewrite (load_self (Some va) (Some vb) xs ys _ s Hs).
             apply in_fst_lookup. rewrite <- Hxs.
             apply (in_map (fun t => fname (fst t)) l (f, fa)). exact Hin.
        * (* unnamed *)
          rewrite Hb1 in Hv. cbn [bind] in Hv. inversion Hv; subst arm tys; clear Hv.
          cbn [fields_wf] in Hfw.
          assert (Hunnamed : forall f fa, In (f, fa) l -> f_name f = None).
          { intros f fa Hin. apply Hfw. rewrite <- Hfst. apply (in_map fst l (f, fa)). exact Hin. }
          assert (Hk : keyed l = map (fun t => (dec (fst t), snd (snd t))) (indexed l)).
          { rewrite keyed_eq. unfold indexed. apply keyed_unnamed_from. exact Hunnamed. }
          rewrite Hk in *.
          assert (Hkeys : map fst (map (fun t : nat * (field * fattr) => (dec (fst t), snd (snd t))) (indexed l))
                          = map (fun t => dec (fst t)) (indexed l)) by (rewrite map_map; reflexivity).
          rewrite Hkeys in *.
          rewrite peq_arm_unnamed_eq. cbn [fst snd].
          rewrite (match_tuple_pat (st_store s) self_place "_" (v_name v) va xs (indexed l)).
          -- rewrite En.
             destruct (arm_unnamed_eval I (v_name v) l va xs vb ys s Hs) as [s1 [Hs1 Hev]]; try assumption.
             exists s1. split; [exact Hs1|]. exact Hev.
          -- exact Hself.
          -- rewrite <- (map_length (fun t => dec (fst t)) (indexed l)), Hxs, map_length. reflexivity.
          -- unfold indexed. rewrite index_from_fst, index_from_length. reflexivity.
          -- intros i f fa Hin. rewrite (load_self (Some va) (Some vb) xs ys _ s Hs).
             apply in_fst_lookup. rewrite <- Hxs.
             apply (in_map (fun t => dec (fst t)) (indexed l) (i, (f, fa))). exact Hin.
        * (* unit *)
          inversion Hv; subst arm tys; clear Hv.
          cbn [field_attrs mapM] in Hb1. inversion Hb1; subst l.
          cbn [peq_arm_unit fst]. rewrite (match_unit_pat (st_store s) self_place (v_name v) va xs Hself).
          rewrite En. cbn [app].
          change (EBlock [EIfLet (PPath (RSelfV (v_name v))) (EVar "other") [] else_false])
            with (snd (peq_arm_unit (v_name v))).
          rewrite (arm_unit_eval I (v_name v) va xs vb ys s Hs).
          exists s. split; [reflexivity|]. reflexivity.
      + (* another variant: the pattern fails, go on *)
        pose proof (arm_pat_other_variant arm v tys (st_store s) va xs Hv Hself En) as Hnone.
        destruct arm as [ap ab]. cbn [fst] in Hnone. rewrite Hnone.
        apply (IH arms c Harms' Hc'); try assumption; try reflexivity.
        * intros w Hw. apply Hwf. right. exact Hw.
        * intros vn l0 Hin. apply (Hm vn l0). right. exact Hin.
        * destruct Ha as [l0 [Hl0 Hxs]]. cbn [vcfg_get] in Hl0. rewrite En in Hl0. exists l0. split; assumption.
        * intros E l0 Hl0. apply (Hb E). cbn [vcfg_get]. rewrite En. exact Hl0.
  Qed.

  Theorem enum_eq_fieldwise d m vs items c a b :
    d_data d = DEnum vs ->
    (forall v, In v vs -> fields_wf (v_fields v)) ->
    expand_partial_eq F traits d m = Ok items ->
    peq_cfg F traits d = Ok c ->
    methods_typed_cfg I c ->
    value_ok c a = true -> value_ok c b = true ->
    exists it rest, items = it :: rest /\ run_eq I it a b = spec_eq I c a b.
  Proof.
    intros Hd Hwf He Hc Hm Ha Hb.
    unfold expand_partial_eq in He. rewrite Hd in He.
    inv_bind He. inv_bind He. inversion He; subst items; clear He. rename a1 into arms.
    unfold peq_cfg in Hc. rewrite Hd in Hc. fold (cfg_entry F traits) in Hc.
    destruct a as [| | | | | |va xs| | | | |]; try discriminate Ha.
    destruct b as [| | | | | |vb ys| | | | |]; try discriminate Hb.
    cbn [value_ok] in Ha, Hb.
    destruct (vcfg_get va c) as [la|] eqn:Ela; [|discriminate Ha].
    destruct (vcfg_get vb c) as [lb|] eqn:Elb; [|discriminate Hb].
    apply shape_ok_keys in Ha. apply shape_ok_keys in Hb.
    assert (Hsome : forall vn l, vcfg_get vn c = Some l -> exists n, vn = Some n).
    { clear - Hc. revert c Hc. induction vs as [|v r IH]; intros c Hc vn l H.
      - cbn in Hc. inversion Hc; subst c. discriminate H.
      - cbn [mapM] in Hc. inv_bind Hc. inv_bind Hc. inversion Hc; subst c.
        unfold cfg_entry in Hb. inv_bind Hb. inversion Hb; subst a.
        cbn [vcfg_get] in H. destruct vn as [n|]; [eauto|]. eapply IH; eauto. }
    destruct (Hsome _ _ Ela) as [na ->]. destruct (Hsome _ _ Elb) as [nb ->].
    unfold peq_items. eexists; eexists; split; [reflexivity|].
    unfold run_eq, find_fn. cbn [i_members find String.eqb Ascii.eqb Bool.eqb].
    cbn [spec_eq]. rewrite Ela.
    destruct arms as [|arm0 arms'] eqn:Earms.
    - (* no variants: impossible, [a] has one *)
      destruct vs as [|v r]; [cbn in Hc; inversion Hc; subst c; discriminate Ela|].
      cbn [mapM] in Hb1. inv_bind Hb1. inv_bind Hb1. discriminate Hb1.
    - rewrite <- Earms in *. assert (Hnn : is_nil arms = false) by (rewrite Earms; reflexivity).
      rewrite Hnn. cbn [app].
      destruct (arms_eval vs arms c Hb1 Hc Hwf Hm na xs nb ys (eq_state (VData (Some na) xs) (VData (Some nb) ys)))
        as [s' [_ Hev]]; [reflexivity| | |].
      + exists la. split; assumption.
      + intros E l Hl. apply String.eqb_eq in E. subst nb. rewrite Ela in Hl, Elb.
        inversion Hl; subst l. inversion Elb; subst lb. exact Hb.
      + unfold run_body. cbn [eval_block]. cbn [eval eq_env lookup String.eqb Ascii.eqb Bool.eqb is_nil].
        rewrite Hev. rewrite Ela. unfold arm_result.
        destruct (String.eqb na nb); cbn [andb]; [|reflexivity].
        destruct (spec_fields_eq I la xs ys); reflexivity.
  Qed.
End EnumTop.
