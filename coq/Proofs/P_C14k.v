(** C14, part k: the Into handler as a whole, the type-level collector of the driver, and
    [expand]: two spellings of one derive input expand to the same items. *)
From Educe.Proofs Require Export P_C14j.

Theorem expand_into_spelling F traits traits' d d' ms ms' :
  (forall t, has_trait t traits = has_trait t traits') ->
  d_name d = d_name d' -> d_generics d = d_generics d' ->
  data_equiv F traits (d_data d) (d_data d') ->
  Forall2 (into_metas_rel PType) ms ms' ->
  osim (expand_into F traits d ms) (expand_into F traits' d' ms').
Proof.
  intros Ht Hn Hg Hd Hms. unfold expand_into, into_analyse.
  eapply osimR_bind.
  - eapply osimR_bind; [exact (into_results_spelling F traits traits' d d' ms ms' Ht Hd Hms)|].
    intros rs rs' Hrs. apply (mapM_osimR (osimR TPR) TPR); [|exact Hrs]. intros a b Hab. exact Hab.
  - intros p p' Hp. cbn [osimR]. exact (into_emit_same d d' p p' Hn Hg Hp).
Qed.

(** * the trait map *)
Lemma trait_eqb_refl t : trait_eqb t t = true.
Proof. destruct t; reflexivity. Qed.
Lemma trait_eqb_true a b : trait_eqb a b = true -> a = b.
Proof. intros H. symmetry. exact (trait_eqb_eq a b H). Qed.
Lemma trait_eqb_false a b : trait_eqb a b = false -> a <> b.
Proof. intros H ->. rewrite trait_eqb_refl in H. discriminate H. Qed.

Lemma tmap_get_app_new t acc t0 v :
  tmap_get t (acc ++ [(t0, v)]) =
  match tmap_get t acc with Some x => Some x | None => if trait_eqb t0 t then Some v else None end.
Proof.
  induction acc as [|[k x] r IH]; cbn [app tmap_get]; [reflexivity|].
  destruct (trait_eqb k t); [reflexivity|exact IH].
Qed.

Lemma trait_eqb_sym a b : trait_eqb a b = trait_eqb b a.
Proof. destruct a, b; reflexivity. Qed.

Lemma tmap_get_push t acc t0 x :
  tmap_get t (tmap_push t0 x acc) =
  if trait_eqb t0 t then option_map (fun v => v ++ [x]) (tmap_get t acc) else tmap_get t acc.
Proof.
  induction acc as [|[k v] r IH]; cbn [tmap_push tmap_get].
  - destruct (trait_eqb t0 t); reflexivity.
  - destruct (trait_eqb k t0) eqn:E0; cbn [tmap_get].
    + apply trait_eqb_true in E0. subst k. destruct (trait_eqb t0 t); reflexivity.
    + destruct (trait_eqb k t) eqn:E1.
      * apply trait_eqb_true in E1. subst k. rewrite (trait_eqb_sym t0 t), E0. reflexivity.
      * exact IH.
Qed.

Definition step_val (o : option (list meta)) (m : meta) : list meta :=
  match o with Some l => l ++ [m] | None => [m] end.

Lemma collect_meta_ok F acc m t0 :
  trait_from_path F (meta_path m) = Some t0 ->
  (tmap_get t0 acc = None \/ t0 = TInto) ->
  exists acc1, collect_meta F acc m = Ok acc1 /\
    forall t, tmap_get t acc1 =
              if trait_eqb t0 t then Some (step_val (tmap_get t0 acc) m) else tmap_get t acc.
Proof.
  intros Et Hc. unfold collect_meta. rewrite Et. destruct (tmap_get t0 acc) as [l|] eqn:E.
  - destruct Hc as [Hc|Hc]; [discriminate Hc|]. subst t0. rewrite trait_eqb_refl.
    eexists. split; [reflexivity|]. intros t. rewrite tmap_get_push.
    destruct (trait_eqb TInto t) eqn:Ei; [|reflexivity].
    apply trait_eqb_true in Ei. subst t. rewrite E. reflexivity.
  - eexists. split; [reflexivity|]. intros t. rewrite tmap_get_app_new.
    destruct (trait_eqb t0 t) eqn:Ei.
    + apply trait_eqb_true in Ei. subst t. rewrite E. reflexivity.
    + destruct (tmap_get t acc); reflexivity.
Qed.

Lemma collect_meta_inv F acc m acc1 :
  collect_meta F acc m = Ok acc1 ->
  exists t0, trait_from_path F (meta_path m) = Some t0 /\ (tmap_get t0 acc = None \/ t0 = TInto).
Proof.
  unfold collect_meta. destruct (trait_from_path F (meta_path m)) as [t0|]; [|discriminate].
  intros H. exists t0. split; [reflexivity|].
  destruct (tmap_get t0 acc); [|left; reflexivity].
  destruct (trait_eqb t0 TInto) eqn:E; [|discriminate H]. right. exact (trait_eqb_true _ _ E).
Qed.

(** same lookups *)
Definition TME (tm tm' : tmap) : Prop := forall t, tmap_get t tm = tmap_get t tm'.

Lemma collect_comm F acc acc' m1 m2 r :
  TME acc acc' -> swap_ok m1 m2 = true ->
  (let* a := collect_meta F acc m2 in collect_meta F a m1) = Ok r ->
  exists r', (let* a := collect_meta F acc' m1 in collect_meta F a m2) = Ok r' /\ TME r r'.
Proof.
  intros He Hok H. apply bind_ok' in H. destruct H as [a [H2 H1]].
  destruct (collect_meta_inv F acc m2 a H2) as [t2 [Et2 C2]].
  destruct (collect_meta_ok F acc m2 t2 Et2 C2) as [a0 [Ha0 La]]. rewrite H2 in Ha0. inversion Ha0. subst a0.
  destruct (collect_meta_inv F a m1 r H1) as [t1 [Et1 C1]].
  destruct (collect_meta_ok F a m1 t1 Et1 C1) as [r0 [Hr0 Lr]]. rewrite H1 in Hr0. inversion Hr0. subst r0.
  (* the two traits differ, or both are Into (excluded) *)
  assert (Hne : trait_eqb t2 t1 = false).
  { destruct (trait_eqb t2 t1) eqn:E; [|reflexivity]. apply trait_eqb_true in E. subst t2.
    destruct C1 as [C1|C1].
    - rewrite La, trait_eqb_refl in C1. discriminate C1.
    - subst t1. unfold swap_ok in Hok.
      rewrite (is_into_of_trait F m1 Et1), (is_into_of_trait F m2 Et2) in Hok. discriminate Hok. }
  assert (Hne' : trait_eqb t1 t2 = false) by (rewrite trait_eqb_sym; exact Hne).
  assert (C1' : tmap_get t1 acc' = None \/ t1 = TInto).
  { destruct C1 as [C1|C1]; [left|right; exact C1]. rewrite La, Hne in C1. rewrite <- He. exact C1. }
  destruct (collect_meta_ok F acc' m1 t1 Et1 C1') as [b [Hb Lb]].
  assert (C2' : tmap_get t2 b = None \/ t2 = TInto).
  { destruct C2 as [C2|C2]; [left|right; exact C2]. rewrite Lb, Hne', <- He. exact C2. }
  destruct (collect_meta_ok F b m2 t2 Et2 C2') as [r' [Hr' Lr']].
  exists r'. split; [rewrite Hb; exact Hr'|].
  intros t. rewrite Lr, Lr'.
  destruct (trait_eqb t1 t) eqn:E1; destruct (trait_eqb t2 t) eqn:E2.
  - apply trait_eqb_true in E1, E2. subst. rewrite trait_eqb_refl in Hne. discriminate Hne.
  - rewrite Lb, E1, La, Hne, He. reflexivity.
  - rewrite La, E2, Lb, Hne', He. reflexivity.
  - rewrite La, E2, Lb, E1. apply He.
Qed.

Lemma swap_ok_sym m1 m2 : swap_ok m1 m2 = swap_ok m2 m1.
Proof. unfold swap_ok. rewrite andb_comm. reflexivity. Qed.

Lemma TME_sym a b : TME a b -> TME b a.
Proof. intros H t. symmetry. apply H. Qed.
Lemma TME_trans a b c : TME a b -> TME b c -> TME a c.
Proof. intros H1 H2 t. rewrite H1. apply H2. Qed.

Lemma collect_meta_TME F acc acc' m : TME acc acc' -> osimR TME (collect_meta F acc m) (collect_meta F acc' m).
Proof.
  intros He. destruct (collect_meta F acc m) as [a| | |] eqn:E.
  - destruct (collect_meta_inv F acc m a E) as [t0 [Et C]].
    destruct (collect_meta_ok F acc m t0 Et C) as [a0 [Ha0 La]]. rewrite E in Ha0. inversion Ha0. subst a0.
    assert (C' : tmap_get t0 acc' = None \/ t0 = TInto) by (rewrite <- He; exact C).
    destruct (collect_meta_ok F acc' m t0 Et C') as [b [Hb Lb]]. rewrite Hb. cbn [osimR].
    intros t. rewrite La, Lb, He. destruct (trait_eqb t0 t); [reflexivity|apply He].
  - destruct (collect_meta F acc' m) as [b| | |] eqn:E'; try exact Logic.I.
    destruct (collect_meta_inv F acc' m b E') as [t0 [Et C]].
    assert (C' : tmap_get t0 acc = None \/ t0 = TInto) by (rewrite He; exact C).
    destruct (collect_meta_ok F acc m t0 Et C') as [a [Ha _]]. rewrite Ha in E. discriminate E.
  - destruct (collect_meta F acc' m) as [b| | |] eqn:E'; try exact Logic.I.
    destruct (collect_meta_inv F acc' m b E') as [t0 [Et C]].
    assert (C' : tmap_get t0 acc = None \/ t0 = TInto) by (rewrite He; exact C).
    destruct (collect_meta_ok F acc m t0 Et C') as [a [Ha _]]. rewrite Ha in E. discriminate E.
  - destruct (collect_meta F acc' m) as [b| | |] eqn:E'; try exact Logic.I.
    destruct (collect_meta_inv F acc' m b E') as [t0 [Et C]].
    assert (C' : tmap_get t0 acc = None \/ t0 = TInto) by (rewrite He; exact C).
    destruct (collect_meta_ok F acc m t0 Et C') as [a [Ha _]]. rewrite Ha in E. discriminate E.
Qed.

Lemma collect_comm_osim F acc acc' m1 m2 :
  TME acc acc' -> swap_ok m1 m2 = true ->
  osimR TME (let* a := collect_meta F acc m2 in collect_meta F a m1)
            (let* a := collect_meta F acc' m1 in collect_meta F a m2).
Proof.
  intros He Hok.
  destruct (let* a := collect_meta F acc m2 in collect_meta F a m1) as [r| | |] eqn:E.
  - destruct (collect_comm F acc acc' m1 m2 r He Hok E) as [r' [E' Hr]]. rewrite E'. exact Hr.
  - destruct (let* a := collect_meta F acc' m1 in collect_meta F a m2) as [r'| | |] eqn:E'; try exact Logic.I.
    rewrite swap_ok_sym in Hok.
    destruct (collect_comm F acc' acc m2 m1 r' (TME_sym _ _ He) Hok E') as [r [Er _]].
    rewrite Er in E. discriminate E.
  - destruct (let* a := collect_meta F acc' m1 in collect_meta F a m2) as [r'| | |] eqn:E'; try exact Logic.I.
    rewrite swap_ok_sym in Hok.
    destruct (collect_comm F acc' acc m2 m1 r' (TME_sym _ _ He) Hok E') as [r [Er _]].
    rewrite Er in E. discriminate E.
  - destruct (let* a := collect_meta F acc' m1 in collect_meta F a m2) as [r'| | |] eqn:E'; try exact Logic.I.
    rewrite swap_ok_sym in Hok.
    destruct (collect_comm F acc' acc m2 m1 r' (TME_sym _ _ He) Hok E') as [r [Er _]].
    rewrite Er in E. discriminate E.
Qed.

Lemma collect_rperm F ms ms' :
  rperm swap_ok ms ms' -> forall acc acc', TME acc acc' ->
  osimR TME (foldM (collect_meta F) acc ms) (foldM (collect_meta F) acc' ms').
Proof.
  induction 1 as [|x l l' Hp IH|x y l Hok|l l' l'' H1 IH1 H2 IH2]; intros acc acc' He.
  - exact He.
  - cbn [foldM]. eapply osimR_bind; [exact (collect_meta_TME F acc acc' x He)|]. exact IH.
  - cbn [foldM]. rewrite <- !bind_assoc.
    eapply osimR_bind; [exact (collect_comm_osim F acc acc' x y He Hok)|].
    intros a b Hab. clear - Hab. revert a b Hab.
    induction l as [|m l IHl]; intros a b Hab; cbn [foldM]; [exact Hab|].
    eapply osimR_bind; [exact (collect_meta_TME F a b m Hab)|]. exact IHl.
  - eapply osimR_trans; [|exact (IH1 acc acc (fun t => eq_refl))|exact (IH2 acc acc' He)].
    intros a b c. apply TME_trans.
Qed.

(** lookups related up to the spelling of each meta *)
Definition TMR (tm tm' : tmap) : Prop :=
  forall t, opt_R (Forall2 (tmeta_equiv PType)) (tmap_get t tm) (tmap_get t tm').

Lemma collect_meta_rel F acc acc' m m' :
  TMR acc acc' -> tmeta_equiv PType m m' -> osimR TMR (collect_meta F acc m) (collect_meta F acc' m').
Proof.
  intros Hr Hm. unfold collect_meta. rewrite <- (tmeta_equiv_path PType m m' Hm).
  destruct (trait_from_path F (meta_path m)) as [t0|]; [|exact Logic.I].
  pose proof (Hr t0) as H0.
  destruct (tmap_get t0 acc) as [l|] eqn:E; destruct (tmap_get t0 acc') as [l'|] eqn:E';
    cbn [opt_R] in H0; try contradiction.
  - destruct (trait_eqb t0 TInto); [|exact Logic.I]. cbn [osimR]. intros t. rewrite !tmap_get_push.
    destruct (trait_eqb t0 t) eqn:Et; [|apply Hr].
    apply trait_eqb_true in Et. subst t. rewrite E, E'. cbn [option_map opt_R].
    apply Forall2_app_one; assumption.
  - cbn [osimR]. intros t. rewrite !tmap_get_app_new. pose proof (Hr t) as Ht.
    destruct (tmap_get t acc), (tmap_get t acc'); cbn [opt_R] in Ht; try contradiction; [exact Ht|].
    destruct (trait_eqb t0 t); cbn [opt_R]; [|exact Logic.I]. constructor; [exact Hm|constructor].
Qed.

Theorem collect_metas_equiv F ms ms' :
  metas_equiv PType ms ms' ->
  osimR TMR (foldM (collect_meta F) [] ms) (foldM (collect_meta F) [] ms').
Proof.
  intros [qs [Hp Hq]].
  apply (osimR_trans TME TMR TMR _ (foldM (collect_meta F) [] qs)).
  - intros a b c Hab Hbc t. rewrite (Hab t). exact (Hbc t).
  - exact (collect_rperm F ms qs Hp [] [] (fun t => eq_refl)).
  - apply (foldM_osimR TMR (tmeta_equiv PType)); [|exact Hq|intros t; exact Logic.I].
    intros s s' a b Hs Hab. exact (collect_meta_rel F s s' a b Hs Hab).
Qed.

(** every meta is filed under the trait it names *)
Definition tm_inv (F : features) (tm : tmap) : Prop :=
  forall t l m, tmap_get t tm = Some l -> In m l -> trait_from_path F (meta_path m) = Some t.

Lemma collect_inv F ms : forall acc tm,
  foldM (collect_meta F) acc ms = Ok tm -> tm_inv F acc -> tm_inv F tm.
Proof.
  induction ms as [|m r IH]; intros acc tm H Hinv; cbn [foldM] in H.
  - inversion H. subst. exact Hinv.
  - apply bind_ok' in H. destruct H as [a [Ha H]]. apply (IH a tm H).
    destruct (collect_meta_inv F acc m a Ha) as [t0 [Et C]].
    destruct (collect_meta_ok F acc m t0 Et C) as [a0 [Ha0 La]]. rewrite Ha in Ha0. inversion Ha0. subst a0.
    intros t l x Hl Hx. rewrite La in Hl. destruct (trait_eqb t0 t) eqn:E.
    + apply trait_eqb_true in E. subst t. inversion Hl. subst l. unfold step_val in Hx.
      destruct (tmap_get t0 acc) as [l0|] eqn:E0.
      * apply in_app_or in Hx. destruct Hx as [Hx|[Hx|[]]]; [exact (Hinv t0 l0 x E0 Hx)|subst x; exact Et].
      * destruct Hx as [Hx|[]]. subst x. exact Et.
    + exact (Hinv t l x Hl Hx).
Qed.

Definition is_some' {A} (o : option A) : bool := match o with Some _ => true | None => false end.

Lemma has_trait_keys t (tm : tmap) : has_trait t (map fst tm) = is_some' (tmap_get t tm).
Proof.
  induction tm as [|[k v] r IH]; cbn [map fst has_trait existsb tmap_get]; [reflexivity|].
  rewrite (trait_eqb_sym t k). destruct (trait_eqb k t); [reflexivity|exact IH].
Qed.

Lemma TMR_keys tm tm' : TMR tm tm' -> forall t, has_trait t (map fst tm) = has_trait t (map fst tm').
Proof.
  intros H t. rewrite !has_trait_keys. pose proof (H t) as Ht.
  destruct (tmap_get t tm), (tmap_get t tm'); cbn [opt_R] in Ht; try contradiction; reflexivity.
Qed.

Definition names_trait (F : features) (t : trait) (m : meta) : bool :=
  match meta_trait F m with Some t' => trait_eqb t' t | None => false end.

Lemma collect_mem F ms : forall acc tm,
  foldM (collect_meta F) acc ms = Ok tm ->
  forall t, is_some' (tmap_get t tm) = is_some' (tmap_get t acc) || existsb (names_trait F t) ms.
Proof.
  induction ms as [|m r IH]; intros acc tm H t; cbn [foldM existsb] in *.
  - inversion H. subst. rewrite orb_false_r. reflexivity.
  - apply bind_ok' in H. destruct H as [a [Ha H]]. rewrite (IH a tm H t).
    destruct (collect_meta_inv F acc m a Ha) as [t0 [Et C]].
    destruct (collect_meta_ok F acc m t0 Et C) as [a0 [Ha0 La]]. rewrite Ha in Ha0. inversion Ha0. subst a0.
    rewrite La. unfold names_trait at 2, meta_trait. rewrite Et.
    destruct (trait_eqb t0 t); cbn [is_some' orb].
    + rewrite orb_true_r. reflexivity.
    + reflexivity.
Qed.

Lemma has_trait_app t l1 l2 : has_trait t (l1 ++ l2) = has_trait t l1 || has_trait t l2.
Proof. unfold has_trait. apply existsb_app. Qed.

Lemma educed_mem F d ms tm :
  attrs_metas true (d_attrs d) = Ok ms -> foldM (collect_meta F) [] ms = Ok tm ->
  forall t, has_trait t (educed F d) = has_trait t (map fst tm).
Proof.
  intros E H t. unfold educed. rewrite E, has_trait_keys, (collect_mem F ms [] tm H t).
  cbn [tmap_get is_some' orb]. clear. induction ms as [|m r IH]; cbn [flat_map existsb]; [reflexivity|].
  rewrite has_trait_app, IH. f_equal. unfold names_trait.
  destruct (meta_trait F m) as [t'|]; [|reflexivity].
  cbn [has_trait existsb]. rewrite orb_false_r. apply trait_eqb_sym.
Qed.

(** ** [data_equiv] sees [traits] through membership only *)
Lemma fmetas_equiv_ext F tr1 tr2 ms ms' :
  (forall t, has_trait t tr1 = has_trait t tr2) -> fmetas_equiv F tr1 ms ms' -> fmetas_equiv F tr2 ms ms'.
Proof.
  intros Ht. induction 1.
  - apply FE_base. assumption.
  - eapply FE_true; eauto; try (rewrite <- Ht; assumption).
  - apply FE_sym. assumption.
  - eapply FE_trans; eassumption.
Qed.

Lemma field_attrs_equiv_ext F tr1 tr2 a a' :
  (forall t, has_trait t tr1 = has_trait t tr2) -> field_attrs_equiv F tr1 a a' -> field_attrs_equiv F tr2 a a'.
Proof.
  intros Ht [ms [ms' [E [E' H]]]]. exists ms, ms'. split; [exact E|]. split; [exact E'|].
  exact (fmetas_equiv_ext F tr1 tr2 ms ms' Ht H).
Qed.

Lemma Forall2_mono {A B} (R R' : A -> B -> Prop) l l' :
  (forall a b, R a b -> R' a b) -> Forall2 R l l' -> Forall2 R' l l'.
Proof. intros H. induction 1; constructor; auto. Qed.

Lemma fields_equiv_ext F tr1 tr2 fs fs' :
  (forall t, has_trait t tr1 = has_trait t tr2) ->
  fields_equiv (field_attrs_equiv F tr1) fs fs' -> fields_equiv (field_attrs_equiv F tr2) fs fs'.
Proof.
  intros Ht H.
  assert (Hf : forall f f', field_equiv (field_attrs_equiv F tr1) f f' ->
                            field_equiv (field_attrs_equiv F tr2) f f').
  { intros f f' [H1 H2 H3]. constructor; [exact H1|exact H2|].
    exact (field_attrs_equiv_ext F tr1 tr2 _ _ Ht H3). }
  destruct H; constructor; eapply Forall2_mono; eauto.
Qed.

Lemma data_equiv_ext F tr1 tr2 d d' :
  (forall t, has_trait t tr1 = has_trait t tr2) -> data_equiv F tr1 d d' -> data_equiv F tr2 d d'.
Proof.
  intros Ht H. destruct H as [fs fs' H|vs vs' H|fs fs' H].
  - apply DE_struct. exact (fields_equiv_ext F tr1 tr2 fs fs' Ht H).
  - apply DE_enum. eapply Forall2_mono; [|exact H].
    intros v v' [H1 H2 H3 H4]. constructor; [exact H1|exact H2|exact H3|].
    exact (fields_equiv_ext F tr1 tr2 _ _ Ht H4).
  - apply DE_union. exact H.
Qed.

(** * the driver *)
Definition handler_ok (F : features) (th : trait * handler) : Prop :=
  forall traits traits' d d' m m',
    (forall t, has_trait t traits = has_trait t traits') ->
    d_name d = d_name d' -> d_generics d = d_generics d' ->
    data_equiv F traits (d_data d) (d_data d') ->
    tmeta_equiv PType m m' -> get_ident (meta_path m) = Some (trait_name (fst th)) ->
    osim (snd th F traits d m) (snd th F traits' d' m').

Lemma handlers_ok F : Forall (handler_ok F) handlers.
Proof.
  unfold handlers. repeat constructor; intros traits traits' d d' m m' Ht Hn Hg Hd Hm Hp; cbn [fst snd] in *.
  - exact (expand_debug_spelling F traits traits' d d' m m' Ht Hn Hg Hd Hm Hp).
  - exact (expand_clone_spelling F traits traits' d d' m m' Ht Hn Hg Hd Hm Hp).
  - exact (expand_copy_spelling F traits traits' d d' m m' Ht Hn Hg Hd Hm Hp).
  - exact (expand_partial_eq_spelling F traits traits' d d' m m' Ht Hn Hg Hd Hm Hp).
  - exact (expand_eq_spelling F traits traits' d d' m m' Ht Hn Hg Hd Hm Hp).
  - exact (expand_partial_ord_spelling F traits traits' d d' m m' Ht Hn Hg Hd Hm Hp).
  - exact (expand_ord_spelling F traits traits' d d' m m' Ht Hn Hg Hd Hm Hp).
  - exact (expand_hash_spelling F traits traits' d d' m m' Ht Hn Hg Hd Hm Hp).
  - exact (expand_default_spelling F traits traits' d d' m m' Ht Hn Hg Hd Hm Hp).
  - exact (expand_deref_spelling F traits traits' d d' m m' Ht Hn Hg Hd Hm).
  - exact (expand_deref_mut_spelling F traits traits' d d' m m' Ht Hn Hg Hd Hm).
Qed.

Section Driver.
  Variables (F : features) (d d' : dinput) (tm tm' : tmap).
  Hypothesis Hn : d_name d = d_name d'.
  Hypothesis Hg : d_generics d = d_generics d'.
  Hypothesis Hr : TMR tm tm'.
  Hypothesis Hinv : tm_inv F tm.
  Hypothesis Hd : data_equiv F (map fst tm) (d_data d) (d_data d').

  Lemma run_handler_spelling acc th :
    handler_ok F th ->
    osim (run_handler F (map fst tm) d tm acc th) (run_handler F (map fst tm') d' tm' acc th).
  Proof.
    intros Hok. destruct th as [t h]. unfold run_handler. destruct (has_trait t F); [|apply osim_refl].
    pose proof (Hr t) as Ht. pose proof (Hinv t) as Hi.
    destruct (tmap_get t tm) as [l|], (tmap_get t tm') as [l'|]; cbn [opt_R] in Ht; try contradiction;
      [|apply osim_refl].
    destruct Ht as [|m m' l l' Hm Hl]; [apply osim_refl|].
    apply osim_bind; [|intros its; apply osim_refl].
    apply (Hok (map fst tm) (map fst tm') d d' m m' (TMR_keys tm tm' Hr) Hn Hg Hd Hm).
    cbn [fst]. apply trait_from_path_name with (F := F).
    exact (Hi (m :: l) m eq_refl (or_introl eq_refl)).
  Qed.

  Lemma run_handlers_spelling hs : Forall (handler_ok F) hs -> forall acc,
    osim (foldM (run_handler F (map fst tm) d tm) acc hs)
         (foldM (run_handler F (map fst tm') d' tm') acc hs).
  Proof.
    induction 1 as [|th hs Hth Hhs IH]; intros acc; cbn [foldM]; [apply osim_refl|].
    apply osim_bind; [exact (run_handler_spelling acc th Hth)|exact IH].
  Qed.

  Lemma into_part_spelling its :
    osim (match tmap_get TInto tm with
          | Some ms => if has_trait TInto F
                       then let* l := expand_into F (map fst tm) d ms in Ok (its ++ l)
                       else Ok its
          | None => Ok its
          end)
         (match tmap_get TInto tm' with
          | Some ms => if has_trait TInto F
                       then let* l := expand_into F (map fst tm') d' ms in Ok (its ++ l)
                       else Ok its
          | None => Ok its
          end).
  Proof.
    pose proof (Hr TInto) as Ht. pose proof (Hinv TInto) as Hi.
    destruct (tmap_get TInto tm) as [ms|], (tmap_get TInto tm') as [ms'|]; cbn [opt_R] in Ht;
      try contradiction; [|apply osim_refl].
    destruct (has_trait TInto F); [|apply osim_refl].
    apply osim_bind; [|intros l; apply osim_refl].
    apply (expand_into_spelling F (map fst tm) (map fst tm') d d' ms ms' (TMR_keys tm tm' Hr) Hn Hg Hd).
    assert (Hall : forall m, In m ms -> get_ident (meta_path m) = Some "Into"%string).
    { intros m Hin. exact (trait_from_path_name F _ TInto (Hi ms m eq_refl Hin)). }
    clear Hi. induction Ht as [|m m' l l' Hm Hl IH]; constructor.
    - apply IMR_one; [exact Hm|]. apply Hall. left. reflexivity.
    - apply IH. intros x Hx. apply Hall. right. exact Hx.
  Qed.
End Driver.

(** * C14: the whole expansion *)
Theorem expand_spelling F d d' :
  spelling_equiv_input F d d' -> osim (expand F d) (expand F d').
Proof.
  intros [Hn Hg [ms [ms' [E [E' Hms]]]] Hd]. unfold expand.
  rewrite (collect_flat F (d_attrs d) ms [] E), (collect_flat F (d_attrs d') ms' [] E').
  pose proof (collect_metas_equiv F ms ms' Hms) as Hc.
  destruct (foldM (collect_meta F) [] ms) as [tm| | |] eqn:Et;
    destruct (foldM (collect_meta F) [] ms') as [tm'| | |] eqn:Et'; cbn [osimR] in Hc; try contradiction;
    cbn [bind]; try exact Logic.I.
  assert (Hinv : tm_inv F tm).
  { apply (collect_inv F ms [] tm Et). intros t l m H. discriminate H. }
  assert (Hd' : data_equiv F (map fst tm) (d_data d) (d_data d')).
  { apply (data_equiv_ext F (educed F d)); [|exact Hd]. exact (educed_mem F d ms tm E Et). }
  apply osim_bind; [exact (run_handlers_spelling F d d' tm tm' Hn Hg Hc Hinv Hd' handlers (handlers_ok F) [])|].
  intros its. apply osim_bind; [exact (into_part_spelling F d d' tm tm' Hn Hg Hc Hinv Hd' its)|].
  intros its'. apply osim_refl.
Qed.
