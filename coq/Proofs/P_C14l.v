(** C14, part l: corollaries of the whole-expansion theorem, and helpers to exhibit members of
    the spelling relation. *)
From Educe.Proofs Require Export P_C14k.
From Coq Require Import Relations.

(** the success case, as an implication *)
Theorem expand_spelling_ok F d d' its :
  spelling_equiv_input F d d' -> expand F d = Ok its -> expand F d' = Ok its.
Proof. intros H. apply osim_ok. exact (expand_spelling F d d' H). Qed.

Theorem expand_spelling_fail F d d' :
  spelling_equiv_input F d d' -> fails (expand F d) -> fails (expand F d').
Proof.
  intros H. pose proof (expand_spelling F d d' H) as Ho.
  destruct (expand F d), (expand F d'); cbn in *; tauto.
Qed.

(** the printed token stream (what the correspondence check K1 compares) *)
Theorem expand_flat_spelling F d d' :
  spelling_equiv_input F d d' -> osim (expand_flat F d) (expand_flat F d').
Proof.
  intros H. unfold expand_flat. apply osim_bind; [exact (expand_spelling F d d' H)|].
  intros its. apply osim_refl.
Qed.

(** any chain of respellings *)
Theorem expand_spelling_closure F d d' :
  clos_refl_sym_trans dinput (spelling_equiv_input F) d d' -> osim (expand F d) (expand F d').
Proof.
  induction 1.
  - apply expand_spelling. assumption.
  - apply osim_refl.
  - apply osim_sym. assumption.
  - eapply osim_trans; eassumption.
Qed.

(** * building members of the relation *)
Lemma rperm_front {A} (ok : A -> A -> bool) (x : A) l1 l2 :
  Forall (fun y => ok x y = true) l1 -> rperm ok (l1 ++ x :: l2) (x :: l1 ++ l2).
Proof.
  induction 1 as [|y r Hy Hr IH]; cbn [app]; [apply rperm_refl|].
  eapply rperm_trans; [apply rperm_skip; exact IH|]. apply rperm_swap. exact Hy.
Qed.

Lemma nth_error_split {A} (l : list A) n x :
  nth_error l n = Some x -> l = firstn n l ++ x :: skipn (S n) l.
Proof.
  revert l. induction n as [|n IH]; intros [|y l] H; try discriminate H.
  - inversion H. reflexivity.
  - cbn [firstn skipn app]. f_equal. exact (IH l H).
Qed.

(** bring the [n]-th element to the front *)
Lemma rperm_front_n {A} (ok : A -> A -> bool) n l x r :
  nth_error l n = Some x -> Forall (fun y => ok x y = true) (firstn n l) ->
  rperm ok (firstn n l ++ skipn (S n) l) r -> rperm ok l (x :: r).
Proof.
  intros Hn Hok Hr. rewrite (nth_error_split l n x Hn) at 1.
  eapply rperm_trans; [apply rperm_front; exact Hok|]. apply rperm_skip. exact Hr.
Qed.

Lemma te_list1 pos p d d' ts ts' m m' :
  get_ident p <> Some "Into"%string ->
  parse_unsafe_metas ts = Ok (false, [m]) -> parse_unsafe_metas ts' = Ok (false, [m']) ->
  param_equiv m m' -> tmeta_equiv pos (MList p d ts) (MList p d' ts').
Proof.
  intros Hp H1 H2 Hm. apply TE_list; [exact Hp|]. exists false, [m], [m'].
  split; [exact H1|]. split; [exact H2|]. exists [m]. split; [apply Permutation_refl|].
  constructor; [exact Hm|constructor].
Qed.

(** the builders, rule (4), stated on their own *)
Theorem shorthand_false_is_ignore p d ts m em :
  parse_metas ts = Ok [m] -> named "ignore" m -> sp_bool true true m ->
  build_fattr true em (MNameValue p (XLit (tok_bool false))) = Ok {| fa_ignore := true; fa_method := None |} /\
  build_fattr true em (MList p d ts) = Ok {| fa_ignore := true; fa_method := None |}.
Proof.
  intros Hp Hn Hs. split; [reflexivity|].
  cbn [build_fattr]. rewrite Hp. cbn [bind run_params foldM].
  unfold run_param, im_param, param_is. unfold named in Hn. rewrite Hn. eval_mem. cbv beta iota.
  cbn [negb]. rewrite (sp_bool_allow_path _ _ _ Hs). reflexivity.
Qed.

Theorem shorthand_true_is_default p em :
  build_fattr true em (MNameValue p (XLit (tok_bool true))) = Ok fattr_default.
Proof. reflexivity. Qed.
