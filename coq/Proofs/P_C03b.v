(** C03 — the analysis: [plan_fields] keeps every field in declaration order,
    and the non-ignored ones in a list that is strictly ascending in rank and
    a permutation of them; hence the emitter's visiting order is the
    specification's [visit_order]. *)
From Educe.Proofs Require Export P_C03.
From Coq Require Export Sorting.Sorted Sorting.Permutation.

(** ** the rank map *)
Section RankMapLemmas.
  Context {A : Type}.
  Definition key_lt (a b : Z * A) : Prop := (fst a < fst b)%Z.

  Lemma rank_insert_perm k (x : A) m : Permutation (rank_insert k x m) ((k, x) :: m).
  Proof.
    induction m as [|[k' y] r IH]; [apply Permutation_refl|].
    cbn [rank_insert]. destruct (k <? k')%Z; [apply Permutation_refl|].
    eapply perm_trans; [apply perm_skip; exact IH|apply perm_swap].
  Qed.

  Lemma rank_insert_sorted k (x : A) m :
    rank_mem k m = false -> StronglySorted key_lt m -> StronglySorted key_lt (rank_insert k x m).
  Proof.
    induction m as [|[k' y] r IH]; intros Hmem Hs.
    - repeat constructor.
    - cbn [rank_mem] in Hmem. apply orb_false_iff in Hmem as [Hne Hmem]. apply Z.eqb_neq in Hne.
      inversion Hs as [|? ? Hs' Hall]; subst. cbn [rank_insert].
      destruct (k <? k')%Z eqn:E.
      + apply Z.ltb_lt in E. constructor; [exact Hs|]. constructor; [exact E|].
        eapply Forall_impl; [|exact Hall]. intros b Hb. unfold key_lt in *. cbn [fst] in *. lia.
      + apply Z.ltb_ge in E. constructor; [apply IH; assumption|].
        apply Forall_forall. intros b Hb.
        apply (Permutation_in _ (rank_insert_perm k x r)) in Hb. destruct Hb as [Hb|Hb].
        * subst b. unfold key_lt. cbn [fst]. lia.
        * rewrite Forall_forall in Hall. apply Hall. exact Hb.
  Qed.
End RankMapLemmas.

(** ** sorting facts on requests *)
Definition rank_lt (a b : request) : Prop := (rank_of a < rank_of b)%Z.
Definition rank_le (a b : request) : Prop := (rank_of a <= rank_of b)%Z.

Lemma insert_by_rank_perm t l : Permutation (insert_by_rank t l) (t :: l).
Proof.
  induction l as [|u r IH]; [apply Permutation_refl|].
  cbn [insert_by_rank]. destruct (rank_of t <=? rank_of u)%Z; [apply Permutation_refl|].
  eapply perm_trans; [apply perm_skip; exact IH|apply perm_swap].
Qed.

Lemma insert_by_rank_sorted t l :
  StronglySorted rank_le l -> StronglySorted rank_le (insert_by_rank t l).
Proof.
  induction l as [|u r IH]; intros Hs.
  - repeat constructor.
  - inversion Hs as [|? ? Hs' Hall]; subst. cbn [insert_by_rank].
    destruct (rank_of t <=? rank_of u)%Z eqn:E.
    + apply Z.leb_le in E. constructor; [exact Hs|]. constructor; [exact E|].
      eapply Forall_impl; [|exact Hall]. intros b Hb. unfold rank_le in *. lia.
    + apply Z.leb_gt in E. constructor; [apply IH; exact Hs'|].
      apply Forall_forall. intros b Hb.
      apply (Permutation_in _ (insert_by_rank_perm t r)) in Hb. destruct Hb as [Hb|Hb].
      * subst b. unfold rank_le. lia.
      * rewrite Forall_forall in Hall. apply Hall. exact Hb.
Qed.

Lemma visit_order_sorted l : StronglySorted rank_le (visit_order l).
Proof.
  unfold visit_order. induction (filter compared l) as [|t r IH]; [constructor|].
  cbn [fold_right]. apply insert_by_rank_sorted. exact IH.
Qed.

Lemma visit_order_perm l : Permutation (visit_order l) (filter compared l).
Proof.
  unfold visit_order. induction (filter compared l) as [|t r IH]; [constructor|].
  cbn [fold_right]. eapply perm_trans; [apply insert_by_rank_perm|]. apply perm_skip. exact IH.
Qed.

(** a strictly ascending list is THE sorted arrangement of its elements *)
Lemma sorted_perm_unique (l1 : list request) : forall l2,
  StronglySorted rank_lt l1 -> StronglySorted rank_le l2 -> Permutation l1 l2 -> l1 = l2.
Proof.
  induction l1 as [|a l1 IH]; intros l2 H1 H2 Hp.
  - apply Permutation_nil in Hp. symmetry. exact Hp.
  - destruct l2 as [|b l2]; [apply Permutation_sym, Permutation_nil in Hp; discriminate Hp|].
    inversion H1 as [|? ? H1' Ha]; inversion H2 as [|? ? H2' Hb]; subst.
    assert (Hab : a = b).
    { assert (Hina : In a (b :: l2)) by (eapply Permutation_in; [exact Hp|left; reflexivity]).
      assert (Hinb : In b (a :: l1))
        by (eapply Permutation_in; [apply Permutation_sym; exact Hp|left; reflexivity]).
      destruct Hina as [Hina|Hina]; [symmetry; exact Hina|].
      destruct Hinb as [Hinb|Hinb]; [exact Hinb|].
      rewrite Forall_forall in Ha, Hb. specialize (Ha _ Hinb). specialize (Hb _ Hina).
      unfold rank_lt, rank_le in *. lia. }
    subst b. f_equal. apply IH; try assumption. eapply Permutation_cons_inv. exact Hp.
Qed.

(** ** the plan *)
Section Plan.
  Variables (F : features) (own : trait -> bool) (traits : list trait).

  (** the attribute of a declared field is what [ord_field_attr] reads at its index *)
  Definition decl_ok (t : ofield) : Prop :=
    let '(i, f, fa) := t in ord_field_attr F own traits i (f_attrs f) = Ok fa.
  Definition nonign (t : ofield) : bool := let '(_, _, fa) := t in negb (oa_ignore fa).
  Definition orank (t : ofield) : Z := let '(_, _, fa) := t in oa_rank fa.
  Definition opos (t : ofield) : nat * field := fst t.
  (** the spec's view of a field: its key and its request *)
  Definition okey (t : ofield) : request := let '(i, f, fa) := t in (field_key i f, fa).

  Record plan_inv (p : fplan) : Prop := {
    pi_sorted : StronglySorted key_lt (fp_sorted p);
    pi_keys : Forall (fun kt => fst kt = orank (snd kt)) (fp_sorted p);
    pi_perm : Permutation (sorted_fields p) (filter nonign (fp_declared p));
    pi_decl : Forall decl_ok (fp_declared p) }.

  Lemma plan_inv_empty : plan_inv fplan_empty.
  Proof. split; cbn; constructor. Qed.

  Lemma plan_field_inv p x p' :
    plan_inv p -> plan_field F own traits p x = Ok p' ->
    plan_inv p' /\ map opos (fp_declared p') = map opos (fp_declared p) ++ [x].
  Proof.
    intros [Hs Hk Hp Hd] H. destruct x as [index f]. unfold plan_field in H.
    apply bind_ok in H as [fa [Hfa H]].
    assert (Hdecl : Forall decl_ok (fp_declared p ++ [(index, f, fa)])).
    { apply Forall_app. split; [exact Hd|]. constructor; [exact Hfa|constructor]. }
    assert (Hpos : map opos (fp_declared p ++ [(index, f, fa)]) = map opos (fp_declared p) ++ [(index, f)]).
    { rewrite map_app. reflexivity. }
    destruct (oa_ignore fa) eqn:Eig.
    - inversion H; subst p'; clear H. split; [|exact Hpos].
      split; cbn [fp_sorted fp_declared]; try assumption.
      unfold sorted_fields. cbn [fp_sorted]. rewrite filter_app. cbn [filter nonign].
      rewrite Eig. cbn [negb]. rewrite app_nil_r. exact Hp.
    - destruct (rank_mem (oa_rank fa) (fp_sorted p)) eqn:Emem; [discriminate H|].
      inversion H; subst p'; clear H. split; [|exact Hpos].
      split; cbn [fp_sorted fp_declared].
      + apply rank_insert_sorted; assumption.
      + apply Forall_forall. intros kt Hin.
        apply (Permutation_in _ (rank_insert_perm _ _ _)) in Hin. destruct Hin as [Hin|Hin].
        * subst kt. reflexivity.
        * rewrite Forall_forall in Hk. apply Hk. exact Hin.
      + unfold sorted_fields. cbn [fp_sorted]. rewrite filter_app. cbn [filter nonign].
        rewrite Eig. cbn [negb].
        eapply perm_trans; [apply Permutation_map; apply rank_insert_perm|].
        cbn [map snd]. eapply perm_trans; [apply perm_skip; exact Hp|].
        apply Permutation_cons_append.
      + exact Hdecl.
  Qed.

  Lemma plan_fold_inv xs : forall p p',
    plan_inv p -> foldM (plan_field F own traits) p xs = Ok p' ->
    plan_inv p' /\ map opos (fp_declared p') = map opos (fp_declared p) ++ xs.
  Proof.
    induction xs as [|x r IH]; intros p p' Hi H.
    - cbn in H. inversion H; subst p'. split; [exact Hi|]. rewrite app_nil_r. reflexivity.
    - cbn [foldM] in H. apply bind_ok in H as [p1 [H1 H]].
      destruct (plan_field_inv p x p1 Hi H1) as [Hi1 Hpos1].
      destruct (IH p1 p' Hi1 H) as [Hi' Hpos']. split; [exact Hi'|].
      rewrite Hpos', Hpos1, <- app_assoc. reflexivity.
  Qed.

  Lemma plan_fields_inv fs p :
    plan_fields F own traits fs = Ok p -> plan_inv p /\ map opos (fp_declared p) = indexed fs.
  Proof.
    intros H. destruct (plan_fold_inv (indexed fs) fplan_empty p plan_inv_empty H) as [Hi Hp].
    split; [exact Hi|exact Hp].
  Qed.

  (** ** consequences *)
  Lemma sorted_in_declared p t :
    plan_inv p -> In t (sorted_fields p) -> In t (fp_declared p) /\ nonign t = true.
  Proof.
    intros Hi Hin. apply (Permutation_in _ (pi_perm p Hi)) in Hin.
    apply filter_In in Hin. exact Hin.
  Qed.

  Lemma rank_of_okey t : rank_of (okey t) = orank t.
  Proof. destruct t as [[i f] fa]. reflexivity. Qed.
  Lemma compared_okey t : compared (okey t) = nonign t.
  Proof. destruct t as [[i f] fa]. reflexivity. Qed.

  Lemma filter_okey l : filter compared (map okey l) = map okey (filter nonign l).
  Proof.
    induction l as [|t r IH]; [reflexivity|]. cbn [map filter]. rewrite compared_okey, IH.
    destruct (nonign t); reflexivity.
  Qed.

  Lemma sorted_okey (m : list (Z * ofield)) :
    StronglySorted key_lt m -> Forall (fun kt => fst kt = orank (snd kt)) m ->
    StronglySorted rank_lt (map okey (map snd m)).
  Proof.
    induction m as [|[k t] r IH]; intros Hs Hk; [constructor|].
    inversion Hs as [|? ? Hs' Hall]; subst. inversion Hk as [|? ? Hk1 Hkr]; subst.
    cbn [map snd]. constructor; [apply IH; assumption|].
    rewrite map_map. apply Forall_forall. intros b Hb. apply in_map_iff in Hb as [[k' t'] [<- Hin]].
    rewrite Forall_forall in Hall, Hkr. specialize (Hall _ Hin). specialize (Hkr _ Hin).
    unfold key_lt in Hall. cbn [fst snd] in *. unfold rank_lt. rewrite !rank_of_okey. lia.
  Qed.

  (** the emitter's visiting order IS the specification's *)
  Lemma sorted_fields_visit p :
    plan_inv p -> map okey (sorted_fields p) = visit_order (map okey (fp_declared p)).
  Proof.
    intros Hi. apply sorted_perm_unique.
    - unfold sorted_fields. apply sorted_okey; [exact (pi_sorted p Hi)|exact (pi_keys p Hi)].
    - apply visit_order_sorted.
    - eapply perm_trans; [apply Permutation_map; exact (pi_perm p Hi)|].
      rewrite <- filter_okey. apply Permutation_sym. apply visit_order_perm.
  Qed.

  Lemma keyed_of_decl (l : list ofield) :
    Forall decl_ok l ->
    mapM (fun '(i, f) => let* fa := ord_field_attr F own traits i (f_attrs f) in
                         Ok (field_key i f, fa)) (map opos l) = Ok (map okey l).
  Proof.
    induction l as [|[[i f] fa] r IH]; intros H; [reflexivity|].
    inversion H as [|? ? Ht Hr]; subst. cbn [map]. change (opos (i, f, fa)) with (i, f).
    cbn [mapM]. cbn [decl_ok] in Ht. rewrite Ht. cbn [bind]. rewrite (IH Hr). reflexivity.
  Qed.

  (** the request list the spec reads is the declared fields of the plan *)
  Lemma plan_keyed fs p :
    plan_fields F own traits fs = Ok p ->
    ord_keyed F own traits fs = Ok (map okey (fp_declared p)).
  Proof.
    intros H. destruct (plan_fields_inv fs p H) as [Hi Hpos].
    unfold ord_keyed. rewrite <- Hpos. apply keyed_of_decl. exact (pi_decl p Hi).
  Qed.
End Plan.
