(** C14, part b: the parameter engines.  Every engine ([bound_param], [im_param], the Debug /
    PartialOrd / Default ones) gives the same step on two spellings of a parameter (rules (1)-(3),
    (5)), and two consecutive steps commute (rule (7)): hence [run_params] does not depend on the
    spelling or on the order of the parameters. *)
From Educe.Proofs Require Export P_C14a.

Ltac eval_mem :=
  repeat match goal with
  | |- context [mem_str ?a ?l] =>
      let b := eval vm_compute in (mem_str a l) in change (mem_str a l) with b
  end.

Ltac pe_names :=
  repeat match goal with
  | H : In _ (_ :: _) |- _ => destruct H as [H|H]; [subst|]
  | H : In _ [] |- _ => destruct H
  end.

Ltac rw_readers :=
  repeat match goal with
  | H : sp_bool _ _ ?m |- context [meta_2_bool_allow_path ?m] => rewrite (sp_bool_allow_path _ _ _ H)
  | H : sp_bool false _ ?m |- context [meta_2_bool ?m] => rewrite (sp_bool_strict _ _ H)
  | H : sp_bool false _ ?m |- context [meta_2_ident_and_bool ?m] => rewrite (sp_bool_iob _ _ H)
  | H : sp_bool false _ ?m |- context [meta_2_ident ?m] => rewrite (sp_bool_ident _ _ H)
  | H : sp_ident ?s ?m, Hs : ident_ok ?s = true |- context [meta_2_ident ?m] =>
      rewrite (sp_ident_ident _ _ Hs H)
  | H : sp_ident ?s ?m, Hs : ident_ok ?s = true |- context [meta_2_ident_and_bool ?m] =>
      rewrite (sp_ident_iob _ _ Hs H)
  | H : sp_path ?ts ?m, Hp : parse_path_all ?ts = Ok ?ts |- context [meta_2_path ?m] =>
      rewrite (sp_path_path _ _ Hp H)
  | H : sp_int ?z ?m, Hz : in_isize ?z = true |- context [meta_2_isize ?m] =>
      rewrite (sp_int_isize _ _ Hz H)
  | H : sp_bound ?r ?m |- context [bound_from_meta ?m] => rewrite (sp_bound_meta _ _ H)
  end.

Ltac rw_exprs :=
  repeat match goal with
  | H : sp_expr ?e ?m |- context [meta_2_expr ?m] =>
      let v := fresh "v" in let E := fresh "E" in let Hv := fresh "Hv" in
      destruct (sp_expr_expr _ _ H) as [v [E Hv]]; rewrite E; clear E
  end.

(** one engine step on two spellings of a parameter *)
Ltac pe_engine :=
  let H := fresh "H" in
  intros H; destruct H; [reflexivity|..]; unfold flag_names, name_names, expr_names in *; pe_names;
  unfold named in *; unfold param_is;
  repeat match goal with Hn : param_name _ = Some _ |- _ => rewrite Hn; clear Hn end;
  eval_mem; cbv beta iota; rw_readers; try reflexivity.

(** two consecutive steps *)
Definition step2 {S} (h : S -> meta -> outcome (option S)) (s : S) (m1 m2 : meta) : outcome S :=
  let* s1 := run_param h s m1 in run_param h s1 m2.

Ltac comm_loop :=
  match goal with
  | |- context [param_is ?m ?l] => destruct (param_is m l)
  | |- context [if ?b then _ else _] => destruct b
  | |- context [bind ?x _] =>
      lazymatch x with
      | Ok _ => fail
      | bind _ _ => fail
      | (if _ then _ else _) => fail
      | (match _ with _ => _ end) => fail
      | _ => destruct x
      end
  | |- context [match ?x with Some _ => _ | None => _ end] => destruct x
  end.

(** ** [bound_param] (the `bound` parameter of every type attribute) *)
Lemma bound_param_equiv eb s m m' : param_equiv m m' -> bound_param eb s m = bound_param eb s m'.
Proof. unfold bound_param. pe_engine. Qed.

Lemma bound_param_comm eb s m1 m2 :
  osim (step2 (bound_param eb) s m1 m2) (step2 (bound_param eb) s m2 m1).
Proof.
  unfold step2, run_param, bound_param.
  repeat (cbn [bind negb fst snd]; comm_loop);
  cbn [osim osimR]; try reflexivity; try exact Logic.I.
Qed.

(** ** [im_param] (`ignore` / `method`: PartialEq, Hash, Clone, Into fields) *)
Lemma im_param_equiv ei em s m m' : param_equiv m m' -> im_param ei em s m = im_param ei em s m'.
Proof. unfold im_param. pe_engine. Qed.

Lemma im_param_comm ei em s m1 m2 :
  osim (step2 (im_param ei em) s m1 m2) (step2 (im_param ei em) s m2 m1).
Proof.
  unfold step2, run_param, im_param.
  repeat (cbn [bind negb fst snd fs_ignore fs_method fs_ignore_set fs_method_set]; comm_loop);
  cbn [osim osimR]; try reflexivity; try exact Logic.I.
Qed.

(** ** [ord_param] (`ignore` / `method` / `rank`: PartialOrd, Ord fields) *)
Lemma ord_param_equiv ei em er s m m' :
  param_equiv m m' -> ord_param ei em er s m = ord_param ei em er s m'.
Proof. unfold ord_param. pe_engine. Qed.

Lemma ord_param_comm ei em er s m1 m2 :
  osim (step2 (ord_param ei em er) s m1 m2) (step2 (ord_param ei em er) s m2 m1).
Proof.
  unfold step2, run_param, ord_param.
  repeat (cbn [bind negb fst snd os_ignore os_method os_rank os_ignore_set os_method_set os_rank_set];
          comm_loop);
  cbn [osim osimR]; try reflexivity; try exact Logic.I.
Qed.

(** ** Debug, type / variant level (`name`|`rename` / `named_field` / `bound`) *)
Lemma debug_dt_param_equiv b s m m' :
  param_equiv m m' -> Expand_Debug.dt_param b s m = Expand_Debug.dt_param b s m'.
Proof. unfold Expand_Debug.dt_param. pe_engine. Qed.

Lemma debug_dt_param_comm b s m1 m2 :
  osim (step2 (Expand_Debug.dt_param b) s m1 m2) (step2 (Expand_Debug.dt_param b) s m2 m1).
Proof.
  unfold step2, run_param, Expand_Debug.dt_param.
  repeat (cbn [bind negb fst snd Expand_Debug.ts_name Expand_Debug.ts_named_field
               Expand_Debug.ts_bound Expand_Debug.ts_name_set Expand_Debug.ts_nf_set
               Expand_Debug.ts_bound_set]; comm_loop);
  cbn [osim osimR]; try reflexivity; try exact Logic.I.
Qed.

(** ** Debug, field level (`name`|`rename` / `ignore` / `method`) *)
Lemma debug_df_param_equiv en ei em s m m' :
  param_equiv m m' -> Expand_Debug.df_param en ei em s m = Expand_Debug.df_param en ei em s m'.
Proof. unfold Expand_Debug.df_param. pe_engine. Qed.

Lemma debug_df_param_comm en ei em s m1 m2 :
  osim (step2 (Expand_Debug.df_param en ei em) s m1 m2) (step2 (Expand_Debug.df_param en ei em) s m2 m1).
Proof.
  unfold step2, run_param, Expand_Debug.df_param.
  repeat (cbn [bind negb fst snd Expand_Debug.dfs_attr Expand_Debug.dfs_name_set
               Expand_Debug.dfs_ignore_set Expand_Debug.dfs_method_set Expand_Debug.df_name
               Expand_Debug.df_ignore Expand_Debug.df_method]; comm_loop);
  cbn [osim osimR]; try reflexivity; try exact Logic.I.
Qed.

(** ** Default, type level (`new` / `expression`|`expr` / `bound`) *)
Lemma default_dt_param_equiv en ee eb s m m' :
  param_equiv m m' -> Expand_Default.dt_param en ee eb s m = Expand_Default.dt_param en ee eb s m'.
Proof.
  unfold Expand_Default.dt_param. pe_engine;
    rw_exprs; cbn [bind];
    match goal with
    | H1 : nv_of ?e ?v, H2 : nv_of ?e ?v' |- _ => rewrite (nv_of_adjust e v v' None H1 H2)
    end; reflexivity.
Qed.

Lemma default_dt_param_comm en ee eb s m1 m2 :
  osim (step2 (Expand_Default.dt_param en ee eb) s m1 m2) (step2 (Expand_Default.dt_param en ee eb) s m2 m1).
Proof.
  unfold step2, run_param, Expand_Default.dt_param.
  repeat (cbn [bind negb fst snd Expand_Default.ds_new Expand_Default.ds_expr Expand_Default.ds_bound
               Expand_Default.ds_new_set Expand_Default.ds_expr_set Expand_Default.ds_bound_set];
          comm_loop);
  cbn [osim osimR]; try reflexivity; try exact Logic.I.
Qed.

(** ** Default, field level (`expression`|`expr`) *)
Lemma default_df_param_equiv ee ty s m m' :
  param_equiv m m' -> Expand_Default.df_param ee ty s m = Expand_Default.df_param ee ty s m'.
Proof.
  unfold Expand_Default.df_param. pe_engine;
    rw_exprs; cbn [bind];
    match goal with
    | H1 : nv_of ?e ?v, H2 : nv_of ?e ?v' |- _ => rewrite (nv_of_adjust e v v' (Some ty) H1 H2)
    end; reflexivity.
Qed.

Lemma default_df_param_comm ee ty s m1 m2 :
  osim (step2 (Expand_Default.df_param ee ty) s m1 m2) (step2 (Expand_Default.df_param ee ty) s m2 m1).
Proof.
  unfold step2, run_param, Expand_Default.df_param.
  repeat (cbn [bind negb fst snd]; comm_loop);
  cbn [osim osimR]; try reflexivity; try exact Logic.I.
Qed.

(** * [run_params] *)
Lemma bind_assoc {A B C} (m : outcome A) (f : A -> outcome B) (g : B -> outcome C) :
  bind (bind m f) g = bind m (fun a => bind (f a) g).
Proof. destruct m; reflexivity. Qed.

Section Engine.
  Context {S : Type} (h : S -> meta -> outcome (option S)).
  Hypothesis h_equiv : forall s m m', param_equiv m m' -> h s m = h s m'.
  Hypothesis h_comm : forall s m1 m2, osim (step2 h s m1 m2) (step2 h s m2 m1).

  (** rule (7): the order of the parameters does not matter *)
  Lemma run_params_perm ms ms' :
    Permutation ms ms' -> forall s, osim (run_params h s ms) (run_params h s ms').
  Proof.
    unfold run_params. induction 1 as [|x l l' Hp IH|x y l|l l' l'' H1 IH1 H2 IH2]; intros s.
    - apply osim_refl.
    - cbn [foldM]. apply osim_bind; [apply osim_refl|exact IH].
    - cbn [foldM]. rewrite <- !bind_assoc. apply osim_bind; [|intros a; apply osim_refl].
      exact (h_comm s y x).
    - exact (osim_trans _ _ _ (IH1 s) (IH2 s)).
  Qed.

  (** rules (1)-(3), (5): nor does the spelling of each of them *)
  Lemma run_params_pointwise ms ms' :
    Forall2 param_equiv ms ms' -> forall s, run_params h s ms = run_params h s ms'.
  Proof.
    unfold run_params. induction 1 as [|m m' l l' Hm Hl IH]; intros s; [reflexivity|].
    cbn [foldM]. unfold run_param at 1 3. rewrite (h_equiv s m m' Hm).
    destruct (let* r := h s m' in match r with Some s' => Ok s' | None => Err E_attr_format end);
      cbn [bind]; auto.
  Qed.

  Theorem run_params_equiv ps ps' s :
    params_equiv ps ps' -> osim (run_params h s ps) (run_params h s ps').
  Proof.
    intros [qs [Hp Hq]]. eapply osim_trans; [exact (run_params_perm ps qs Hp s)|].
    rewrite (run_params_pointwise qs ps' Hq s). apply osim_refl.
  Qed.
End Engine.
