(** C12 — from the spelling of `bound` to the mode: what [bound_from_meta]
    makes of `bound = false`, `bound(false)`, `bound = ""`, `bound( * )`,
    `bound(p1, p2, ..)`, `bound = "p1, p2, .."`, and how each handler's
    attribute builder finds the (single) `bound` parameter among the trait's
    parameters. *)
From Educe.Proofs Require Export P_C12e.

(** ** the spellings *)
Definition tok_false : tt := I "false".
Definition tok_true : tt := I "true".

Lemma bound_eq_false p : bound_from_meta (MNameValue p (XLit tok_false)) = Ok BDisabled.
Proof. reflexivity. Qed.
Lemma bound_eq_true p : bound_from_meta (MNameValue p (XLit tok_true)) = Ok BAuto.
Proof. reflexivity. Qed.
Lemma bound_list_false p dl : bound_from_meta (MList p dl [tok_false]) = Ok BDisabled.
Proof. reflexivity. Qed.
Lemma bound_list_true p dl : bound_from_meta (MList p dl [tok_true]) = Ok BAuto.
Proof. reflexivity. Qed.
Lemma bound_list_star p dl : bound_from_meta (MList p dl [P "*"]) = Ok BAll.
Proof. reflexivity. Qed.
(** `bound = ""`: an empty predicate list (or, should the literal not lex, "disabled"): nothing to add *)
Lemma bound_eq_empty_string p text relex b :
  bound_from_meta (MNameValue p (XLit (TStr text "" relex))) = Ok b ->
  (relex = Some [] -> b = BCustom []) /\ (relex = None -> b = BDisabled).
Proof.
  intros H. split; intros ->; cbn in H; inversion H; reflexivity.
Qed.
(** `bound()` *)
Lemma bound_list_empty p dl : bound_from_meta (MList p dl []) = Ok (BCustom []).
Proof. reflexivity. Qed.

(** *** predicate lists *)

(** reading [p] from angle depth [k]: the depth reached, [None] if a top-level comma is met *)
Fixpoint closed_at (depth : nat) (p : toks) : option nat :=
  match p with
  | [] => Some depth
  | t :: r =>
      if is_punct "," t && Nat.eqb depth 0 then None
      else closed_at (if is_punct "<" t then S depth
                      else if is_punct ">" t then Nat.pred depth else depth) r
  end.

(** one where-predicate of the modelled domain: no top-level comma, angle
    brackets balanced, a `:` after the first token *)
Definition one_pred (p : toks) : Prop := closed_at 0 p = Some 0 /\ pred_ok p = true.

Lemma split_nonempty k ts : split_commas_angle k ts <> [].
Proof.
  revert k. induction ts as [|t r IH]; intros k; cbn [split_commas_angle]; [discriminate|].
  destruct (is_punct "," t && Nat.eqb k 0); [discriminate|].
  destruct (split_commas_angle _ r); discriminate.
Qed.

Lemma split_closed p : forall k k' rest,
  closed_at k p = Some k' ->
  split_commas_angle k (p ++ rest)
  = (p ++ hd [] (split_commas_angle k' rest)) :: tl (split_commas_angle k' rest).
Proof.
  induction p as [|t r IH]; intros k k' rest H; cbn [closed_at] in H.
  - inversion H; subst k'. cbn [app].
    destruct (split_commas_angle k rest) eqn:E; [exfalso; exact (split_nonempty _ _ E)|reflexivity].
  - cbn [app split_commas_angle].
    destruct (is_punct "," t && Nat.eqb k 0); [discriminate H|].
    rewrite (IH _ k' rest H). reflexivity.
Qed.

Lemma split_comma X : split_commas_angle 0 (comma ++ X) = [] :: split_commas_angle 0 X.
Proof. reflexivity. Qed.

Lemma split_sep ps :
  Forall one_pred ps -> ps <> [] -> split_commas_angle 0 (sep_by comma ps) = ps.
Proof.
  induction ps as [|p r IH]; intros Hall Hne; [congruence|].
  inversion Hall as [|? ? [Hc _] Hr]; subst. destruct r as [|q r].
  - cbn [sep_by]. rewrite <- (app_nil_r p) at 1. rewrite (split_closed p 0 0 [] Hc). cbn.
    rewrite app_nil_r. reflexivity.
  - change (sep_by comma (p :: q :: r)) with (p ++ comma ++ sep_by comma (q :: r)).
    rewrite (split_closed p 0 0 _ Hc), split_comma. cbn [hd tl].
    rewrite (IH Hr ltac:(discriminate)). rewrite app_nil_r. reflexivity.
Qed.

Lemma split_each ps :
  Forall one_pred ps -> split_commas_angle 0 (each_then comma ps) = ps ++ [[]].
Proof.
  induction ps as [|p r IH]; intros Hall; [reflexivity|].
  inversion Hall as [|? ? [Hc _] Hr]; subst. unfold each_then. cbn [flat_map].
  fold (each_then comma r). rewrite <- app_assoc.
  rewrite (split_closed p 0 0 _ Hc), split_comma. cbn [hd tl].
  rewrite (IH Hr), app_nil_r. reflexivity.
Qed.

Lemma one_pred_nonempty p : one_pred p -> is_nil p = false.
Proof. intros [_ H]. destruct p; [discriminate H|reflexivity]. Qed.

Lemma last_nonempty (ps : list toks) :
  Forall one_pred ps -> ps <> [] -> is_nil (last ps []) = false.
Proof.
  induction ps as [|p r IH]; intros Hall Hne; [congruence|].
  inversion Hall as [|? ? Hp Hr]; subst. destruct r as [|q r]; [exact (one_pred_nonempty p Hp)|].
  change (last (p :: q :: r) []) with (last (q :: r) []). apply IH; [exact Hr|discriminate].
Qed.

Lemma forallb_pred_ok ps : Forall one_pred ps -> forallb pred_ok ps = true.
Proof. induction 1 as [|p r [_ Hp] _ IH]; [reflexivity|]. cbn [forallb]. rewrite Hp, IH. reflexivity. Qed.

Lemma parse_from_split ts cs' :
  split_commas_angle 0 ts <> [[]] ->
  (if is_nil (last (split_commas_angle 0 ts) []) then removelast (split_commas_angle 0 ts)
   else split_commas_angle 0 ts) = cs' ->
  forallb pred_ok cs' = true ->
  parse_where_predicates ts = Ok cs'.
Proof.
  unfold parse_where_predicates. generalize (split_commas_angle 0 ts).
  intros cs0. destruct cs0 as [|[|t0 l0] [|c2 cs2]]; intros Hne Hc Hf;
    try (exfalso; apply Hne; reflexivity); rewrite Hc, Hf; reflexivity.
Qed.

(** the predicates written, with or without a trailing comma, are read back one by one *)
Theorem parse_predicates_verbatim trailing ps :
  Forall one_pred ps -> ps <> [] ->
  parse_where_predicates (list_toks trailing ps) = Ok ps.
Proof.
  intros Hall Hne. unfold list_toks. destruct trailing.
  - apply parse_from_split; rewrite ?(split_each ps Hall).
    + destruct ps as [|p [|q r]]; [congruence|discriminate|discriminate].
    + rewrite last_last. cbn [is_nil]. apply removelast_last.
    + apply forallb_pred_ok. exact Hall.
  - apply parse_from_split; rewrite ?(split_sep ps Hall Hne).
    + destruct ps as [|p [|q r]]; [congruence| |discriminate].
      inversion Hall as [|? ? Hp _]; subst. pose proof (one_pred_nonempty p Hp) as Hn.
      destruct p; [discriminate Hn|discriminate].
    + rewrite (last_nonempty ps Hall Hne). reflexivity.
    + apply forallb_pred_ok. exact Hall.
Qed.

(** `bound(p1, p2, ..)` (the first token of a predicate is not a literal, `-` or `*`) *)
Theorem bound_list_preds p dl trailing ps t0 r0 :
  Forall one_pred ps -> ps <> [] ->
  list_toks trailing ps = t0 :: r0 ->
  is_lit_tok t0 = false -> is_punct "-" t0 = false -> is_punct "*" t0 = false ->
  bound_from_meta (MList p dl (list_toks trailing ps)) = Ok (BCustom ps).
Proof.
  intros Hall Hne Hts H1 H2 H3. cbn [bound_from_meta]. rewrite Hts, H1, H2, H3, <- Hts.
  rewrite (parse_predicates_verbatim trailing ps Hall Hne). reflexivity.
Qed.

(** `bound = "p1, p2, .."` *)
Theorem bound_eq_string p text value trailing ps :
  Forall one_pred ps -> ps <> [] ->
  bound_from_meta (MNameValue p (XLit (TStr text value (Some (list_toks trailing ps)))))
  = Ok (BCustom ps).
Proof.
  intros Hall Hne. cbn [bound_from_meta bound_from_lit].
  rewrite (parse_predicates_verbatim trailing ps Hall Hne). reflexivity.
Qed.

(** ** finding the `bound` parameter: the scheme of every builder's parameter loop *)
Definition bound_metas (ms : list meta) : list meta := filter (fun m => param_is m ["bound"]) ms.

(** the mode a parameter list asks for: automatic without a `bound`
    parameter, else what the one `bound` parameter spells *)
Definition requested (ms : list meta) (b : bound) : Prop :=
  match bound_metas ms with
  | [] => b = BAuto
  | [mb] => bound_from_meta mb = Ok b
  | _ => False
  end.

Section ParamLoop.
  Context {S : Type}.
  Variables (hd : S -> meta -> outcome (option S)) (get_set : S -> bool) (get_b : S -> bound).
  Hypothesis on_bound : forall s x s',
    param_is x ["bound"] = true -> run_param hd s x = Ok s' ->
    get_set s = false /\ get_set s' = true /\ bound_from_meta x = Ok (get_b s').
  Hypothesis on_other : forall s x s',
    param_is x ["bound"] = false -> run_param hd s x = Ok s' ->
    get_set s' = get_set s /\ get_b s' = get_b s.

  Lemma loop_inv ms : forall s s',
    run_params hd s ms = Ok s' ->
    if get_set s then bound_metas ms = [] /\ get_b s' = get_b s
    else match bound_metas ms with
         | [] => get_b s' = get_b s
         | [mb] => bound_from_meta mb = Ok (get_b s')
         | _ => False
         end.
  Proof.
    unfold run_params. induction ms as [|x r IH]; intros s s' H; cbn [foldM] in H.
    - inversion H; subst s'. destruct (get_set s); cbn; auto.
    - apply bind_ok in H as [s1 [H1 H]]. specialize (IH s1 s' H).
      unfold bound_metas in *. cbn [filter]. destruct (param_is x ["bound"]) eqn:Ex.
      + destruct (on_bound s x s1 Ex H1) as [Hs [Hs1 Hb]]. rewrite Hs. rewrite Hs1 in IH.
        destruct IH as [Hnil Hsame]. rewrite Hnil, Hsame. exact Hb.
      + destruct (on_other s x s1 Ex H1) as [Hs Hb]. rewrite Hs in IH. rewrite Hb in IH. exact IH.
  Qed.

  Lemma loop_requested ms s s' :
    get_set s = false -> get_b s = BAuto -> run_params hd s ms = Ok s' -> requested ms (get_b s').
  Proof.
    intros Hs Hb H. pose proof (loop_inv ms s s' H) as Hi. rewrite Hs, Hb in Hi. exact Hi.
  Qed.
End ParamLoop.

Lemma param_bound_not m names :
  param_is m ["bound"] = true -> mem_str "bound" names = false -> param_is m names = false.
Proof.
  unfold param_is. destruct (Attr.param_name m) as [s|]; [|discriminate].
  cbn [mem_str existsb]. rewrite orb_false_r. intros H. apply String.eqb_eq in H. subst s. auto.
Qed.

(** *** PartialEq, Hash, Clone, Copy, Eq, PartialOrd, Ord (and Into's targets): [bound_param] *)
Lemma bound_param_loop ms f b :
  run_params (bound_param true) (false, BAuto) ms = Ok (f, b) -> requested ms b.
Proof.
  intros H.
  apply (loop_requested (bound_param true) fst snd) with (s := (false, BAuto)) (s' := (f, b));
    [| |reflexivity|reflexivity|exact H].
  - intros s x s' Ex Hr. unfold run_param, bound_param in Hr. rewrite Ex in Hr. cbn [negb] in Hr.
    apply bind_ok in Hr as [o [Ho Hr]]. apply bind_ok in Ho as [v [Hv Ho]].
    destruct (fst s); [discriminate Ho|]. inversion Ho; subst o. inversion Hr; subst s'. auto.
  - intros s x s' Ex Hr. unfold run_param, bound_param in Hr. rewrite Ex in Hr. discriminate Hr.
Qed.

(** a position that refuses `bound` stays automatic *)
Lemma bound_param_refused ms f b :
  run_params (bound_param false) (false, BAuto) ms = Ok (f, b) -> b = BAuto.
Proof.
  unfold run_params. destruct ms as [|x r]; cbn [foldM]; intros H; [inversion H; reflexivity|].
  apply bind_ok in H as [s1 [H1 _]]. unfold run_param, bound_param in H1.
  destruct (param_is x ["bound"]); discriminate H1.
Qed.

Theorem build_tattr_requested ef eu m ta :
  build_tattr ef eu true m = Ok ta ->
  match m with
  | MPath _ => ta_bound ta = BAuto
  | MNameValue _ _ => False
  | MList _ _ ts =>
      exists u ms, (if eu then parse_unsafe_metas ts else let* ms := parse_metas ts in Ok (false, ms))
                   = Ok (u, ms) /\ requested ms (ta_bound ta)
  end.
Proof.
  destruct m as [p|p v|p dl ts]; cbn [build_tattr]; intros H.
  - destruct ef; [inversion H; reflexivity|discriminate H].
  - discriminate H.
  - apply bind_ok in H as [[u ms] [Hp H]]. apply bind_ok in H as [[f b] [Hl H]].
    inversion H; subst ta. cbn [ta_bound]. exists u, ms. split; [exact Hp|].
    eapply bound_param_loop. exact Hl.
Qed.

Theorem build_tattr_refused ef eu m ta : build_tattr ef eu false m = Ok ta -> ta_bound ta = BAuto.
Proof.
  destruct m as [p|p v|p dl ts]; cbn [build_tattr]; intros H.
  - destruct ef; [inversion H; reflexivity|discriminate H].
  - discriminate H.
  - apply bind_ok in H as [[u ms] [Hp H]]. apply bind_ok in H as [[f b] [Hl H]].
    inversion H; subst ta. cbn [ta_bound]. eapply bound_param_refused. exact Hl.
Qed.

(** *** Debug *)
Theorem debug_dtattr_requested tb m ta :
  tb_bound tb = true ->
  Expand_Debug.build_dtattr tb m = Ok ta ->
  match m with
  | MPath _ | MNameValue _ _ => Expand_Debug.dt_bound ta = BAuto
  | MList _ _ ts =>
      exists u ms, (if tb_unsafe tb then parse_unsafe_metas ts
                    else let* ms := parse_metas ts in Ok (false, ms)) = Ok (u, ms) /\
                   requested ms (Expand_Debug.dt_bound ta)
  end.
Proof.
  intros Htb. destruct m as [p|p v|p dl ts]; cbn [Expand_Debug.build_dtattr]; intros H.
  - destruct (tb_flag tb); [inversion H; reflexivity|discriminate H].
  - destruct (negb (tb_name tb)); [discriminate H|]. apply bind_ok in H as [n [_ H]].
    inversion H; reflexivity.
  - apply bind_ok in H as [[u ms] [Hp H]]. apply bind_ok in H as [s [Hl H]].
    inversion H; subst ta. cbn [Expand_Debug.dt_bound]. exists u, ms. split; [exact Hp|].
    apply (loop_requested (Expand_Debug.dt_param tb) ts_bound_set ts_bound) with (3 := eq_refl) (4 := eq_refl) (5 := Hl).
    + intros s0 x s' Ex Hr. unfold run_param, Expand_Debug.dt_param in Hr.
      rewrite (param_bound_not x ["name"; "rename"] Ex eq_refl) in Hr.
      rewrite (param_bound_not x ["named_field"] Ex eq_refl) in Hr. rewrite Ex, Htb in Hr.
      cbn [negb] in Hr. apply bind_ok in Hr as [o [Ho Hr]]. apply bind_ok in Ho as [v [Hv Ho]].
      destruct (ts_bound_set s0); [discriminate Ho|]. inversion Ho; subst o. inversion Hr; subst s'. auto.
    + intros s0 x s' Ex Hr. unfold run_param, Expand_Debug.dt_param in Hr. rewrite Ex in Hr.
      destruct (param_is x ["name"; "rename"]).
      { destruct (negb (tb_name tb)); [discriminate Hr|].
        apply bind_ok in Hr as [o [Ho Hr]]. apply bind_ok in Ho as [v [Hv Ho]].
        destruct (ts_name_set s0); [discriminate Ho|]. inversion Ho; subst o. inversion Hr; subst s'. auto. }
      destruct (param_is x ["named_field"]); [|discriminate Hr].
      destruct (negb (tb_named_field tb)); [discriminate Hr|].
      apply bind_ok in Hr as [o [Ho Hr]]. apply bind_ok in Ho as [v [Hv Ho]].
      destruct (ts_nf_set s0); [discriminate Ho|]. inversion Ho; subst o. inversion Hr; subst s'. auto.
Qed.

(** *** Default *)
Theorem default_dtattr_requested ef en ee m ta :
  Expand_Default.build_dtattr ef en ee true m = Ok ta ->
  match m with
  | MPath _ => Expand_Default.dt_bound ta = BAuto
  | MNameValue _ _ => False
  | MList _ _ ts => exists ms, parse_metas ts = Ok ms /\ requested ms (Expand_Default.dt_bound ta)
  end.
Proof.
  destruct m as [p|p v|p dl ts]; cbn [Expand_Default.build_dtattr]; intros H.
  - destruct ef; [inversion H; reflexivity|discriminate H].
  - discriminate H.
  - apply bind_ok in H as [ms [Hp H]]. apply bind_ok in H as [s [Hl H]].
    inversion H; subst ta. cbn [Expand_Default.dt_bound]. exists ms. split; [exact Hp|].
    apply (loop_requested (Expand_Default.dt_param en ee true) ds_bound_set ds_bound)
      with (3 := eq_refl) (4 := eq_refl) (5 := Hl).
    + intros s0 x s' Ex Hr. unfold run_param, Expand_Default.dt_param in Hr.
      rewrite (param_bound_not x ["new"] Ex eq_refl) in Hr.
      rewrite (param_bound_not x ["expression"; "expr"] Ex eq_refl) in Hr. rewrite Ex in Hr.
      cbn [negb] in Hr. apply bind_ok in Hr as [o [Ho Hr]]. apply bind_ok in Ho as [v [Hv Ho]].
      destruct (ds_bound_set s0); [discriminate Ho|]. inversion Ho; subst o. inversion Hr; subst s'. auto.
    + intros s0 x s' Ex Hr. unfold run_param, Expand_Default.dt_param in Hr. rewrite Ex in Hr.
      destruct (param_is x ["new"]).
      { destruct (negb en); [discriminate Hr|].
        apply bind_ok in Hr as [o [Ho Hr]]. apply bind_ok in Ho as [v [Hv Ho]].
        destruct (ds_new_set s0); [discriminate Ho|]. inversion Ho; subst o. inversion Hr; subst s'. auto. }
      destruct (param_is x ["expression"; "expr"]); [|discriminate Hr].
      destruct (negb ee); [discriminate Hr|].
      apply bind_ok in Hr as [o [Ho Hr]]. apply bind_ok in Ho as [v [Hv Ho]].
      destruct (ds_expr_set s0); [discriminate Ho|]. inversion Ho; subst o. inversion Hr; subst s'. auto.
Qed.

(** *** Into: the bound written after each target, `Into(T, bound(..))` *)
Definition written_bound (m : meta) (t : toks * bound) : Prop :=
  exists p dl ts ty rest, m = MList p dl ts /\ parse_type_with_metas ts = Ok (ty, rest) /\
                          fst t = hash_type ty /\ requested rest (snd t).

Theorem into_targets_requested ms : forall acc r,
  foldM (into_type_meta true) acc ms = Ok r ->
  exists new, r = acc ++ new /\ Forall2 written_bound ms new.
Proof.
  induction ms as [|m ms IH]; intros acc r H; cbn [foldM] in H.
  - inversion H; subst. exists []. rewrite app_nil_r. split; [reflexivity|constructor].
  - apply bind_ok in H as [acc' [Hm H]]. destruct (IH _ _ H) as [new [Hr Hw]].
    unfold into_type_meta in Hm. destruct m as [p|p nv|p dl ts]; try discriminate Hm.
    cbn [negb] in Hm. apply bind_ok in Hm as [[ty rest] [Hparse Hm]].
    apply bind_ok in Hm as [[u b] [Hrun Hm]].
    destruct (ty_mem (hash_type ty) acc); [discriminate Hm|]. inversion Hm; subst acc'; clear Hm.
    exists ((hash_type ty, b) :: new). split; [rewrite Hr, <- app_assoc; reflexivity|].
    constructor; [|exact Hw]. exists p, dl, ts, ty, rest. repeat split; try assumption.
    cbn [snd]. eapply bound_param_loop. exact Hrun.
Qed.

(** ** per trait: the mode of [type_mode] is the one the trait's parameter list asks for *)
Theorem type_mode_requested t F traits d p dl ts b :
  type_mode t F traits d (MList p dl ts) = Ok b ->
  b = BAuto \/ exists u ms, (parse_metas ts = Ok ms \/ parse_unsafe_metas ts = Ok (u, ms)) /\ requested ms b.
Proof.
  assert (Htattr : forall ef eu eb, tattr_mode ef eu eb (MList p dl ts) = Ok b ->
            b = BAuto \/ exists u ms, (parse_metas ts = Ok ms \/ parse_unsafe_metas ts = Ok (u, ms))
                                      /\ requested ms b).
  { intros ef eu eb H. unfold tattr_mode in H. apply bind_ok in H as [ta [Hta H]]. inversion H; subst b.
    destruct eb.
    - destruct (build_tattr_requested ef eu _ ta Hta) as [u [ms [Hp Hr]]]. right. exists u, ms.
      split; [|exact Hr]. destruct eu; [right; exact Hp|].
      left. apply bind_ok in Hp as [ms' [Hms Hp]]. inversion Hp; subst. exact Hms.
    - left. eapply build_tattr_refused. exact Hta. }
  unfold type_mode. destruct t; intros H; try (left; inversion H; reflexivity); try (eapply Htattr; exact H).
  - (* Debug *)
    destruct (d_data d) as [fs|vs|ufs]; [| |left; inversion H; reflexivity].
    + apply bind_ok in H as [ta [Hta H]]. inversion H; subst b.
      destruct (debug_dtattr_requested (struct_tb (is_tuple_fields fs)) _ ta eq_refl Hta) as [u [ms [Hp Hr]]].
      right. exists u, ms. split; [|exact Hr]. left.
      cbn [tb_unsafe struct_tb] in Hp. apply bind_ok in Hp as [ms' [Hms Hp]].
      inversion Hp; subst. exact Hms.
    + apply bind_ok in H as [ta [Hta H]]. inversion H; subst b.
      destruct (debug_dtattr_requested enum_tb _ ta eq_refl Hta) as [u [ms [Hp Hr]]].
      right. exists u, ms. split; [|exact Hr]. left.
      cbn [tb_unsafe enum_tb] in Hp. apply bind_ok in Hp as [ms' [Hms Hp]].
      inversion Hp; subst. exact Hms.
  - (* PartialEq *) destruct (is_union (d_data d)); [left; inversion H; reflexivity|eapply Htattr; exact H].
  - (* Hash *) destruct (is_union (d_data d)); [left; inversion H; reflexivity|eapply Htattr; exact H].
  - (* Default *)
    apply bind_ok in H as [ta [Hta H]]. inversion H; subst b.
    destruct (default_dtattr_requested _ _ _ _ ta Hta) as [ms [Hp Hr]].
    right. exists false, ms. split; [left; exact Hp|exact Hr].
Qed.

(** a bare `Trait` asks for nothing: automatic *)
Theorem type_mode_bare t F traits d p b : type_mode t F traits d (MPath p) = Ok b -> b = BAuto.
Proof.
  assert (Htattr : forall ef eu eb, tattr_mode ef eu eb (MPath p) = Ok b -> b = BAuto).
  { intros ef eu eb H. unfold tattr_mode in H. cbn [build_tattr] in H.
    destruct ef; [|discriminate H]. inversion H; reflexivity. }
  unfold type_mode. destruct t; intros H; try (inversion H; reflexivity); try (eapply Htattr; exact H).
  - destruct (d_data d); [| |inversion H; reflexivity]; cbn in H; inversion H; reflexivity.
  - destruct (is_union (d_data d)); [inversion H; reflexivity|eapply Htattr; exact H].
  - destruct (is_union (d_data d)); [inversion H; reflexivity|eapply Htattr; exact H].
Qed.
