(** C11 / C12 — handler by handler: every emitted item is built by the scheme
    of P_C12.v from the mode the handler's own attribute builder reads
    ([type_mode]), the trait of the table ([required_trait]), the delegated
    types of the specification ([delegated_of]) and the supertraits of the
    table ([supers_of]).  Part 1: general lemmas, PartialEq, Hash, Eq, Copy,
    Deref, DerefMut. *)
From Educe.Proofs Require Export P_C12.

(** ** the outcome monad *)
Lemma mapM_map {A B C} (k : A -> B) (g : B -> outcome C) l :
  mapM g (map k l) = mapM (fun x => g (k x)) l.
Proof. induction l as [|x r IH]; cbn [map mapM]; [reflexivity|]. rewrite IH. reflexivity. Qed.

Lemma mapM_sim {A B C} (f : A -> outcome B) (g : A -> outcome C) (h : B -> C) l : forall r,
  (forall x y, In x l -> f x = Ok y -> g x = Ok (h y)) ->
  mapM f l = Ok r -> mapM g l = Ok (map h r).
Proof.
  induction l as [|x l IH]; intros r Hfg H; cbn [mapM] in *.
  - inversion H; reflexivity.
  - apply bind_ok in H as [y [Hy H]]. apply bind_ok in H as [ys [Hys H]]. inversion H; subst r; clear H.
    rewrite (Hfg x y (or_introl eq_refl) Hy). cbn [bind].
    rewrite (IH ys (fun a b Hin => Hfg a b (or_intror Hin)) Hys). reflexivity.
Qed.

Lemma mapM_index_sim {A B C} (f : nat * A -> outcome B) (g : A -> outcome C) (h : B -> C) l :
  forall k r,
  (forall i x y, f (i, x) = Ok y -> g x = Ok (h y)) ->
  mapM f (index_from k l) = Ok r -> mapM g l = Ok (map h r).
Proof.
  induction l as [|x l IH]; intros k r Hfg H; cbn [mapM index_from] in *.
  - inversion H; reflexivity.
  - apply bind_ok in H as [y [Hy H]]. apply bind_ok in H as [ys [Hys H]]. inversion H; subst r; clear H.
    rewrite (Hfg k x y Hy). cbn [bind]. rewrite (IH (S k) ys Hfg Hys). reflexivity.
Qed.

Lemma mapM_app {A B} (f : A -> outcome B) a b ra rb :
  mapM f a = Ok ra -> mapM f b = Ok rb -> mapM f (a ++ b) = Ok (ra ++ rb).
Proof.
  revert ra. induction a as [|x a IH]; intros ra Ha Hb; cbn [mapM app] in *.
  - inversion Ha. exact Hb.
  - apply bind_ok in Ha as [y [Hy Ha]]. apply bind_ok in Ha as [ys [Hys Ha]]. inversion Ha; subst ra.
    rewrite Hy. cbn [bind]. rewrite (IH ys Hys Hb). reflexivity.
Qed.

Lemma mapM_concat {A B} (f : A -> outcome B) gs : forall rs,
  mapM (mapM f) gs = Ok rs -> mapM f (List.concat gs) = Ok (List.concat rs).
Proof.
  induction gs as [|g gs IH]; intros rs H; cbn [mapM List.concat] in *.
  - inversion H; reflexivity.
  - apply bind_ok in H as [y [Hy H]]. apply bind_ok in H as [ys [Hys H]]. inversion H; subst rs.
    cbn [List.concat]. apply mapM_app; [exact Hy|apply IH; exact Hys].
Qed.

Lemma flat_map_concat {A B} (f : A -> list B) l : flat_map f l = List.concat (map f l).
Proof. induction l as [|x r IH]; cbn; [reflexivity|]. rewrite IH. reflexivity. Qed.

Lemma concat_map_map {A B} (f : A -> B) (ls : list (list A)) :
  List.concat (map (map f) ls) = map f (List.concat ls).
Proof. induction ls as [|l r IH]; cbn; [reflexivity|]. rewrite IH, map_app. reflexivity. Qed.

(** ** delegated types *)
Lemma delegated_app a b : delegated (a ++ b) = delegated a ++ delegated b.
Proof. unfold delegated. rewrite filter_app, map_app. reflexivity. Qed.

Lemma delegated_concat ls : delegated (List.concat ls) = List.concat (map delegated ls).
Proof. induction ls as [|l r IH]; cbn [List.concat map]; [reflexivity|]. rewrite delegated_app, IH. reflexivity. Qed.

(** the shape of every handler's collection loop *)
Lemma collected_delegated {X} (ty : X -> toks) (ign : X -> bool) (meth : X -> option toks) l :
  flat_map (fun x => if ign x then [] else match meth x with Some _ => [] | None => [ty x] end) l
  = delegated (map (fun x => view_of (ty x) (ign x) (meth x)) l).
Proof.
  unfold delegated. induction l as [|x r IH]; [reflexivity|]. cbn [flat_map map filter].
  rewrite IH. destruct (ign x); [reflexivity|]. destruct (meth x); reflexivity.
Qed.

(** ** items *)
Lemma built_by_intro d r g tr self ms attrs :
  g = push_preds (d_generics d)
        (bound_preds (rq_mode r) (d_generics d) (rq_trait r) (rq_types r) (rq_supers r)) ->
  self = d_name d ->
  built_by d r {| i_attrs := attrs; i_generics := g; i_trait := tr; i_self := self; i_members := ms |}.
Proof. intros -> ->. split; reflexivity. Qed.

(** what has to be shown for a handler *)
Definition handler_ok (t : trait) (F : features) (traits : list trait) (d : dinput) (m : meta)
           (items : list item) : Prop :=
  exists b tys,
    type_mode t F traits d m = Ok b /\
    delegated_of t F traits d m = Ok tys /\
    Forall (built_by d (req_of t F traits d b tys)) items.

(** ** PartialEq *)
Definition peq_v (x : field * fattr) : bfield :=
  view_of (f_ty (fst x)) (fa_ignore (snd x)) (fa_method (snd x)).

Lemma peq_types_delegated l : peq_types l = delegated (map peq_v l).
Proof.
  unfold peq_types, peq_v.
  rewrite <- (collected_delegated (fun x : field * fattr => f_ty (fst x))
                (fun x => fa_ignore (snd x)) (fun x => fa_method (snd x))).
  apply flat_map_ext. intros [f fa]. reflexivity.
Qed.

Lemma field_attrs_view F traits fs l :
  field_attrs F traits fs = Ok l -> mapM (peq_view F traits) fs = Ok (map peq_v l).
Proof.
  unfold field_attrs. apply mapM_sim. intros f y _ H. unfold peq_view.
  apply bind_ok in H as [fa [Hfa H]]. inversion H; subst y. rewrite Hfa. reflexivity.
Qed.

Lemma peq_variant_group F traits v y :
  peq_variant F traits v = Ok y ->
  (let* l := mapM (peq_view F traits) (fields_list (v_fields v)) in Ok (delegated l)) = Ok (snd y).
Proof.
  unfold peq_variant. intros H. apply bind_ok in H as [_ [_ H]].
  destruct (v_fields v) as [fs|fs|]; cbn [fields_list].
  - apply bind_ok in H as [l [Hl H]]. inversion H; subst y. cbn [snd].
    rewrite (field_attrs_view _ _ _ _ Hl). cbn [bind]. rewrite peq_types_delegated. reflexivity.
  - apply bind_ok in H as [l [Hl H]]. inversion H; subst y. cbn [snd].
    rewrite (field_attrs_view _ _ _ _ Hl). cbn [bind]. rewrite peq_types_delegated. reflexivity.
  - inversion H; subst y. reflexivity.
Qed.

Lemma peq_items_built traits F d g body r :
  g = push_preds (d_generics d)
        (bound_preds (rq_mode r) (d_generics d) (rq_trait r) (rq_types r) (rq_supers r)) ->
  Forall (built_by d r) (peq_items traits F d g body).
Proof.
  intros Hg. unfold peq_items. constructor; [apply built_by_intro; [exact Hg|reflexivity]|].
  destruct (has_trait TEq F && has_trait TEq traits); constructor;
    [apply built_by_intro; [exact Hg|reflexivity]|constructor].
Qed.

Theorem peq_handler F traits d m items :
  expand_partial_eq F traits d m = Ok items -> handler_ok TPartialEq F traits d m items.
Proof.
  unfold expand_partial_eq, handler_ok, type_mode, delegated_of. intros H.
  destruct (d_data d) as [fs|vs|ufs] eqn:Ed; cbn [is_union].
  - apply bind_ok in H as [ta [Hta H]]. apply bind_ok in H as [l [Hl H]]. inversion H; subst items; clear H.
    exists (ta_bound ta), (peq_types l). unfold tattr_mode. rewrite Hta. split; [reflexivity|].
    split.
    + unfold delegated_by. cbn [groups mapM]. rewrite (field_attrs_view _ _ _ _ Hl). cbn [bind List.concat].
      rewrite app_nil_r, peq_types_delegated. reflexivity.
    + apply peq_items_built. reflexivity.
  - apply bind_ok in H as [ta [Hta H]]. apply bind_ok in H as [arms [Harms H]]. inversion H; subst items; clear H.
    exists (ta_bound ta), (flat_map snd arms). unfold tattr_mode. rewrite Hta. split; [reflexivity|].
    split.
    + unfold delegated_by. cbn [groups]. rewrite mapM_map.
      rewrite (mapM_sim _ _ snd vs arms (fun v y _ => peq_variant_group F traits v y) Harms).
      cbn [bind]. rewrite flat_map_concat. reflexivity.
    + apply peq_items_built. reflexivity.
  - apply bind_ok in H as [ta [Hta H]].
    destruct (negb (ta_unsafe ta)); [discriminate H|].
    apply bind_ok in H as [u [_ H]]. inversion H; subst items; clear H.
    exists BAuto, []. split; [reflexivity|]. split; [reflexivity|].
    constructor; [split; reflexivity|].
    destruct (has_trait TEq F && has_trait TEq traits); constructor; [split; reflexivity|constructor].
Qed.

(** ** Hash *)
Lemma hash_types_delegated l : hash_types l = delegated (map peq_v l).
Proof. exact (peq_types_delegated l). Qed.

Lemma hash_field_attrs_view F traits fs l :
  hash_field_attrs F traits fs = Ok l -> mapM (hash_view F traits) fs = Ok (map peq_v l).
Proof.
  unfold hash_field_attrs. apply mapM_sim. intros f y _ H. unfold hash_view.
  apply bind_ok in H as [fa [Hfa H]]. inversion H; subst y. rewrite Hfa. reflexivity.
Qed.

Lemma hash_variant_group F traits i v y :
  hash_variant F traits (i, v) = Ok y ->
  (let* l := mapM (hash_view F traits) (fields_list (v_fields v)) in Ok (delegated l)) = Ok (snd y).
Proof.
  unfold hash_variant. intros H. apply bind_ok in H as [_ [_ H]].
  apply bind_ok in H as [l [Hl H]]. inversion H; subst y. cbn [snd].
  rewrite (hash_field_attrs_view _ _ _ _ Hl). cbn [bind]. rewrite hash_types_delegated. reflexivity.
Qed.

Theorem hash_handler F traits d m items :
  expand_hash F traits d m = Ok items -> handler_ok THash F traits d m items.
Proof.
  unfold expand_hash, handler_ok, type_mode, delegated_of. intros H.
  destruct (d_data d) as [fs|vs|ufs] eqn:Ed; cbn [is_union].
  - apply bind_ok in H as [ta [Hta H]]. apply bind_ok in H as [l [Hl H]]. inversion H; subst items; clear H.
    exists (ta_bound ta), (hash_types l). unfold tattr_mode. rewrite Hta. split; [reflexivity|].
    split.
    + unfold delegated_by. cbn [groups mapM]. rewrite (hash_field_attrs_view _ _ _ _ Hl).
      cbn [bind List.concat]. rewrite app_nil_r, hash_types_delegated. reflexivity.
    + constructor; [|constructor]. apply built_by_intro; reflexivity.
  - apply bind_ok in H as [ta [Hta H]]. apply bind_ok in H as [arms [Harms H]]. inversion H; subst items; clear H.
    exists (ta_bound ta), (flat_map snd arms). unfold tattr_mode. rewrite Hta. split; [reflexivity|].
    split.
    + unfold delegated_by. cbn [groups]. rewrite mapM_map.
      rewrite (mapM_index_sim _ (fun v => let* l := mapM (hash_view F traits) (fields_list (v_fields v)) in
                                          Ok (delegated l)) snd vs 0 arms
                 (hash_variant_group F traits) Harms).
      cbn [bind]. rewrite flat_map_concat. reflexivity.
    + constructor; [|constructor]. apply built_by_intro; reflexivity.
  - apply bind_ok in H as [ta [Hta H]].
    destruct (negb (ta_unsafe ta)); [discriminate H|].
    apply bind_ok in H as [u [_ H]]. inversion H; subst items; clear H.
    exists BAuto, []. split; [reflexivity|]. split; [reflexivity|].
    constructor; [split; reflexivity|constructor].
Qed.

(** ** stand-alone Eq and Copy: every field *)
Lemma marker_fields F own traits fs tys :
  mapM (fun f => let* _ := marker_field_attr F own traits (f_attrs f) in Ok (f_ty f)) fs = Ok tys ->
  tys = map f_ty fs.
Proof.
  revert tys. induction fs as [|f fs IH]; intros tys H; cbn [mapM] in H.
  - inversion H; reflexivity.
  - apply bind_ok in H as [y [Hy H]]. apply bind_ok in H as [ys [Hys H]]. inversion H; subst tys.
    apply bind_ok in Hy as [u [_ Hy]]. inversion Hy; subst y. cbn [map]. f_equal. apply IH. exact Hys.
Qed.

Lemma all_field_types_every F own traits dd tys :
  all_field_types F own traits dd = Ok tys -> tys = every_field_type dd.
Proof.
  unfold all_field_types, every_field_type. destruct dd as [fs|vs|ufs]; cbn [groups List.concat]; intros H.
  - rewrite app_nil_r. eapply marker_fields. exact H.
  - apply bind_ok in H as [l [Hl H]]. inversion H; subst tys; clear H.
    rewrite <- concat_map_map, map_map. f_equal.
    revert l Hl. induction vs as [|v vs IH]; intros l Hl; cbn [mapM] in Hl.
    + inversion Hl; reflexivity.
    + apply bind_ok in Hl as [y [Hy Hl]]. apply bind_ok in Hl as [ys [Hys Hl]]. inversion Hl; subst l.
      apply bind_ok in Hy as [u [_ Hy]]. cbn [map]. f_equal; [|apply IH; exact Hys].
      eapply marker_fields. exact Hy.
  - rewrite app_nil_r. eapply marker_fields. exact H.
Qed.

Theorem eq_handler F traits d m items :
  expand_eq F traits d m = Ok items -> handler_ok TEq F traits d m items.
Proof.
  unfold expand_eq, handler_ok, type_mode, delegated_of, tattr_mode, educed. intros H.
  apply bind_ok in H as [ta [Hta H]]. rewrite Hta. cbn [bind].
  exists (ta_bound ta), (every_field_type (d_data d)). split; [reflexivity|]. split; [reflexivity|].
  destruct (has_trait TPartialEq F && has_trait TPartialEq traits).
  - inversion H; constructor.
  - apply bind_ok in H as [tys [Htys H]]. inversion H; subst items; clear H.
    apply all_field_types_every in Htys. subst tys.
    constructor; [|constructor]. apply built_by_intro; reflexivity.
Qed.

Theorem copy_handler F traits d m items :
  expand_copy F traits d m = Ok items -> handler_ok TCopy F traits d m items.
Proof.
  unfold expand_copy, handler_ok, type_mode, delegated_of, tattr_mode, educed. intros H.
  apply bind_ok in H as [ta [Hta H]]. rewrite Hta. cbn [bind].
  exists (ta_bound ta), (every_field_type (d_data d)). split; [reflexivity|]. split; [reflexivity|].
  destruct (has_trait TClone F && has_trait TClone traits).
  - inversion H; constructor.
  - apply bind_ok in H as [tys [Htys H]]. inversion H; subst items; clear H.
    apply all_field_types_every in Htys. subst tys.
    constructor; [|constructor]. apply built_by_intro; reflexivity.
Qed.

(** ** Deref / DerefMut: no `bound` parameter exists; the items carry the type's own generics *)
Theorem deref_handler F traits d m items :
  expand_deref F traits d m = Ok items ->
  handler_ok TDeref F traits d m items /\ Forall (fun it => i_generics it = d_generics d) items.
Proof.
  unfold expand_deref. intros H. apply bind_ok in H as [p [_ H]]. inversion H; subst items; clear H.
  split.
  - exists BAuto, []. split; [reflexivity|]. split; [reflexivity|].
    destruct p; constructor; try constructor; split; reflexivity.
  - destruct p; constructor; try constructor; reflexivity.
Qed.

Theorem deref_mut_handler F traits d m items :
  expand_deref_mut F traits d m = Ok items ->
  handler_ok TDerefMut F traits d m items /\ Forall (fun it => i_generics it = d_generics d) items.
Proof.
  unfold expand_deref_mut. intros H. apply bind_ok in H as [p [_ H]]. inversion H; subst items; clear H.
  split.
  - exists BAuto, []. split; [reflexivity|]. split; [reflexivity|].
    destruct p; constructor; try constructor; split; reflexivity.
  - destruct p; constructor; try constructor; reflexivity.
Qed.
