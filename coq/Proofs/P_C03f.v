(** C03 — laws on the specification: with lawful field comparisons `cmp` is a
    total order (cmp a a = Equal, antisymmetric, transitive). *)
From Educe.Proofs Require Export P_C03e.

(** the transitivity table of a total order, on comparison results:
    r1 = cmp a b, r2 = cmp b c, r3 = cmp a c *)
Definition comp_trans (r1 r2 r3 : comparison) : Prop :=
  (r1 = Eq -> r3 = r2) /\ (r2 = Eq -> r3 = r1) /\ (r1 = r2 -> r3 = r1).

Lemma Zcompare_trans x y z : comp_trans (Z.compare x y) (Z.compare y z) (Z.compare x z).
Proof.
  unfold comp_trans.
  destruct (Z.compare_spec x y), (Z.compare_spec y z), (Z.compare_spec x z);
    repeat split; intros; try reflexivity; try discriminate; lia.
Qed.

Section Laws.
  Variable I : interp.

  (** lawful field comparisons (the `Ord` contract of the field types and of
      the user's methods) *)
  Definition field_cmp_refl := forall fa x, field_cmp I fa x x = Eq.
  Definition field_cmp_antisym := forall fa x y, field_cmp I fa y x = CompOpp (field_cmp I fa x y).
  Definition field_cmp_trans :=
    forall fa x y z, comp_trans (field_cmp I fa x y) (field_cmp I fa y z) (field_cmp I fa x z).

  Lemma lex_refl o xs : field_cmp_refl -> lex_cmp I o xs xs = Eq.
  Proof.
    intros Hr. induction o as [|[k fa] r IH]; [reflexivity|].
    cbn [lex_cmp]. destruct (lookup k xs) as [x|]; [|exact IH]. rewrite Hr. exact IH.
  Qed.

  Lemma lex_antisym o xs ys : field_cmp_antisym -> lex_cmp I o ys xs = CompOpp (lex_cmp I o xs ys).
  Proof.
    intros Ha. induction o as [|[k fa] r IH]; [reflexivity|].
    cbn [lex_cmp]. destruct (lookup k xs) as [x|], (lookup k ys) as [y|]; try exact IH.
    rewrite (Ha fa x y). destruct (field_cmp I fa x y); cbn [CompOpp]; [exact IH|reflexivity|reflexivity].
  Qed.

  Definition has_keys (o : list request) (xs : list (string * value)) : Prop :=
    forall k fa, In (k, fa) o -> lookup k xs <> None.

  Lemma lex_trans o xs ys zs :
    field_cmp_trans -> has_keys o xs -> has_keys o ys -> has_keys o zs ->
    comp_trans (lex_cmp I o xs ys) (lex_cmp I o ys zs) (lex_cmp I o xs zs).
  Proof.
    intros Ht. induction o as [|[k fa] r IH]; intros Hx Hy Hz.
    - repeat split; reflexivity.
    - assert (IH' : comp_trans (lex_cmp I r xs ys) (lex_cmp I r ys zs) (lex_cmp I r xs zs)).
      { apply IH; intros k' fa' Hin; [apply (Hx k' fa')|apply (Hy k' fa')|apply (Hz k' fa')];
          right; exact Hin. }
      cbn [lex_cmp].
      destruct (lookup k xs) as [x|] eqn:Ex; [|exfalso; apply (Hx k fa (or_introl eq_refl) Ex)].
      destruct (lookup k ys) as [y|] eqn:Ey; [|exfalso; apply (Hy k fa (or_introl eq_refl) Ey)].
      destruct (lookup k zs) as [z|] eqn:Ez; [|exfalso; apply (Hz k fa (or_introl eq_refl) Ez)].
      pose proof (Ht fa x y z) as Hct.
      destruct (field_cmp I fa x y), (field_cmp I fa y z), (field_cmp I fa x z);
        try exact IH'; unfold comp_trans in *;
        destruct Hct as [H1 [H2 H3]]; destruct IH' as [J1 [J2 J3]];
        repeat split; intros; try congruence;
        try (specialize (H1 eq_refl); discriminate H1);
        try (specialize (H2 eq_refl); discriminate H2);
        try (specialize (H3 eq_refl); discriminate H3).
  Qed.

  (** ** whole values *)
  Lemma same_variant_eq va vb : same_variant va vb = true -> va = vb.
  Proof.
    destruct va as [a|], vb as [b|]; cbn; intros H; try discriminate; [|reflexivity].
    apply String.eqb_eq in H. subst. reflexivity.
  Qed.
  Lemma same_variant_refl va : same_variant va va = true.
  Proof. destruct va; cbn; [apply String.eqb_refl|reflexivity]. Qed.
  Lemma same_variant_sym va vb : same_variant va vb = same_variant vb va.
  Proof. destruct va, vb; cbn; try reflexivity. apply String.eqb_sym. Qed.

  Lemma visit_has_keys l xs : map fst l = map fst xs -> has_keys (visit_order l) xs.
  Proof.
    intros Hk k fa Hin. apply visit_order_in in Hin. apply in_fst_lookup. rewrite <- Hk.
    apply (in_map fst) in Hin. exact Hin.
  Qed.

  Theorem cmp_refl c a : field_cmp_refl -> ovalue_ok c a = true -> spec_cmp I c a a = Some Eq.
  Proof.
    intros Hr Ha. destruct a as [| | | | | |va xs| | | | |]; try discriminate Ha.
    cbn [ovalue_ok] in Ha. cbn [spec_cmp].
    destruct (oc_get va c) as [[da la]|]; [|discriminate Ha].
    rewrite same_variant_refl, lex_refl by exact Hr. reflexivity.
  Qed.

  Theorem cmp_antisym c a b :
    field_cmp_antisym -> ovalue_ok c a = true -> ovalue_ok c b = true ->
    exists r, spec_cmp I c a b = Some r /\ spec_cmp I c b a = Some (CompOpp r).
  Proof.
    intros Hs Ha Hb.
    destruct a as [| | | | | |va xs| | | | |]; try discriminate Ha.
    destruct b as [| | | | | |vb ys| | | | |]; try discriminate Hb.
    cbn [ovalue_ok] in Ha, Hb. cbn [spec_cmp].
    destruct (oc_get va c) as [[da la]|] eqn:Ea; [|discriminate Ha].
    destruct (oc_get vb c) as [[db lb]|] eqn:Eb; [|discriminate Hb].
    eexists. split; [reflexivity|]. rewrite (same_variant_sym vb va).
    destruct (same_variant va vb) eqn:E.
    - apply same_variant_eq in E. subst vb. rewrite Ea in Eb. inversion Eb; subst.
      rewrite (lex_antisym _ xs ys Hs). reflexivity.
    - rewrite (Z.compare_antisym da db). reflexivity.
  Qed.

  (** distinct variants have distinct discriminants (rustc: E0081) *)
  Definition discr_inj (c : ocfg) : Prop :=
    forall va vb da la db lb,
      oc_get va c = Some (da, la) -> oc_get vb c = Some (db, lb) -> da = db ->
      same_variant va vb = true.

  Theorem cmp_trans c a b z :
    field_cmp_trans -> discr_inj c ->
    ovalue_ok c a = true -> ovalue_ok c b = true -> ovalue_ok c z = true ->
    exists r1 r2 r3, spec_cmp I c a b = Some r1 /\ spec_cmp I c b z = Some r2 /\
                     spec_cmp I c a z = Some r3 /\ comp_trans r1 r2 r3.
  Proof.
    intros Ht Hinj Ha Hb Hz.
    destruct a as [| | | | | |va xs| | | | |]; try discriminate Ha.
    destruct b as [| | | | | |vb ys| | | | |]; try discriminate Hb.
    destruct z as [| | | | | |vz zs| | | | |]; try discriminate Hz.
    cbn [ovalue_ok] in Ha, Hb, Hz. cbn [spec_cmp].
    destruct (oc_get va c) as [[da la]|] eqn:Ea; [|discriminate Ha].
    destruct (oc_get vb c) as [[db lb]|] eqn:Eb; [|discriminate Hb].
    destruct (oc_get vz c) as [[dz lz]|] eqn:Ez; [|discriminate Hz].
    apply oshape_ok_keys in Ha. apply oshape_ok_keys in Hb. apply oshape_ok_keys in Hz.
    do 3 eexists. split; [reflexivity|]. split; [reflexivity|]. split; [reflexivity|].
    assert (Hne : forall v w d1 l1 d2 l2,
               oc_get v c = Some (d1, l1) -> oc_get w c = Some (d2, l2) ->
               same_variant v w = false -> Z.compare d1 d2 <> Eq).
    { intros v w d1 l1 d2 l2 Hv Hw Hsv Hc. apply Z.compare_eq in Hc.
      rewrite (Hinj v w d1 l1 d2 l2 Hv Hw Hc) in Hsv. discriminate Hsv. }
    destruct (same_variant va vb) eqn:Eab, (same_variant vb vz) eqn:Ebz.
    - apply same_variant_eq in Eab. apply same_variant_eq in Ebz. subst vb vz.
      rewrite same_variant_refl. rewrite Ea in Eb, Ez. inversion Eb; inversion Ez; subst.
      apply lex_trans; [exact Ht| | |]; apply visit_has_keys; assumption.
    - apply same_variant_eq in Eab. subst vb. rewrite Ebz.
      rewrite Ea in Eb. inversion Eb; subst db lb.
      pose proof (Hne _ _ _ _ _ _ Ea Ez Ebz) as Hn.
      unfold comp_trans. repeat split; intros; congruence.
    - apply same_variant_eq in Ebz. subst vz. rewrite Eab.
      rewrite Eb in Ez. inversion Ez; subst dz lz.
      pose proof (Hne _ _ _ _ _ _ Ea Eb Eab) as Hn.
      unfold comp_trans. repeat split; intros; congruence.
    - pose proof (Hne _ _ _ _ _ _ Ea Eb Eab) as Hn1. pose proof (Hne _ _ _ _ _ _ Eb Ez Ebz) as Hn2.
      destruct (same_variant va vz) eqn:Eaz.
      + apply same_variant_eq in Eaz. subst vz. rewrite Ea in Ez. inversion Ez; subst dz lz.
        unfold comp_trans. repeat split; intros H; try congruence.
        rewrite (Z.compare_antisym da db) in H.
        destruct (Z.compare da db); cbn in H; congruence.
      + apply Zcompare_trans.
  Qed.

  (** for an enum request, [discr_inj] is: no two variants declare the same value *)
  Lemma lookup_in {A} k (l : list (string * A)) v : lookup k l = Some v -> In (k, v) l.
  Proof.
    induction l as [|[k' w] r IH]; cbn; intros H; [discriminate H|].
    destruct (String.eqb k k') eqn:E.
    - apply String.eqb_eq in E. inversion H; subst. left. reflexivity.
    - right. apply IH. exact H.
  Qed.

  Lemma discr_inj_zip ds ls : NoDup (map snd ds) -> discr_inj (zip_cfg ds ls).
  Proof.
    intros Hnd va vb da la db lb Ha Hb Hd. subst db.
    destruct (oc_get_zip_some _ _ _ _ Ha) as [na ->]. destruct (oc_get_zip_some _ _ _ _ Hb) as [nb ->].
    destruct (oc_get_zip_lookup _ _ _ _ _ Ha) as [Hla _]. destruct (oc_get_zip_lookup _ _ _ _ _ Hb) as [Hlb _].
    apply lookup_in in Hla. apply lookup_in in Hlb.
    pose proof (nodup_map_inj snd ds (na, da) (nb, da) Hnd Hla Hlb eq_refl) as E.
    inversion E. cbn. apply String.eqb_refl.
  Qed.

  Lemma discr_inj_struct l : discr_inj [(None, (0%Z, l))].
  Proof.
    intros va vb da la db lb Ha Hb _. destruct va, vb; cbn in Ha, Hb; try discriminate. reflexivity.
  Qed.
End Laws.

(** ** operands of the same struct / variant: the fields alone decide *)
Lemma spec_cmp_same I c va xs ys da la :
  oc_get va c = Some (da, la) ->
  spec_cmp I c (VData va xs) (VData va ys) = Some (lex_cmp I (visit_order la) xs ys) /\
  spec_partial_cmp I c (VData va xs) (VData va ys) = Some (lex_partial_cmp I (visit_order la) xs ys).
Proof.
  intros Ha. cbn [spec_cmp spec_partial_cmp]. rewrite Ha, same_variant_refl. split; reflexivity.
Qed.

Section SameVariant.
  Variable I : interp.

  Theorem ord_same_variant F traits d m items c va xs ys da la :
    data_wf (d_data d) ->
    expand_ord F traits d m = Ok items ->
    ord_cfg F (own_ord F traits) traits d = Ok c ->
    omethods_typed false I c ->
    ovalue_ok c (VData va xs) = true -> ovalue_ok c (VData va ys) = true ->
    oc_get va c = Some (da, la) ->
    exists it rest, items = it :: rest /\
      run_cmp I it (VData va xs) (VData va ys) = Some (lex_cmp I (visit_order la) xs ys).
  Proof.
    intros Hwf He Hc Hm Ha Hb Hget.
    destruct (ord_cmp_spec I F traits d m items c _ _ Hwf He Hc Hm Ha Hb) as [it [rest [-> Hrun]]].
    exists it, rest. split; [reflexivity|]. rewrite Hrun. apply (spec_cmp_same I c va xs ys da la Hget).
  Qed.

  Theorem partial_ord_same_variant F traits d m items c va xs ys da la :
    has_trait TOrd F && has_trait TOrd traits = false ->
    data_wf (d_data d) ->
    expand_partial_ord F traits d m = Ok items ->
    ord_cfg F (trait_eqb TPartialOrd) traits d = Ok c ->
    omethods_typed true I c ->
    ovalue_ok c (VData va xs) = true -> ovalue_ok c (VData va ys) = true ->
    oc_get va c = Some (da, la) ->
    exists it rest, items = it :: rest /\
      run_partial_cmp I it (VData va xs) (VData va ys) =
      Some (lex_partial_cmp I (visit_order la) xs ys).
  Proof.
    intros Hno Hwf He Hc Hm Ha Hb Hget.
    destruct (partial_ord_cmp_spec I F traits d m items c _ _ Hno Hwf He Hc Hm Ha Hb)
      as [it [rest [-> Hrun]]].
    exists it, rest. split; [reflexivity|]. rewrite Hrun. apply (spec_cmp_same I c va xs ys da la Hget).
  Qed.

End SameVariant.
